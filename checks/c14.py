"""C14 encodings.  Part 1 (Rlp.tla): TLC checks Decode(Encode(v)) = v and canonicity on every byte string over the
grammar's boundary bytes and on a universe of nested values; the REAL common/rlp codec is evaluated on the very same
strings/values (plus seeded long forms and mutations) and every result is validated by TraceRlp.tla.
Part 2 (CodecShapes.tla): TLC enumerates every (consensus type, shape) pair and checks the wire model of the
value-dependent codec branches; every shape is instantiated on the REAL types, round-tripped and observed, and
TraceCodecShapes.tla demands what the type's stability class requires.
Part 3 (CodecShapesSlots.tla): the typed decoders.  Every hashed or signed type is a descriptor tree over Rlp.tla; TLC enumerates
every (type, instance, field path, primitive encoding class) and every (type, numeric field, boundary value); the driver builds
those strings from REAL honest encodings, offers them to the REAL typed decoders (RLP and JSON) and TraceCodecShapes.tla demands
that exactly the canonical encodings of values of the type are accepted, that what was accepted re-encodes to the offered bytes,
and that a boundary value survives RLP, JSON and a box payload with the same bytes, hash and signers."""
import json, os, time, concurrent.futures
LEVEL = "model_checking"

MANIFEST = dict(
    level="model_checking",
    text="TLC checks the canonical-RLP theorems (decode-encode identity, at most one byte string per value, integer canonicity, "
         "scanner agreement) on all byte strings of length <=4 (thorough <=5) over the 14 boundary bytes and on ~4000 nested values; "
         "the real rlp decoder (interface{}, []byte, string, [1]/[2]byte, uint64/32/8, *big.Int, bool, a struct, Split, CountValues) and encoder are run on exactly "
         "those inputs plus seeded long-form strings and mutations, and TLC validates every real result against the spec (a panic is a "
         "violation). TLC enumerates ~4400 (type, shape) pairs for header, block, transaction (nil gas payer / recipient, box payloads, "
         "JSON form), all 19 registered change-log types built by their real constructors, account data, deputy node, asset, equity, "
         "13 wire messages and the Lemo address text; each is instantiated with seeded values on the real types, encoded, decoded as "
         "the node decodes it, re-encoded, and TLC requires equal value, payload types, hash/merkle roots, recovered signers and - for "
         "hashed or signed types - equal bytes; damaged copies of every encoding are offered to the typed decoders (no panic). "
         "Typed decoders: header, block, transaction, the 19 change logs, deputy node, asset and equity are descriptor trees over the "
         "RLP model (uints by width, big ints, byte strings, fixed arrays, rlp:\"nil\" pointers, elided header roots, optional / nil "
         "payloads, profile pairs, lists, structs); TLC enumerates ~15500 slots = (type, full/empty instance, field path down to list "
         "elements and their fields, one of 35 primitive encoding classes: empty string, single bytes, wrapped single bytes, empty / "
         "one-element lists, leading zero, non-minimal and zero-led lengths, 55/56 bytes, other kind, n-1 / n / n+1 bytes of the field's "
         "size, item missing / repeated / followed by another, elements exchanged / repeated, written-out empty-trie hash); each is "
         "built from a real honest encoding and offered to the real decoder, which must accept exactly when the model does and "
         "re-encode what it accepted to the offered bytes. Every numeric field (transaction, header, deputy node, asset, equity, change-log "
         "version and amounts, account balance / candidate votes / record versions and heights / signer weight, asset-transaction "
         "amounts, heights and counters of 10 wire messages) takes 17 boundary values (0, 1, 127, 128, 255, 256, 2^16-1, 2^16, 2^32-1, "
         "2^32, 2^64-1, 2^64, 10^77-1, 10^77, 2^255, 2^256-1, 2^256) through every encoding the type has - RLP, JSON and, for a "
         "transaction, a box payload: accepted by each exactly when it fits the field, written back as the same bytes / the same "
         "decimal text, and both forms yield the same encoding, hash and recovered signers.",
    note="Typed-decoder canonicity is demanded of the hashed or signed types; account records and wire messages are stored / sent only "
         "and take part in the round trips and the numeric cases. A slot replaces ONE item of an honest encoding. "
         "Projections of values are rendered by the harness (nil and empty byte strings alike; OldVal of a change log is not encoded by design); "
         "every equality is judged in TLA+. Error kinds of the decoder are not distinguished. Inputs shorter than 2^24 bytes. "
         "The registry of change-log types is read off the real code and must equal the spec's catalogue.",
    technique="TLA+ model checking (Rlp.tla/MCRlp, CodecShapes.tla/MCCodecShapes, CodecShapesSlots.tla/MCCodecShapesSlots - typed decoders as "
              "descriptor trees over the RLP model - with negative controls per deviation) + real-code "
              "evaluation on the TLC-enumerated work list + TLC trace validation (TraceRlp, TraceCodecShapes)")

DEV_KEYS = ["Dev_EmptyPayloadDecodedUntyped", "Dev_AddressDecodeKeepsStaleBytes", "Dev_JsonManglesInvalidUtf8"]
SLOT_DEV_KEYS = ["Dev_EmptyValueAnyKind", "Dev_FixedBytesAnyLength", "Dev_ProfilePairsAnyOrder"]
SHARDS = 16


def _validate_parallel(ctx, files, what, slots=6, heap="2500m"):
    """Several TLC trace validators at once, each on its own copy of the trace module (own work dir) with a small heap."""
    src = open(os.path.join(ctx.specdir, "TraceCodecShapes.tla")).read()
    for i in range(slots):
        with open(os.path.join(ctx.specdir, "TraceCodecShapes_%d.tla" % i), "w") as fh:
            fh.write(src.replace("---- MODULE TraceCodecShapes ----", "---- MODULE TraceCodecShapes_%d ----" % i, 1))
    size = {f: os.path.getsize(f) for f in files}
    bins = [[0, []] for _ in range(min(slots, len(files)))]
    for f in sorted(files, key=lambda f: (-size[f], f)):
        b = min(bins, key=lambda b: b[0])
        b[0] += size[f]
        b[1].append(f)
    tlc = ctx.tlc

    def small_heap(module, *a, **kw):
        if module.startswith("TraceCodecShapes_"):
            kw["heap"] = os.environ.get("VERIF_C14_HEAP", heap)
        return tlc(module, *a, **kw)
    ctx.tlc = small_heap

    def one(ib):
        i, b = ib
        time.sleep(0.05 * i)
        return ctx.validate("TraceCodecShapes_%d" % i, "TraceCodecShapes.cfg", sorted(b[1]), what="%s, part %d/%d" % (what, i + 1, len(bins)),
                            timeout=1800, count_behaviours=False)
    try:
        with concurrent.futures.ThreadPoolExecutor(len(bins)) as ex:
            return all(list(ex.map(one, enumerate(bins))))
    finally:
        ctx.tlc = tlc


def _broken(msg):
    raise __import__("vlib").Broken(msg)


def _drive_all(ctx, driver, args, prefix):
    def one(i):
        out = ctx.path("rows", "%s.%d.ndjson" % (prefix, i))
        rr = ctx.drive(driver, args + ["-out", out, "-shard", "%d/%d" % (i, SHARDS), "-seed", ctx.seed])
        return out, json.loads(rr.stdout.strip().splitlines()[-1])
    with concurrent.futures.ThreadPoolExecutor(SHARDS) as ex:
        return list(ex.map(one, range(SHARDS)))


def _short(o, n=160):
    if isinstance(o, dict):
        return {k: _short(v, n) for k, v in o.items()}
    if isinstance(o, str) and len(o) > n:
        return o[:n] + "...(%d chars)" % len(o)
    if isinstance(o, list) and len(o) > 40:
        return o[:40] + ["...(%d items)" % len(o)]
    if isinstance(o, list):
        return [_short(v, n) for v in o]
    return o


def _design3(ctx, dot3, cfg3):
    """Design side of part 3 (runs beside parts 1 and 2): TLC enumerates the slots and numeric cases and checks the typed-decoder
    theorems; then the negative controls: the model with one deviation of the code switched on must break InvSlotCanon."""
    args = ["-dump", "dot,actionlabels", dot3]
    r3 = ctx.tlc("MCCodecShapesSlots", cfg3, timeout=900, args=args, workers=8, heap="4g")

    def neg3(ik):
        i, k = ik
        time.sleep(0.3 * i)
        name = "MCCodecShapesSlots_%s.cfg" % k
        txt = open(ctx.specdir + "/" + cfg3).read().replace("Devs = {}", 'Devs = {"%s"}' % k)
        open(ctx.specdir + "/" + name, "w").write(txt)
        n = ctx.tlc("MCCodecShapesSlots", name, timeout=600, expect_ok=False, workers=2, heap="2g")
        if n["inv"] != "InvSlotCanon":
            _broken("negative control: typed-decoder model with %s on should violate InvSlotCanon, got %s" % (k, n["inv"]))
        return k, n["inv"]
    with concurrent.futures.ThreadPoolExecutor(len(SLOT_DEV_KEYS)) as ex:
        neg = dict(ex.map(neg3, enumerate(SLOT_DEV_KEYS)))
    return r3, neg


def run(ctx):
    ctx.build()
    ok = True
    dot3 = ctx.path("slots.dot")
    cfg3 = "MCCodecShapesSlots_quick.cfg" if ctx.quick() else "MCCodecShapesSlots_thorough.cfg"
    bg = concurrent.futures.ThreadPoolExecutor(1)
    design3 = bg.submit(_design3, ctx, dot3, cfg3)
    # ------------------------------------------------------------------ part 1: the low-level codec
    cfg = "MCRlp_quick.cfg" if ctx.quick() else "MCRlp_thorough.cfg"
    dot = ctx.path("rlp.dot")
    r1 = ctx.tlc_exhaustive("MCRlp", cfg, timeout=900, dump=dot)
    seeded = 12000 if ctx.quick() else 200000
    res = _drive_all(ctx, "rlp", ["-graph", dot, "-seeded", seeded], "rlp")
    counts = {}
    for _, s in res:
        for k, v in s["counts"].items():
            counts[k] = counts.get(k, 0) + v
    ctx.log("real rlp codec evaluated: %s" % json.dumps(counts, sort_keys=True))
    if counts.get("src_tlc", 0) != r1["distinct"]:
        _broken("rlp driver covered %d of %d TLC-enumerated inputs" % (counts.get("src_tlc", 0), r1["distinct"]))
    for k in ("any_str", "any_list", "any_err", "enc", "encint"):
        if not counts.get(k):
            _broken("vacuous rlp run: no %s rows" % k)
    files = [f for f, _ in res]
    batch = 16 if ctx.quick() else 2
    rows1 = 0
    for i in range(0, len(files), batch):
        if not ctx.validate("TraceRlp", "TraceRlp.cfg", files[i:i + batch], what="real rlp results", timeout=900, count_behaviours=False):
            ok = False
            break
    if ok:
        rows1 = counts["dec"] + counts["enc"] + counts["encint"]
    samples = [s["sample"] for _, s in res if s.get("sample")][:1]
    # ------------------------------------------------------------------ part 2: consensus objects by shape
    dot2 = ctx.path("shapes.dot")
    r2 = ctx.tlc_exhaustive("MCCodecShapes", "MCCodecShapes_TRUE.cfg", timeout=600, dump=dot2)
    neg = {}
    for k in DEV_KEYS:   # negative controls: the wire model with the code's behaviour switched on must break RoundTrip
        name = "MCCodecShapes_%s.cfg" % k
        txt = open(ctx.specdir + "/MCCodecShapes_TRUE.cfg").read().replace("Devs = {}", 'Devs = {"%s"}' % k)
        open(ctx.specdir + "/" + name, "w").write(txt)
        n = ctx.tlc("MCCodecShapes", name, timeout=300, expect_ok=False)
        neg[k] = n["inv"]
        if n["inv"] != "InvRoundTrip":
            _broken("negative control: wire model with %s on should violate InvRoundTrip, got %s" % (k, n["inv"]))
    ctx.extra["negative_controls"] = neg
    variants = 3 if ctx.quick() else 30
    muts = 8 if ctx.quick() else 20
    res2 = _drive_all(ctx, "codecshapes", ["-graph", dot2, "-variants", variants, "-mutations", muts], "shapes")
    rows2 = sum(s["rows"] for _, s in res2)
    by_type = {}
    for _, s in res2:
        for k, v in s["byType"].items():
            by_type[k] = by_type.get(k, 0) + v
    ctx.log("real types round-tripped: %d rows %s" % (rows2, json.dumps(by_type, sort_keys=True)))
    if rows2 != r2["distinct"] * variants + 1:
        _broken("codecshapes driver wrote %d rows for %d shapes x %d variants" % (rows2, r2["distinct"], variants))
    files2 = [f for f, _ in res2]
    batch = 8 if ctx.quick() else 2
    acc2 = 0
    if ok:
        for i in range(0, len(files2), batch):
            if not ctx.validate("TraceCodecShapes", "TraceCodecShapes.cfg", files2[i:i + batch], what="shape round trips", timeout=900,
                                count_behaviours=False):
                ok = False
                break
        if ok:
            acc2 = rows2
    samples += [s["sample"] for _, s in res2 if s.get("sample")][:2]
    # ------------------------------------------------------------------ part 3: typed decoders by slot, numeric boundary values
    r3, neg3 = design3.result()
    bg.shutdown()
    neg.update(neg3)
    ctx.cov["states"] += r3["distinct"]
    ctx.cov["transitions"] += r3["generated"]
    ctx.extra.setdefault("tlc_runs", []).append(dict(module="MCCodecShapesSlots", cfg=cfg3, generated=r3["generated"],
                                                     distinct=r3["distinct"], wall_s=round(r3["wall"], 1)))
    ctx.log("TLC MCCodecShapesSlots/%s: %d generated, %d distinct, %.1fs (beside parts 1 and 2); negative controls %s" % (
        cfg3, r3["generated"], r3["distinct"], r3["wall"], json.dumps(neg3)))
    variants3 = 1 if ctx.quick() else 4
    res3 = _drive_all(ctx, "codecslots", ["-graph", dot3, "-variants", variants3], "slots")
    counts3 = {}
    for _, s3 in res3:
        for k, v in s3["counts"].items():
            counts3[k] = counts3.get(k, 0) + v
    rows3 = sum(v for k, v in counts3.items() if k.startswith("slot:") or k.startswith("num:"))
    lines3 = sum(s3["rows"] for _, s3 in res3)
    ctx.log("real typed decoders: %d slot/num rows (%d lines) %s" % (rows3, lines3, json.dumps(counts3, sort_keys=True)))
    work3, other3 = res3[0][1]["work_states"], res3[0][1]["other_states"]
    if work3 + other3 != r3["distinct"] or rows3 != work3 * variants3:
        _broken("codecslots driver wrote %d rows for %d slots (+%d fan-out states, TLC: %d states) x %d variants" % (
            rows3, work3, other3, r3["distinct"], variants3))
    for k in ("slot_accepted", "slot_refused", "num:tx", "slot:log", "slot:block"):
        if not counts3.get(k):
            _broken("vacuous typed-decoder run: no %s rows" % k)
    acc3 = 0   # validated whatever parts 1 and 2 said: the parts judge different inputs
    if _validate_parallel(ctx, [f for f, _ in res3], "typed decoders and boundary values"):
        acc3 = rows3
    else:
        ok = False
    samples += [s3["sample"] for _, s3 in res3 if s3.get("sample")][:1]
    ctx.extra["typed_decoder_rows"] = counts3
    ctx.extra["typed_decoder_variants"] = variants3
    ctx.cov["traces_validated_against_impl"] = (rows1 + acc2 + acc3) if ok else 0
    ctx.cov["exhaustive"] = True
    ctx.cov["samples"] = [_short(s) for s in samples]
    ctx.extra["rlp_rows"] = counts
    ctx.extra["shape_rows_by_type"] = by_type
    ctx.extra["shape_variants"] = variants
    ctx.extra["damaged_encodings_offered_to_typed_decoders"] = rows2 * muts
    ctx.extra["bounds"] = dict(rlp=open(ctx.specdir + "/" + cfg).read(), seeded_strings=seeded,
                               shapes=r2["distinct"], variants_per_shape=variants,
                               slots=work3, slot_cfg=open(ctx.specdir + "/" + cfg3).read(), instances_per_slot=variants3)
    ctx.assumptions += [
        "byte strings over the 14 boundary bytes up to the configured length exhaustively; longer strings (<= ~400 bytes, long-form prefixes, mutations) seeded, not exhaustive",
        "inputs are shorter than 2^24 bytes; decoder error kinds are not distinguished",
        "a shape fixes the value-dependent branch of every custom codec; field contents are seeded (sizes up to 300 bytes)",
        "nil and empty byte strings, and nil and empty/zero containers of AccountData, are the same value; ChangeLog.OldVal is not part of the encoding by design",
        "round trips (part 2) start from values produced by the real constructors (and, for a nil gas payer, from the JSON form); "
        "arbitrary byte strings meet the typed decoders in part 3 only as honest encodings with ONE item replaced by a primitive encoding class "
        "(paths down to the fields of the first element of a list; a change log inside a block is replaced as a whole)",
        "typed-decoder canonicity is demanded of the hashed or signed types (header, block, transaction, change log, deputy node, asset, equity); "
        "account records and wire messages are value-stable only (part 2)",
        "numeric fields take the 17 listed boundary values; tx.Version is left out (the JSON form demands the current version by design); "
        "JSON text is not required to be canonical (leading zeros / 0x forms are accepted on input)",
    ]
