"""C14 encodings.  Part 1 (Rlp.tla): TLC checks Decode(Encode(v)) = v and canonicity on every byte string over the
grammar's boundary bytes and on a universe of nested values; the REAL common/rlp codec is evaluated on the very same
strings/values (plus seeded long forms and mutations) and every result is validated by TraceRlp.tla.
Part 2 (CodecShapes.tla): TLC enumerates every (consensus type, shape) pair and checks the wire model of the
value-dependent codec branches; every shape is instantiated on the REAL types, round-tripped and observed, and
TraceCodecShapes.tla demands what the type's stability class requires."""
import json, concurrent.futures
LEVEL = "model_checking"

MANIFEST = dict(
    level="model_checking",
    text="TLC checks the canonical-RLP theorems (decode-encode identity, at most one byte string per value, integer canonicity, "
         "scanner agreement) on all byte strings of length <=4 (thorough <=5) over the 14 boundary bytes and on ~4000 nested values; "
         "the real rlp decoder (interface{}, []byte, string, [1]/[2]byte, uint64/32/8, *big.Int, bool, a struct, Split, CountValues) and encoder are run on exactly "
         "those inputs plus seeded long-form strings and mutations, and TLC validates every real result against the spec (a panic is a "
         "violation). TLC enumerates ~4400 (type, shape) pairs for header, block, transaction (nil gas payer / recipient, box payloads, "
         "JSON form), all 19 registered change-log types built by their real constructors, account data, deputy node, asset, equity, "
         "13 wire messages and the Lemo address text; each is instantiated with seeded values on the real types, encoded, decoded as "
         "the node decodes it, re-encoded, and TLC requires equal value, payload types, hash/merkle roots, recovered signers and - for "
         "hashed or signed types - equal bytes; damaged copies of every encoding are offered to the typed decoders (no panic).",
    note="Projections of values are rendered by the harness (nil and empty byte strings alike; OldVal of a change log is not encoded by design); "
         "every equality is judged in TLA+. Error kinds of the decoder are not distinguished. Inputs shorter than 2^24 bytes. "
         "The registry of change-log types is read off the real code and must equal the spec's catalogue.",
    technique="TLA+ model checking (Rlp.tla/MCRlp, CodecShapes.tla/MCCodecShapes with negative controls per deviation) + real-code "
              "evaluation on the TLC-enumerated work list + TLC trace validation (TraceRlp, TraceCodecShapes)")

DEV_KEYS = ["Dev_EmptyPayloadDecodedUntyped", "Dev_AddressDecodeKeepsStaleBytes", "Dev_JsonManglesInvalidUtf8"]
SHARDS = 16


def _broken(msg):
    raise __import__("vlib").Broken(msg)


def _drive_all(ctx, driver, args, prefix):
    def one(i):
        out = ctx.path("rows", "%s.%d.ndjson" % (prefix, i))
        rr = ctx.drive(driver, args + ["-out", out, "-shard", "%d/%d" % (i, SHARDS), "-seed", ctx.seed])
        return out, json.loads(rr.stdout.strip().splitlines()[-1])
    with concurrent.futures.ThreadPoolExecutor(SHARDS) as ex:
        return list(ex.map(one, range(SHARDS)))


def _short(o, n=160):
    if isinstance(o, dict):
        return {k: _short(v, n) for k, v in o.items()}
    if isinstance(o, str) and len(o) > n:
        return o[:n] + "...(%d chars)" % len(o)
    if isinstance(o, list) and len(o) > 40:
        return o[:40] + ["...(%d items)" % len(o)]
    if isinstance(o, list):
        return [_short(v, n) for v in o]
    return o


def run(ctx):
    ctx.build()
    ok = True
    # ------------------------------------------------------------------ part 1: the low-level codec
    cfg = "MCRlp_quick.cfg" if ctx.quick() else "MCRlp_thorough.cfg"
    dot = ctx.path("rlp.dot")
    r1 = ctx.tlc_exhaustive("MCRlp", cfg, timeout=900, dump=dot)
    seeded = 12000 if ctx.quick() else 200000
    res = _drive_all(ctx, "rlp", ["-graph", dot, "-seeded", seeded], "rlp")
    counts = {}
    for _, s in res:
        for k, v in s["counts"].items():
            counts[k] = counts.get(k, 0) + v
    ctx.log("real rlp codec evaluated: %s" % json.dumps(counts, sort_keys=True))
    if counts.get("src_tlc", 0) != r1["distinct"]:
        _broken("rlp driver covered %d of %d TLC-enumerated inputs" % (counts.get("src_tlc", 0), r1["distinct"]))
    for k in ("any_str", "any_list", "any_err", "enc", "encint"):
        if not counts.get(k):
            _broken("vacuous rlp run: no %s rows" % k)
    files = [f for f, _ in res]
    batch = 16 if ctx.quick() else 2
    rows1 = 0
    for i in range(0, len(files), batch):
        if not ctx.validate("TraceRlp", "TraceRlp.cfg", files[i:i + batch], what="real rlp results", timeout=900, count_behaviours=False):
            ok = False
            break
    if ok:
        rows1 = counts["dec"] + counts["enc"] + counts["encint"]
    samples = [s["sample"] for _, s in res if s.get("sample")][:1]
    # ------------------------------------------------------------------ part 2: consensus objects by shape
    dot2 = ctx.path("shapes.dot")
    r2 = ctx.tlc_exhaustive("MCCodecShapes", "MCCodecShapes_TRUE.cfg", timeout=600, dump=dot2)
    neg = {}
    for k in DEV_KEYS:   # negative controls: the wire model with the code's behaviour switched on must break RoundTrip
        name = "MCCodecShapes_%s.cfg" % k
        txt = open(ctx.specdir + "/MCCodecShapes_TRUE.cfg").read().replace("Devs = {}", 'Devs = {"%s"}' % k)
        open(ctx.specdir + "/" + name, "w").write(txt)
        n = ctx.tlc("MCCodecShapes", name, timeout=300, expect_ok=False)
        neg[k] = n["inv"]
        if n["inv"] != "InvRoundTrip":
            _broken("negative control: wire model with %s on should violate InvRoundTrip, got %s" % (k, n["inv"]))
    ctx.extra["negative_controls"] = neg
    variants = 3 if ctx.quick() else 30
    muts = 8 if ctx.quick() else 20
    res2 = _drive_all(ctx, "codecshapes", ["-graph", dot2, "-variants", variants, "-mutations", muts], "shapes")
    rows2 = sum(s["rows"] for _, s in res2)
    by_type = {}
    for _, s in res2:
        for k, v in s["byType"].items():
            by_type[k] = by_type.get(k, 0) + v
    ctx.log("real types round-tripped: %d rows %s" % (rows2, json.dumps(by_type, sort_keys=True)))
    if rows2 != r2["distinct"] * variants + 1:
        _broken("codecshapes driver wrote %d rows for %d shapes x %d variants" % (rows2, r2["distinct"], variants))
    files2 = [f for f, _ in res2]
    batch = 8 if ctx.quick() else 2
    acc2 = 0
    if ok:
        for i in range(0, len(files2), batch):
            if not ctx.validate("TraceCodecShapes", "TraceCodecShapes.cfg", files2[i:i + batch], what="shape round trips", timeout=900,
                                count_behaviours=False):
                ok = False
                break
        if ok:
            acc2 = rows2
    samples += [s["sample"] for _, s in res2 if s.get("sample")][:2]
    ctx.cov["traces_validated_against_impl"] = (rows1 + acc2) if ok else 0
    ctx.cov["exhaustive"] = True
    ctx.cov["samples"] = [_short(s) for s in samples]
    ctx.extra["rlp_rows"] = counts
    ctx.extra["shape_rows_by_type"] = by_type
    ctx.extra["shape_variants"] = variants
    ctx.extra["damaged_encodings_offered_to_typed_decoders"] = rows2 * muts
    ctx.extra["bounds"] = dict(rlp=open(ctx.specdir + "/" + cfg).read(), seeded_strings=seeded,
                               shapes=r2["distinct"], variants_per_shape=variants)
    ctx.assumptions += [
        "byte strings over the 14 boundary bytes up to the configured length exhaustively; longer strings (<= ~400 bytes, long-form prefixes, mutations) seeded, not exhaustive",
        "inputs are shorter than 2^24 bytes; decoder error kinds are not distinguished",
        "a shape fixes the value-dependent branch of every custom codec; field contents are seeded (sizes up to 300 bytes)",
        "nil and empty byte strings, and nil and empty/zero containers of AccountData, are the same value; ChangeLog.OldVal is not part of the encoding by design",
        "the property is demanded of values produced by the real constructors (and, for a nil gas payer, of the JSON form), not of arbitrary byte strings offered to the high-level decoders",
    ]
