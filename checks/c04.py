"""C04 replay protection.
Layer 1: TxGuard.tla (implementation-shaped replay cache: 60 s buckets, block cache, tracer, DelOldBlocks, restart reload)
is model-checked for the window arithmetic; every transition of its state graph is replayed on the real txpool.TxGuard
with real signed transactions; after every step the guard's answers ExistTxs(P, Q) for every live block P and a menu of
transaction lists are logged and judged by TraceTxGuard.tla.
Layer 2: see run()."""
import vlib
LEVEL = "model_checking"

MANIFEST = dict(
    level="model_checking",
    text="TLC checks GuardSound/WindowSufficient/TracerComplete/NoDangling/LiveCached on the implementation-shaped replay cache for all "
         "trees of 3 (exhaustive design run: 4, simulation: 5) blocks on a 30 s grid around the 1800 s lifetime / 60 s bucket boundaries, each "
         "block carrying a subset of {t, t2 = re-encoded signature of t, box(t), u}, stable advances (pruning), duplicate saves and restarts; "
         "every transition is replayed on the real TxGuard with real signed transactions and every ExistTxs answer is judged by TLC.",
    note="The restart reload loop of BlockChain.initTxPool is reproduced by the layer-1 adapter (it needs a whole BlockChain).",
    technique="TLA+ model checking (TxGuard.tla) + replay of the TLC state graph on the real guard/engine + TLC trace validation (TraceTxGuard.tla)")


def negative(ctx, cfg, want):
    r = ctx.tlc("MCTxGuard", cfg, timeout=600, expect_ok=False)
    ctx.extra.setdefault("negative_controls", {})[cfg] = r["inv"]
    if r["inv"] not in want:
        raise vlib.Broken("negative control %s: expected violation of %s, got %s\n%s" % (cfg, want, r["inv"], r["out"][-1500:]))


def run(ctx):
    ctx.build()
    # ---------------- layer 1: the guard alone
    dot = ctx.path("txguard.dot")
    cfg = "MCTxGuard_quick.cfg" if ctx.quick() else "MCTxGuard_full3.cfg"
    ctx.tlc_exhaustive("MCTxGuard", cfg, timeout=900, dump=dot)
    negative(ctx, "MCTxGuard_neg.cfg", ("GuardSound",))
    files, summ = ctx.replay("txguard", graph=dot, shards=16, maxlen=30, timeout=1200)
    ok = ctx.validate("TraceTxGuard", "TraceTxGuard.cfg", files, what="layer 1: state-graph replay on the real TxGuard", timeout=1800)
    ctx.cov["samples"] = summ["samples"]
    ctx.cov["exhaustive"] = True
    ctx.extra["l1_transitions_in_graph"] = summ["graph_edges"]
    ctx.extra["l1_distinct_transitions_replayed"] = summ["graph_edges"] if ok else 0
    ctx.assumptions += ["block timestamps on a 30 s grid (offsets 1830..3750 s from an epoch that is a multiple of 60); a child's timestamp is >= its parent's",
                        "saved blocks carry only transactions inside their window (what verifyTxs admits); queries are asked about the stable block and its descendants"]
