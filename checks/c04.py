"""C04 replay protection.
Layer 1: TxGuard.tla (implementation-shaped replay cache: 60 s buckets, block cache, tracer, DelOldBlocks, restart reload)
is model-checked for the window arithmetic; every transition of its state graph is replayed on the real txpool.TxGuard
with real signed transactions; after every step the guard's answers ExistTxs(P, Q) for every live block P and a menu of
transaction lists are logged and judged by TraceTxGuard.tla.
Layer 2: TxGuardChain.tla generates placements (same tx in two blocks of a branch, on two forks, twice in one block, in a
box and standalone, twice in one box, re-encoded signature, expired / too early, before and after stable advances and
restarts); the replayprot adapter builds them as REAL blocks with the real assembler and offers them to a real
chain.BlockChain; verdicts and per-branch effects (recipient balances) are judged by TraceTxGuardChain.tla.  A recording
driver lets the engine's own MineBlock mine with a pool filled by the engine's fork bookkeeping and by arrivals (wire / RPC).
Carriers (both layers): a transaction has a signed content and a carrier (RLP; the JSON payload of a box for a sub-transaction).
The specs carry a carrier encoding per block / per question (constant Encs); harness/adapters/txguard/carrier.go writes real box
payloads that way (redundant "hash" member forged, naming another real transaction, or missing; junk gasUsed; unknown members,
member order, white space, hex case), another box around the same sub-transaction, the same sub-transaction twice in a box, in
two boxes of a block, in a box and alone; blocks are offered with exactly those payloads.  Demanded answers / verdicts / effects
are functions of the signed content only (negative controls CarrierKeyed / CarrierIdentity).
Own carrier (layer 2): harness/adapters/txguard/own.go writes real signed stand-alone transactions again in other forms of their own RLP /
JSON (optional / defaulted / derivable members dropped, defaulted or written redundantly; constant OwnEncs) - alone, beside the original,
inside a box, arriving by wire / RPC; such a variant is refused or is the original to the replay guard (how = "car" is admitted by no deviation)."""
import vlib
LEVEL = "model_checking"

MANIFEST = dict(
    level="model_checking",
    text="TLC checks GuardSound/WindowSufficient/TracerComplete/NoDangling/LiveCached on the implementation-shaped replay cache for all "
         "trees of 3 (design run: 4, simulation: 5) blocks on a 30 s grid around the 1800 s lifetime / 60 s bucket boundaries, each block carrying a subset of "
         "{t, t2 = re-encoded signature of t, box(t), another box around t, u}, with stable advances (pruning), duplicate saves and restarts; every transition is replayed on the real "
         "TxGuard with real signed transactions and every ExistTxs answer is judged by TLC; a second graph saves and asks in every carrier encoding of the box payloads "
         "(forged / cross-named / missing hash member, junk gasUsed, unknown members, order, white space) - the demanded answer is a function of the signed content only. TLC-generated placements (two blocks of one branch, two forks, twice in one "
         "block, box + standalone, twice in one box, other signature encoding, expired / too early; before/after stable advances and restarts) are built as real blocks by "
         "the real assembler, offered to a real chain.BlockChain, and TLC validates: accepted iff every payload takes effect at most once on the branch and inside its "
         "window, and recipient balances grow by exactly the packaged occurrences - also for blocks whose box payloads are written in every carrier encoding (one t in two "
         "differently written boxes, in another box, twice in one box, in two boxes of one block, in a box and alone; one branch and two forks) and for "
         "stand-alone transactions written again in other forms of their own RLP / JSON carrier (gasPayer absent vs = from in both directions, JSON null, "
         "default-valued members dropped, `to` toggled, version defaulted; alone, beside the original, inside a box): refused, or the original's identity; the engine's own MineBlock "
         "is driven with a pool refilled from side-fork blocks and by arrivals through the admission lines of SendTx / handleTxsMsg (wire RLP and RPC JSON, every carrier encoding and every own-carrier form).",
    note="Layer 1 reproduces the 10-line reload loop of BlockChain.initTxPool in the adapter (it needs a whole BlockChain); layer 2 restarts through the real "
         "chain.NewBlockChain. Three genuine defects were found: duplicates inside one block and the miner re-packaging a side-fork transaction are repaired in /repo "
         "(fix: commits, known_findings.txt); signature malleability (another encoding = another tx hash) is carried as named deviation Dev_TxMalleableEncoding. "
         "Two more defects of the same family (the transaction hash covers fields the sender did not sign) were found by the carrier work: a reimbursement transaction "
         "priced and signed again by its gas payer (Dev_RepricedReimbursement) and a signature appended by somebody else to a transaction of a non-multisig sender "
         "(Dev_TxExtraSignature); their placements (MCTxGuardChain_reprice.cfg / _extrasig.cfg) always run. "
         "The pool admission paths are driven as their three lines (VerifyTxBody, TxGuard.ExistTx on the head, TxPool.AddTx) reproduced in the mining driver, not through "
         "PublicTxAPI / ProtocolManager themselves. A block with manipulated box payloads is the mined block with the payloads put back (its header stays valid because the "
         "identity of a box does not depend on how its payload is written).",
    technique="TLA+ model checking (TxGuard.tla, TxGuardChain.tla) + replay of TLC state graphs / simulated behaviours on the real guard and the real engine + "
              "TLC trace validation (TraceTxGuard.tla, TraceTxGuardChain.tla) + one recording driver (DPoVP.MineBlock)")


# Genuine defects found by the carrier work (the identity of a transaction covers fields its sender did not sign): a reimbursement transaction
# priced and signed again by its gas payer (r2), and a transaction with a signature appended by somebody else (t3), have another hash than r / t,
# so the sender's one signed payload is executed twice.  The placements with r / r2 and with t3 are generated and judged when the deviation is
# listed as known (KNOWN-FINDING) or after the fix (set to True: then r2 / t3 must be refused).
REPRICED_FIXED = False
EXTRASIG_FIXED = False


def negative(ctx, cfg, want, module="MCTxGuard"):
    r = ctx.tlc(module, cfg, timeout=600, expect_ok=False)
    ctx.extra.setdefault("negative_controls", {})[cfg] = r["inv"]
    if r["inv"] not in want:
        raise vlib.Broken("negative control %s: expected violation of %s, got %s\n%s" % (cfg, want, r["inv"], r["out"][-1500:]))


def run(ctx):
    import os
    os.environ.setdefault("VERIF_TLC_HEAP", "3g")     # the largest graph here has < 10^6 states; a small heap survives a crowded machine
    ctx.build()
    # ---------------- layer 1: the guard alone
    dot = ctx.path("txguard.dot")
    cfg = "MCTxGuard_quick.cfg" if ctx.quick() else "MCTxGuard_mid3.cfg"        # the graph that is replayed edge by edge
    r = ctx.tlc_exhaustive("MCTxGuard", cfg, timeout=900, dump=dot)
    if not ctx.quick():
        r = ctx.tlc_exhaustive("MCTxGuard", "MCTxGuard_full3.cfg", timeout=1500, coverage=True)   # both root times, design side only
        if r.get("zero_cov"):
            raise vlib.Broken("vacuity: actions never taken in MCTxGuard_full3.cfg: %s" % r["zero_cov"])
    negative(ctx, "MCTxGuard_neg.cfg", ("GuardSound",))                      # identity = hash over the signature bytes (the code)
    negative(ctx, "MCTxGuard_negcar.cfg", ("GuardSound",))                   # identity of a sub-transaction = what the box payload says
    if not ctx.quick():
        negative(ctx, "MCTxGuard_negprune.cfg", ("GuardSound", "WindowSufficient", "TracerComplete"))   # prune 60 s too early
        negative(ctx, "MCTxGuard_negreload.cfg", ("GuardSound", "WindowSufficient", "TracerComplete"))  # reload '<' instead of '<='
        negative(ctx, "MCTxGuard_reach.cfg", ("NeverPruned",))                                         # vacuity guard: pruning of live-chain blocks is reached
        ctx.tlc_exhaustive("MCTxGuard", "MCTxGuard_thorough.cfg", timeout=1500)                         # 4 blocks, design side only
    files, summ = ctx.replay("txguard", graph=dot, shards=16, maxlen=30, timeout=1800)
    ok = ctx.validate("TraceTxGuard", "TraceTxGuard.cfg", files, what="layer 1: state-graph replay on the real TxGuard", timeout=2400)
    ctx.cov["samples"] = summ["samples"]
    ctx.cov["exhaustive"] = True
    # carriers: the same signed content in boxes whose JSON payloads are written differently / in another box, saved and asked about
    # in every carrier encoding (the guard must be keyed by signed content)
    dotc = ctx.path("txguard_carrier.dot")
    ctx.tlc_exhaustive("MCTxGuard", "MCTxGuard_carrierq.cfg" if ctx.quick() else "MCTxGuard_carrier.cfg", timeout=900, dump=dotc)
    filesc, summc = ctx.replay("txguard", graph=dotc, shards=16, maxlen=30, name="txguard_carrier", timeout=1800)
    okc = ctx.validate("TraceTxGuard", "TraceTxGuard.cfg", filesc, what="layer 1: carrier encodings on the real TxGuard", timeout=2400)
    ctx.cov["samples"] += summc["samples"][:2]
    ctx.extra["l1_carrier_transitions_replayed"] = summc["graph_edges"] if okc else 0
    ctx.extra["l1_transitions_in_graph"] = summ["graph_edges"]
    ctx.extra["l1_distinct_transitions_replayed"] = summ["graph_edges"] if ok else 0
    sim1 = ctx.tlc_simulate("MCTxGuard", "MCTxGuard_sim5.cfg", num=200 if ctx.quick() else 4000, depth=12, prefix="l1sim")
    files1, _ = ctx.replay("txguard", sim=sim1, shards=16, name="txguard_sim", timeout=1800)
    ctx.validate("TraceTxGuard", "TraceTxGuard.cfg", files1, what="layer 1: simulated 5-block histories", timeout=1800)
    ctx.assumptions += ["block timestamps on a 30 s grid (offsets 1830..3750 s from an epoch that is a multiple of 60); a child's timestamp is >= its parent's",
                        "saved blocks carry only transactions inside their window (what verifyTxs admits); queries are asked about the stable block and its descendants"]

    # ---------------- layer 2: through the engine (real blocks from the real assembler offered to a real chain.BlockChain)
    # Every behaviour needs a fresh real node; the store leaks ~4 MB per opened database, so a replay process runs at most
    # 300 behaviours (chunk).
    negative(ctx, "MCTxGuardChain_negdup.cfg", ("AtMostOnce",), module="MCTxGuardChain")
    negative(ctx, "MCTxGuardChain_negenc.cfg", ("AtMostOnce",), module="MCTxGuardChain")
    negative(ctx, "MCTxGuardChain_negcar.cfg", ("AtMostOnce",), module="MCTxGuardChain")

    def l2(cfg, name, what, limit):
        d = ctx.path(name + ".dot")
        ctx.tlc_exhaustive("MCTxGuardChain", cfg, timeout=900, dump=d)
        fs, sm = ctx.replay("replayprot", graph=d, shards=12, maxlen=30, limit=limit, name=name, timeout=2400, chunk=300)
        acc = ctx.validate("TraceTxGuardChain", "TraceTxGuardChain.cfg", fs, what="layer 2: " + what, timeout=1800)
        ctx.extra.setdefault("l2_graphs", []).append(dict(cfg=cfg, edges=sm["graph_edges"], behaviours_replayed=sm["behaviours"],
                                                          behaviours_total=sm["behaviours_total"], steps_on_real_code=sm["steps"], accepted=acc))
        return sm
    # placements: 2 offered blocks, every parent / time / transaction list of the menu
    sm = l2("MCTxGuardChain_quick.cfg", "l2_placements", "placements offered to the real engine", 600 if ctx.quick() else 0)
    ctx.cov["samples"] += sm["samples"][:2]
    # carriers: 2 offered blocks, lists with boxes (one t in b, in another box w, twice in bb, in two boxes of one block, beside u) and
    # alone, every carrier encoding of the box payloads (forged / cross-named / missing "hash" member, junk gasUsed, unknown members,
    # member order, white space) in both blocks, same branch and two forks; thorough: more lists, stable advances and a restart
    sm = l2("MCTxGuardChain_carrierq.cfg" if ctx.quick() else "MCTxGuardChain_carrier.cfg", "l2_carriers",
            "carrier encodings of box payloads offered to the real engine", 0)
    ctx.cov["samples"] += sm["samples"][:2]
    # the transaction's OWN carrier: t / n (a transfer signed without the optional gasPayer member) and the same transactions written again
    # by somebody else with an optional / defaulted / derivable member of their RLP / JSON dropped, defaulted or written redundantly
    # (gasPayer toggled, JSON null, defaults dropped, `to` toggled, version defaulted), alone, beside the original and inside a box, in two
    # blocks of a branch / on two forks: a variant is refused or it is the original to the replay guard
    negative(ctx, "MCTxGuardChain_negown.cfg", ("AtMostOnce",), module="MCTxGuardChain")
    sm = l2("MCTxGuardChain_ownq.cfg" if ctx.quick() else "MCTxGuardChain_own.cfg", "l2_own",
            "own-carrier variants of stand-alone transactions offered to the real engine", 350 if ctx.quick() else 2500)
    ctx.cov["samples"] += sm["samples"][:1]
    # a reimbursement transaction priced twice by its gas payer, a signature appended by somebody else: always run (an unlisted
    # deviation is a violation)
    negative(ctx, "MCTxGuardChain_negpay.cfg", ("AtMostOnce",), module="MCTxGuardChain")
    l2("MCTxGuardChain_reprice.cfg", "l2_repriced", "a reimbursement transaction priced twice by its gas payer", 300 if ctx.quick() else 0)
    l2("MCTxGuardChain_extrasig.cfg", "l2_extrasig", "a transaction with a signature appended by somebody else", 300 if ctx.quick() else 0)
    # window / pruning / restart-reload boundaries: 3 offered blocks, lists {<<>>, <<t>>}, times {30, 1830}
    l2("MCTxGuardChain_windowq.cfg", "l2_window", "window/pruning/restart boundaries", 0)
    if not ctx.quick():
        l2("MCTxGuardChain_thorough.cfg", "l2_placements_full", "full menu and time grid", 0)
        l2("MCTxGuardChain_window.cfg", "l2_window_full", "3 blocks, boxes, 4 times (seeded sample of behaviours)", 8000)
    # the engine's own miner with a pool filled by the engine's fork bookkeeping (recording driver)
    mine = ctx.path("traces", "mine.ndjson")
    ctx.drive("replayprot-mine", ["-out", mine], env={"VERIF_SCRATCH_DIR": ctx.path("work", "mine", ".keep")[:-6]})
    ctx.validate("TraceTxGuardChain", "TraceTxGuardChain.cfg", [mine], what="layer 2: DPoVP.MineBlock after side-fork blocks and arrivals (wire / RPC)", timeout=600)
    # longer histories (4 offered blocks, full menu / time grid) by simulation
    sim = ctx.tlc_simulate("MCTxGuardChain", "MCTxGuardChain_sim.cfg", num=160 if ctx.quick() else 2000, depth=9, prefix="l2sim")
    files3, _ = ctx.replay("replayprot", sim=sim, shards=12, name="replayprot_sim", timeout=2400, chunk=300)
    ctx.validate("TraceTxGuardChain", "TraceTxGuardChain.cfg", files3, what="layer 2: simulated 4-block histories", timeout=1800)
    ctx.extra["carrier_encodings"] = {"c": "canonical (types.MarshalBoxData)", "h": "hash member of every sub-transaction forged, another value per occurrence",
                                      "k": "hash member names another real transaction (t <-> u)", "g": "no hash member, junk gasUsed (RLP gasUsed junk for candidates)",
                                      "x": "member order reversed, white space, unknown members, upper-case hex in signatures"}
    ctx.extra["own_carrier_forms"] = {"p": "gasPayer member toggled: written (= from) <-> absent (RLP empty string / JSON member dropped)", "q": "as p, JSON writes null",
                                      "o": "every optional JSON member holding its default dropped (RLP unchanged: the same transaction)",
                                      "r": "`to` member toggled: written <-> absent (zero address where it was absent)", "v": "version member defaulted (0)"}
    ctx.assumptions += ["layer 2: 2 deputies, 30 s slots, block timestamps genesis + {30, 60, 1830, 1860, 1890} s; t/boxes expire at genesis+1830, u at genesis+1860",
                        "effects are observed as recipient balance / amount in the state of each block (builder and node under test)",
                        "miner driver: the chain is laid out relative to a clock read once (genesis = now - 600 s, 100000 s slots, expirations genesis + 1500 s); verdicts hold for any run shorter than 15 minutes"]
