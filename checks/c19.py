"""C19 engine thread safety.  Sequential meaning of the locked engine calls = Consensus.tla / the monitor of C03;
SignCache.tla models the one piece of engine state used outside chainLock.  Binding: (a) several goroutines hit one
real deputy node concurrently; the verif hook records every engine call under chainLock and TraceEngineConc.tla
requires the lock-ordered state sequence to satisfy the sequential monitor step by step, and every confirm the
node emitted to be valid; (b) TLC's SignCache schedules are forced on the real SignBlock through a gate hook;
(c) thorough: the same drivers run under the Go race detector."""
import json, vlib
LEVEL = "model_checking"

MANIFEST = dict(
    level="model_checking",
    text="TLC checks SignCache.tla (two goroutines, every interleaving of the cache steps: EmittedValid holds with the mutex, is violated without it - negative control) "
         "and the sequential engine model; concurrent runs of a REAL deputy node (2 block inserters, 2 confirm inserters, a miner thread, a reader thread, the engine's own "
         "background goroutines) are recorded under chainLock and validated by TLC as a sequential history of the C03/C02 monitor; every emitted confirm is checked to be the "
         "node's own signature over a block it holds; 98 gated two-goroutine schedules are forced on the real SignBlock and 32 free-running goroutines sign 96000 hashes (every result checked); rounds with 5 deputies release the two encodings of ONE deputy's signature as two confirm packets at the same instant (the deputy must count once); rounds in which a whole fork becomes stable at once while peers' confirms for its blocks arrive and the background goroutine writes the node's own (rendezvous through the SignBlock and store write gates); ConfirmStore.tla (SetConfirms as load/append/store, atomic vs. not - negative control) with rounds of concurrent SetConfirms/GetConfirms on the real store; TermLock.tla (Go's writer-preferring RWMutex: a nested read lock deadlocks against a waiting writer - negative control) with 8 goroutines querying the real deputy manager while term 1 is overwritten thousands of times (every answer from one saved version, watchdog for hangs); a reader outside chainLock spins on CurrentBlock() while the engine works (every head it sees is the head after one of the calls around the read), incl. rounds in which a confirm packet cuts the head's fork; the confirms the background goroutine stores are published exactly once; gated rounds make a mining request queue on chainLock behind an "
         "InsertBlock that moves the head; FileQueue.tla (store read path vs. background writer and done-notice handler: ReadLatest) is model-checked and every transition of its state graph is "
         "realised on the real store by holding the writer at barrier records; thorough adds Go race-detector builds of the same runs.",
    note="Linearizability is judged on the lock-ordered sequence of engine calls (hook under chainLock, sequence number under the same lock). 'No unsynchronised access' is decided "
         "by the race detector on the recorded runs only (thorough tier) - a TLA+ spec cannot express Go memory accesses. Which interleavings the OS schedules is not controlled, except SignBlock's.",
    technique="TLA+ model checking (SignCache.tla, Consensus.tla) + TLC trace validation of hook-linearised concurrent runs of the real engine (TraceEngineConc.tla, TraceSignCache.tla) + gated schedule replay")


def run(ctx):
    ctx.build()
    r = ctx.tlc_exhaustive("SignCache", "SignCache_TRUE.cfg", timeout=300, workers=4)
    neg = ctx.tlc("SignCache", "SignCache_FALSE.cfg", timeout=300, workers=4, expect_ok=False)
    if neg["inv"] != "EmittedValid":
        raise vlib.Broken("negative control: unlocked SignCache should violate EmittedValid, got %s" % neg["inv"])
    ctx.extra["negative_control_unlocked_signcache_violates"] = neg["inv"]
    ctx.tlc_exhaustive("MCConsensus", "MCConsensus_n3d3s2.cfg", timeout=900)
    # the store's read path under its two background goroutines: FileQueue.tla schedules forced on the real store
    fdot = ctx.path("filequeue.dot")
    ctx.tlc_exhaustive("FileQueue", "FileQueue_FALSE.cfg", timeout=300, workers=4, dump=fdot)
    negq = ctx.tlc("FileQueue", "FileQueue_TRUE.cfg", timeout=300, workers=4, expect_ok=False)
    if negq["inv"] != "ReadLatest":
        raise vlib.Broken("negative control: FileQueue with EarlyDrop should violate ReadLatest, got %s" % negq["inv"])
    qfiles, qsumm = ctx.replay("filequeue", graph=fdot, shards=16, maxlen=12, timeout=1800)
    ctx.validate("TraceFileQueue", "TraceFileQueue.cfg", qfiles, what="writer/notice-handler schedules on the real store", timeout=900)
    ctx.extra["filequeue"] = dict(graph_edges=qsumm["graph_edges"], behaviours=qsumm["behaviours"], steps=qsumm["steps"])
    # gated schedules on the real SignBlock
    sg = ctx.path("traces", "signgate.ndjson")
    rr = ctx.drive("signblock-gate", ["-out", sg])
    info = json.loads(rr.stdout.strip().splitlines()[-1])
    ctx.validate("TraceSignCache", "TraceSignCache.cfg", [sg], what="%d gated SignBlock schedules" % info["schedules"])
    # the store's confirm accessors, called by the chain thread and (outside chainLock) by the goroutine that signs stable blocks
    ctx.tlc_exhaustive("ConfirmStore", "ConfirmStore_TRUE.cfg", timeout=300, workers=4)
    negc = ctx.tlc("ConfirmStore", "ConfirmStore_FALSE.cfg", timeout=300, workers=4, expect_ok=False)
    if negc["inv"] != "CompletedKept":
        raise vlib.Broken("negative control: non-atomic SetConfirms should violate CompletedKept, got %s" % negc["inv"])
    cs = ctx.path("traces", "confirmstore.ndjson")
    rr = ctx.drive("confirm-store", ["-out", cs, "-rounds", 30 if ctx.quick() else 45], env={"VERIF_SCRATCH_DIR": ctx.path("work", "confirmstore", ".k")[:-3]})
    info = json.loads(rr.stdout.strip().splitlines()[-1])
    ctx.validate("TraceConfirmStore", "TraceConfirmStore.cfg", [cs], what="%d rounds of 4 concurrent SetConfirms + 2 GetConfirms on the real store" % info["lines"], count_behaviours=False)
    ctx.extra["confirm_store_rounds"] = info["lines"]
    # the deputy manager's lock: readers everywhere, the chain thread writes a term snapshot under chainLock
    ctx.tlc_exhaustive("TermLock", "TermLock_FALSE.cfg", timeout=300, workers=4)
    negt = ctx.tlc("TermLock", "TermLock_TRUE.cfg", timeout=300, workers=4, expect_ok=False)
    if negt["inv"] != "NoHang":
        raise vlib.Broken("negative control: a nested read lock should violate NoHang, got %s" % negt["inv"])
    tl = ctx.path("traces", "termlock.ndjson")
    rr = ctx.drive("term-lock", ["-out", tl, "-saves", 3000 if ctx.quick() else 20000], timeout=600)
    info = json.loads(rr.stdout.strip().splitlines()[-1])
    ctx.validate("TraceTermLock", "TraceTermLock.cfg", [tl], what="%d concurrent deputy-manager queries against 3000+ term overwrites" % info["calls"], count_behaviours=False)
    ctx.extra["term_lock_calls"] = info["calls"]
    # concurrent real engine
    rounds = 12 if ctx.quick() else 120
    tr = ctx.path("traces", "engineconc.ndjson")
    rr = ctx.drive("engine-conc", ["-out", tr, "-rounds", rounds, "-seed", ctx.seed], env={"VERIF_SCRATCH_DIR": ctx.path("work", "engineconc", ".k")[:-3]}, timeout=1800)
    info = json.loads(rr.stdout.strip().splitlines()[-1])
    ctx.extra["engine_conc"] = info
    ctx.validate("TraceEngineConc", "TraceEngineConc.cfg", [tr], what="%d concurrent rounds, %d engine events, %d emitted confirms" % (rounds, info["engine_events"], info["emitted_confirms"]), timeout=1800)
    ctx.cov["samples"] = [json.loads(x) for x in open(tr).readlines()[1:4]] + [json.loads(x) for x in open(sg).readlines()[0:3]]
    if not ctx.quick():
        vr = ctx.build(race=True)
        for name, args in (("engine-conc", ["-out", ctx.path("traces", "engineconc-race.ndjson"), "-rounds", 40, "-seed", ctx.seed + 7]),
                           ("signblock-gate", ["-out", ctx.path("traces", "signgate-race.ndjson")]),
                           ("txpool-conc", ["-out", ctx.path("traces", "pool-race.ndjson"), "-rounds", 50, "-seed", ctx.seed + 7])):
            rr = ctx.drive(name, args, vh=vr, check=False, env={"VERIF_SCRATCH_DIR": ctx.path("work", name + "-race", ".k")[:-3]}, timeout=1800)
            if "DATA RACE" in rr.stdout:
                i = rr.stdout.find("WARNING: DATA RACE")
                ctx.violation("Go race detector: unsynchronised memory access in the real engine under driver %s" % name,
                              dict(driver=name, args=[str(a) for a in args], report=rr.stdout[i:i + 6000]))
            elif rr.returncode != 0:
                raise vlib.Broken("race driver %s failed rc=%d: %s" % (name, rr.returncode, rr.stdout[-2000:]))
        ctx.extra["race_detector_runs"] = 3
        ctx.validate("TraceEngineConc", "TraceEngineConc.cfg", [ctx.path("traces", "engineconc-race.ndjson")], what="race-build concurrent rounds", timeout=1800)
    ctx.assumptions += ["the order of engine calls is the order of the hook's sequence numbers, taken under chainLock",
                        "3 deputies, node under test is deputy 2, random trees of 8 blocks plus blocks the node mines itself (wall-clock slots: whether a mining request succeeds is not constrained)"]
