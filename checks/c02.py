"""C02 block acceptance.  BlockAccept.tla enumerates every single corruption of a valid candidate block
(27 header/body corruption classes x 4 re-signing choices, 24 classes of extra transactions) in 3 chain situations and every set of already-added valid
variants; each is instantiated as a real block and offered to the real DPoVP.InsertBlock; TraceBlockAccept.tla
requires: added iff valid, refusal leaves the node's observable state untouched."""
LEVEL = "model_checking"

MANIFEST = dict(
    level="model_checking",
    text="TLC enumerates the full state graph of BlockAccept.tla (family hdr: 3 chain situations x 16 sets of already-added valid variants x 108 offered "
         "header/body corruption x re-sign cases; family tx: the candidate re-executed by the real assembler with more transactions of 24 classes - valid edge cases (expiring exactly at the block time / at "
         "block time + max lifetime, boxes), ill-formed ones (expired, too far in the future, foreign chain id, bad toName/message, box sub-transactions expired / too far / foreign chain / nested box) and replays "
         "(of an ancestor's transaction, alone or inside a box; of the block's own transaction inside a box; a box and one of its sub-transactions in either order, two boxes sharing a sub-transaction, a box listing one twice) - x sets of already-added variants; 82k transitions, invariant OnlyValid, action property RefusalIsNoop); every transition is replayed as a real "
         "block (RLP round trip) on a real node and TLC validates each logged outcome: accepted iff the spec says the block violates no condition of the "
         "property, and a refused block leaves stable/head/unconfirmed tree/confirm counts/balances at head/pool/replay-guard answers digest-identical.",
    note="Single corruptions only (plus re-signing); combinations that again form a valid block (other deputy's address + its slot + its key) are not offered. "
         "Corruptions of fields the property does not mention (DeputyRoot / DeputyNodes on non-snapshot blocks) are not offered. time_future uses now+2h read during the run.",
    technique="TLA+ model checking (BlockAccept.tla) + full state-graph replay on the real engine + TLC trace validation (TraceBlockAccept.tla)")


def run(ctx):
    ctx.build()
    dot = ctx.path("blockaccept.dot")
    ctx.tlc_exhaustive("BlockAccept", "BlockAccept.cfg", timeout=600, dump=dot, workers=4)
    files, summ = ctx.replay("blockaccept", graph=dot, shards=8 if ctx.quick() else 16, maxlen=60, timeout=1800)
    ok = ctx.validate("TraceBlockAccept", "TraceBlockAccept.cfg", files, what="all corruption cases", timeout=1800)
    ctx.cov["samples"] = summ["samples"]
    ctx.cov["exhaustive"] = True
    ctx.extra["distinct_transitions_replayed"] = summ["graph_edges"] if ok else 0
    ctx.extra["transitions_in_graph"] = summ["graph_edges"]
    if not ctx.quick():
        # second pass with another seed: different tours = different orders of offering
        ctx.seed += 1000
        files, summ = ctx.replay("blockaccept", graph=dot, shards=16, maxlen=25, name="blockaccept2", timeout=1800)
        ctx.validate("TraceBlockAccept", "TraceBlockAccept.cfg", files, what="all corruption cases, second tour", timeout=1800)
        ctx.seed -= 1000
    ctx.assumptions += ["3 deputies, 3-second slots, candidate block with two transfers mined at the start of its miner's slot",
                        "observable state = stable, head, unconfirmed blocks with confirm counts, balances of 6 accounts at head, pool content, guard answers"]
