"""C20 sync convergence.  Sync.tla (messages of a sync session delivered in any order with duplicates; block
cache = sorted multimap, confirm cache, timer drain, stable-clear) is model-checked; the transitions of its
state graph are replayed on the REAL network.ProtocolManager (scripted p2p.IPeer injected on the subscribe bus,
real chain.BlockChain + TxPool behind recording wrappers that give deterministic quiescence points) and the
logged node state after every message is validated by the monitor TraceSync.tla, including equality of the
final (current, stable) with an in-order run on a second real node.  BlockCache / ConfirmCache are also
replayed standalone against the sorted-multimap model (SyncCache.tla / TraceSyncCache.tla).
The transaction clause has its own model, SyncTx.tla: batches that mix transactions of every status (executed on
the current branch alone or inside a box, on the side fork only, pending, new, refused by the body check, boxes
around any of those, repetitions) in every position, delivered before / after / while the blocks that package
some of them are inserted; its graphs are replayed through the same real manager (real TxGuard, TxPool, chain;
adapter synctx), seeded random sessions over the whole universe are recorded by the driver synctx-grid, and
both are validated by the monitor TraceSyncTx.tla (the per-transaction rule).
Block messages with SEVERAL blocks (Sync.tla DeliverBatch: any sequence of 2-3 heights of the segment, repetitions included,
overlapping what the node holds - held and unstable / stable / waiting in the cache - at any position, mixed with single
deliveries and confirms) are replayed as one BlocksMsg each.  Every step also logs whether the node closed the scripted
peer's session during it (peer_dropped; a fresh session is opened for the following steps): no well-formed message of
these sessions - in particular no batch with transactions the body check refuses - may cost the sender its connection.
Every wait of the adapter on the node is bounded; an expired wait is recorded as that step's observation (a trace line no
monitor consumes), the node is abandoned and the next behaviour starts on a fresh one."""
import copy, json, os, re, time, concurrent.futures
import vlib

LEVEL = "model_checking"

MANIFEST = dict(
    level="model_checking",
    text="TLC checks Converges / CacheSorted / CacheKeepsUntilParent / CacheOnlyWaiting / ConfirmsKept / TxOnce / ChainLinear / Forward on the "
         "sync model for a segment of 3-5 blocks, up to 3 confirm packets and one batch of 3 transactions in every delivery order with up to 2 duplicates, "
         "including a confirm that arrives while the engine is busy inserting its block, and (3-4 blocks) up to 2 block messages holding any "
         "sequence of 2-3 blocks of the segment (repetitions included) that overlap what the node already holds; "
         "the transitions of those state graphs (all of the 4-block/1-duplicate and 5-block graphs in the thorough tier, seeded samples otherwise) are replayed through the real "
         "ProtocolManager (real blocks, signatures and transactions; real chain.BlockChain, TxPool, 500 ms queue timer) and the node state logged at "
         "each quiescence point is validated step by step by TLC against the monitor, the final current/stable blocks against an in-order run on a "
         "second real node; BlockCache and ConfirmCache are replayed standalone against the sorted-multimap model for every operation on every "
         "reachable layout over 5 heights and for every insertion order of up to 6 blocks. "
         "Transaction clause: TLC checks TxReachesPool / PoolClean / PoolOnce / PoolValid on SyncTx.tla (every batch of up to 2-3 transactions "
         "over palettes of 3-6 transactions out of a universe of 19: packaged by a main block alone or inside a box, by the side block, by both, "
         "by none, boxes around packaged / new / expired ones, expired / too-late / other-chain / under-priced ones; 2-3 main blocks + a side block "
         "in any order, a batch interleaved with a block insertion both ways); every transition of those graphs is replayed through the real "
         "ProtocolManager + TxGuard + TxPool + chain and seeded random sessions (batches of up to 5 of the 19 transactions) are recorded; the pool "
         "content after every step is validated by TLC against the per-transaction rule (TraceSyncTx.tla); in every step of every trace the "
         "node must not have closed the sender's session (PeerKept).",
    note="Hook-free: the manager's unexported caches are read with reflect/unsafe under their own locks. One message is handled to quiescence "
         "before the next is delivered (concurrent handling is C19's subject); one peer; the engine is abstracted in the design to "
         "'parent known => accepted, 2 of 3 distinct signers => stable' (C03 checks the engine itself).",
    technique="TLA+ model checking (Sync.tla, SyncTx.tla, SyncCache.tla) + replay of the TLC state graphs on the real ProtocolManager / caches, "
              "seeded random sessions + TLC trace validation (TraceSync.tla, TraceSyncTx.tla, TraceSyncCache.tla)")

SHARDS = 64   # replaying the manager is dominated by waiting for its own 500 ms queue timer, not by CPU


def sub(ctx, name):
    """A view of ctx with its own scratch sub-directory, so that pipelines can run side by side."""
    c = copy.copy(ctx)
    c.scratch = ctx.path("par", name, ".keep")[:-6]
    return c


ACTION_LINE = re.compile(r"^<(\w+) line \d+, col \d+ to line \d+, col \d+ of module (\w+)(?: \((\d+) (\d+) (\d+) (\d+)\))?>: (\d+):(\d+)\s*$", re.M)


def action_counts(ctx, out):
    """Per-action counts of TLC's LAST coverage report: {action: states generated through it}.
    A disjunct of Next that TLC could not split down to a named action (an `\\E` over a set that is empty under the
    configuration's constants) is reported as `<Next ... (l1 c1 l2 c2)>`: its name is read from that piece of the source."""
    block = out[out.rfind("The coverage statistics at"):] if "The coverage statistics at" in out else ""
    acts = {}
    for name, module, l1, c1, l2, c2, _distinct, generated in ACTION_LINE.findall(block):
        if name == "Init":
            continue
        if l1:
            src = open(os.path.join(ctx.specdir, module + ".tla")).read().split("\n")
            l1, c1, l2, c2 = int(l1), int(c1), int(l2), int(c2)
            piece = " ".join(src[l1 - 1:l2])[c1 - 1:] if l1 != l2 else src[l1 - 1][c1 - 1:c2]
            m = re.search(r":\s*(\w+)\s*\(", piece) or re.fullmatch(r"\s*(\w+)\s*", piece)
            name = m.group(1) if m else "%s@%s:%d:%d" % (name, module, l1, c1)
        acts[name] = acts.get(name, 0) + int(generated)
    if not acts:
        raise vlib.Broken("vacuity guard: no per-action coverage in TLC's output\n%s" % out[-1500:])
    return acts


def never_taken(ctx, cfg, out):
    """The vacuity guard of one configuration.  Returns (action -> count); raises when an action that the configuration leaves ON was
    never taken, or when the spec's ConfiguredOff (printed by MCSync.tla) names an action that was taken / does not exist."""
    acts = action_counts(ctx, out)
    m = re.search(r'^<<"ConfiguredOff", \{(.*)\}>>\s*$', out, re.M)
    if not m:
        raise vlib.Broken("vacuity guard: %s did not print ConfiguredOff" % cfg)
    off = set(re.findall(r'"(\w+)"', m.group(1)))
    zero = {a for a, n in acts.items() if n == 0}
    if zero - off:
        raise vlib.Broken("vacuity: actions never taken in %s although the configuration does not switch them off: %s" % (cfg, sorted(zero - off)))
    if off - zero:
        raise vlib.Broken("vacuity guard: ConfiguredOff of %s names %s, which TLC reports as taken / does not report at all (%s)" % (cfg, sorted(off - zero), acts))
    return acts


def manager(ctx, name, cfg, limit, coverage=True, shards=SHARDS, replay=True):
    dot = ctx.path("sync_%s.dot" % name)
    r = ctx.tlc_exhaustive("MCSync", cfg, timeout=900, dump=dot if replay else None, coverage=coverage, workers=8, count=False)
    acts = never_taken(ctx, cfg, r["out"]) if coverage else {}
    if not replay:
        return dict(cfg=cfg, states=r["distinct"], transitions=r["generated"], behaviours_replayed=0, accepted=True, samples=[], design_side_only=True, actions=acts)
    files, summ = ctx.replay("sync", graph=dot, shards=shards, maxlen=30, limit=limit, name="sync_" + name, timeout=2400)
    ok = ctx.validate("TraceSync", "TraceSync.cfg", files, what="ProtocolManager, %s graph" % name, timeout=2400, count_behaviours=False)
    return dict(cfg=cfg, states=r["distinct"], transitions=r["generated"], nodes=summ["graph_nodes"], edges=summ["graph_edges"],
                behaviours_total=summ["behaviours_total"], behaviours_replayed=summ["behaviours"], steps_on_real_code=summ["steps"],
                accepted=ok, samples=summ["samples"], actions=acts)


def txgraph(ctx, name, limit=0, shards=8):
    """One SyncTx configuration: design check, replay of (a seeded sample of) its transitions on the real manager."""
    dot = ctx.path("synctx_%s.dot" % name)
    cfg = "MCSyncTx_%s.cfg" % name
    r = ctx.tlc_exhaustive("MCSyncTx", cfg, timeout=900, dump=dot, workers=2 if ctx.quick() else 8, count=False)
    files, summ = ctx.replay("synctx", graph=dot, shards=shards, maxlen=30, limit=limit, name="synctx_" + name, timeout=2400)
    return files, dict(cfg=cfg, states=r["distinct"], transitions=r["generated"], nodes=summ["graph_nodes"], edges=summ["graph_edges"],
                       behaviours_total=summ["behaviours_total"], behaviours_replayed=summ["behaviours"], steps_on_real_code=summ["steps"],
                       samples=summ["samples"])


def txgrid(ctx, n, shards):
    """Seeded random sessions over the whole universe (driver synctx-grid); they mostly wait for the manager's queue timer."""
    per = (n + shards - 1) // shards

    def one(i):
        out = ctx.path("traces", "synctx_grid.%d.ndjson" % i)
        rr = ctx.drive("synctx-grid", ["-out", out, "-seed", ctx.seed * 1000 + i, "-n", per, "-base", i * per], timeout=2400,
                       env={"VERIF_SCRATCH_DIR": ctx.path("work", "synctx_grid.%d" % i, ".keep")[:-6]})
        return out, json.loads(rr.stdout.strip().splitlines()[-1])
    t = time.time()
    with concurrent.futures.ThreadPoolExecutor(shards) as ex:
        res = list(ex.map(one, range(shards)))
    ctx.log("synctx-grid: %d sessions, %d steps on real code in %.1fs" % (sum(r[1]["behaviours"] for r in res), sum(r[1]["steps"] for r in res), time.time() - t))
    return [r[0] for r in res], dict(cfg="synctx-grid (seeded sessions, whole universe, batches of up to 5)", states=0, transitions=0,
                                     behaviours_replayed=sum(r[1]["behaviours"] for r in res), steps_on_real_code=sum(r[1]["steps"] for r in res), samples=[])


def transactions(ctx, graphs, sessions, grid_shards, par=0):
    """The transaction clause: every SyncTx graph and the seeded sessions through the real manager, then ONE monitor run over all traces.
    par = how many graphs are replayed side by side (0: all, and the sessions beside them)."""
    with concurrent.futures.ThreadPoolExecutor(par or len(graphs) + 1) as ex:
        jobs = [ex.submit(txgraph, sub(ctx, "t_" + name), name, limit, shards) for name, limit, shards in graphs]
        if not par:
            jobs.append(ex.submit(txgrid, sub(ctx, "t_grid"), sessions, grid_shards))
        res = [j.result() for j in jobs]
    if par:
        res.append(txgrid(sub(ctx, "t_grid"), sessions, grid_shards))
    files = [f for fs, _ in res for f in fs]
    ok = ctx.validate("TraceSyncTx", "TraceSyncTx.cfg", files, what="ProtocolManager + TxGuard + TxPool: SyncTx graphs %s and %d seeded sessions" % (
        " ".join(g[0] for g in graphs), sessions), timeout=2400, count_behaviours=False)
    out = []
    for _, r in res:
        r["accepted"] = ok
        out.append(r)
    return out


def caches(ctx, name, maxlen):
    dot = ctx.path("synccache_%s.dot" % name)
    cfg = "MCSyncCache_%s.cfg" % name
    r = ctx.tlc_exhaustive("MCSyncCache", cfg, timeout=900, dump=dot, workers=4, count=False)
    files, summ = ctx.replay("synccache", graph=dot, shards=4, maxlen=maxlen, name="synccache_" + name, timeout=900)
    ok = ctx.validate("TraceSyncCache", "TraceSyncCache.cfg", files, what="BlockCache/ConfirmCache, %s graph" % name, timeout=1800, count_behaviours=False)
    return dict(cfg=cfg, states=r["distinct"], transitions=r["generated"], nodes=summ["graph_nodes"], edges=summ["graph_edges"],
                behaviours_total=summ["behaviours_total"], behaviours_replayed=summ["behaviours"], steps_on_real_code=summ["steps"],
                accepted=ok, samples=summ["samples"])


def negatives(ctx):
    """With a deviation switched on, the design violates the clause it belongs to."""
    out = []
    for module, cfg, want in (("MCSync", "MCSync_negSorted.cfg", "CacheSorted"), ("MCSync", "MCSync_negConverges.cfg", "Converges"),
                              ("MCSync", "MCSync_negTx.cfg", "TxOnce"), ("MCSync", "MCSync_negRace.cfg", "ConfirmsKept"), ("MCSyncCache", "MCSyncCache_neg.cfg", "Refines"),
                              ("MCSyncTx", "MCSyncTx_negAny.cfg", "TxReachesPool"), ("MCSyncTx", "MCSyncTx_negAdd.cfg", "PoolClean"),
                              ("MCSyncTx", "MCSyncTx_negStale.cfg", "TxReachesPool"), ("MCSync", "MCSync_negBatch.cfg", "CacheKeepsUntilParent"),
                              ("MCSyncTx", "MCSyncTx_negAbort.cfg", "TxReachesPool"), ("MCSyncTx", "MCSyncTx_negAbortPeer.cfg", "PeerKept")):
        r = ctx.tlc(module, cfg, timeout=600, expect_ok=False, workers=2)
        if r["inv"] != want:
            raise vlib.Broken("negative control %s: expected %s to be violated, got %s\n%s" % (cfg, want, r["inv"], r["out"][-1500:]))
        out.append(dict(cfg=cfg, violated=r["inv"]))
    return out


def run(ctx):
    ctx.build()
    q = ctx.quick()
    with concurrent.futures.ThreadPoolExecutor(8) as ex:
        # the caches on their own and the negative controls run beside the manager replays (which mostly wait for the timer)
        side = [ex.submit(caches, sub(ctx, "c1"), "blocks", 12), ex.submit(caches, sub(ctx, "c2"), "confirms", 12),
                ex.submit(caches, sub(ctx, "c3"), "orders5" if q else "orders", 8)]
        neg = ex.submit(negatives, sub(ctx, "neg"))
        results = []
        if q:
            # every transition of the core graph (a batch that mixes executed / new / pending / refused ones, before, after and while the blocks
            # are inserted) and of the smallest box graph, seeded samples of the others
            txs = ex.submit(transactions, sub(ctx, "tx"), [("coreq", 0, 8), ("boxq", 0, 2), ("boxes", 200, 4), ("wide", 250, 8)], 48, 16)
            five = ex.submit(manager, sub(ctx, "m2"), "five", "MCSync_five.cfg", 300, True, 16)
            # messages with several blocks that overlap what the node holds (a seeded sample of the 3-block graph; all of it in the thorough tier)
            batch = ex.submit(manager, sub(ctx, "m3"), "batch", "MCSync_batch.cfg", 800, True, 24)
            results.append(manager(sub(ctx, "m1"), "quick", "MCSync_quick.cfg", 1500, True, 48))
            results.append(five.result())
            results.append(batch.result())
            results += txs.result()
        else:   # one manager replay at a time: 64 processes with a real node each
            results += transactions(sub(ctx, "tx"), [("wide", 0, 24), ("core", 0, 16), ("core3", 0, 16), ("boxes", 0, 16), ("side", 0, 16), ("pos", 0, 8), ("invalid", 0, 1), ("boxq", 0, 2)], 1600, 64, par=2)
            results.append(manager(sub(ctx, "m1"), "quick", "MCSync_quick.cfg", 0, True))
            results.append(manager(sub(ctx, "m2"), "five", "MCSync_five.cfg", 0))
            results.append(manager(sub(ctx, "m5"), "batch", "MCSync_batch.cfg", 0))
            results.append(manager(sub(ctx, "m6"), "batch4", "MCSync_batch4.cfg", 6000))
            results.append(manager(sub(ctx, "m4"), "three", "MCSync_three.cfg", 10000))
            results.append(manager(sub(ctx, "m3"), "thorough", "MCSync_thorough.cfg", 8000))
        results += [j.result() for j in side]
        ctx.extra["negative_controls"] = neg.result()
    # vacuity over the tier: every action of Sync.tla is taken in at least one of its configurations
    taken = {}
    for r in results:
        for a, n in r.get("actions", {}).items():
            taken[a] = taken.get(a, 0) + n
    if not taken or [a for a, n in taken.items() if n == 0]:
        raise vlib.Broken("vacuity: actions of Sync.tla taken in no configuration of this tier: %s" % sorted(a for a, n in taken.items() if n == 0))
    ctx.extra["sync_actions_taken"] = taken
    for r in results:
        ctx.cov["states"] += r["states"]
        ctx.cov["transitions"] += r["transitions"]
        if r["accepted"]:
            ctx.cov["traces_validated_against_impl"] += r["behaviours_replayed"]
        if not ctx.cov["samples"]:
            ctx.cov["samples"] = r["samples"]
        ctx.extra.setdefault("graphs", []).append({k: v for k, v in r.items() if k != "samples"})
    ctx.cov["exhaustive"] = not q
    ctx.extra["replay_covers_every_transition_of"] = [r["cfg"] for r in results if r.get("behaviours_total") and r["behaviours_replayed"] == r["behaviours_total"]]
    ctx.assumptions += [
        "messages are handled one at a time: the next one is delivered after the manager reached quiescence (inserts finished, caches cleared up to the stable height)",
        "a linear segment on top of genesis, 3 deputies, the node under test is an observer (never signs); in Sync.tla block 2 carries a transaction and the batch transactions are in no block",
        "the transaction handler compares expiry with the wall clock: the batch expires 15 minutes after the harness process started (30-minute window); "
        "SyncTx worlds: genesis 5 minutes old, valid transactions expire 20 minutes after the world was built, the world is rebuilt after 8 minutes",
        "SyncTx: the side block is delivered after its main-branch sibling (it never becomes the current block: fork choice is C03's subject); a batch is not delivered while "
        "the queue timer has an insertable cached block to drain (that interleaving is covered by the explicit RaceAdd / RaceInsert actions with a directly inserted block); "
        "no confirms travel (the stable block stays at genesis)",
        "multi-block messages: the design's DeliverBatch counts the still undelivered blocks of the message as delivered; the blocks are real, valid blocks of the segment "
        "(a message with an invalid block is C03 / C15's subject), 3 blocks / 2 confirms / 2 such messages per session (4 blocks / 3 confirms / 1 message in the thorough tier)",
        "a wait of the adapter that expires (%s s; 3 s once one has expired in the process) is an observation about the code under test, not a harness failure" % os.environ.get("VERIF_SYNC_WAIT", "30"),
        "after the named deviation Dev_CacheAddMiddle the final-convergence clause is waived for that behaviour (blocks were dropped by the known defect); every other step is still compared",
    ]
