"""C20 sync convergence.  Sync.tla (messages of a sync session delivered in any order with duplicates; block
cache = sorted multimap, confirm cache, timer drain, stable-clear) is model-checked; every transition of its
state graph is replayed on the REAL network.ProtocolManager (scripted p2p.IPeer injected on the subscribe bus,
real chain.BlockChain + TxPool behind recording wrappers that give deterministic quiescence points) and the
logged node state after every message is validated by the monitor TraceSync.tla, including equality of the
final (current, stable) with an in-order run on a second real node.  BlockCache / ConfirmCache are also
replayed standalone against the sorted-multimap model (SyncCache.tla / TraceSyncCache.tla)."""
import vlib

LEVEL = "model_checking"

MANIFEST = dict(
    level="model_checking",
    text="TLC checks Converges / CacheSorted / CacheKeepsUntilParent / CacheOnlyWaiting / ConfirmsKept / TxOnce / ChainLinear / Forward on the "
         "sync model for a segment of 4 (5) blocks, up to 3 confirm packets and one batch of 3 transactions in every delivery order with duplicates; "
         "every transition of that state graph is replayed through the real ProtocolManager (real blocks, signatures and transactions; real "
         "chain.BlockChain, TxPool, 500 ms queue timer) and the node state logged at each quiescence point is validated step by step by TLC against "
         "the monitor, the final current/stable blocks against an in-order run on a second real node; BlockCache and ConfirmCache are replayed "
         "standalone against the sorted-multimap model for every operation sequence over 5 heights.",
    note="Hook-free: the manager's unexported caches are read with reflect/unsafe under their own locks. One message is handled to quiescence "
         "before the next is delivered (concurrent handling is C19's subject); one peer; the engine is abstracted in the design to "
         "'parent known => accepted, 2 of 3 distinct signers => stable' (C03 checks the engine itself).",
    technique="TLA+ model checking (Sync.tla, SyncCache.tla) + replay of the TLC state graphs on the real ProtocolManager / caches + TLC trace "
              "validation (TraceSync.tla, TraceSyncCache.tla)")

SHARDS = 48   # replay is dominated by waiting for the manager's own 500 ms queue timer, not by CPU


def negative(ctx, module, cfg, want):
    r = ctx.tlc(module, cfg, timeout=600, expect_ok=False)
    if r["inv"] != want:
        raise vlib.Broken("negative control %s: expected %s to be violated, got %s\n%s" % (cfg, want, r["inv"], r["out"][-1500:]))
    ctx.extra.setdefault("negative_controls", []).append(dict(cfg=cfg, violated=r["inv"]))


def run(ctx):
    ctx.build()
    # ---- design side + replay of the manager
    graphs = [("quick", "MCSync_quick.cfg", 0)] if ctx.quick() else [("thorough", "MCSync_thorough.cfg", 0)]
    graphs.append(("five", "MCSync_five.cfg", 0))
    first = True
    for name, cfg, limit in graphs:
        dot = ctx.path("sync_%s.dot" % name)
        ctx.tlc_exhaustive("MCSync", cfg, timeout=900, dump=dot, coverage=not ctx.quick())
        files, summ = ctx.replay("sync", graph=dot, shards=SHARDS, maxlen=30, limit=limit, name="sync_" + name, timeout=2400)
        ok = ctx.validate("TraceSync", "TraceSync.cfg", files, what="ProtocolManager, %s graph" % name, timeout=2400)
        if first:
            ctx.cov["samples"] = summ["samples"]
            first = False
        ctx.extra.setdefault("graphs", []).append(dict(cfg=cfg, nodes=summ["graph_nodes"], edges=summ["graph_edges"],
                                                       behaviours_replayed=summ["behaviours"], steps_on_real_code=summ["steps"], accepted=ok))
    # ---- the caches on their own against the sorted-multimap model
    for name, maxlen in (("blocks", 12), ("confirms", 12), ("orders", 8)):
        dot = ctx.path("synccache_%s.dot" % name)
        ctx.tlc_exhaustive("MCSyncCache", "MCSyncCache_%s.cfg" % name, timeout=900, dump=dot)
        files, summ = ctx.replay("synccache", graph=dot, shards=4, maxlen=maxlen, name="synccache_" + name, timeout=900)
        ok = ctx.validate("TraceSyncCache", "TraceSyncCache.cfg", files, what="BlockCache/ConfirmCache, %s graph" % name, timeout=1800)
        ctx.extra.setdefault("graphs", []).append(dict(cfg="MCSyncCache_%s.cfg" % name, nodes=summ["graph_nodes"], edges=summ["graph_edges"],
                                                       behaviours_replayed=summ["behaviours"], steps_on_real_code=summ["steps"], accepted=ok))
    negative(ctx, "MCSyncCache", "MCSyncCache_neg.cfg", "Refines")
    ctx.cov["exhaustive"] = True
    # ---- negative controls: with a deviation switched on, the design violates the clause it belongs to
    negative(ctx, "MCSync", "MCSync_negSorted.cfg", "CacheSorted")
    negative(ctx, "MCSync", "MCSync_negConverges.cfg", "Converges")
    negative(ctx, "MCSync", "MCSync_negTx.cfg", "TxOnce")
    ctx.assumptions += [
        "messages are handled one at a time: the next one is delivered after the manager reached quiescence (inserts finished, caches cleared up to the stable height)",
        "a linear segment on top of genesis, 3 deputies, the node under test is an observer (never signs); block 2 carries a transaction; the batch transactions are in no block",
        "the transaction handler compares expiry with the wall clock: the batch expires 15 minutes after the harness started (30-minute window)",
    ]
