"""C20 sync convergence.  Sync.tla (messages of a sync session delivered in any order with duplicates; block
cache = sorted multimap, confirm cache, timer drain, stable-clear) is model-checked; the transitions of its
state graph are replayed on the REAL network.ProtocolManager (scripted p2p.IPeer injected on the subscribe bus,
real chain.BlockChain + TxPool behind recording wrappers that give deterministic quiescence points) and the
logged node state after every message is validated by the monitor TraceSync.tla, including equality of the
final (current, stable) with an in-order run on a second real node.  BlockCache / ConfirmCache are also
replayed standalone against the sorted-multimap model (SyncCache.tla / TraceSyncCache.tla)."""
import copy, concurrent.futures
import vlib

LEVEL = "model_checking"

MANIFEST = dict(
    level="model_checking",
    text="TLC checks Converges / CacheSorted / CacheKeepsUntilParent / CacheOnlyWaiting / ConfirmsKept / TxOnce / ChainLinear / Forward on the "
         "sync model for a segment of 3-5 blocks, up to 3 confirm packets and one batch of 3 transactions in every delivery order with up to 2 duplicates, "
         "including a confirm that arrives while the engine is busy inserting its block; "
         "the transitions of those state graphs (all of the 4-block/1-duplicate and 5-block graphs in the thorough tier, seeded samples otherwise) are replayed through the real "
         "ProtocolManager (real blocks, signatures and transactions; real chain.BlockChain, TxPool, 500 ms queue timer) and the node state logged at "
         "each quiescence point is validated step by step by TLC against the monitor, the final current/stable blocks against an in-order run on a "
         "second real node; BlockCache and ConfirmCache are replayed standalone against the sorted-multimap model for every operation on every "
         "reachable layout over 5 heights and for every insertion order of up to 6 blocks.",
    note="Hook-free: the manager's unexported caches are read with reflect/unsafe under their own locks. One message is handled to quiescence "
         "before the next is delivered (concurrent handling is C19's subject); one peer; the engine is abstracted in the design to "
         "'parent known => accepted, 2 of 3 distinct signers => stable' (C03 checks the engine itself).",
    technique="TLA+ model checking (Sync.tla, SyncCache.tla) + replay of the TLC state graphs on the real ProtocolManager / caches + TLC trace "
              "validation (TraceSync.tla, TraceSyncCache.tla)")

SHARDS = 64   # replaying the manager is dominated by waiting for its own 500 ms queue timer, not by CPU


def sub(ctx, name):
    """A view of ctx with its own scratch sub-directory, so that pipelines can run side by side."""
    c = copy.copy(ctx)
    c.scratch = ctx.path("par", name, ".keep")[:-6]
    return c


def manager(ctx, name, cfg, limit, coverage=False, shards=SHARDS, replay=True):
    dot = ctx.path("sync_%s.dot" % name)
    r = ctx.tlc_exhaustive("MCSync", cfg, timeout=900, dump=dot if replay else None, coverage=coverage, workers=8, count=False)
    if coverage and r.get("zero_cov"):
        raise vlib.Broken("vacuity: actions never taken in %s: %s" % (cfg, r["zero_cov"]))
    if not replay:
        return dict(cfg=cfg, states=r["distinct"], transitions=r["generated"], behaviours_replayed=0, accepted=True, samples=[], design_side_only=True)
    files, summ = ctx.replay("sync", graph=dot, shards=shards, maxlen=30, limit=limit, name="sync_" + name, timeout=2400)
    ok = ctx.validate("TraceSync", "TraceSync.cfg", files, what="ProtocolManager, %s graph" % name, timeout=2400, count_behaviours=False)
    return dict(cfg=cfg, states=r["distinct"], transitions=r["generated"], nodes=summ["graph_nodes"], edges=summ["graph_edges"],
                behaviours_total=summ["behaviours_total"], behaviours_replayed=summ["behaviours"], steps_on_real_code=summ["steps"],
                accepted=ok, samples=summ["samples"])


def caches(ctx, name, maxlen):
    dot = ctx.path("synccache_%s.dot" % name)
    cfg = "MCSyncCache_%s.cfg" % name
    r = ctx.tlc_exhaustive("MCSyncCache", cfg, timeout=900, dump=dot, workers=4, count=False)
    files, summ = ctx.replay("synccache", graph=dot, shards=4, maxlen=maxlen, name="synccache_" + name, timeout=900)
    ok = ctx.validate("TraceSyncCache", "TraceSyncCache.cfg", files, what="BlockCache/ConfirmCache, %s graph" % name, timeout=1800, count_behaviours=False)
    return dict(cfg=cfg, states=r["distinct"], transitions=r["generated"], nodes=summ["graph_nodes"], edges=summ["graph_edges"],
                behaviours_total=summ["behaviours_total"], behaviours_replayed=summ["behaviours"], steps_on_real_code=summ["steps"],
                accepted=ok, samples=summ["samples"])


def negatives(ctx):
    """With a deviation switched on, the design violates the clause it belongs to."""
    out = []
    for module, cfg, want in (("MCSync", "MCSync_negSorted.cfg", "CacheSorted"), ("MCSync", "MCSync_negConverges.cfg", "Converges"),
                              ("MCSync", "MCSync_negTx.cfg", "TxOnce"), ("MCSync", "MCSync_negRace.cfg", "ConfirmsKept"), ("MCSyncCache", "MCSyncCache_neg.cfg", "Refines")):
        r = ctx.tlc(module, cfg, timeout=600, expect_ok=False, workers=2)
        if r["inv"] != want:
            raise vlib.Broken("negative control %s: expected %s to be violated, got %s\n%s" % (cfg, want, r["inv"], r["out"][-1500:]))
        out.append(dict(cfg=cfg, violated=r["inv"]))
    return out


def run(ctx):
    ctx.build()
    q = ctx.quick()
    with concurrent.futures.ThreadPoolExecutor(8) as ex:
        # the caches on their own and the negative controls run beside the manager replays (which mostly wait for the timer)
        side = [ex.submit(caches, sub(ctx, "c1"), "blocks", 12), ex.submit(caches, sub(ctx, "c2"), "confirms", 12),
                ex.submit(caches, sub(ctx, "c3"), "orders5" if q else "orders", 8)]
        neg = ex.submit(negatives, sub(ctx, "neg"))
        results = []
        if q:
            five = ex.submit(manager, sub(ctx, "m2"), "five", "MCSync_five.cfg", 300, False, 16)
            results.append(manager(sub(ctx, "m1"), "quick", "MCSync_quick.cfg", 1500, False, 48))
            results.append(five.result())
        else:   # one manager replay at a time: 64 processes with a real node each
            results.append(manager(sub(ctx, "m1"), "quick", "MCSync_quick.cfg", 0, True))
            results.append(manager(sub(ctx, "m2"), "five", "MCSync_five.cfg", 0))
            results.append(manager(sub(ctx, "m4"), "three", "MCSync_three.cfg", 10000))
            results.append(manager(sub(ctx, "m3"), "thorough", "MCSync_thorough.cfg", 8000))
        results += [j.result() for j in side]
        ctx.extra["negative_controls"] = neg.result()
    for r in results:
        ctx.cov["states"] += r["states"]
        ctx.cov["transitions"] += r["transitions"]
        if r["accepted"]:
            ctx.cov["traces_validated_against_impl"] += r["behaviours_replayed"]
        if not ctx.cov["samples"]:
            ctx.cov["samples"] = r["samples"]
        ctx.extra.setdefault("graphs", []).append({k: v for k, v in r.items() if k != "samples"})
    ctx.cov["exhaustive"] = not q
    ctx.extra["replay_covers_every_transition_of"] = [r["cfg"] for r in results if r.get("behaviours_total") and r["behaviours_replayed"] == r["behaviours_total"]]
    ctx.assumptions += [
        "messages are handled one at a time: the next one is delivered after the manager reached quiescence (inserts finished, caches cleared up to the stable height)",
        "a linear segment on top of genesis, 3 deputies, the node under test is an observer (never signs); block 2 carries a transaction; the batch transactions are in no block",
        "the transaction handler compares expiry with the wall clock: the batch expires 15 minutes after the harness process started (30-minute window)",
        "after the named deviation Dev_CacheAddMiddle the final-convergence clause is waived for that behaviour (blocks were dropped by the known defect); every other step is still compared",
    ]
