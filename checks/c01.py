"""C01 deterministic state transition.  BlockExec.tla: miner (snapshot / discard) vs validator over abstract
transaction kinds; TLC checks Deterministic for every candidate list.  Every transition is replayed with real
signed transactions on four real nodes (miner, second miner offered the included list only, plain validator,
validator with a different history, validator after a restart) and TraceBlockExec.tla requires equal block hashes
and field-for-field equal account state."""
LEVEL = "model_checking"

MANIFEST = dict(
    level="model_checking",
    text="TLC checks Deterministic (validator of the included list reaches the miner's state; a miner offered only the included list seals the same block) "
         "for every candidate list of <=2 over 2 blocks and every list of 3 on the first block (plus simulated lists of 3 over 2 blocks) of 18 transaction kinds (valid, order-dependent, unpayable, wrongly signed, failing after gas was bought, votes, contract creation/call, "
         "reverting creation included as failed tx, boxes incl. one that hits the block gas limit and one with an invalid later sub-transaction, a creation whose CALL gas depends on the emptiness of an account only dropped boxes paid, a ModifySigners that revokes the sender's own key, a transfer whose gas limit is nearly the whole block, a box touching 12 fresh accounts); every transition (thorough) or a seeded sample (quick) is executed for real: node A first tries every not yet offered transaction on a throwaway block and then mines with the real "
         "assembler, node A2 mines from the included list only, nodes B and C (C first executes a different sibling block) validate through DPoVP.InsertBlock, B is restarted, "
         "re-fed the chain and validates again; TLC validates that all block hashes agree, every node accepts, and the dumps of every account field agree.",
    note="Go's per-iteration map order randomisation is exercised by the five independent executions of every block (same process, separate node objects and databases). "
         "Contract code is limited to the three programs of the universe (see C16 for arbitrary bytecode). Box and asset transactions are covered by the ledger checks, not here.",
    technique="TLA+ model checking (BlockExec.tla) + replay of TLC behaviours on four real nodes + TLC trace validation (TraceBlockExec.tla)")


def run(ctx):
    ctx.build()
    dot = ctx.path("blockexec.dot")
    ctx.tlc_exhaustive("BlockExec", "BlockExec_c2.cfg", timeout=900, dump=dot)
    limit = 3000 if ctx.quick() else 0
    files, summ = ctx.replay("blockexec", graph=dot, shards=16, maxlen=10, limit=limit, timeout=3000, chunk=100)
    ok = ctx.validate("TraceBlockExec", "TraceBlockExec.cfg", files, what="candidate lists (<=2) on 4 real nodes", timeout=3000)
    # candidate lists of three (order-dependent triples, a discard between two dependent transactions): simulation
    # every candidate list of three on the first block: exhaustive graph (3617 lists), all of it (thorough) or a seeded sample (quick) on real nodes
    dot3 = ctx.path("blockexec3.dot")
    ctx.tlc_exhaustive("BlockExec", "BlockExec_c3b1.cfg", timeout=900, dump=dot3)
    f3, s3 = ctx.replay("blockexec", graph=dot3, shards=16, maxlen=4, limit=800 if ctx.quick() else 0, name="blockexec3g", timeout=3000, chunk=100)
    ctx.validate("TraceBlockExec", "TraceBlockExec.cfg", f3, what="candidate lists of three on the first block", timeout=3000)
    ctx.extra["triples_first_block_transitions"] = s3["graph_edges"]
    sim = ctx.tlc_simulate("BlockExec", "BlockExec_c3.cfg", num=400 if ctx.quick() else 2500, depth=3, prefix="bx3", timeout=1500)
    files3, summ3 = ctx.replay("blockexec", sim=sim, shards=16, name="blockexec3", timeout=3000, chunk=100)
    ctx.validate("TraceBlockExec", "TraceBlockExec.cfg", files3, what="simulated candidate lists of three", timeout=3000)
    ctx.cov["samples"] = summ["samples"]
    ctx.cov["exhaustive"] = not ctx.quick()
    ctx.extra["behaviours_total"] = summ["behaviours_total"]
    ctx.extra["transitions_in_graph"] = summ["graph_edges"]
    ctx.assumptions += ["3 deputies; amounts/gas price fixed; block times deterministic (slot arithmetic), no wall clock in execution",
                        "account universe: founder, r1, r2, an empty account, the two contract addresses, the three deputy accounts"]
