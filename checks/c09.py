"""C09 per-block state views: isolated across forks, pruned exactly when stable.

ForkView.tla is the copy-at-creation / copy-on-write machine of store.ChainDatabase with the property
stated declaratively on history variables (nearest ancestor-or-self write, else the persisted value;
exact pruning; persisted = stable view).  TLC checks it on every reachable state of several small
configurations and dumps the state graphs; every edge is replayed on the REAL ChainDatabase
(SetBlock / GetActDatabase(h).Put / .Get / SetStableBlock / Close+reopen) and, after EVERY step, the complete
observable state (every view x every address, unconfirmed set, ancestors, existence, persisted accounts)
is logged and validated by TraceForkView.tla.  A block is identified by its HASH only: the block universe contains
TWINS - different blocks that agree in height, parent hash, miner, time, roots, gas, ... and differ in one content field
(each of the nine hashed header fields in turn) - as children of the stable block and deeper, with and without
descendants; block ids in all observations are translated from the hashes the real store reports.  Seeded random histories of a bigger universe (8 prefix-sharing
addresses, up to 7 live blocks, 60 operations) are recorded and validated by the same trace spec."""
import concurrent.futures, json, os, threading
LEVEL = "model_checking"

MANIFEST = dict(
    level="model_checking",
    text="TLC checks the four clause invariants and three action properties of ForkView.tla (a read through block B = nearest "
         "ancestor-or-self write else the persisted value, forks never see each other's writes, stabilisation keeps exactly the "
         "descendants with unchanged views, persisted data = stable view) on every reachable state of small configurations "
         "(<=4 blocks incl. equal-height siblings, <=5 prefix-sharing addresses, <=2 writes per block, reads interleaved, <=2 "
         "stabilisations, restart; every block carries a slot attribute = miner/time/roots/gas of its header, blocks of one slot under "
         "one parent are twins that differ only in one content field and therefore in their hash - the spec never reads the "
         "attribute: a block is its hash) and, as negative controls, that the clause fails when a block may be written after it got "
         "children and that exact pruning fails when the stabilisation walk recognises a block by its header attributes instead of "
         "its hash. Every transition of those state graphs is replayed on the real store.ChainDatabase; after every step all "
         "(block, address) views, the unconfirmed set, ancestor links, block existence and the persisted accounts are read from "
         "the real code and validated by TLC against the spec (TraceForkView.tla); the trace spec also checks that the real headers "
         "of same-slot blocks agree in every hashed field except parent, height and the content field. Seeded random histories (8 "
         "addresses sharing prefixes of 0/1/2/20/39 nibbles, <=7 live blocks, 60 steps, 1-3 slots, content field drawn per history) "
         "are validated the same way.",
    note="Every behaviour starts from a database that holds persisted accounts but an EMPTY in-memory trie (the state after a "
         "node start) - otherwise AccountTrieDB.Get never takes its read-through-cache path. Between behaviours the open database "
         "is reused (a fresh stable block + emptied LastConfirm trie, fresh addresses); the Restart action and the thorough tier's "
         "hard mode really close and reopen. Views are observed with a non-mutating probe (trie Find, else GetAccount); the explicit "
         "Get actions use the real mutating Get. Writes follow account.Manager.Save: a block is written before it has children, "
         "each address at most once per block.",
    technique="TLA+ model checking (ForkView.tla) + replay of the full TLC state graphs on the real ChainDatabase + TLC trace "
              "validation (TraceForkView.tla) of replays and of seeded random histories")

NVAL = 8  # parallel TLC trace validators (one JVM each)


def _pvalidate(ctx, files, what, timeout=1500):
    """Validate trace files in parallel TLC runs (NVAL at a time, <= ~24 MB of trace each, which TLC validates in < 1 GB of heap); returns the files of
    rejected groups.  vlib names its work directories by module + millisecond, so every parallel slot gets its
    own copy of the trace module."""
    body = open(os.path.join(ctx.specdir, "TraceForkView.tla")).read()
    total = sum(os.path.getsize(f) for f in files)
    nb = max(NVAL, -(-total // (24 << 20)))
    bins = [[0, []] for _ in range(nb)]
    for f in sorted(files, key=os.path.getsize, reverse=True):
        b = min(bins, key=lambda x: x[0])
        b[0] += os.path.getsize(f)
        b[1].append(f)
    groups = [b[1] for b in bins if b[1]]
    for i in range(NVAL):
        with open(os.path.join(ctx.specdir, "TraceForkView_%d.tla" % i), "w") as fh:
            fh.write(body.replace("MODULE TraceForkView ", "MODULE TraceForkView_%d " % i, 1))
    slots = list(range(NVAL))
    lock = threading.Lock()

    def one(g):
        with lock:
            i = slots.pop()
        try:
            ok = ctx.validate("TraceForkView_%d" % i, "TraceForkView.cfg", g, what=what, timeout=timeout, count_behaviours=False)
        finally:
            with lock:
                slots.append(i)
        nbeh = 0
        if ok:
            for f in g:
                with open(f) as fh:
                    nbeh += sum(1 for ln in fh if '"ev":"reset"' in ln)
        return ok, nbeh, g
    with concurrent.futures.ThreadPoolExecutor(NVAL) as ex:
        res = list(ex.map(one, groups))
    ctx.cov["traces_validated_against_impl"] += sum(r[1] for r in res)
    bad = set()
    for ok, _, g in res:
        if not ok:
            bad.update(g)
    return bad


def _lines(files):
    n = 0
    for f in files:
        with open(f) as fh:
            n += sum(1 for _ in fh)
    return n


def run(ctx):
    import vlib
    os.environ.setdefault("VERIF_TLC_HEAP", "2g")   # measured: an 18 MB trace needs 0.7 GB; 8 validators run in parallel
    ctx.build()
    # ctx.violation / counters are called from validator threads
    vlock = threading.Lock()
    orig_violation = ctx.violation

    def locked_violation(*a, **k):
        with vlock:
            return orig_violation(*a, **k)
    ctx.violation = locked_violation

    # ---- design side: the clauses hold on the model; negative control: they do not without the write discipline
    neg = ctx.tlc("MCForkView", "MCForkView_neg.cfg", timeout=300, expect_ok=False)
    ctx.extra["negative_control_write_after_children_violates"] = neg["inv"]
    if neg["inv"] != "ViewIsNearestWrite":
        raise vlib.Broken("negative control: writing a block that has children should violate ViewIsNearestWrite")
    # the block universe contains twins (same parent, height, miner, time, roots, ...; only the content differs): a tree
    # that recognised the new stable block by those attributes instead of its hash would break exact pruning
    neg = ctx.tlc("MCForkView", "MCForkView_negtwin.cfg", timeout=300, expect_ok=False)
    ctx.extra["negative_control_identity_by_header_attributes_violates"] = neg["inv"]
    if neg["inv"] != "PruneExact":
        raise vlib.Broken("negative control: identifying a block by its header attributes should violate PruneExact (twins in the universe)")
    #          cfg                    adapter          hard reset
    graphs = [("MCForkView_quick.cfg", "forkview", False), ("MCForkView_tree.cfg", "forkview-deep", False),
              ("MCForkView_twin.cfg", "forkview", False), ("MCForkView_twin4.cfg", "forkview-deep", False)]
    if not ctx.quick():
        graphs = [("MCForkView_quick.cfg", "forkview", True), ("MCForkView_quick.cfg", "forkview-deep", False),
                  ("MCForkView_tree.cfg", "forkview-deep", True), ("MCForkView_tree.cfg", "forkview", False),
                  ("MCForkView_t1.cfg", "forkview", False), ("MCForkView_t2.cfg", "forkview", False),
                  ("MCForkView_t3.cfg", "forkview-deep", False), ("MCForkView_t4.cfg", "forkview", False),
                  ("MCForkView_t5.cfg", "forkview-deep", False),
                  ("MCForkView_twin.cfg", "forkview", True), ("MCForkView_twin4.cfg", "forkview-deep", False),
                  ("MCForkView_t6.cfg", "forkview", False)]
    dots = {}
    replays = []   # (name, files, summary)
    samples = []
    for gi, (cfg, adapter, hard) in enumerate(graphs):
        if cfg not in dots:
            dot = ctx.path("fv.%s.dot" % cfg[:-4])
            r = ctx.tlc_exhaustive("MCForkView", cfg, timeout=900, dump=dot, coverage=not ctx.quick())
            if not ctx.quick() and r.get("zero_cov"):
                txt = open(os.path.join(ctx.specdir, cfg)).read()
                off = [a for a, k in (("Restart", "MaxRestart = 0"), ("Get", "MaxReads = 0")) if k in txt]   # switched off by the bounds
                bad = [a for a in r["zero_cov"] if a in ("AddBlock", "Put", "Get", "SetStable", "Restart") and a not in off]
                if bad:
                    raise vlib.Broken("vacuity: actions never taken in %s: %s" % (cfg, bad))
            dots[cfg] = dot
        name = "g%d.%s.%s%s" % (gi, cfg[11:-4], adapter, ".hard" if hard else "")
        files, summ = ctx.replay(adapter, graph=dots[cfg], shards=16, maxlen=40, name=name, timeout=1500,
                                 env={"VERIF_FORKVIEW_HARD": "1"} if hard else None)
        if summ["panics"]:
            ctx.log("real code panicked %d times during replay %s" % (summ["panics"], name))
        replays.append((name, files, summ))
        samples += summ["samples"][:1]
    ctx.cov["exhaustive"] = True

    # ---- seeded random histories on the real database (bigger universe than TLC enumerates)
    #           table  naddr maxlive steps maxwrites histories-per-shard shards via-account.Manager slots
    # (blocks of one slot have the same miner, time, roots, gas, ...: under one parent they are twins that differ only in the
    #  content field the history picked; slots = 1: every block of the history is such a twin of its siblings)
    plans = [("wide", 8, 4, 60, 4, 450, 8, False, 2), ("wide", 5, 3, 40, 3, 450, 8, False, 1), ("wide", 8, 4, 40, 3, 350, 4, True, 2)] if ctx.quick() else \
            [("wide", 8, 4, 60, 4, 600, 16, False, 2), ("wide", 5, 3, 40, 3, 600, 16, False, 1), ("deep", 8, 7, 60, 4, 400, 16, False, 3),
             ("deep", 5, 2, 30, 3, 400, 16, False, 1), ("wide", 8, 7, 80, 2, 200, 16, False, 2),
             ("wide", 8, 4, 40, 3, 400, 16, True, 2), ("deep", 6, 6, 60, 4, 250, 16, True, 1)]
    jobs = [(pi, sh) for pi in range(len(plans)) for sh in range(plans[pi][6])]

    def drive(job):
        pi, sh = job
        table, naddr, maxlive, steps, maxw, n, _, am, slots = plans[pi]
        out = ctx.path("traces", "rand.%d.%d.ndjson" % (pi, sh))
        rr = ctx.drive("forkview-rand", ["-out", out, "-seed", ctx.seed * 1000 + pi * 100 + sh, "-n", n, "-steps", steps,
                                         "-naddr", naddr, "-maxlive", maxlive, "-maxwrites", maxw, "-table", table, "-restart", 1, "-slots", slots] + (["-am"] if am else []),
                       timeout=1500, env={"VERIF_SCRATCH_DIR": ctx.path("work", "rand.%d.%d" % (pi, sh), ".keep")[:-6]})
        return out, json.loads(rr.stdout.strip().splitlines()[-1])
    with concurrent.futures.ThreadPoolExecutor(16) as ex:
        res = list(ex.map(drive, jobs))
    rfiles = [r[0] for r in res]
    hist = sum(r[1]["histories"] for r in res)
    ctx.log("random driver: %d histories, %d events on the real database" % (hist, sum(r[1]["lines"] for r in res)))
    # ---- code -> spec: every recorded event is validated by TLC against TraceForkView
    allfiles = [f for _, files, _ in replays for f in files] + rfiles
    bad = _pvalidate(ctx, allfiles, what="graph replays + random histories")
    ctx.extra["transitions_in_graphs"] = sum(sm["graph_edges"] for _, _, sm in replays)
    ctx.extra["distinct_transitions_replayed"] = sum(sm["graph_edges"] for _, files, sm in replays if not bad.intersection(files))
    ctx.extra["real_events_validated"] = _lines([f for f in allfiles if f not in bad])
    ctx.extra["random_histories"] = hist
    ctx.extra["random_history_plans"] = [dict(zip(("table", "naddr", "maxlive", "steps", "maxwrites", "per_shard", "shards", "via_account_manager", "slots"), p)) for p in plans]
    with open(rfiles[0]) as fh:
        first = [json.loads(next(fh)) for _ in range(12)]
    samples.append(["%s%s" % (e["ev"], e.get("a", "")) for e in first])
    ctx.cov["samples"] = samples[:4]
    ctx.extra["bounds"] = {c: open(os.path.join(ctx.specdir, c)).read() for c in dots}
    ctx.assumptions += [
        "write discipline of account.Manager.Save / dpovp.go: a block is written before it gets children and each (block, address) at most once "
        "(a second Put of the same address at the same height is ignored by the trie; TLC shows the clause fails without the discipline)",
        "every behaviour starts with persisted accounts and an empty in-memory trie (node start); between behaviours the open database is reused "
        "(new stable block writing fresh addresses, LastConfirm trie replaced by an empty one); the Restart action and the hard-reset replays of the "
        "thorough tier really close and reopen the database",
        "the database is closed only after the store's asynchronous writer has drained (shutdown/crash is C08's subject)",
        "views are observed with a non-mutating probe (PatriciaTrie.Find, else GetAccount); Get actions use the real, cache-populating AccountTrieDB.Get",
        "block headers are synthetic: miner and time are a function of the block's slot, the other hashed fields are constants, the content "
        "field of the behaviour (one of miner, versionRoot, txRoot, logRoot, gasLimit, gasUsed, time, deputyRoot, extra) is unique per block; "
        "in account.Manager mode the version root is the Manager's (twins with equal write sets differ in the content field only)",
        "candidate trie / vote top of CBlock are not part of this property"]
