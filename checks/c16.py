"""C16 contract sandbox.  CallFrames.tla (call-frame stack over the change journal; clauses FailedFrameIsNoop,
StaticIsNoop, GasNeverGrows, GasWithinSupplied, DepthBound, NoCrash checked by TLC) generates complete executions of
call trees; each is COMPILED to real EVM bytecode, deployed into a committed base block of a real store and run on the
real vm.EVM over a real account.Manager (twice with ample gas, twice with a seeded starved gas limit); the frame-level
events recorded by a vm.Tracer, the real post-state and the gas numbers are re-executed and compared by TLC in
TraceCallFrames.tla.  Seeded drivers add deeper random trees, arbitrary byte strings / opcode soups / precompile
inputs / creations and unbounded recursion (depth limit), validated by the same trace spec."""
import os, re, json, random, collections, concurrent.futures
LEVEL = "model_checking"

MANIFEST = dict(
    level="model_checking",
    text="TLC checks the six sandbox clauses on every reachable state of the call-frame model (4 call kinds x {ok, revert, fail, selfdestruct} x "
         "sstore/log/value transfer, nested to depth 3, journal-based revert; the two known journal defects as negative controls). Every transition of "
         "the small state graph is covered by complete TLC behaviours, each compiled to real EVM bytecode and executed on the real EVM + account "
         "manager + store; TLC re-executes the frame events a vm.Tracer recorded (context, read-only, success flag, exact gas accounting, 63/64 rule) "
         "and requires the real post-state to equal the re-executed world (all-or-nothing, read-only is a no-op), identical twin runs (determinism), "
         "gas left <= supplied and depth <= 1024. Simulated deeper behaviours, seeded random trees, random byte strings, opcode soups, precompile "
         "inputs and unbounded recursion are validated the same way.",
    note="Published events are counted from the change journal (what a block publishes); the platform's failure event after a failed call is "
         "modelled as the allowed effect. Two genuine defects are carried as named deviations: a frame that fails after one of its inner calls "
         "failed and a later one wrote again panics the node (Dev_NestedFailVersionGapPanics); reverting across SELFDESTRUCT loses storage "
         "written earlier in the block (Dev_RevertAcrossSuicideLosesStorage).",
    technique="TLA+ model checking (CallFrames.tla) + TLC behaviours compiled to EVM bytecode and run on the real EVM + TLC trace validation "
              "(TraceCallFrames.tla re-executes the recorded frame events)")

NODE = re.compile(r'^(-?\d+) \[label="(.*)"(,style = filled)?\]\s*;?$')
EDGE = re.compile(r'^(-?\d+) -> (-?\d+) \[label="(.*?)",color=')


def unesc(s):
    return s.replace("\\n", "\n").replace('\\"', '"').replace("\\\\", "\\")


def path_cover(dot, seed):
    """Complete behaviours (initial state -> terminal state) of the dumped state graph that together cover every
    edge.  Returns (init_state_text, list of label lists, number of edges)."""
    out = collections.defaultdict(list)
    init = None
    init_label = None
    nedges = 0
    seen_edges = set()
    with open(dot) as fh:
        for ln in fh:
            ln = ln.rstrip("\n")
            m = EDGE.match(ln)
            if m:
                u, v, lab = m.group(1), m.group(2), unesc(m.group(3))
                if (u, v, lab) not in seen_edges:
                    seen_edges.add((u, v, lab))
                    out[u].append((lab, v))
                    nedges += 1
                continue
            if init is None:
                m = NODE.match(ln)
                if m and m.group(3):
                    init, init_label = m.group(1), unesc(m.group(2))
    if init is None:
        raise RuntimeError("no initial state in " + dot)
    del seen_edges
    rng = random.Random(seed)
    # BFS tree: how to reach every state
    parent = {init: None}
    order = [init]
    for u in order:
        for lab, v in out.get(u, ()):
            if v not in parent:
                parent[v] = (u, lab)
                order.append(v)
    covered = set()
    paths = []
    for u in order:
        for i, (lab, v) in enumerate(out.get(u, ())):
            if (u, i) in covered:
                continue
            pre = []
            x = u
            while parent[x] is not None:
                x, l2 = parent[x]
                pre.append(l2)
            pre.reverse()
            covered.add((u, i))
            path = pre + [lab]
            x = v
            while out.get(x):
                cands = [j for j in range(len(out[x])) if (x, j) not in covered]
                j = rng.choice(cands) if cands else rng.randrange(len(out[x]))
                covered.add((x, j))
                path.append(out[x][j][0])
                x = out[x][j][1]
            paths.append(path)
    return init_label, paths, nedges


def write_sim(ctx, prefix, init_label, paths):
    """Behaviours in the format of `tlc -simulate file=` (what vh replay -sim reads).  Only the initial state is
    spelled out: the adapter needs nothing but the action labels afterwards."""
    d = ctx.path("sim", prefix + "_0")[:-len(prefix) - 2]
    for k, p in enumerate(paths):
        with open(os.path.join(d, "%s_%d" % (prefix, k)), "w") as fh:
            fh.write("\\* <Initial predicate>\nSTATE_1 ==\n%s\n\n" % init_label)
            for i, lab in enumerate(p):
                fh.write("\\* <%s line 1, col 1 to line 1, col 2 of module CallFrames>\nSTATE_%d ==\n/\\ done = \"\"\n\n" % (lab, i + 2))
    return os.path.join(d, prefix + "_*")


def run(ctx):
    import vlib
    os.environ.setdefault("VERIF_TLC_HEAP", "2g" if ctx.quick() else "3g")
    ctx.build()
    quick = ctx.quick()
    pool = concurrent.futures.ThreadPoolExecutor(8)
    # the design runs go on in a second thread; ctx.tlc derives its -metadir from the module name and the millisecond,
    # so the two threads use differently named (otherwise identical) MC modules
    src = open(os.path.join(ctx.specdir, "MCCallFrames.tla")).read()
    with open(os.path.join(ctx.specdir, "MCCallFramesG.tla"), "w") as fh:
        fh.write(src.replace("MODULE MCCallFrames", "MODULE MCCallFramesG"))

    # ---- design side: the clauses hold on the model; the two deviation flags are negative controls
    def design():
        cfg = "MCCallFrames_quick.cfg" if quick else "MCCallFrames_thorough.cfg"
        r = ctx.tlc_exhaustive("MCCallFrames", cfg, timeout=1500, workers=8, coverage=not quick)
        if not quick:
            zero = [a for a in r.get("zero_cov", []) if a in ("Enter", "EnterTop", "SStore", "Log", "Exit", "Suicide", "Pop")]
            if zero:
                raise vlib.Broken("vacuity: actions never taken in the thorough design run: %s" % zero)
            ctx.tlc_exhaustive("MCCallFrames", "MCCallFrames_base.cfg", timeout=900, workers=8)
        ctx.tlc_exhaustive("MCCallFrames", "MCCallFrames_depth.cfg", timeout=300, workers=4)
        for cfg, want in (("MCCallFrames_negS.cfg", "FailedFrameIsNoop"), ("MCCallFrames_negG.cfg", "NoCrash")):
            neg = ctx.tlc("MCCallFrames", cfg, timeout=600, workers=4, expect_ok=False)
            ctx.extra.setdefault("negative_controls", {})[cfg] = neg["inv"]
            if neg["inv"] != want:
                raise vlib.Broken("negative control %s: expected a violation of %s, got %s\n%s" % (cfg, want, neg["inv"], neg["out"][-1500:]))
    fut_design = pool.submit(design)

    # ---- spec -> code: complete behaviours covering every edge of the small state graph(s)
    files, summ = [], None
    graphs = [("MCCallFrames_graph.cfg", "cover", 600 if quick else 0)]
    if not quick:
        graphs.append(("MCCallFrames_graph4.cfg", "cover4", 25000))     # a step deeper, 3 call kinds, no value
    for cfg, name, cap in graphs:
        dot = ctx.path(name + ".dot")
        ctx.tlc_exhaustive("MCCallFramesG", cfg, timeout=900, dump=dot, workers=4)
        init_label, paths, nedges = path_cover(dot, ctx.seed)
        os.remove(dot)
        total = len(paths)
        if cap and total > cap:
            random.Random(ctx.seed).shuffle(paths)
            paths = paths[:cap]
        g = write_sim(ctx, name, init_label, paths)
        ctx.log("state graph %s: %d edges covered by %d complete behaviours, replaying %d" % (cfg, nedges, total, len(paths)))
        fs, sm = ctx.replay("callframes", sim=g, shards=16, name="callframes-" + name)
        files += fs
        ctx.extra.setdefault("graph_covers", []).append(dict(cfg=cfg, transitions_in_graph=nedges, cover_behaviours_total=total,
                                                             cover_behaviours_replayed=len(paths)))
        if summ is None:
            summ = sm
            ctx.cov["samples"] = sm["samples"]
            ctx.extra["transitions_in_graph"] = nedges
            ctx.extra["distinct_transitions_replayed"] = nedges if len(paths) == total else None
        else:
            for k, v in sm["action_counts"].items():
                summ["action_counts"][k] = summ["action_counts"].get(k, 0) + v
    ctx.cov["exhaustive"] = not quick

    # ---- deeper behaviours of the big configuration by simulation
    nsim = 300 if quick else 8000
    glob2 = ctx.tlc_simulate("MCCallFramesG", "MCCallFrames_sim.cfg", nsim, 80, "deep", timeout=900)
    files2, summ2 = ctx.replay("callframes", sim=glob2, shards=16, name="callframes-sim")

    # ---- recording drivers: seeded random trees beyond the model's bounds; arbitrary programs
    scr = {"VERIF_SCRATCH_DIR": ctx.path("work", "drivers", ".keep")[:-6]}
    ntree, nrand, par = (200, 800, 1) if quick else (4000, 12000, 6)
    futs, tree_files, rand_files = [], [], []
    for k in range(par):
        tf, rf = ctx.path("traces", "trees.%d.ndjson" % k), ctx.path("traces", "rand.%d.ndjson" % k)
        tree_files.append(tf); rand_files.append(rf)
        futs.append(pool.submit(ctx.drive, "callframes-trees", ["-out", tf, "-seed", ctx.seed * 100 + k, "-n", ntree // par, "-depth", 4 if quick else 5], 1800, scr))
        futs.append(pool.submit(ctx.drive, "callframes-rand", ["-out", rf, "-seed", ctx.seed * 100 + k, "-n", nrand // par], 1800, scr))
    for f in futs:
        f.result()
    rnd = ctx.path("traces", "rand.ndjson")
    with open(rnd, "w") as fh:
        for rf in rand_files:
            fh.write(open(rf).read())
    # vacuity gates on what was really executed
    deepest, kinds, crashes = 0, collections.Counter(), 0
    for ln in open(rnd):
        r = json.loads(ln)
        if r.get("ev") == "Rand":
            kinds[r["kind"].split(":")[0].rstrip("0123456789")] += 1
            deepest = max(deepest, r["r1"]["maxd"])
    if deepest < 1024:
        raise vlib.Broken("vacuity: the recursion driver reached depth %d, not the limit 1024" % deepest)
    ctx.extra["deepest_real_call_depth"] = deepest
    ctx.extra["arbitrary_programs"] = dict(kinds)
    acts = collections.Counter()
    for s in (summ, summ2):
        for k, v in s["action_counts"].items():
            acts[k] += v
    for a in ("EnterTop", "Enter", "SStore", "Log", "Exit", "Suicide"):
        if not acts[a]:
            raise vlib.Broken("vacuity: action %s never replayed" % a)

    # what the real executions looked like (evidence only, no verdict)
    st = collections.Counter()
    for f in files + files2 + tree_files:
        for ln in open(f):
            if '"run":true' not in ln:
                continue
            r = json.loads(ln)
            st["programs"] += 1
            for i, x in enumerate(r["runs"]):
                st["executions"] += 1
                if x["crash"]:
                    st["executions_panicked"] += 1
                elif i >= 2:
                    st["starved_executions_" + ("ok" if x["st"] == "ok" else "failed")] += 1
                st["frame_events"] += len(x["obs"])
    ctx.extra["real_executions"] = dict(st)
    if not st["starved_executions_failed"] or not st["starved_executions_ok"]:
        raise vlib.Broken("vacuity: starved executions did not both fail and survive: %s" % dict(st))

    # ---- code -> spec: TLC re-executes what the real EVM did
    if quick:
        ctx.validate("TraceCallFrames", "TraceCallFrames.cfg", files + files2 + tree_files,
                     what="edge-cover behaviours + simulated behaviours + seeded random trees", timeout=1800)
    else:
        ctx.validate("TraceCallFrames", "TraceCallFrames.cfg", files, what="edge cover of the state graph", timeout=3000)
        ctx.validate("TraceCallFrames", "TraceCallFrames.cfg", files2 + tree_files, what="simulated behaviours + seeded random trees", timeout=3000)
    ctx.validate("TraceCallFrames", "TraceCallFrames.cfg", [rnd], what="byte strings, opcode soups, precompiles, creations, recursion",
                 timeout=1800, count_behaviours=False)
    fut_design.result()
    ctx.assumptions += [
        "universe of the tree programs: sender U, contracts A, B, C holding one dispatcher image, storage slots s1, s2, values 0..2, value transfers 0/1",
        "a frame the model lets 'fail' is compiled to a seeded concrete failure: invalid opcode, out of gas, stack underflow, bad jump, "
        "and inside read-only frames SSTORE / LOG / SELFDESTRUCT / value CALL (write protection)",
        "CREATE is exercised by the arbitrary-program driver only (no panic, gas bound, determinism, failed => unchanged), not by the tree model",
        "published events = AddEventLog entries of the change journal (Account.GetEvents is C07's concern)",
        "per-opcode arithmetic and gas tables are not specified; gas is checked by conservation (exact return accounting, 63/64 cap, never grows)"]
