"""C16 contract sandbox.  CallFrames.tla (call-frame stack over the change journal; clauses FailedFrameIsNoop,
StaticIsNoop, GasNeverGrows, GasWithinSupplied, DepthBound, NoCrash checked by TLC) generates complete executions of
call trees; each is COMPILED to real EVM bytecode, deployed into a committed base block of a real store and run on the
real vm.EVM over a real account.Manager (twice with ample gas, twice with a seeded starved gas limit); the frame-level
events recorded by a vm.Tracer, the real post-state and the gas numbers are re-executed and compared by TLC in
TraceCallFrames.tla.  Seeded drivers add deeper random trees, arbitrary byte strings / opcode soups / precompile
inputs / creations and unbounded recursion (depth limit), validated by the same trace spec.
CREATION FRAMES are a frame kind of the model (transaction-level creation and CREATE; ways to end: ok, revert, error,
returned code too big, deposit not affordable; refused for a collision): the tree is compiled to init code, the trace
spec re-executes endowment, init-code writes, inner frames, the code deposit rule and the exact gas accounting.
BOUNDARY-OPERAND layer (CallFramesBoundary.tla): TLC enumerates (opcode, operand classes, context) tuples - operands on
the edges of every range the platform checks, 256-bit exact arithmetic in the spec - each tuple is compiled into a tiny
real program, run twice on the real EVM inside a wrapper frame, and judged by TraceCallFramesBoundary.tla.  The code a
jump executes in is an operand as well: it ends with a PUSHn cut off by the end of the code, at every length modulo 8.
FRAME-LOCAL DETERMINISM (clause JumpIsFrameLocal): the frames under one root run code of different SHAPES (which marked
offset holds 0x5b as PUSH data, short / long); actions Jump(d) / BadJump(d) let a frame jump to a class of destination;
the jump goes on iff the destination is a JUMPDEST of the code the frame itself runs - whatever other code (init code of an
earlier creation, caller, callee) was analysed before under the same root.  The tracer reads the shape off the code the
frame really runs; TraceCallFrames.tla judges every jump by that shape alone."""
import os, re, json, time, random, threading, collections, concurrent.futures
LEVEL = "model_checking"

MANIFEST = dict(
    level="model_checking",
    text="TLC checks the six sandbox clauses on every reachable state of the call-frame model (4 call kinds x {ok, revert, fail, selfdestruct} x "
         "sstore/log/value transfer, nested to depth 3, journal-based revert; the two known journal defects as negative controls) and of the "
         "creation-frame model (transaction-level creation and CREATE x {ok, revert, fail, selfdestruct, returned code longer than the maximum, "
         "code deposit not paid for by the gas left} x endowment / storage written by the init code / inner calls and creations, creations "
         "refused for an address collision; a creation whose deposit failure is not rolled back as negative control). Every transition of "
         "the small state graph is covered by complete TLC behaviours, each compiled to real EVM bytecode and executed on the real EVM + account "
         "manager + store; TLC re-executes the frame events a vm.Tracer recorded (context, read-only, success flag, exact gas accounting, 63/64 rule) "
         "and requires the real post-state to equal the re-executed world (all-or-nothing, read-only is a no-op), identical twin runs (determinism), "
         "gas left <= supplied and depth <= 1024. A creation frame is re-executed with the platform's deposit rule: it succeeds iff the returned "
         "code is at most 24576 bytes and 200 gas per byte are left, then exactly the deposit is charged; otherwise endowment, init-code storage "
         "and inner frames are undone, all its gas is gone and only the failure record stays; starved runs put the gas limit one unit below "
         "what the deposit needs. Simulated deeper behaviours (all five frame kinds), seeded random trees, random byte strings, opcode soups "
         "(a third of them wrapped into code that jumps and ends with a truncated PUSH), precompile "
         "inputs and unbounded recursion are validated the same way. Frame-local determinism: every account of the universe and every init "
         "code holds the program image in a code shape of its own (6 shapes: which of 3 marked offsets is a 0x5b byte inside PUSH data - a "
         "JUMPDEST instruction in the other shapes -, code short or 66 bytes longer with a JUMPDEST at its end); frames jump to the classes "
         "{next byte, marked offset 0/1/2, far end}; the model (clause JumpIsFrameLocal; negative control: one analysis cache slot shared by all "
         "init codes) lets the jump go on iff the destination is a JUMPDEST of the code the frame itself runs, else the frame fails as a no-op; "
         "every edge of a graph with two nested creations of different shapes (creation -> call -> creation) is replayed, the simulated "
         "behaviours and the seeded trees (seeded shapes) jump as well; TLC judges each real jump by the shape read off the code that frame "
         "really ran: results must not depend on what else ran in the same call tree. Boundary-operand layer: for 54 opcodes taking memory / data offsets, lengths, "
         "gas, value, address, jump-destination or arithmetic operands TLC enumerates (opcode, operand-class tuple, context) with operand classes "
         "0,1,31,32,33,N-1,N,N+1,2^32-1,2^32,2^63,2^64-1,2^64,2^64+1,2^128,2^255,2^256-1 (N = memory / return data / call data / code length, "
         "balance, stipend), contexts {prior call left return data} x {read-only frame} x {ample, starved gas}; every tuple is compiled to a real "
         "program and run twice on the real EVM; TLC judges: no panic, identical runs, gas never grows, failed / read-only frame leaves the state "
         "untouched, the demanded outcome (exact 256-bit arithmetic: out-of-bounds RETURNDATACOPY and unaffordable memory must fail, the rest must "
         "succeed) and exact memory size, copied / returned bytes and fixed result words. For JUMP / JUMPI the code itself is an operand: it "
         "ends with PUSHn (n in 1,2,7,8,9,15,16,17,23,24,25,31,32) of whose data 0, 1, n-1 or n bytes are there, at every code length modulo 8, "
         "short or 40 000 bytes long, destinations: the JUMPDEST, a 0x5b byte in the cut-off data, the last byte, the first byte behind the code. Quick: all tuples of the three copy opcodes, of EXTCODECOPY "
         "from the data contract and of the small families (jumps, storage, MSTORE, account opcodes) + a seeded 1/16 sample of the rest; "
         "thorough: every tuple.",
    note="Published events are counted from the change journal (what a block publishes); the platform's failure event after a failed call is "
         "modelled as the allowed effect. Three genuine defects are carried as named deviations: a frame that fails after one of its inner calls "
         "failed and a later one wrote again panics the node (Dev_NestedFailVersionGapPanics); reverting across SELFDESTRUCT loses storage "
         "written earlier in the block (Dev_RevertAcrossSuicideLosesStorage) and the code of a contract created earlier in the block: later "
         "calls towards it are refused, its code cannot be loaded after the transaction (Dev_RevertAcrossSuicideLosesCode).",
    technique="TLA+ model checking (CallFrames.tla) + TLC behaviours compiled to EVM bytecode and run on the real EVM + TLC trace validation "
              "(TraceCallFrames.tla re-executes the recorded frame events)")

NODE = re.compile(r'^(-?\d+) \[label="(.*)"(,style = filled)?\]\s*;?$')
EDGE = re.compile(r'^(-?\d+) -> (-?\d+) \[label="(.*?)",color=')


def unesc(s):
    return s.replace("\\n", "\n").replace('\\"', '"').replace("\\\\", "\\")


def path_cover(dot, seed):
    """Complete behaviours (initial state -> terminal state) of the dumped state graph that together cover every
    edge.  Returns (init_state_text, list of label lists, number of edges)."""
    out = collections.defaultdict(list)
    init = None
    init_label = None
    nedges = 0
    seen_edges = set()
    with open(dot) as fh:
        for ln in fh:
            ln = ln.rstrip("\n")
            m = EDGE.match(ln)
            if m:
                u, v, lab = m.group(1), m.group(2), unesc(m.group(3))
                if (u, v, lab) not in seen_edges:
                    seen_edges.add((u, v, lab))
                    out[u].append((lab, v))
                    nedges += 1
                continue
            if init is None:
                m = NODE.match(ln)
                if m and m.group(3):
                    init, init_label = m.group(1), unesc(m.group(2))
    if init is None:
        raise RuntimeError("no initial state in " + dot)
    del seen_edges
    rng = random.Random(seed)
    # BFS tree: how to reach every state
    parent = {init: None}
    order = [init]
    for u in order:
        for lab, v in out.get(u, ()):
            if v not in parent:
                parent[v] = (u, lab)
                order.append(v)
    covered = set()
    paths = []
    for u in order:
        for i, (lab, v) in enumerate(out.get(u, ())):
            if (u, i) in covered:
                continue
            pre = []
            x = u
            while parent[x] is not None:
                x, l2 = parent[x]
                pre.append(l2)
            pre.reverse()
            covered.add((u, i))
            path = pre + [lab]
            x = v
            while out.get(x):
                cands = [j for j in range(len(out[x])) if (x, j) not in covered]
                j = rng.choice(cands) if cands else rng.randrange(len(out[x]))
                covered.add((x, j))
                path.append(out[x][j][0])
                x = out[x][j][1]
            paths.append(path)
    return init_label, paths, nedges


def write_sim(ctx, prefix, init_label, paths):
    """Behaviours in the format of `tlc -simulate file=` (what vh replay -sim reads).  Only the initial state is
    spelled out: the adapter needs nothing but the action labels afterwards."""
    d = ctx.path("sim", prefix + "_0")[:-len(prefix) - 2]
    for k, p in enumerate(paths):
        with open(os.path.join(d, "%s_%d" % (prefix, k)), "w") as fh:
            fh.write("\\* <Initial predicate>\nSTATE_1 ==\n%s\n\n" % init_label)
            for i, lab in enumerate(p):
                fh.write("\\* <%s line 1, col 1 to line 1, col 2 of module CallFrames>\nSTATE_%d ==\n/\\ done = \"\"\n\n" % (lab, i + 2))
    return os.path.join(d, prefix + "_*")


BND_MODELS = ("wrap64", "trunc64", "wrap256", "trunc32", "offonly")


def boundary_layer(ctx, pool):
    """Boundary-operand layer; returns a closure that finishes it (drive + validate) once the enumeration is there."""
    import vlib
    quick = ctx.quick()
    spec = ctx.specdir
    # (ctx.violation numbers its replay files by the violations recorded so far: one validator at a time in there)
    lock, record = threading.Lock(), ctx.violation

    def locked(*a, **kw):
        with lock:
            return record(*a, **kw)
    ctx.violation = locked
    cfg = open(os.path.join(spec, "MCCallFramesBoundary_quick.cfg" if quick else "MCCallFramesBoundary_thorough.cfg")).read()
    with open(os.path.join(spec, "MCCallFramesBoundary_run.cfg"), "w") as fh:
        fh.write(cfg.replace("@SEED@", str(ctx.seed)))
    # negative controls run as a module of their own name (ctx.tlc derives its scratch names from the module name)
    src = open(os.path.join(spec, "MCCallFramesBoundary.tla")).read()
    with open(os.path.join(spec, "MCCallFramesBoundaryN.tla"), "w") as fh:
        fh.write(src.replace("MODULE MCCallFramesBoundary", "MODULE MCCallFramesBoundaryN"))
    neg = open(os.path.join(spec, "MCCallFramesBoundary_neg.cfg")).read()
    dot = ctx.path("boundary.dot")

    def enumerate_tuples():
        r = ctx.tlc_exhaustive("MCCallFramesBoundary", "MCCallFramesBoundary_run.cfg", timeout=1500, dump=dot, workers=16 if quick else 12)
        return r

    def negative_controls():
        # every careless arithmetic of the bounds check must be told apart from the exact sum by some enumerated tuple
        for m in BND_MODELS if not quick else BND_MODELS[:2]:
            c = "MCCallFramesBoundary_neg_%s.cfg" % m
            with open(os.path.join(spec, c), "w") as fh:
                fh.write(neg.replace("@MODEL@", m))
            r = ctx.tlc("MCCallFramesBoundaryN", c, timeout=600, workers=4, expect_ok=False)
            ctx.extra.setdefault("negative_controls", {})["boundary:" + m] = r["inv"]
            if r["inv"] != "ImplBoundsAgree":
                raise vlib.Broken("negative control boundary/%s: expected a violation of ImplBoundsAgree, got %s\n%s" % (m, r["inv"], r["out"][-1500:]))
    fut_enum = pool.submit(enumerate_tuples)
    fut_neg = pool.submit(negative_controls)

    def finish():
        fut_enum.result()
        ntuples = 0
        with open(dot) as fh:
            for ln in fh:
                if 'stage = \\"tuple\\"' in ln and "->" not in ln[:48]:
                    ntuples += 1
        shards = 16
        scr = ctx.path("work", "boundary", ".keep")[:-6]

        def one(i):
            out = ctx.path("traces", "boundary.%d.ndjson" % i)
            rr = ctx.drive("callframes-boundary", ["-graph", dot, "-shard", "%d/%d" % (i, shards), "-seed", ctx.seed, "-out", out], 2400,
                           {"VERIF_SCRATCH_DIR": os.path.join(scr, str(i))})
            return out, json.loads(rr.stdout.strip().splitlines()[-1])["rows"]
        t = time.time()
        with concurrent.futures.ThreadPoolExecutor(shards) as ex:
            res = list(ex.map(one, range(shards)))
        os.remove(dot)
        files = [r[0] for r in res]
        rows = sum(r[1] for r in res)
        ctx.log("boundary layer: %d tuples compiled and run on the real EVM in %.1fs" % (rows, time.time() - t))
        if rows != ntuples or rows == 0:
            raise vlib.Broken("boundary layer: %d rows for %d enumerated tuples" % (rows, ntuples))
        # what the real runs looked like (evidence and vacuity gates, no verdict)
        st = collections.Counter()
        sample = None
        for f in files:
            for ln in open(f):
                if '"ev":"Bnd"' not in ln:
                    continue
                head = ln[:ln.index('"g":')]
                op = ln[ln.index('"op":"') + 6:]
                op = op[:op.index('"')]
                ok = json.loads(ln[ln.index('"r1":') + 5:ln.index(',"r2":')])
                st[(op, "ok" if ok[3] == 1 else "failed")] += 1
                if op in ("JUMP", "JUMPI"):                      # the code-shape classes
                    i = ln.index('"cls":') + 6
                    if json.loads(ln[i:ln.index("]", i) + 1])[-4] != "none":
                        st[("shaped code", "ok" if ok[3] == 1 else "failed")] += 1
                if ok[0]:
                    st["panicked"] += 1
                if sample is None and op == "RETURNDATACOPY" and ok[3] == 1:
                    cand = json.loads(ln)
                    if cand["cls"][2] not in ("0", "1") and cand["cls"][0] != "0":
                        sample = cand
        ops = sorted({k[0] for k in st if isinstance(k, tuple) and k[0] != "shaped code"})
        ctx.extra["boundary_code_shapes"] = dict(frames_ok=st[("shaped code", "ok")], frames_failed=st[("shaped code", "failed")])
        ctx.extra["boundary_layer"] = dict(tuples=rows, opcodes=len(ops), panicked_runs=st["panicked"],
                                           frames_ok={o: st[(o, "ok")] for o in ops}, frames_failed={o: st[(o, "failed")] for o in ops})
        gate = ("RETURNDATACOPY", "CALLDATACOPY", "CODECOPY", "EXTCODECOPY", "JUMP", "JUMPI", "shaped code", "MSTORE", "SSTORE", "SELFDESTRUCT")   # complete in both tiers
        if not quick:
            gate += ("CALL", "CALLCODE", "DELEGATECALL", "STATICCALL", "RETURN", "SHA3", "LOG0", "LOG4", "CREATE")
        for o in gate:
            if not st[(o, "ok")] or not st[(o, "failed")]:
                raise vlib.Broken("vacuity: boundary tuples of %s did not both succeed and fail: %d / %d" % (o, st[(o, "ok")], st[(o, "failed")]))
        if sample is not None:
            ctx.cov["samples"] = (ctx.cov.get("samples") or [])[:2] + [sample]
        # code -> spec: several validators side by side, each under a module name of its own
        slots = 8
        tsrc = open(os.path.join(spec, "TraceCallFramesBoundary.tla")).read()
        tcfg = open(os.path.join(spec, "TraceCallFramesBoundary.cfg")).read()
        for k in range(slots):
            with open(os.path.join(spec, "TraceCallFramesBoundary_%d.tla" % k), "w") as fh:
                fh.write(tsrc.replace("MODULE TraceCallFramesBoundary", "MODULE TraceCallFramesBoundary_%d" % k))
            with open(os.path.join(spec, "TraceCallFramesBoundary_%d.cfg" % k), "w") as fh:
                fh.write(tcfg)

        def val(k):
            return ctx.validate("TraceCallFramesBoundary_%d" % k, "TraceCallFramesBoundary_%d.cfg" % k, files[k::slots],
                                what="boundary-operand tuples", timeout=2400, count_behaviours=False)
        with concurrent.futures.ThreadPoolExecutor(slots) as ex:
            oks = list(ex.map(val, range(slots)))
        if all(oks):
            ctx.cov["traces_validated_against_impl"] += rows
        fut_neg.result()
    return finish


def run(ctx):
    import vlib
    os.environ.setdefault("VERIF_TLC_HEAP", "2g" if ctx.quick() else "3g")
    ctx.build()
    quick = ctx.quick()
    pool = concurrent.futures.ThreadPoolExecutor(24)
    fut_boundary = pool.submit(boundary_layer(ctx, pool))      # enumerates, then drives and validates, next to everything else
    # the design runs go on in a second thread; ctx.tlc derives its -metadir from the module name and the millisecond,
    # so the two threads use differently named (otherwise identical) MC modules
    src = open(os.path.join(ctx.specdir, "MCCallFrames.tla")).read()
    with open(os.path.join(ctx.specdir, "MCCallFramesG.tla"), "w") as fh:
        fh.write(src.replace("MODULE MCCallFrames", "MODULE MCCallFramesG"))

    # ---- design side: the clauses hold on the model; the two deviation flags are negative controls
    def design():
        cfg = "MCCallFrames_quick.cfg" if quick else "MCCallFrames_thorough.cfg"
        r = ctx.tlc_exhaustive("MCCallFrames", cfg, timeout=1500, workers=8, coverage=not quick)
        if not quick:
            zero = [a for a in r.get("zero_cov", []) if a in ("Enter", "EnterTop", "SStore", "Log", "Exit", "Suicide", "Pop")]
            if zero:
                raise vlib.Broken("vacuity: actions never taken in the thorough design run: %s" % zero)
            ctx.tlc_exhaustive("MCCallFrames", "MCCallFrames_base.cfg", timeout=900, workers=8)
        ctx.tlc_exhaustive("MCCallFrames", "MCCallFrames_depth.cfg", timeout=300, workers=4)
        for cfg, want in (("MCCallFrames_negS.cfg", "FailedFrameIsNoop"), ("MCCallFrames_negG.cfg", "NoCrash"), ("MCCallFrames_negC.cfg", "FailedFrameIsNoop"),
                          ("MCCallFrames_negJ.cfg", "JumpIsFrameLocal"), ("MCCallFrames_negL.cfg", "FailedFrameIsNoop")):
            neg = ctx.tlc("MCCallFrames", cfg, timeout=600, workers=4, expect_ok=False)
            ctx.extra.setdefault("negative_controls", {})[cfg] = neg["inv"]
            if neg["inv"] != want:
                raise vlib.Broken("negative control %s: expected a violation of %s, got %s\n%s" % (cfg, want, neg["inv"], neg["out"][-1500:]))
    fut_design = pool.submit(design)

    # ---- spec -> code: complete behaviours covering every edge of the small state graph(s)
    # creation frames: transaction-level creation and CREATE, every way a creation frame ends (ok, revert, error, code too
    # big, deposit not affordable), endowment, storage written by the init code, inner calls; collisions
    graphs = [("MCCallFrames_graph.cfg", "cover", 600 if quick else 0),
              ("MCCallFrames_create.cfg", "create", 500 if quick else 0),
              ("MCCallFrames_collide.cfg", "collide", 150 if quick else 1500),
              # code shapes: creation -> call -> creation, every frame jumps to every class of destination
              ("MCCallFrames_shapes.cfg", "shapes", 900 if quick else 0)]
    if not quick:
        graphs.append(("MCCallFrames_shapesB.cfg", "shapesB", 0))       # the shapes the other way round (long code first)
        graphs.append(("MCCallFrames_graph4.cfg", "cover4", 25000))     # a step deeper, 3 call kinds, no value
        graphs.append(("MCCallFrames_create2.cfg", "create2", 6000))    # two contracts, one of them colliding

    def graph_job(idx, cfg, name, cap):
        mod = "MCCallFramesG%d" % idx                                   # (a module name of its own: see above)
        with open(os.path.join(ctx.specdir, mod + ".tla"), "w") as fh:
            fh.write(src.replace("MODULE MCCallFrames", "MODULE " + mod))
        dot = ctx.path(name + ".dot")
        ctx.tlc_exhaustive(mod, cfg, timeout=900, dump=dot, workers=4)
        init_label, paths, nedges = path_cover(dot, ctx.seed)
        os.remove(dot)
        total = len(paths)
        if cap and total > cap:
            random.Random(ctx.seed).shuffle(paths)
            paths = paths[:cap]
        g = write_sim(ctx, name, init_label, paths)
        ctx.log("state graph %s: %d edges covered by %d complete behaviours, replaying %d" % (cfg, nedges, total, len(paths)))
        fs, sm = ctx.replay("callframes", sim=g, shards=16 if len(paths) > 2000 else 8, name="callframes-" + name)
        return dict(cfg=cfg, transitions_in_graph=nedges, cover_behaviours_total=total, cover_behaviours_replayed=len(paths)), fs, sm

    # ---- deeper behaviours of the big configuration (all five frame kinds) by simulation
    def sim_job():
        nsim = 300 if quick else 8000
        glob2 = ctx.tlc_simulate("MCCallFramesG", "MCCallFrames_sim.cfg", nsim, 80, "deep", timeout=900)
        return ctx.replay("callframes", sim=glob2, shards=16, name="callframes-sim")
    gfuts = [pool.submit(graph_job, i, *g) for i, g in enumerate(graphs)]
    fut_sim = pool.submit(sim_job)
    files, summ = [], None
    for f in gfuts:
        info, fs, sm = f.result()
        files += fs
        ctx.extra.setdefault("graph_covers", []).append(info)
        if summ is None:
            summ = sm
            ctx.cov["samples"] = sm["samples"]
            ctx.extra["transitions_in_graph"] = info["transitions_in_graph"]
            ctx.extra["distinct_transitions_replayed"] = info["transitions_in_graph"] if info["cover_behaviours_replayed"] == info["cover_behaviours_total"] else None
        else:
            for k, v in sm["action_counts"].items():
                summ["action_counts"][k] = summ["action_counts"].get(k, 0) + v
    ctx.cov["exhaustive"] = not quick
    files2, summ2 = fut_sim.result()

    # ---- recording drivers: seeded random trees beyond the model's bounds; arbitrary programs
    scr = {"VERIF_SCRATCH_DIR": ctx.path("work", "drivers", ".keep")[:-6]}
    ntree, nrand, par = (200, 800, 1) if quick else (4000, 12000, 6)
    futs, tree_files, rand_files = [], [], []
    for k in range(par):
        tf, rf = ctx.path("traces", "trees.%d.ndjson" % k), ctx.path("traces", "rand.%d.ndjson" % k)
        tree_files.append(tf); rand_files.append(rf)
        futs.append(pool.submit(ctx.drive, "callframes-trees", ["-out", tf, "-seed", ctx.seed * 100 + k, "-n", ntree // par, "-depth", 4 if quick else 5], 1800, scr))
        futs.append(pool.submit(ctx.drive, "callframes-rand", ["-out", rf, "-seed", ctx.seed * 100 + k, "-n", nrand // par], 1800, scr))
    for f in futs:
        f.result()
    rnd = ctx.path("traces", "rand.ndjson")
    with open(rnd, "w") as fh:
        for rf in rand_files:
            fh.write(open(rf).read())
    # vacuity gates on what was really executed
    deepest, kinds, crashes = 0, collections.Counter(), 0
    for ln in open(rnd):
        r = json.loads(ln)
        if r.get("ev") == "Rand":
            kinds[r["kind"].split(":")[0].rstrip("0123456789")] += 1
            deepest = max(deepest, r["r1"]["maxd"])
    if deepest < 1024:
        raise vlib.Broken("vacuity: the recursion driver reached depth %d, not the limit 1024" % deepest)
    ctx.extra["deepest_real_call_depth"] = deepest
    ctx.extra["arbitrary_programs"] = dict(kinds)
    acts = collections.Counter()
    for s in (summ, summ2):
        for k, v in s["action_counts"].items():
            acts[k] += v
    for a in ("EnterTop", "Enter", "SStore", "Log", "Exit", "Suicide", "Collide", "Jump", "BadJump"):
        if not acts[a]:
            raise vlib.Broken("vacuity: action %s never replayed" % a)

    # what the real executions looked like (evidence only, no verdict)
    st = collections.Counter()
    for f in files + files2 + tree_files:
        for ln in open(f):
            if '"run":true' not in ln:
                continue
            r = json.loads(ln)
            st["programs"] += 1
            if r.get("capped"):
                st["programs_with_capped_gas"] += 1
            for i, x in enumerate(r["runs"]):
                st["executions"] += 1
                ob = x["obs"]
                for j, e in enumerate(ob):              # how the creation frames went, how the jumps
                    if e["t"] == "jump":
                        rej = j + 1 < len(ob) and ob[j + 1]["t"] == "end" and ob[j + 1]["k"] == "err" and ob[j + 1]["x"] and ob[j + 1]["op"] == "JUMP" and ob[j + 1]["pc"] == e["pc"]
                        st["jumps_" + {"next": "next", "far": "far"}.get(e["s"], "marked") + ("_rejected" if rej else "_on")] += 1
                        st["jumps_in_shape_%d" % e["v"]] += 1
                    elif e["t"] == "call" and e["k"] == "create":
                        st["creations"] += 1
                        if j + 1 < len(ob) and ob[j + 1]["t"] == "ret":
                            st["creations_refused"] += 1
                    elif e["t"] == "end" and e["cf"]:
                        left = e["g"] - e["c"]
                        how = e["k"]
                        if how in ("stop", "suicide"):
                            how = "toobig" if e["rl"] > 24576 else "nodeposit" if 200 * e["rl"] > left else "deposited"
                        st["creation_frames_" + how] += 1
                if x["crash"]:
                    st["executions_panicked"] += 1
                elif i >= 2:
                    st["starved_executions_" + ("ok" if x["st"] == "ok" else "failed")] += 1
                st["frame_events"] += len(x["obs"])
    ctx.extra["real_executions"] = dict(st)
    if not st["starved_executions_failed"] or not st["starved_executions_ok"]:
        raise vlib.Broken("vacuity: starved executions did not both fail and survive: %s" % dict(st))
    for k in ("creations_refused", "creation_frames_deposited", "creation_frames_toobig", "creation_frames_nodeposit", "creation_frames_revert", "creation_frames_err"):
        if st[k] < 5:
            raise vlib.Broken("vacuity: creation frames: %s = %d in the real executions: %s" % (k, st[k], dict(st)))
    for k in ("jumps_next_on", "jumps_marked_on", "jumps_marked_rejected", "jumps_far_on", "jumps_far_rejected") + tuple("jumps_in_shape_%d" % i for i in range(6)):
        if st[k] < 5:
            raise vlib.Broken("vacuity: code shapes: %s = %d in the real executions: %s" % (k, st[k], dict(st)))
    if st["programs_with_capped_gas"] * 20 > st["programs"]:
        raise vlib.Broken("vacuity: %d of %d programs ran with a capped gas plan" % (st["programs_with_capped_gas"], st["programs"]))

    # ---- code -> spec: TLC re-executes what the real EVM did (several validators side by side, each under a module
    # name of its own)
    tsrc = open(os.path.join(ctx.specdir, "TraceCallFrames.tla")).read()
    tcfg = open(os.path.join(ctx.specdir, "TraceCallFrames.cfg")).read()
    slots = 4 if quick else 6
    for k in range(slots + 1):
        with open(os.path.join(ctx.specdir, "TraceCallFrames_v%d.tla" % k), "w") as fh:
            fh.write(tsrc.replace("MODULE TraceCallFrames", "MODULE TraceCallFrames_v%d" % k))
        with open(os.path.join(ctx.specdir, "TraceCallFrames_v%d.cfg" % k), "w") as fh:
            fh.write(tcfg)
    allf = [f for f in files + files2 + tree_files if os.path.getsize(f) > 0]
    allf.sort(key=os.path.getsize, reverse=True)
    groups = [[] for _ in range(slots)]
    for i, f in enumerate(allf):                                         # biggest first, round robin
        groups[i % slots].append(f)

    def val(k):
        if k == slots:
            return ctx.validate("TraceCallFrames_v%d" % k, "TraceCallFrames_v%d.cfg" % k, [rnd],
                                what="byte strings, opcode soups, precompiles, creations, recursion", timeout=1800, count_behaviours=False)
        if not groups[k]:
            return True
        return ctx.validate("TraceCallFrames_v%d" % k, "TraceCallFrames_v%d.cfg" % k, groups[k],
                            what="edge-cover behaviours + simulated behaviours + seeded random trees", timeout=3000)
    list(pool.map(val, range(slots + 1)))
    fut_design.result()
    fut_boundary.result()
    ctx.assumptions += [
        "universe of the tree programs: sender U, contracts A, B, C holding one dispatcher image, storage slots s1, s2, values 0..2, value transfers 0/1",
        "a frame the model lets 'fail' is compiled to a seeded concrete failure: invalid opcode, out of gas, stack underflow, bad jump, "
        "and inside read-only frames SSTORE / LOG / SELFDESTRUCT / value CALL (write protection)",
        "creation frames: an account creates at most one address per transaction (address = f(creator, tx hash), as the platform derives it); "
        "the new contract's code is the program image (or 24576 zero bytes); creations issued by a contract created in the same transaction are "
        "not generated; the code deposit rule (24576 bytes, 200 gas per byte) is a constant of the trace spec; a creation towards an address "
        "that holds something may be refused (collision) or carried out - both are accepted, refused only if nothing changes",
        "the init code that must fail the deposit burns its gas below 100 000 by read-only calls of the modexp precompile (a callee without "
        "account: modelled as a call that runs no code, changes nothing and may burn what it was given) and returns 1000 bytes",
        "code shapes: every image of a tree has one layout; the shapes differ in three marked slots behind the header (PUSH1 0x5b POP in the "
        "shape's own slot, JUMPDEST JUMPDEST JUMP - a trampoline - elsewhere) and in a tail of 64 STOP + JUMPDEST JUMP; a creating frame "
        "re-shapes the copy of its own image in memory; the code a creation deposits has the shape of its init code; the shape of a frame's "
        "code is read off contract.Code by the tracer, the destination class off the JUMP operand; jumps of the dispatcher are not classified",
        "published events = AddEventLog entries of the change journal (Account.GetEvents is C07's concern)",
        "per-opcode arithmetic and gas tables are not specified; gas is checked by conservation (exact return accounting, 63/64 cap, never grows)",
        "boundary layer: memory up to 4 KiB is affordable with the 1 000 000 gas of the ample context, 2^32-1 bytes and more with no gas limit "
        "(TLC invariant RangesDecided: no enumerated range lies in between); the state is compared by a fingerprint over the accounts the program "
        "can name (sender, wrappers, returner, itself, its address operand, the contract it creates), its storage under the key classes, and the "
        "published logs / creation records; arithmetic results are fixed only for division by zero, jumps, EXTCODESIZE and unaffordable value "
        "transfers; CREATE init code is the 64 pattern bytes of memory"]
