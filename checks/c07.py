"""C07 change journal.  Journal.tla (journal entries with old values and provisional versions, revision stack,
backward undo, Finalise with roots and root logs, Save) is model-checked by TLC: undoing down to any live revision yields
the copy saved at its Snapshot, never panics, undoing everything yields the committed parent state, the sealed block is the
block of a run that executed only the surviving writes.  Every behaviour of the bounded configurations (one block of
setter / Snapshot / Revert calls on top of an empty or a populated committed state, then Seal) is performed on a real
account.Manager over a real ChainDatabase; the full getter projection logged after every step - and, at Seal, the published
logs, the replayed, the re-read and the reverts-free block - is validated by TLC against TraceJournal.tla.
JournalMiner.tla is the miner side: every candidate list x block gas limit of the model is walked by the real
TxProcessor.ApplyTxs of a real node and compared (TraceJournalMiner.tla) with a miner that was offered the packaged
transactions only."""
import concurrent.futures, glob, json, os, time
import vlib
LEVEL = "model_checking"

MANIFEST = dict(
    level="model_checking",
    text="TLC checks on every reachable state of seven bounded configurations of the journal model (contract account: balance/storage/"
         "code/self-destruct/events; asset-holding contract; asset issuer; candidate/votes/signers; two interleaved accounts; "
         "snapshots nested to depth 2-3; creations of every kind of entry that get reverted and are followed by further writes; "
         "empty and populated parent state) that undoing the journal down to ANY live revision reproduces the copy saved at its "
         "Snapshot, that revert never fails, that undoing everything gives the parent state and that the sealed block (state, roots, "
         "published logs, root logs) is the block of a run that executed only the surviving writes; all those behaviours plus random "
         "long behaviours of the full 2-account/17-setter model are executed on a real account.Manager (real database, real tries) "
         "and the complete getter projection after every step is validated by TLC: post-revert projection = projection at the "
         "Snapshot, journal length cut back, no panic; after sealing: RebuildAll of the published logs on the parent state gives the "
         "executed state with all roots, the block equals (getters, roots, published logs with versions and hashes) the block a "
         "second manager builds from the surviving setter calls alone, Save succeeds and a fresh manager on the saved block reads "
         "the executed state.  Miner side: for every list of up to 2 (thorough: 3) of 15 candidate classes (valid transfers, asset "
         "creation, bad signature, unpayable gas, transfer failing after the gas purchase, boxes that succeed, whose later "
         "sub-transaction is invalid / over-spends / exceeds the remaining block gas, boxes whose first sub-transaction creates an "
         "asset, a storage slot, an asset id + equity, a profile key) under 5 block gas limits the real TxProcessor.ApplyTxs of a "
         "real node must classify the candidates as the model does and leave exactly the journal, state, published logs, roots and "
         "block hash of a miner that was offered the packaged transactions only.",
    note="Genuine defects of /repo are carried as named deviations (known_findings.txt), each accepted only with exactly "
         "the outcome the deviation model predicts and each with a design-side negative control. Projection treats an "
         "absent entry and an empty-string entry alike (profile keys, asset-id metadata) and the zero and the empty-code hash alike; "
         "the roots do tell them apart.",
    technique="TLA+ model checking (Journal.tla, JournalMiner.tla) + replay of the TLC state graphs and simulations on the real "
              "account.Manager / TxProcessor + TLC trace validation (TraceJournal.tla, TraceJournalMiner.tla)")

DEVS = ["Dev_RevertVersionGapPanics", "Dev_UndoFirstEquityPanics", "Dev_UndoCodeDropsPreviousCode",
        "Dev_UndoSuicideShallow", "Dev_UndoEventNoop", "Dev_MergeAcrossSuicide", "Dev_WorthlessSuicideDropped",
        "Dev_EmptyWriteLeavesEmptyRoot", "Dev_SaveFailsOnDirtyEmptyCode", "Dev_UndoAssetProfileKeyLeavesEmptyEntry"]

# miner side: what kind of discard a dropped candidate class exercises
PRE, POST, BOXES = {"badsig", "poor"}, {"over"}, {"boxpay", "boxbad", "boxover", "boxasset", "boxstore", "boxissue", "boxfreeze"}


def setcfg(ctx, cfg, out, **kv):
    txt = open(ctx.specdir + "/" + cfg).read()
    for k, v in kv.items():
        txt = txt.replace(k, str(v))
    open(ctx.specdir + "/" + out, "w").write(txt)
    return out


def validate(ctx, module, slot, cfg, files, **kw):
    """ctx.validate under a per-slot copy of the trace module: validations running side by side get their own work dirs."""
    m = "%s_%s" % (module, slot)
    txt = open("%s/%s.tla" % (ctx.specdir, module)).read().replace("---- MODULE %s ----" % module, "---- MODULE %s ----" % m)
    open("%s/%s.tla" % (ctx.specdir, m), "w").write(txt)
    return ctx.validate(m, cfg, files, **kw)


def miner_coverage(files):
    """Which discard paths the real miner took (counted from the traces; evidence only, the verdict is TLC's)."""
    c = dict(lists=0, packaged=0, invalid_before_any_write=0, invalid_after_gas_purchase=0, box_invalid_after_sub_transactions=0,
             box_left_block_full=0, plain_left_block_full=0)
    for f in files:
        for ln in open(f):
            e = json.loads(ln)
            if e.get("ev") != "Mine":
                continue
            c["lists"] += 1
            c["packaged"] += len(e["sel"])
            for x in e["inv"]:
                if x in PRE:
                    c["invalid_before_any_write"] += 1
                elif x in POST:
                    c["invalid_after_gas_purchase"] += 1
                elif x in BOXES:
                    c["box_invalid_after_sub_transactions"] += 1
            # neither packaged nor invalid: left for a later block (block gas limit reached, or the walk had ended)
            for x in e["a"][0]:
                if x not in e["sel"] and x not in e["inv"]:
                    c["box_left_block_full" if x in BOXES else "plain_left_block_full"] += 1
    return c


def run(ctx):
    # up to 20 small TLC runs side by side: keep the JVMs small (the biggest trace validation needs < 2 GB)
    os.environ.setdefault("VERIF_TLC_HEAP", "3g")
    ctx.build()
    quick = ctx.quick()
    depth = dict(Contract=4, Hold=4, Asset=4, Cand=3, Two=4, Nest=8, Create=6) if quick else \
        dict(Contract=5, Hold=5, Asset=5, Cand=4, Two=5, Nest=10, Create=7)
    # Create: [write]; Snapshot; 1-2 creating / modifying writes; Revert; [write]; Seal - one outer write in the quick tier, two in thorough
    shape = {} if quick else {"MaxOuter = 1": "MaxOuter = 2"}
    limit = 0
    pool = concurrent.futures.ThreadPoolExecutor(32)    # >= number of TLC runs: all start at their own offset

    # ---- design side: the clauses hold on the design (all deviations off) ...
    def design(i_g):
        i, g = i_g
        time.sleep(0.1 * i)     # distinct TLC metadirs (named by millisecond)
        cfg = setcfg(ctx, "MCJournal_%s.cfg" % g, "MCJournal_%s.run.cfg" % g,
                     **dict({"MaxSteps = 6": "MaxSteps = %d" % depth[g]}, **(shape if g == "Create" else {})))
        dot = ctx.path("dot", g + ".dot")
        ctx.tlc_exhaustive("MCJournal", cfg, timeout=900, dump=dot, workers=4)
        return g, dot

    # ... and each deviation switched on violates them (negative controls)
    def neg(i_dev):
        i, dev = i_dev
        time.sleep(0.1 * (i + len(depth)))
        gap = dev == "Dev_RevertVersionGapPanics"
        cfg = setcfg(ctx, "MCJournal_Neg.cfg", "MCJournal_Neg.%s.cfg" % dev,
                     **{"@DEV@": dev, "@KINDS@": "KindsNegGap" if gap else "KindsNegAsset" if "AssetProfile" in dev else "KindsNeg",
                        "@STEPS@": 7 if gap else 5})
        r = ctx.tlc("MCJournal", cfg, timeout=600, expect_ok=False, workers=2)
        return dev, r["inv"]

    # ---- miner side (runs next to the journal side): design, negative control, every transition on the real processor
    def miner():
        time.sleep(0.1 * (len(depth) + len(DEVS) + 1))
        graphs = [("miner2", "MCJournalMiner.cfg")] + ([] if quick else [("miner3", "MCJournalMiner_3.cfg")])
        r = ctx.tlc("MCJournalMiner", "MCJournalMiner_Neg.cfg", timeout=600, expect_ok=False, workers=2)
        if r["inv"] != "NoTraceOfDiscarded":
            raise vlib.Broken("negative control: a miner that keeps the writes of a box dropped for block gas should violate "
                              "NoTraceOfDiscarded (got %s)" % r["inv"])
        ctx.extra.setdefault("negative_controls_model_violates", {})["Dev_NoRevertWhenBlockFull"] = r["inv"]
        edges = ok = 0
        allfiles = []
        for name, cfg in graphs:
            dot = ctx.path("dot", name + ".dot")
            ctx.tlc_exhaustive("MCJournalMiner", cfg, timeout=600, dump=dot, workers=2)
            files, summ = ctx.replay("journalminer", graph=dot, shards=4 if quick else 8, maxlen=3, name="journal" + name)
            edges += summ["graph_edges"]
            allfiles += files
            ctx.cov["samples"] += summ["samples"][:1]

            def val(i_f):
                time.sleep(0.15 * i_f[0])
                return validate(ctx, "TraceJournalMiner", "%s_%d" % (name, i_f[0]), "TraceJournalMiner.cfg", [i_f[1]], timeout=1800,
                                    what="%s shard %d: real ApplyTxs against the miner offered the packaged list only" % (name, i_f[0]))
            if all(list(pool.map(val, list(enumerate(files))))):
                ok += summ["graph_edges"]
        cov = miner_coverage(allfiles)
        ctx.extra["miner_transitions_in_graphs"] = edges
        ctx.extra["miner_transitions_replayed"] = ok
        ctx.extra["miner_discard_paths_taken"] = cov
        ctx.log("miner discard paths taken by the real ApplyTxs: %s" % cov)
        if not ctx.violations and min(cov.values()) == 0:
            raise vlib.Broken("miner side is vacuous: a discard path was never taken: %s" % cov)

    fm = pool.submit(miner)
    fd = [pool.submit(design, x) for x in enumerate(depth)]
    fn = [pool.submit(neg, x) for x in enumerate(DEVS)]
    graphs = dict(f.result() for f in fd)
    negs = dict(f.result() for f in fn)
    ctx.extra.setdefault("negative_controls_model_violates", {}).update(negs)
    for dev, inv in negs.items():
        if not inv:
            raise vlib.Broken("negative control: the model with %s on should violate a clause" % dev)
    ctx.log("negative controls: %s" % negs)

    # ---- long random behaviours of the full model (2 accounts, all 17 setter kinds, nesting 3, any values, Seal); started
    # now, they run next to the replay of the state graphs
    # (every replay shard loads all simulation files of its batch, ~4 KB per state: keep batches small)
    num, dep, batches = (500, 20, 1) if quick else (5000, 26, 2)

    def sims():
        for b in range(batches):
            sim = ctx.tlc_simulate("MCJournal", "MCJournal_All.cfg", num, dep, "all%d" % b, timeout=900, seed=ctx.seed * 10 + b)
            files, summ = ctx.replay("journal", sim=sim, shards=8, name="journal-sim%d" % b)
            validate(ctx, "TraceJournal", "sim%d" % b, "TraceJournal.cfg", files, what="simulated behaviours of the full model", timeout=3000)
            for f in glob.glob(sim):
                os.remove(f)
    fs = pool.submit(sims)

    # ---- spec -> code -> spec: every edge of every state graph on the real manager
    def rep(g):
        return g, ctx.replay("journal", graph=graphs[g], shards=6 if quick else 12, maxlen=14, limit=limit, name="journal-" + g)
    reps = dict(pool.map(rep, list(graphs))) if quick else dict(rep(g) for g in graphs)
    edges = replayed = 0

    def val(i_g):
        i, g = i_g
        time.sleep(0.15 * i)
        files, summ = reps[g]
        return g, validate(ctx, "TraceJournal", g, "TraceJournal.cfg", files, what="state graph %s" % g, timeout=3000)
    verdicts = dict(pool.map(val, list(enumerate(reps)))) if quick else dict(val(x) for x in enumerate(reps))
    for g, (files, summ) in reps.items():
        edges += summ["graph_edges"]
        if verdicts[g]:
            replayed += summ["graph_edges"]
        if len(ctx.cov["samples"]) < 4:
            ctx.cov["samples"] += summ["samples"][:1]
    ctx.extra["transitions_in_graphs"] = edges
    ctx.extra["distinct_transitions_replayed"] = replayed
    ctx.extra["graph_depths"] = depth
    ctx.cov["exhaustive"] = True
    fs.result()
    fm.result()
    ctx.assumptions += [
        "universe: a contract account c and a user account u; 2 storage slots, 1 asset code, 1 asset id, 1 equity id, 2 profile keys; values from 3-element domains",
        "sequences are those transactions can issue: self-destruct only on a live account (opSuicide), an asset code is created once, supply/profile only of an existing asset, asset codes/candidate/votes/signers only on the user account",
        "an absent entry and an entry holding the empty string are the same observable for the getters (the getters of the profile maps cannot tell them apart; asset-id metadata likewise after Finalise); the zero hash and keccak('') both mean 'no code' (isEmptyHash); the four roots are compared exactly",
        "one block per behaviour on top of a committed parent state (empty or populated through a real Finalise/Save); redo = Manager.RebuildAll of the block's published logs on a fresh manager followed by Finalise; the reverts-free run = the surviving setter calls on a second fresh manager (the trace spec checks that list against its own journal)",
        "the sealed block is stored without a parent link (nothing is stable in the shared test database), so the re-read through a fresh manager covers the accounts Manager.Save wrote (those with published logs)",
        "miner side: one block on a stable setup block (funded accounts, contract K, one asset); every transaction's gas limit equals its calibrated gas use; block gas limits 50000, 70000, 100000, 130000, 10^8; a box holds two sub-transactions; the packaging time limit is never reached"]
