"""C07 change journal.  Journal.tla (journal entries with old values and provisional versions, revision stack,
backward undo) is model-checked by TLC: undoing down to any live revision yields the copy saved at its Snapshot, never
panics, undoing everything yields the committed parent state.  Every behaviour of the bounded configurations (one
block of setter / Snapshot / Revert calls on top of an empty or a populated committed state) is performed on a real
account.Manager over a real ChainDatabase; the full getter projection logged after every step is validated by TLC
against TraceJournal.tla (post-revert projection == projection logged at the Snapshot)."""
import concurrent.futures, time
import vlib
LEVEL = "model_checking"

MANIFEST = dict(
    level="model_checking",
    text="TLC checks on every reachable state of five bounded configurations of the journal model (contract account: balance/storage/"
         "code/self-destruct/events; asset-holding contract; asset issuer; candidate/votes/signers; two interleaved accounts; "
         "snapshots nested to depth 2-3, empty and populated parent state) that undoing the journal down to ANY live revision "
         "reproduces the copy saved at its Snapshot, that revert never fails and that undoing everything gives the parent state; "
         "all those behaviours plus random long behaviours of the full 2-account/17-setter model are executed on a real "
         "account.Manager (real database, real tries) and the complete getter projection after every step is validated by "
         "TLC: post-revert projection = projection at the Snapshot, journal length cut back, no panic; after sealing, "
         "RebuildAll of the published logs on the parent state must give the executed state.",
    note="Five genuine defects of /repo are carried as named deviations (known_findings.txt), each accepted only with exactly "
         "the outcome the deviation model predicts and each with a design-side negative control. Projection treats an "
         "absent entry and an empty-string entry alike (profile keys, asset-id metadata) and the zero and the empty-code hash alike.",
    technique="TLA+ model checking (Journal.tla) + replay of the TLC state graphs and simulations on the real account.Manager + "
              "TLC trace validation (TraceJournal.tla)")

DEVS = ["Dev_RevertVersionGapPanics", "Dev_UndoFirstEquityPanics", "Dev_UndoCodeDropsPreviousCode",
        "Dev_UndoSuicideShallow", "Dev_UndoEventNoop", "Dev_MergeAcrossSuicide", "Dev_WorthlessSuicideDropped",
        "Dev_EmptyWriteLeavesEmptyRoot", "Dev_SaveFailsOnDirtyEmptyCode", "Dev_UndoAssetProfileKeyLeavesEmptyEntry"]


def setcfg(ctx, cfg, out, **kv):
    txt = open(ctx.specdir + "/" + cfg).read()
    for k, v in kv.items():
        txt = txt.replace(k, str(v))
    open(ctx.specdir + "/" + out, "w").write(txt)
    return out


def run(ctx):
    # up to 16 small TLC runs side by side: keep the JVMs small (the biggest trace validation needs < 2 GB)
    __import__("os").environ.setdefault("VERIF_TLC_HEAP", "3g")
    ctx.build()
    quick = ctx.quick()
    depth = dict(Contract=4, Hold=4, Asset=4, Cand=3, Two=4, Nest=8, Create=6) if quick else \
        dict(Contract=5, Hold=5, Asset=5, Cand=4, Two=5, Nest=10, Create=7)
    # Create: [write]; Snapshot; 1-2 creating / modifying writes; Revert; [write]; Seal - one outer write in the quick tier, two in thorough
    shape = {} if quick else {"MaxOuter = 1": "MaxOuter = 2"}
    limit = 0
    pool = concurrent.futures.ThreadPoolExecutor(16)    # >= number of TLC runs: all start at their own offset

    # ---- design side: the clauses hold on the design (all deviations off) ...
    def design(i_g):
        i, g = i_g
        time.sleep(0.1 * i)     # distinct TLC metadirs (named by millisecond)
        cfg = setcfg(ctx, "MCJournal_%s.cfg" % g, "MCJournal_%s.run.cfg" % g, **dict({"MaxSteps = 6": "MaxSteps = %d" % depth[g]}, **(shape if g == "Create" else {})))
        dot = ctx.path("dot", g + ".dot")
        ctx.tlc_exhaustive("MCJournal", cfg, timeout=900, dump=dot, workers=4)
        return g, dot

    # ... and each deviation switched on violates them (negative controls)
    def neg(i_dev):
        i, dev = i_dev
        time.sleep(0.1 * (i + len(depth)))
        gap = dev == "Dev_RevertVersionGapPanics"
        cfg = setcfg(ctx, "MCJournal_Neg.cfg", "MCJournal_Neg.%s.cfg" % dev,
                     **{"@DEV@": dev, "@KINDS@": "KindsNegGap" if gap else "KindsNegAsset" if "AssetProfile" in dev else "KindsNeg", "@STEPS@": 7 if gap else 5})
        r = ctx.tlc("MCJournal", cfg, timeout=600, expect_ok=False, workers=2)
        return dev, r["inv"]

    fd = [pool.submit(design, x) for x in enumerate(depth)]
    fn = [pool.submit(neg, x) for x in enumerate(DEVS)]
    graphs = dict(f.result() for f in fd)
    negs = dict(f.result() for f in fn)
    ctx.extra["negative_controls_model_violates"] = negs
    for dev, inv in negs.items():
        if not inv:
            raise vlib.Broken("negative control: the model with %s on should violate a clause" % dev)
    ctx.log("negative controls: %s" % negs)

    # ---- spec -> code -> spec: every edge of every state graph on the real manager
    def rep(g):
        return g, ctx.replay("journal", graph=graphs[g], shards=6 if quick else 12, maxlen=14, limit=limit, name="journal-" + g)
    reps = dict(pool.map(rep, list(graphs))) if quick else dict(rep(g) for g in graphs)
    edges = replayed = 0
    allfiles = []
    for g, (files, summ) in reps.items():
        edges += summ["graph_edges"]
        if quick:
            allfiles += files
        elif ctx.validate("TraceJournal", "TraceJournal.cfg", files, what="state graph %s" % g, timeout=3000):
            replayed += summ["graph_edges"]
        if len(ctx.cov["samples"]) < 3:
            ctx.cov["samples"] += summ["samples"][:1]
    if quick and ctx.validate("TraceJournal", "TraceJournal.cfg", allfiles, what="state graphs %s" % " ".join(graphs), timeout=1800):
        replayed = edges
    ctx.extra["transitions_in_graphs"] = edges
    ctx.extra["distinct_transitions_replayed"] = replayed
    ctx.extra["graph_depths"] = depth
    ctx.cov["exhaustive"] = True
    # ---- long random behaviours of the full model (2 accounts, all 17 setter kinds, nesting 3, any values, Seal)
    # (every replay shard loads all simulation files of its batch, ~4 KB per state: keep batches small)
    num, dep, batches = (500, 20, 1) if quick else (5000, 26, 2)
    for b in range(batches):
        sim = ctx.tlc_simulate("MCJournal", "MCJournal_All.cfg", num, dep, "all%d" % b, timeout=900, seed=ctx.seed * 10 + b)
        files, summ = ctx.replay("journal", sim=sim, shards=8, name="journal-sim%d" % b)
        ctx.validate("TraceJournal", "TraceJournal.cfg", files, what="simulated behaviours of the full model", timeout=3000)
        for f in __import__("glob").glob(sim):
            __import__("os").remove(f)
    ctx.assumptions += [
        "universe: a contract account c and a user account u; 2 storage slots, 1 asset code, 1 asset id, 1 equity id, 2 profile keys; values from 3-element domains",
        "sequences are those transactions can issue: self-destruct only on a live account (opSuicide), an asset code is created once, supply/profile only of an existing asset, asset codes/candidate/votes/signers only on the user account",
        "an absent entry and an entry holding the empty string are the same observable (the getters of the profile maps cannot tell them apart; asset-id metadata likewise after Finalise); the zero hash and keccak('') both mean 'no code' (isEmptyHash)",
        "one block per behaviour on top of a committed parent state (empty or populated through a real Finalise/Save); redo = Manager.RebuildAll of the block's published logs followed by Finalise"]
