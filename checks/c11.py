"""C11 candidate votes = deposit votes + current voters' balance votes.  See checks/ledger_common.py."""
import os, sys
sys.path.insert(0, os.path.dirname(os.path.abspath(__file__)))
import ledger_common
LEVEL = "model_checking"

MANIFEST = dict(
    level="model_checking",
    text="TLC checks VotesAtBoundary (at every block boundary votes[c] = floor(deposit/100 LEMO) + sum over accounts currently voting for c of "
         "floor(balance/200 LEMO) for registered candidates, 0 otherwise, never negative) on the ledger model of the two cooperating mechanisms "
         "(per-vote adjustment, end-of-block adjustment by net balance change) for all blocks of up to 3 transactions mixing transfers into / out "
         "of voters (fees and amounts straddling the 200-LEMO boundary), vote, re-vote, register, top-up, unregister on the same accounts, over 2 "
         "blocks in the middle of a term, and over the interim block, the REWARD block (term reward issue, deferred deposit refunds, then the "
         "vote-by-balance pass) and the block after it around a term boundary (unregistering deferred by the interim period / for deputies "
         "of the signing term, reward set through the precompile); VOTERS AT BALANCE ZERO (an account that owns nothing votes with its gas "
         "paid by another account and is funded later; a voter sends away its whole balance to the last unit and is refunded) and ROLLED-BACK "
         "vote-affecting transactions (register / top-up across and below a deposit-vote boundary / vote / unregister as sub transactions of a "
         "box that the miner gives up because a later sub transaction is invalid, the candidate touched by another transaction of the same "
         "block); every transition is executed on real nodes (real signed transactions, real BlockAssembler block after every step, second real "
         "node through DPoVP.InsertBlock) and TLC evaluates the formula on the REAL votes / voteFor / deposit / registration / balances of the whole "
         "universe read at every block, and the votes the node's candidate ranking (the list the next election reads) records for every "
         "listed candidate equal the votes of its account.",
    note="The formula is evaluated on real state only; after a block accepted under the listed deviation the following blocks are compared with the "
         "recomputed tally of that block's transactions (so further divergences are still reported). The income account is a voter too (fees move "
         "its weight). Term boundary: term / interim duration shrunk to 5-6 / 1-2 blocks, the (empty) snapshot block is part of the setup chain; "
         "the design run also shows that a vote pass placed before the refunds violates the formula (mutant Mut_VotePassBeforeRefund), that a vote pass skipping accounts that owned nothing at the start of the block does "
         "(Mut_ZeroStartSkipped) and that a given-up box keeping the votes its sub transactions set does (Mut_BadBoxKeepsVotes). "
         "Known defect carried as deviation Dev_VoteUsesPreTxBalance.",
    technique="TLA+ model checking (Ledger.tla over LedgerOps.tla) + replay of the TLC state graph and simulated behaviours on real nodes "
              "(adapter ledger) + TLC trace validation (TraceLedger.tla, Check = C11)")


def run(ctx):
    ledger_common.run(ctx, "C11", exhaustive=dict(quick="c11_quick", thorough="c11_thorough"),
                      negatives=[("c11_neg", ["VotesAtBoundary"]), ("c11_negterm", ["VotesAtBoundary"]),
                                 ("c11_negzero", ["VotesAtBoundary"]), ("c11_negroll", ["VotesAtBoundary", "NotIncludedIsFree"])],
                      more=[dict(name="zero", quick="c11_zero", thorough="c11_zero_thorough"),
                            dict(name="roll", quick="c11_roll", thorough="c11_roll_thorough")],
                      sim="c11_sim", sim_quick=150, sim_thorough=3000, depth=9,
                      term=dict(graph=dict(quick="c11_term", thorough="c11_term_thorough"), sim="c11_simterm", sim_quick=64, sim_thorough=800, depth=10))
