"""C12 issued assets are conserved; only holders / issuers move or mint them.  See checks/ledger_common.py."""
import os, sys
sys.path.insert(0, os.path.dirname(os.path.abspath(__file__)))
import ledger_common
LEVEL = "model_checking"

MANIFEST = dict(
    level="model_checking",
    text="TLC checks SupplyEqualsEquity (recorded total supply = sum of all holders' equity, nothing negative), NothingForbiddenIncluded and the "
         "action properties OnlyOwnEquityDecreases, SupplyChangesOnlyByIssuerOrHolder, FrozenDoesNotMove on the ledger model for all sequences of "
         "issue / replenish (by the issuer and by a holder, amounts -5, 0, 50), transfer-asset (4 senders incl. non-holders, to holders, to self, "
         "to the zero address = destroy, amounts negative, 0, 1, all, all+1, 2^256) and freeze / unfreeze; every transition is executed on real "
         "nodes (real signed transactions whose data JSON carries the exact decimal strings, real BlockAssembler block after every step, second "
         "real node through DPoVP.InsertBlock) and TLC validates the REAL total supply and every holder's equity at every block against the "
         "recomputation from the packaged transactions, supply = sum of equities, and that no forbidden transaction was packaged.",
    note="One divisible, replenishable token asset (category 1) created and issued (100 to a1, 100 to a2) in stable setup blocks; scenario blocks "
         "are not stabilised, so equity received inside the scenario cannot be re-sent (the processor demands the holder's asset id in the stable "
         "state). Categories 2 / 3 and indivisible assets are not covered. Known defect carried as deviations Dev_NegativeAssetTransfer "
         "(accepted negative amount), Dev_NegativeAssetTransferSplitsMinerValidator (a discarded one makes the miner seal a block the validator "
         "refuses) and, before /repo 8a7f309, Dev_NegativeAssetTransferPanics / Dev_AssetToFailingContractPanics (node panic); proposed fix: reject "
         "amount.Sign() < 0 first in EVM.TransferAssetTx.",
    technique="TLA+ model checking (Ledger.tla over LedgerOps.tla) + replay of the TLC state graph and simulated behaviours on real nodes "
              "(adapter ledger) + TLC trace validation (TraceLedger.tla, Check = C12)")


def run(ctx):
    ledger_common.run(ctx, "C12", exhaustive=dict(quick="c12_quick", thorough="c12_thorough"),
                      negatives=[("c12_neg", ["OnlyOwnEquityDecreases", "SupplyChangesOnlyByIssuerOrHolder"])], sim="c12_sim",
                      sim_quick=150, sim_thorough=3000, depth=9)
