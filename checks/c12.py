"""C12 issued assets are conserved; only holders / issuers move or mint them.  See checks/ledger_common.py."""
import os, sys
sys.path.insert(0, os.path.dirname(os.path.abspath(__file__)))
import ledger_common
LEVEL = "model_checking"

MANIFEST = dict(
    level="model_checking",
    text="TLC checks SupplyEqualsEquity (per asset code the recorded total supply = sum of all holders' equity under the code's asset ids - "
         "for an indivisible asset the number of ids still held -, nothing negative), NothingForbiddenIncluded and the action properties "
         "OnlyOwnEquityDecreases, SupplyChangesOnlyByIssuerOrHolder, FrozenDoesNotMove on the ledger model for all sequences of issue / "
         "replenish (by the issuer and by a holder, amounts -5, 0, 50; replenish also under an id of another code), transfer-asset (senders "
         "incl. non-holders, to holders, to self, to the zero address = destroy, to contracts that accept / fail / SELF-DESTRUCT when the "
         "transfer runs their code or in a later LEMO call; amounts negative, 0, 1, all, all+1, 2^256) and freeze / unfreeze, over assets of ALL "
         "THREE categories: token (id = code), non-fungible (indivisible, one id per issue transaction, moves as a whole), common (several ids per "
         "code, divisible, replenishable or not), one of them frozen from the start, ids created by issue transactions of the scenario; "
         "FIRST-TIME HOLDERS in rolled-back operations (transfer of a token / a whole non-fungible id / a common asset and the issuer's "
         "replenish towards accounts and contracts that never held that id, as sub transactions of a box the miner gives up because a later sub "
         "transaction is invalid, followed by transfers to the same receivers in the same block; failing contracts as first-time receivers); every "
         "transition is executed on real nodes (real signed transactions whose data JSON carries the exact decimal strings and asset code / id "
         "hashes, real BlockAssembler block after every step, second real node through DPoVP.InsertBlock) and TLC validates the REAL total "
         "supply / freeze flag of every code and every holder's equity under every id at every block against the recomputation from the "
         "packaged transactions, supply = equity per code, and that no forbidden transaction was packaged.",
    note="Four assets of one issuer created and issued in stable setup blocks (T: category 1; N: category 2 with ids N1, N2; C: category 3 "
         "with ids C1, C2; G: category 3, not replenishable, frozen by the setup chain, id G1) plus up to three ids created inside a scenario; "
         "scenario blocks are not stabilised, so only the receivers of the setup chain's issue transactions can send an id (the processor "
         "demands the id's metadata in the sender's stable account; a transfer never hands it on). The design run also shows that a freeze "
         "flag looked up under the asset id (mutant Mut_FreezeLookupById) violates FrozenDoesNotMove and that a self-destruction wiping the "
         "contract's equity (Mut_SuicideClearsEquity) violates SupplyEqualsEquity, as does a given-up box that keeps the equity of first-time "
         "holders (Mut_BadBoxKeepsFirstEquity). Known defect (fixed in /repo e9d4b18, baf6473) kept as "
         "deviations Dev_NegativeAssetTransfer* / Dev_AssetToFailingContractPanics.",
    technique="TLA+ model checking (Ledger.tla over LedgerOps.tla) + replay of the TLC state graphs and simulated behaviours on real nodes "
              "(adapter ledger) + TLC trace validation (TraceLedger.tla, Check = C12)")


WIDE_KEY = "Dev_RevertedFirstEntrySplitsMinerValidator"


def _wide(ctx):
    """The wide roll-back configurations (transactions by a3's voter a1 after a given-up box, issue sub transactions, boxes in
    the simulated behaviours) run into a defect of the unchanged code (see TraceLedger.tla GivenUpAssetBox): they are used
    once known_findings.txt lists the deviation (known:) or records its fix (fixed: ... key=<WIDE_KEY>)."""
    if WIDE_KEY in ctx.known:
        return True
    p = os.path.join(os.path.dirname(os.path.dirname(os.path.abspath(__file__))), "known_findings.txt")
    return os.path.exists(p) and any(ln.startswith("fixed:") and WIDE_KEY in ln for ln in open(p))


def run(ctx):
    w = "w" if _wide(ctx) else ""
    ctx.extra["rollback_configurations"] = "wide" if w else "default (see assumptions)"
    ledger_common.run(ctx, "C12", exhaustive=dict(quick="c12_quick", thorough="c12_thorough"),
                      negatives=[("c12_neg", ["OnlyOwnEquityDecreases", "SupplyChangesOnlyByIssuerOrHolder"]),
                                 ("c12_negfrz", ["FrozenDoesNotMove"]), ("c12_negsd", ["SupplyEqualsEquity", "OnlyOwnEquityDecreases", "FrozenDoesNotMove"]),
                                 ("c12_negroll", ["SupplyEqualsEquity", "NotIncludedIsFree"])], sim="c12_sim" + w,
                      sim_quick=150, sim_thorough=3000, depth=9,
                      more=[dict(name="cat", quick="c12_cat", thorough="c12_cat_thorough"),
                            dict(name="roll", quick="c12_roll" + w, thorough="c12_roll%s_thorough" % w)])
