"""C12 issued assets are conserved; only holders / issuers move or mint them.  See checks/ledger_common.py."""
import os, sys
sys.path.insert(0, os.path.dirname(os.path.abspath(__file__)))
import ledger_common
LEVEL = "model_checking"

MANIFEST = dict(
    level="model_checking",
    text="TLC checks SupplyEqualsEquity (per asset code the recorded total supply = sum of all holders' equity under the code's asset ids - "
         "for an indivisible asset the number of ids still held -, nothing negative), NothingForbiddenIncluded and the action properties "
         "OnlyOwnEquityDecreases, SupplyChangesOnlyByIssuerOrHolder, FrozenDoesNotMove on the ledger model for all sequences of issue / "
         "replenish (by the issuer and by a holder, amounts -5, 0, 50; replenish also under an id of another code), transfer-asset (senders "
         "incl. non-holders, to holders, to self, to the zero address = destroy, to contracts that accept / fail / SELF-DESTRUCT when the "
         "transfer runs their code or in a later LEMO call; amounts negative, 0, 1, all, all+1, 2^256) and freeze / unfreeze, over assets of ALL "
         "THREE categories: token (id = code), non-fungible (indivisible, one id per issue transaction, moves as a whole), common (several ids per "
         "code, divisible, replenishable or not), one of them frozen from the start, ids created by issue transactions of the scenario; every "
         "transition is executed on real nodes (real signed transactions whose data JSON carries the exact decimal strings and asset code / id "
         "hashes, real BlockAssembler block after every step, second real node through DPoVP.InsertBlock) and TLC validates the REAL total "
         "supply / freeze flag of every code and every holder's equity under every id at every block against the recomputation from the "
         "packaged transactions, supply = equity per code, and that no forbidden transaction was packaged.",
    note="Four assets of one issuer created and issued in stable setup blocks (T: category 1; N: category 2 with ids N1, N2; C: category 3 "
         "with ids C1, C2; G: category 3, not replenishable, frozen by the setup chain, id G1) plus up to three ids created inside a scenario; "
         "scenario blocks are not stabilised, so only the receivers of the setup chain's issue transactions can send an id (the processor "
         "demands the id's metadata in the sender's stable account; a transfer never hands it on). The design run also shows that a freeze "
         "flag looked up under the asset id (mutant Mut_FreezeLookupById) violates FrozenDoesNotMove and that a self-destruction wiping the "
         "contract's equity (Mut_SuicideClearsEquity) violates SupplyEqualsEquity. Known defect (fixed in /repo e9d4b18, baf6473) kept as "
         "deviations Dev_NegativeAssetTransfer* / Dev_AssetToFailingContractPanics.",
    technique="TLA+ model checking (Ledger.tla over LedgerOps.tla) + replay of the TLC state graphs and simulated behaviours on real nodes "
              "(adapter ledger) + TLC trace validation (TraceLedger.tla, Check = C12)")


def run(ctx):
    ledger_common.run(ctx, "C12", exhaustive=dict(quick="c12_quick", thorough="c12_thorough"),
                      negatives=[("c12_neg", ["OnlyOwnEquityDecreases", "SupplyChangesOnlyByIssuerOrHolder"]),
                                 ("c12_negfrz", ["FrozenDoesNotMove"]), ("c12_negsd", ["SupplyEqualsEquity", "OnlyOwnEquityDecreases", "FrozenDoesNotMove"])], sim="c12_sim",
                      sim_quick=150, sim_thorough=3000, depth=9,
                      more=[dict(name="cat", quick="c12_cat", thorough="c12_cat_thorough")])
