"""C03 finality.  Consensus.tla (node-local DPoVP engine, code-shaped) is model-checked for every block
tree / miner assignment / confirm-packet order within bounds; its behaviours are stepped through a real
node (real blocks built by the real assembler, real signatures incl. re-encoded and outsider ones) and the
logged chain state after every engine call is validated by the property monitor TraceConsensus.tla."""
LEVEL = "model_checking"

MANIFEST = dict(
    level="model_checking",
    text="TLC checks QuorumOK/HeadOK/TreeOK/StableChainKept and the action property StableForward on the engine model for all trees of 3 blocks "
         "(4 in simulation), 2-4 deputies, 20 confirm packets (both signature encodings, outsider, pairs) in every arrival order, with the node as observer "
         "and as deputy (voting lock); every transition of the state graph (thorough) or a seeded sample (quick) is replayed on a real DPoVP node and the "
         "logged stable/head/unconfirmed tree/recovered distinct signers are validated step by step by TLC against the property monitor.",
    note="Signers are recovered from the stored signature bytes by the projection (crypto.Ecrecover trusted). One term (no deputy-set change) in the replayed universes; "
         "the node's background confirm goroutines are not scheduled explicitly (see C19).",
    technique="TLA+ model checking (Consensus.tla) + replay of TLC state-graph behaviours on the real engine + TLC trace validation (TraceConsensus.tla)")


def run(ctx):
    ctx.build()
    cfgs = [("n3d3s0", 3, 0), ("n3d3s2", 3, 2), ("n3d2s1", 2, 1)]
    first = True
    for name, nd, self_ in cfgs:
        dot = ctx.path("cons_%s.dot" % name)
        r = ctx.tlc_exhaustive("MCConsensus", "MCConsensus_%s.cfg" % name, timeout=1800, dump=dot)
        limit = 2500 if ctx.quick() else 0
        files, summ = ctx.replay("consensus", graph=dot, shards=16, maxlen=40, limit=limit, name="consensus_" + name,
                                 env={"VERIF_ND": str(nd), "VERIF_SELF": str(self_)}, timeout=3000, chunk=300)
        ok = ctx.validate("TraceConsensus", "TraceConsensus.cfg", files, what=name, timeout=3000)
        if first:
            ctx.cov["samples"] = summ["samples"]
            first = False
        ctx.extra.setdefault("graphs", []).append(dict(cfg=name, nodes=summ["graph_nodes"], edges=summ["graph_edges"],
                                                       behaviours_replayed=summ["behaviours"], behaviours_total=summ["behaviours_total"],
                                                       steps_on_real_code=summ["steps"], accepted=ok))
    if not ctx.quick():
        ctx.cov["exhaustive"] = True
        # larger design-side configurations (no replay of the full graph): 4 deputies; 4 blocks by simulation + replay
        ctx.tlc_exhaustive("MCConsensus", "MCConsensus_n3d4s0.cfg", timeout=1800)
        sim = ctx.tlc_simulate("MCConsensus", "MCConsensus_n4d3s0.cfg", num=3000, depth=14, prefix="c4")
        files, summ = ctx.replay("consensus", sim=sim, shards=16, name="consensus_sim_n4d3s0", env={"VERIF_ND": "3", "VERIF_SELF": "0"}, timeout=3000, chunk=300)
        ctx.validate("TraceConsensus", "TraceConsensus.cfg", files, what="simulated 4-block behaviours", timeout=3000)
    ctx.assumptions += ["block universe: every parent function on 3 (simulation: 4) blocks, every miner assignment; blocks carry no transactions",
                        "a signature is abstracted to (signer, encoding variant); real signatures are produced with the deputies' keys, variant 1 = s -> n-s"]
