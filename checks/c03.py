"""C03 finality.  Consensus.tla (node-local DPoVP engine, code-shaped) is model-checked for every block
tree / miner assignment / confirm-packet order within bounds; its behaviours are stepped through a real
node (real blocks built by the real assembler, real signatures incl. re-encoded and outsider ones) and the
logged chain state after every engine call is validated by the property monitor TraceConsensus.tla."""
import copy, concurrent.futures, json, os
import vlib

LEVEL = "model_checking"

MANIFEST = dict(
    level="model_checking",
    text="TLC checks QuorumOK/HeadOK/TreeOK/StableChainKept and the action property StableForward on the engine model for all trees of 3 blocks "
         "(4 in simulation), 2-4 deputies, 20 confirm packets (both signature encodings, outsider, pairs) in every arrival order, with the node as observer "
         "and as deputy (voting lock), and across a term change inside the block universe (the deputy set and the 2/3 threshold are functions of the block's "
         "height: genesis deputies {1,2,3} -> {2,3,4,5} and {1,2,3,4} -> {3,5}, packets signed by old-term-only, new-term-only and both-term deputies, forks across "
         "the boundary); every transition of the state graph (thorough; a large seeded sample for the term graphs) or a seeded sample (quick) is replayed on a real "
         "DPoVP node and the logged stable/head/unconfirmed tree/recovered distinct signers (as node identities) are validated step by step by TLC against the "
         "property monitor, which counts for a block of height h only signers that are deputies of h's term against that term's threshold.",
    note="Signers are recovered from the stored signature bytes by the projection (crypto.Ecrecover trusted). The term change is built from real blocks "
         "(register / unregister transactions, the snapshot block's DeputyNodes from the real candidate ranking) with params.TermDuration = 4, InterimDuration = 1; "
         "the blocks up to the snapshot block are a fixed stabilised prefix, the explored blocks are the last of the old term and the first of the new one "
         "(one further configuration keeps the snapshot block itself inside the universe). The block builder uses the deputy manager of the code under test for "
         "the miners' slots. The node's background confirm goroutines are not scheduled explicitly (see C19).",
    technique="TLA+ model checking (Consensus.tla) + replay of TLC state-graph behaviours on the real engine + TLC trace validation (TraceConsensus.tla)")


TERM_ENV = {"VERIF_TD": "4", "VERIF_INTERIM": "1"}


def sub(ctx, name):
    """A view of ctx with its own scratch sub-directory, so that the configurations' pipelines can run side by side."""
    c = copy.copy(ctx)
    c.scratch = ctx.path("par", name, ".keep")[:-6]
    return c


def census(files):
    """Vacuity control over the real traces of a term configuration (no verdict): how often a block of the old term /
    of the new term inside the universe became stable, and how often the real engine's accept/refuse answer differs
    from the generating model's (the monitor does not demand agreement)."""
    c = dict(stable_old_term=0, stable_new_term=0, model_mismatch=0)
    for f in files:
        with open(f) as fh:
            for ln in fh:
                e = json.loads(ln)
                if e["ev"] == "reset":
                    par, dep, pl = [0] + e["parent"], e["depof"], e["pl"]
                    hnew = next(h for h in range(pl + 1, len(dep) + 1) if dep[h - 1] != dep[pl])
                    prev = e["stable"]
                    continue
                if e["stable"] != prev:
                    prev, h, b = e["stable"], 0, e["stable"]
                    while b:
                        b, h = par[b], h + 1
                    c["stable_new_term" if h >= hnew else "stable_old_term"] += 1
                if e["ev"] in ("InsertBlock", "InsertBlockDup") and not e.get("ok") or e["ev"] == "RejectBlock" and e.get("ok"):
                    c["model_mismatch"] += 1
    return c


def pipeline(ctx, name, nd, self_, newdep, limit, workers):
    """TLC on one configuration -> tours of its state graph -> replay on a real node -> monitor."""
    dot = ctx.path("cons_%s.dot" % name)
    r = ctx.tlc_exhaustive("MCConsensus", "MCConsensus_%s.cfg" % name, timeout=1800, dump=dot, workers=workers, count=False)
    env = {"VERIF_ND": str(nd), "VERIF_SELF": str(self_)}
    if newdep:
        env.update(TERM_ENV)
        env["VERIF_NEWDEP"] = newdep
        if "p3" in name:
            env["VERIF_PL"] = "3"
    files, summ = ctx.replay("consensus", graph=dot, shards=16, maxlen=40, limit=limit, name="consensus_" + name,
                             env=env, timeout=3000, chunk=300)
    ok = ctx.validate("TraceConsensusT", "TraceConsensusT.cfg", files, what=name, timeout=3000, count_behaviours=False)
    cen = None
    if newdep and ok:
        cen = census(files)
        if not (cen["stable_old_term"] and cen["stable_new_term"]):
            raise vlib.Broken("vacuous term configuration %s: %s" % (name, cen))
    return dict(census=cen, cfg=name, states=r["distinct"], transitions=r["generated"], nodes=summ["graph_nodes"], edges=summ["graph_edges"],
                behaviours_replayed=summ["behaviours"], behaviours_total=summ["behaviours_total"],
                steps_on_real_code=summ["steps"], accepted=ok, samples=summ["samples"],
                terms=("genesis deputies 1..%d, elected at the snapshot blocks: %s" % (nd, newdep)) if newdep else "one term")


def negative_control(ctx):
    """Design-side negative control: with confirm signers looked up at the parent's height (TermLag = 1) the model must
    violate QuorumOK at the term boundary - the invariant does distinguish the terms."""
    r = ctx.tlc("MCConsensus", "MCConsensus_t34s0_neg.cfg", timeout=600, expect_ok=False, workers=2)
    if r["inv"] != "QuorumOK":
        raise vlib.Broken("negative control MCConsensus_t34s0_neg.cfg: expected QuorumOK to be violated, got %s\n%s" % (r["inv"], r["out"][-1500:]))
    return dict(cfg="MCConsensus_t34s0_neg.cfg", violated=r["inv"])


def run(ctx):
    ctx.build()
    q = ctx.quick()
    lim = 2500 if q else 0
    # (n4d3s0one: every tree of FOUR blocks, one miner, one confirm packet per deputy - 29k transitions, replayed completely in both tiers)
    cfgs = [("n3d3s0", 3, 0, None, lim), ("n3d3s2", 3, 2, None, lim), ("n3d2s1", 2, 1, None, lim), ("n4d3s0one", 3, 0, None, 0)]
    # term configurations (TermDuration 4, InterimDuration 1; the blocks below the boundary are a stabilised prefix):
    #  t34: genesis {1,2,3} -> {2,3,4,5} from height 6 (threshold 2 -> 3), prefix 1..4, universe heights 5..7
    #  t42: genesis {1,2,3,4} -> {3,5} from height 6 (threshold 3 -> 2), prefix 1..4
    #  u34: second change: {1,2,3} -> {2,3,4} (height 6) -> {3,4,5,6} from height 10, prefix 1..8, universe heights 9..11
    #  t34p3: as t34 with prefix 1..3: the snapshot block is inside the universe (heights 4..6; a block of height 6 is
    #         refused until the snapshot block is stable)
    # the node is an observer (s0), a deputy of the old term only (t34s1, u34s2) or of both terms (t42s3)
    T34, T42, U34 = "2,3,4,5", "3,5", "2,3,4;3,4,5,6"
    # (t42s0q: the quick-tier cut of t42s0 - height-5 blocks mined by node 3 only, 11 packets)
    tl = 6000   # thorough: a seeded sample of every term graph (the graphs of one-term universes are replayed completely)
    # (t34s4: the node is a deputy of the NEW term only - in the interim heights it is elected already but has no vote yet;
    #  t42s3: four deputies and the node among them - a block can arrive carrying the node's own confirm)
    cfgs += [("t34s1", 3, 1, T34, 1500 if q else tl), ("t42s0q" if q else "t42s0", 4, 0, T42, 1500 if q else tl), ("u34s0", 3, 0, U34, 1000 if q else tl),
             ("t34s4", 3, 4, T34, 1000 if q else tl), ("t42s3", 4, 3, T42, 1000 if q else tl)]
    if not q:
        cfgs += [("t34s0", 3, 0, T34, tl), ("u34s2", 3, 2, U34, tl), ("t34p3s0", 3, 0, T34, 0)]
    only = os.environ.get("VERIF_C03_ONLY")   # debugging aid: run the named configurations only (any tier), e.g. "t42s3,u34s2"
    if only:
        dl = 2500 if q else tl
        allc = {c[0]: c for c in [("t34s0", 3, 0, T34, dl), ("t42s0", 4, 0, T42, dl), ("u34s2", 3, 2, U34, dl), ("t34p3s0", 3, 0, T34, dl)] + cfgs}
        cfgs = [allc[n] for n in only.split(",")]
    # larger design-side configurations (thorough, no replay): 4 deputies in one term; the term boundary with every miner
    # assignment and the full packet family (old-only / new-only / both in every mix)
    design = [] if q or only else ["MCConsensus_n3d4s0.cfg", "MCConsensus_t34s0_full.cfg", "MCConsensus_t42s0_full.cfg"]
    # the pipelines are mostly single-threaded (TLC on a small model, tours, the monitor): run them side by side
    with concurrent.futures.ThreadPoolExecutor(len(cfgs) if q else 4) as ex:
        futs = [ex.submit(pipeline, sub(ctx, name), name, nd, self_, newdep, limit, 4 if q else 8)
                for name, nd, self_, newdep, limit in cfgs]
        dfuts = [ex.submit(sub(ctx, "d%d" % i).tlc_exhaustive, "MCConsensus", cfg, timeout=1800, workers=8, count=False) for i, cfg in enumerate(design)]
        ctx.extra["negative_control"] = negative_control(sub(ctx, "neg"))
        results = [f.result() for f in futs]
        for f in dfuts:
            r = f.result()
            ctx.cov["states"] += r["distinct"]
            ctx.cov["transitions"] += r["generated"]
    for r in results:
        ctx.cov["states"] += r["states"]
        ctx.cov["transitions"] += r["transitions"]
        ctx.cov["traces_validated_against_impl"] += r["behaviours_replayed"] if r["accepted"] else 0
        ctx.extra.setdefault("graphs", []).append({k: v for k, v in r.items() if k != "samples"})
    ctx.cov["samples"] = results[0]["samples"][:2] + results[min(3, len(results) - 1)]["samples"][:1]
    if not only:
        ctx.cov["exhaustive"] = not q
        # 4 blocks (a fork hanging on an intermediate block of a multi-height stable jump needs four) by simulation + replay
        sim = ctx.tlc_simulate("MCConsensus", "MCConsensus_n4d3s0.cfg", num=300 if q else 3000, depth=14, prefix="c4", timeout=900)
        files, summ = ctx.replay("consensus", sim=sim, shards=16, name="consensus_sim_n4d3s0", env={"VERIF_ND": "3", "VERIF_SELF": "0"}, timeout=3000, chunk=300)
        ctx.validate("TraceConsensusT", "TraceConsensusT.cfg", files, what="simulated 4-block behaviours", timeout=3000)
    ctx.assumptions += ["block universe: every parent function on 3 (simulation: 4) blocks, every miner assignment; blocks carry no transactions",
                        "a signature is abstracted to (signer, encoding variant); real signatures are produced with the deputies' keys, variant 1 = s -> n-s",
                        "term configurations: TermDuration 4 / InterimDuration 1 (package variables of /repo), the blocks below the boundary (funding, register/unregister "
                        "transactions, snapshot block(s); heights 1..4, 1..3 or, for the second term change, 1..8) are a fixed prefix every node under test receives with the "
                        "confirms of all deputies of each block's term; the deputy set of every height given to the monitor is the harness's own configuration, not read from the node; "
                        "replayed term graphs use one miner per class (old-term only, both terms, new-term only) and 11-16 packets, the full miner/packet family is model-checked design-side (thorough)"]
