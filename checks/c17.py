"""C17 state commitments bind content.

Part 1 (state trie): TrieKV.tla - a set of trie HANDLES (Go objects) over one TrieDatabase, each with its own
abstract content: the trie a behaviour starts with, copies (SecureTrie.Copy / struct copy), tries opened from the
same or an older committed root, dropped handles.  TLC checks that the transcribed insert/delete of store/trie keep
the node structure canonical (a function of the content), that reads return the last write, that different contents
have different structures and that a step changes the content of at most the handle it names, on every reachable
state; every transition of the state graphs (Put / Remove / Get / Hash / Commit to the node cache or to BeansDB /
Reopen on the same or a fresh TrieDatabase or after re-opening the chain database / ProveAll on a chosen handle,
Copy / Open / OpenOld / Close of handles, for the plain Trie and the SecureTrie and several cache limits; one graph
with one handle and a large key universe, one with two handles interleaved) is replayed on the real tries over the
BeansDB-backed TrieDatabase.  After EVERY call the adapter reads back every live handle and a snapshot (copy) of the
handle operated on taken just before the call; TraceTrieKV.tla requires reads, root and node paths of each of them to
be the function of that handle's own content (persistent structure: nothing done through one handle shows in another
or in an older version), validates proofs and - over ALL replayed paths of the run - that a content has one root and
a root one content.  Random long behaviours of larger configurations (TLC -simulate; one handle with older roots
reopened, three handles) go through the same pipeline.

Part 2 (Merkle tree): Merkle.tla - TLC checks root/proof invariants of the transcribed queue construction for
all leaf lists up to N over a free hash; the real functions are evaluated on every one of those lists plus a
seeded grid of longer lists and validated by TraceMerkle.tla over the real Keccak256 as an oracle.
MerkleHist.tla - HISTORIES of computations over shared leaf storage: one caller-owned append-built list, roots /
proofs / MerkleRootSha over arbitrary prefixes and sub-ranges in any order in real caller shapes (re-slice with the
following leaves in its capacity, clipped, freshly built, reused scratch buffer), trees kept across later calls.
TLC checks that a tree building its node queue in an array of its own keeps the caller's list, every result and
every kept result (negative control: building it in the caller's slice with Go's append semantics does not); every
transition of that graph (all ordered pairs kept computation -> next computation) and seeded long histories run on
the real code, and TraceMerkle.tla requires every result to be the pure function of the range as originally given
and the caller's lists / kept trees, read back after every call, to be unchanged."""
import concurrent.futures, json, os, re, subprocess, sys
LEVEL = "model_checking"

MANIFEST = dict(
    level="model_checking",
    text="TrieKV.tla: a set of trie handles (Go objects: the trie a behaviour starts with, SecureTrie.Copy / struct copies, tries opened from the "
         "same or an older committed root, dropped handles) over one TrieDatabase, each with its own abstract content. TLC checks on every "
         "reachable state that the transcribed trie insert/delete keep the node structure equal to the "
         "canonical trie of the content (keys with shared nibble prefixes incl. a key that is a strict prefix of others, short and >=32-byte "
         "values), that lookups return the last write, that distinct contents have distinct structures and that a step changes the content of "
         "at most the handle it names. TrieKVHeap.tla (memory-shaped: handles are root pointers into one heap of shared nodes, insert/delete "
         "transcribed with their allocation behaviour, every sharing pattern of the garbage-collected heap): TLC checks HandlesIndependent - the "
         "tree of every handle is the canonical trie of its own content whatever is done through the others (negative controls: a full node "
         "edited in place by delete / by insert). Every transition of the state graphs (one handle with a large key universe; two handles "
         "interleaved) and seeded TLC-simulated long behaviours (one handle with older roots; three handles) are replayed on the real "
         "Trie / SecureTrie over the BeansDB-backed TrieDatabase "
         "(commits to the node cache and to disk, cache limits 0/1/2/120, reopen by root on the same / a fresh TrieDatabase / after re-opening "
         "the database directory). After every call the adapter reads back EVERY live handle and a snapshot (copy) of the handle operated on "
         "taken just before the call; TLC validates the recorded real results: reads, root and node paths of each of them are those of that "
         "handle's own content (the snapshot: of the content before the call), proofs (genuine verifies, manipulated node "
         "sets never yield another value) and, across all replayed paths, one root per content and one content per root. Merkle.tla: TLC checks "
         "node count, proofs verify for every position, altered leaves fail, root binds the ordered list for all lists up to N over a free hash; "
         "the real merkle functions are evaluated on all those lists and a seeded grid (<=40 leaves, repeated leaves) and validated by TLC over "
         "the real Keccak256 as an oracle. MerkleHist.tla (memory-shaped: caller's array, scratch buffer, kept trees): TLC checks ListKept / "
         "ResultPure / HandlesStable for all histories of Compute(shape, i, j, keep) / AppendLeaf / Reread (negative control: node queue built "
         "in the caller's slice); every transition and seeded histories (<=24 leaves, 3 kept trees, Go's natural slice growth) are executed "
         "on the real merkle.New/Root/HashNodes/FindSiblingNodes/Verify and Transactions/ChangeLogSlice/DeputyNodes.MerkleRootSha over "
         "slices of shared storage with cap > len; TLC validates each result against the list as originally given and that the caller's "
         "lists and kept trees, read back after every call, are unchanged.",
    note="The adapter observes roots/reads/node paths through an independent copy of the trie object, so the tries under test are only "
         "touched by the spec's actions (Get and Hash are actions of their own); the copies are the project's own copy semantics (SecureTrie.Copy, "
         "struct copy of a Trie as NewSecure does). A root that the real code committed and cannot open again is recorded as a real-code "
         "failure (engine.Realf). Trie.Prove is commented out in /repo; proofs are the nodes the "
         "real VerifyProof walks, served by the TrieDatabase, re-keyed by their own Keccak256 as a light client would. The free hash of the design "
         "model assumes Keccak256 is collision free and that a Merkle leaf is never the hash of a 64-byte string (an inner node presented as "
         "a leaf is accepted by FindSiblingNodes/Verify; not demanded otherwise by the property). TrieDatabase.Reference/Dereference garbage "
         "collection is not exercised (unused by the project).",
    technique="TLA+ model checking (TrieKV.tla, TrieKVHeap.tla, Merkle.tla, MerkleHist.tla) + replay of the full TLC state graphs and of TLC-simulated behaviours on the real "
              "code + TLC trace validation (TraceTrieKV.tla, TraceMerkle.tla)")


def Broken(msg):
    return __import__("vlib").Broken(msg)


def _digest_one(f):
    """rootobs lines (distinct) of one trace file"""
    seen, kind, keys = set(), None, None
    for ln in open(f):
        e = json.loads(ln)
        if e["ev"] == "reset":
            kind, keys = e["kind"], e["keys"]
        for o in e.get("obs", []) + ([e["pre"]] if "pre" in e else []):
            seen.add(json.dumps(dict(ev="rootobs", beh=0, step=0, kind=kind, keys=keys, reads=o["reads"], root=o["root"]), sort_keys=True))
    return seen


def digest(files, out):
    """Restate the <<kind, keys, reads, root>> observations (every live handle and the snapshot of every event) of
    (accepted) trace files as rootobs lines, once each.  One python process per file (this file run as a script)."""
    def one(f):
        r = subprocess.run([sys.executable, os.path.abspath(__file__), "--digest", f], capture_output=True, text=True)
        if r.returncode != 0:
            raise Broken("digest of %s failed: %s" % (f, r.stderr[-500:]))
        return set(r.stdout.splitlines())
    seen = set()
    with concurrent.futures.ThreadPoolExecutor(8) as ex:
        for s in ex.map(one, files):
            seen |= s
    with open(out, "w") as fh:
        for ln in sorted(seen):
            fh.write(ln + "\n")
    return len(seen)


def validate_trie(ctx, files, what, also=()):
    """The trace is validated in chunks by several TLC processes at once (TLC reads a trace single-threaded, ~4 MB/s,
    and holds it in memory), each on its own copy of the trace module; one more run over the root observations of
    all chunks makes the root rule (one root per content, one content per root) span the whole run.
    also: further validations (callables returning accepted, behaviours) to run at the same time.
    Returns (trie traces accepted, [results of also])."""
    slots = int(os.environ.get("VERIF_C17_SLOTS", "5" if ctx.quick() else "6"))
    size = {f: os.path.getsize(f) for f in files}
    cap = int(os.environ.get("VERIF_C17_MAXBYTES", str(26 << 20)))                 # bounded memory per TLC process (fits 2.5 GB of heap)
    nbins = max(1, min(len(files), max(slots, -(-sum(size.values()) // cap))))
    bins = [[0, []] for _ in range(nbins)]
    for f in sorted(files, key=lambda f: (-size[f], f)):                           # largest first into the emptiest bin
        b = min(bins, key=lambda b: b[0])
        b[0] += size[f]
        b[1].append(f)
    chunks = [b[1] for b in sorted(bins, key=lambda b: -b[0]) if b[1]]
    src = open(os.path.join(ctx.specdir, "TraceTrieKV.tla")).read()
    for i in range(slots):
        with open(os.path.join(ctx.specdir, "TraceTrieKV_%d.tla" % i), "w") as fh:
            fh.write(src.replace("---- MODULE TraceTrieKV ----", "---- MODULE TraceTrieKV_%d ----" % i, 1))
    free = list(range(slots))
    tlc = ctx.tlc

    def small_heap(module, *a, **kw):           # several validators at once on a shared machine: keep each of them small
        if module.startswith("TraceTrieKV_"):
            kw["heap"] = os.environ.get("VERIF_C17_HEAP", "2500m")
        return tlc(module, *a, **kw)
    ctx.tlc = small_heap

    def one(ic):
        i, ch = ic
        slot = free.pop()
        try:
            # behaviours are counted below, in one thread
            return ctx.validate("TraceTrieKV_%d" % slot, "TraceTrieKV.cfg", ch, what="%s, chunk %d/%d" % (what, i + 1, len(chunks)),
                                timeout=3000, count_behaviours=False)
        finally:
            free.append(slot)

    # the root observations of all chunks, once each (validated beside the chunks)
    dg = ctx.path("traces", "rootobs.ndjson")
    ctx.extra["root_observations_validated_across_chunks"] = digest(files, dg)

    def roots():
        return ctx.validate("TraceTrieKV", "TraceTrieKV.cfg", [dg], what="root observations of all chunks", timeout=3000, count_behaviours=False)

    with concurrent.futures.ThreadPoolExecutor(1 + len(also)) as ex2, concurrent.futures.ThreadPoolExecutor(slots) as ex:
        extra = [ex2.submit(f) for f in also]
        rts = ex2.submit(roots)
        oks = list(ex.map(one, enumerate(chunks)))          # at most `slots` at a time: one module copy each
        others = [f.result() for f in extra]
        ok = rts.result() and all(oks)
    ctx.tlc = tlc
    for acc, nbeh in others:
        if acc:
            ctx.cov["traces_validated_against_impl"] += nbeh
    if ok:
        ctx.cov["traces_validated_against_impl"] += sum(1 for f in files for ln in open(f) if '"ev":"reset"' in ln)
    return ok, [acc for acc, _ in others]


def heap_design(ctx, quick):
    """Design side, memory-shaped (TrieKVHeap.tla): handles are root pointers into one heap of shared nodes, insert / delete
    transcribed with their allocation behaviour; all sharing patterns (garbage-collected, renumbered heap).  Runs beside the
    replays; returns what run() records (the counters are added there, in one thread)."""
    runs = []
    for cfg in ["MCTrieKVHeap.cfg"] + ([] if quick else ["MCTrieKVHeap_h3.cfg", "MCTrieKVHeap_v2.cfg"]):
        r = ctx.tlc("MCTrieKVHeap", cfg, timeout=1800, workers=4)
        runs.append(dict(module="MCTrieKVHeap", cfg=cfg, generated=r["generated"], distinct=r["distinct"], wall_s=round(r["wall"], 1)))
    if not quick:
        # design only: the bookkeeping of TrieKV.tla (which committed content can be opened from where) with three handles,
        # older roots and all reopen modes - the configuration the simulated behaviours are drawn from, on a small key universe
        # (a copy of the module under another name: TLC of MCTrieKV itself runs in the main thread meanwhile)
        with open(os.path.join(ctx.specdir, "MCTrieKV.tla")) as src, open(os.path.join(ctx.specdir, "MCTrieKVBook.tla"), "w") as dst:
            dst.write(src.read().replace("---- MODULE MCTrieKV ----", "---- MODULE MCTrieKVBook ----", 1))
        r = ctx.tlc("MCTrieKVBook", "MCTrieKV_hbook.cfg", timeout=1800, workers=4)
        runs.append(dict(module="MCTrieKV", cfg="MCTrieKV_hbook.cfg", generated=r["generated"], distinct=r["distinct"], wall_s=round(r["wall"], 1)))
    # negative controls: a full node edited where it is (delete: the seeded class; insert) breaks HandlesIndependent
    negs = {}
    for cfg in ("MCTrieKVHeap_negdel.cfg", "MCTrieKVHeap_negins.cfg"):
        r = ctx.tlc("MCTrieKVHeap", cfg, timeout=600, expect_ok=False, workers=4)
        negs[cfg] = r["inv"]
        if r["inv"] != "HandlesIndependent":
            raise Broken("negative control %s: editing a shared full node in place should violate HandlesIndependent, got %s" % (cfg, r["inv"]))
    # not vacuous: two live handles with different contents that share a node are reachable
    r = ctx.tlc("MCTrieKVHeap", "MCTrieKVHeap_share.cfg", timeout=600, expect_ok=False, workers=4)
    if r["inv"] != "SharingOccurs":
        raise Broken("TrieKVHeap: no reachable state in which two handles with different contents share a node (%s)" % r["inv"])
    return runs, negs


def run(ctx):
    os.environ.setdefault("VERIF_TLC_HEAP", "4g")      # every TLC run of this check fits (traces are validated in chunks)
    ctx.build()
    quick = ctx.quick()
    pool = concurrent.futures.ThreadPoolExecutor(1)
    heap = pool.submit(heap_design, ctx, quick)
    # ------------------------------------------------------------------ part 1: state trie
    cfg = "MCTrieKV_quick.cfg" if quick else "MCTrieKV_thorough.cfg"
    dot = ctx.path("triekv.dot")
    r = ctx.tlc_exhaustive("MCTrieKV", cfg, timeout=1200, dump=dot, coverage=not quick)
    # (one handle: Copy / Open / OpenOld / Close and their disjuncts of Next are not enabled; they are in the graph of two handles below)
    if not quick and set(r.get("zero_cov") or []) - {"Copy", "Open", "OpenOld", "Close", "Next"}:
        raise Broken("TrieKV actions never taken: %s" % r["zero_cov"])
    # negative control: without the short-node merging / full-node collapsing of delete the structure is history dependent
    neg = ctx.tlc("MCTrieKV", "MCTrieKV_neg.cfg", timeout=300, expect_ok=False)
    ctx.extra["negative_control_delete_without_normalisation_violates"] = neg["inv"]
    if neg["inv"] not in ("InsertKeepsCanonical", "DeleteKeepsCanonical"):
        raise Broken("negative control: delete without normalisation should violate Insert/DeleteKeepsCanonical, got %s" % neg["inv"])
    files, summ = ctx.replay("triekv", graph=dot, shards=16, maxlen=300, timeout=1800)
    # several handles alive at once (copies, second tries from the same committed root), operations interleaved between them
    thcfg = "MCTrieKV_hquick.cfg" if quick else "MCTrieKV_hthorough.cfg"
    thdot = ctx.path("triekv-handles.dot")
    r = ctx.tlc_exhaustive("MCTrieKV", thcfg, timeout=1200, dump=thdot, coverage=not quick)
    if not quick and set(r.get("zero_cov") or []) - {"OpenOld", "Next"}:                # MaxOld = 0 in the graph: OpenOld is in the simulated behaviours
        raise Broken("TrieKV actions never taken with two handles: %s" % r["zero_cov"])
    thfiles, thsumm = ctx.replay("triekv", graph=thdot, shards=16, maxlen=300, name="triekv-handles", timeout=1800)
    for need in ("Put", "Remove", "Get", "Hash", "Commit", "Reopen", "ProveAll", "Copy", "Open", "Close"):
        if not thsumm["action_counts"].get(need):
            raise Broken("replay with several handles never performed %s" % need)
    efiles = []
    if not quick:
        # edge universe: the empty key (strict prefix of every key), 1234, 1235, 12 with three value sizes
        edot = ctx.path("triekv-edge.dot")
        ctx.tlc_exhaustive("MCTrieKV", "MCTrieKV_edge.cfg", timeout=1200, dump=edot)
        efiles, esumm = ctx.replay("triekv", graph=edot, shards=16, maxlen=300, name="triekv-edge", timeout=1800)
        ctx.extra["edge_transitions_in_graph"] = esumm["graph_edges"]
    # random long behaviours of the larger configuration (3 value sizes, older roots reopened, cache limit 120)
    nsim, depth = (300, 80) if quick else (1200, 100)
    sim = ctx.tlc_simulate("MCTrieKV", "MCTrieKV_sim.cfg", nsim, depth, "triekv", timeout=1200)
    sfiles, ssumm = ctx.replay("triekv", sim=sim, shards=16, name="triekv-sim", timeout=1800)
    # ... and of three handles (copies of copies, older roots opened next to the trie that went on, all reopen modes)
    hnsim, hdepth = (200, 80) if quick else (1500, 100)
    hsim = ctx.tlc_simulate("MCTrieKV", "MCTrieKV_hsim.cfg", hnsim, hdepth, "triekv-h", timeout=1200)
    hsfiles, hssumm = ctx.replay("triekv", sim=hsim, shards=16, name="triekv-handles-sim", timeout=1800)
    for need in ("Copy", "Open", "OpenOld", "Close"):
        if not hssumm["action_counts"].get(need):
            raise Broken("simulated behaviours with several handles never performed %s" % need)
    for need in ("Put", "Remove", "Get", "Hash", "Commit", "Reopen", "ProveAll"):
        if not summ["action_counts"].get(need):
            raise Broken("replay never performed %s" % need)
    # ------------------------------------------------------------------ part 2: Merkle tree
    mcfg = "Merkle_quick.cfg" if quick else "Merkle_thorough.cfg"
    mdot = ctx.path("merkle.dot")
    ctx.tlc_exhaustive("Merkle", mcfg, timeout=1200, dump=mdot)
    mfiles, msumm = ctx.replay("merkle", graph=mdot, shards=8, maxlen=400, name="merkle")
    grid = ctx.path("traces", "merkle-grid.ndjson")
    rows = 150 if quick else 800
    ctx.drive("merkle-grid", ["-out", grid, "-seed", ctx.seed, "-rows", rows, "-maxlen", 40])
    # histories of computations over SHARED leaf storage (MerkleHist.tla): prefixes / sub-ranges of one caller-owned list in
    # real caller shapes (re-slice with capacity behind it, clipped, freshly built, reused scratch buffer), trees kept across calls
    hcfg = "MerkleHist_quick.cfg" if quick else "MerkleHist_thorough.cfg"
    hdot = ctx.path("merklehist.dot")
    ctx.tlc_exhaustive("MerkleHist", hcfg, timeout=1200, dump=hdot)
    if not quick:
        ctx.tlc_exhaustive("MerkleHist", "MerkleHist_slots2.cfg", timeout=1200)          # design only: two kept trees
    # negative control: a tree that builds its node queue in the caller's slice (Go append semantics) breaks the clauses
    hneg = ctx.tlc("MerkleHist", "MerkleHist_neg.cfg", timeout=300, expect_ok=False)
    ctx.extra["negative_control_nodes_built_in_callers_slice_violates"] = hneg["inv"]
    if hneg["inv"] not in ("ListKept", "ResultPure", "HandlesStable"):
        raise Broken("negative control: building the nodes in the caller's slice should violate ListKept/ResultPure/HandlesStable, got %s" % hneg["inv"])
    hfiles, hsumm = ctx.replay("merklehist", graph=hdot, shards=8, maxlen=400, name="merklehist")
    for need in ("AppendLeaf", "Compute", "Reread"):
        if not hsumm["action_counts"].get(need):
            raise Broken("merklehist replay never performed %s" % need)
    hdrv = ctx.path("traces", "merkle-hist.ndjson")
    hbehs, hsteps = (25, 60) if quick else (200, 80)
    ctx.drive("merkle-hist", ["-out", hdrv, "-seed", ctx.seed, "-behs", hbehs, "-steps", hsteps, "-maxlen", 24])
    hruns, hnegs = heap.result()
    pool.shutdown()
    for r in hruns:
        ctx.cov["states"] += r["distinct"]
        ctx.cov["transitions"] += r["generated"]
        ctx.extra.setdefault("tlc_runs", []).append(r)
        ctx.log("TLC %s/%s: %d generated, %d distinct, %.1fs (beside the replays)" % (r["module"], r["cfg"], r["generated"], r["distinct"], r["wall_s"]))
    ctx.extra["negative_control_full_node_edited_in_place_violates"] = hnegs
    # ------------------------------------------------------------------ validation of everything recorded, at the same time
    # Merkle: one validation run: the run-wide root function (one root per ordered list, one list per root) spans lists, grid and histories
    def merkle():
        mtr = mfiles + [grid] + hfiles + [hdrv]
        acc = ctx.validate("TraceMerkle", "TraceMerkle.cfg", mtr, count_behaviours=False, timeout=1800,
                           what="all leaf lists of the graph + seeded grid + histories over shared storage (graph tours + seeded)")
        return acc, sum(1 for f in mtr for ln in open(f) if '"ev":"reset"' in ln)
    # tries: the root history (content <-> root) spans all paths of the run
    ok, (mok,) = validate_trie(ctx, files + thfiles + efiles + sfiles + hsfiles, "state-graph tours + simulated behaviours", also=[merkle])
    ctx.extra["distinct_transitions_replayed"] = summ["graph_edges"] if ok else 0
    ctx.extra["transitions_in_graph"] = summ["graph_edges"]
    ctx.extra["handles_transitions_in_graph"] = thsumm["graph_edges"]
    ctx.extra["handles_transitions_replayed"] = thsumm["graph_edges"] if ok else 0
    ctx.extra["handles_simulated"] = dict(behaviours=hnsim, depth=hdepth, handles=3) if ok else 0
    ctx.extra["merkle_lists_in_graph"] = msumm["graph_nodes"]
    ctx.extra["merkle_grid_rows"] = rows if mok else 0
    ctx.extra["merkle_history_transitions_in_graph"] = hsumm["graph_edges"]
    ctx.extra["merkle_history_transitions_replayed"] = hsumm["graph_edges"] if mok else 0
    ctx.extra["merkle_seeded_histories"] = dict(behaviours=hbehs, steps=hsteps, max_leaves=24, slots=3) if mok else 0
    ctx.cov["samples"] = [x[:14] for x in summ["samples"][:1] + thsumm["samples"][:1] + hssumm["samples"][:1]]
    ctx.cov["samples"] += [x[:10] for x in msumm["samples"][:1]] + [x[:12] for x in hsumm["samples"][:1]]
    ctx.cov["exhaustive"] = True
    ctx.extra["bounds"] = dict(triekv_graph=open(ctx.specdir + "/" + cfg).read(), triekv_sim=open(ctx.specdir + "/MCTrieKV_sim.cfg").read(),
                               triekv_handles_graph=open(ctx.specdir + "/" + thcfg).read(), triekv_handles_sim=open(ctx.specdir + "/MCTrieKV_hsim.cfg").read(),
                               merkle=open(ctx.specdir + "/" + mcfg).read(), merkle_histories=open(ctx.specdir + "/" + hcfg).read(),
                               sim_behaviours=nsim, sim_depth=depth)
    ctx.assumptions += [
        "Keccak256 is collision free on the values that occur (free hash in the design models; 'a value outside the oracle table stays outside' in TraceMerkle)",
        "key universe: byte keys 1234 1235 1245 12 1334 7234 and the empty key (plain Trie; 12 and the empty key are strict prefixes) and six preimages whose Keccak hashes share 3/2/2/1/0 "
        "leading nibbles (SecureTrie); values of 1, 27 and 40 bytes",
        "Merkle leaves are 32-byte hashes that are not themselves hashes of two tree nodes",
        "Merkle histories: the caller only appends behind its list (existing positions are never rewritten by the caller) and a kept tree "
        "has been asked for its root before the caller goes on (New is lazy: it reads the leaf slice at the first Root/HashNodes)",
        "one TrieDatabase at a time (a new TrieDatabase or a re-opened database directory is the end of all other handles); up to three "
        "trie objects on it; TrieDatabase.Reference/Dereference are not called (as in the project); handles are used from one goroutine "
        "(Trie is documented as not safe for concurrent use)"]


if __name__ == "__main__":
    if len(sys.argv) == 3 and sys.argv[1] == "--digest":
        sys.stdout.write("".join(ln + "\n" for ln in sorted(_digest_one(sys.argv[2]))))
