"""C17 state commitments bind content.

Part 1 (state trie): TrieKV.tla - TLC checks that the transcribed insert/delete of store/trie keep the node
structure canonical (a function of the content), that reads return the last write and that different contents
have different structures, on every reachable state; every transition of that state graph (Put / Remove /
Get / Hash / Commit to the node cache or to BeansDB / Reopen on the same or a fresh TrieDatabase or after
re-opening the chain database / ProveAll, for the plain Trie and the SecureTrie and several cache limits) is
replayed on the real trie over the BeansDB-backed TrieDatabase; TraceTrieKV.tla validates reads, node paths,
proofs and - over ALL replayed paths of the run - that a content has one root and a root one content.
Random long behaviours of a larger configuration (TLC -simulate) go through the same pipeline.

Part 2 (Merkle tree): Merkle.tla - TLC checks root/proof invariants of the transcribed queue construction for
all leaf lists up to N over a free hash; the real functions are evaluated on every one of those lists plus a
seeded grid of longer lists and validated by TraceMerkle.tla over the real Keccak256 as an oracle.
MerkleHist.tla - HISTORIES of computations over shared leaf storage: one caller-owned append-built list, roots /
proofs / MerkleRootSha over arbitrary prefixes and sub-ranges in any order in real caller shapes (re-slice with the
following leaves in its capacity, clipped, freshly built, reused scratch buffer), trees kept across later calls.
TLC checks that a tree building its node queue in an array of its own keeps the caller's list, every result and
every kept result (negative control: building it in the caller's slice with Go's append semantics does not); every
transition of that graph (all ordered pairs kept computation -> next computation) and seeded long histories run on
the real code, and TraceMerkle.tla requires every result to be the pure function of the range as originally given
and the caller's lists / kept trees, read back after every call, to be unchanged."""
import json, os, re
LEVEL = "model_checking"

MANIFEST = dict(
    level="model_checking",
    text="TLC checks on every reachable state of TrieKV.tla that the transcribed trie insert/delete keep the node structure equal to the "
         "canonical trie of the content (keys with shared nibble prefixes incl. a key that is a strict prefix of others, short and >=32-byte "
         "values), that lookups return the last write and that distinct contents have distinct structures; every transition of that state "
         "graph and seeded TLC-simulated long behaviours are replayed on the real Trie / SecureTrie over the BeansDB-backed TrieDatabase "
         "(commits to the node cache and to disk, cache limits 0/1/2/120, reopen by root on the same / a fresh TrieDatabase / after re-opening "
         "the database directory) and TLC validates the recorded real results: reads, node paths, proofs (genuine verifies, manipulated node "
         "sets never yield another value) and, across all replayed paths, one root per content and one content per root. Merkle.tla: TLC checks "
         "node count, proofs verify for every position, altered leaves fail, root binds the ordered list for all lists up to N over a free hash; "
         "the real merkle functions are evaluated on all those lists and a seeded grid (<=40 leaves, repeated leaves) and validated by TLC over "
         "the real Keccak256 as an oracle. MerkleHist.tla (memory-shaped: caller's array, scratch buffer, kept trees): TLC checks ListKept / "
         "ResultPure / HandlesStable for all histories of Compute(shape, i, j, keep) / AppendLeaf / Reread (negative control: node queue built "
         "in the caller's slice); every transition and seeded histories (<=24 leaves, 3 kept trees, Go's natural slice growth) are executed "
         "on the real merkle.New/Root/HashNodes/FindSiblingNodes/Verify and Transactions/ChangeLogSlice/DeputyNodes.MerkleRootSha over "
         "slices of shared storage with cap > len; TLC validates each result against the list as originally given and that the caller's "
         "lists and kept trees, read back after every call, are unchanged.",
    note="The adapter observes roots/reads/node paths through an independent copy of the trie object, so the trie under test is only "
         "touched by the spec's actions (Get and Hash are actions of their own). Trie.Prove is commented out in /repo; proofs are the nodes the "
         "real VerifyProof walks, served by the TrieDatabase, re-keyed by their own Keccak256 as a light client would. The free hash of the design "
         "model assumes Keccak256 is collision free and that a Merkle leaf is never the hash of a 64-byte string (an inner node presented as "
         "a leaf is accepted by FindSiblingNodes/Verify; not demanded otherwise by the property). TrieDatabase.Reference/Dereference garbage "
         "collection is not exercised (unused by the project).",
    technique="TLA+ model checking (TrieKV.tla, Merkle.tla, MerkleHist.tla) + replay of the full TLC state graphs and of TLC-simulated behaviours on the real "
              "code + TLC trace validation (TraceTrieKV.tla, TraceMerkle.tla)")


def Broken(msg):
    return __import__("vlib").Broken(msg)


def digest(files, out):
    """Restate the <<kind, keys, reads, root>> observations of (accepted) trace files as rootobs lines, once each."""
    seen = set()
    with open(out, "w") as fh:
        for f in files:
            kind = keys = None
            for ln in open(f):
                e = json.loads(ln)
                if e["ev"] == "reset":
                    kind, keys = e["kind"], e["keys"]
                k = (kind, tuple(keys), tuple(e["reads"]), e["root"])
                if k not in seen:
                    seen.add(k)
                    fh.write(json.dumps(dict(ev="rootobs", beh=0, step=0, kind=kind, keys=keys, reads=e["reads"], root=e["root"])) + "\n")
    return len(seen)


def validate_trie(ctx, files, what):
    """One TLC run when the trace is small enough, otherwise chunks (bounded memory) + one run over the chunks' root observations."""
    lines = sum(1 for f in files for _ in open(f))
    limit = int(os.environ.get("VERIF_C17_MAXLINES", "250000"))      # one TLC process holds the whole trace in memory
    if lines <= limit:
        return ctx.validate("TraceTrieKV", "TraceTrieKV.cfg", files, what=what, timeout=3000)
    chunks, cur, n = [], [], 0
    for f in files:
        k = sum(1 for _ in open(f))
        if cur and n + k > limit * 5 // 8:
            chunks.append(cur)
            cur, n = [], 0
        cur.append(f)
        n += k
    if cur:
        chunks.append(cur)
    ok = True
    for i, ch in enumerate(chunks):
        ok = ctx.validate("TraceTrieKV", "TraceTrieKV.cfg", ch, what="%s, chunk %d/%d" % (what, i + 1, len(chunks)), timeout=3000) and ok
    if not ok:
        return False
    dg = ctx.path("traces", "rootobs.ndjson")
    n = digest(files, dg)
    ctx.extra["root_observations_validated_across_chunks"] = n
    return ctx.validate("TraceTrieKV", "TraceTrieKV.cfg", [dg], what="root observations of all chunks", timeout=3000, count_behaviours=False)


def run(ctx):
    os.environ.setdefault("VERIF_TLC_HEAP", "4g")      # every TLC run of this check fits (traces are validated in chunks)
    ctx.build()
    quick = ctx.quick()
    # ------------------------------------------------------------------ part 1: state trie
    cfg = "MCTrieKV_quick.cfg" if quick else "MCTrieKV_thorough.cfg"
    dot = ctx.path("triekv.dot")
    r = ctx.tlc_exhaustive("MCTrieKV", cfg, timeout=1200, dump=dot, coverage=not quick)
    if not quick and r.get("zero_cov"):
        raise Broken("TrieKV actions never taken: %s" % r["zero_cov"])
    # negative control: without the short-node merging / full-node collapsing of delete the structure is history dependent
    neg = ctx.tlc("MCTrieKV", "MCTrieKV_neg.cfg", timeout=300, expect_ok=False)
    ctx.extra["negative_control_delete_without_normalisation_violates"] = neg["inv"]
    if neg["inv"] not in ("InsertKeepsCanonical", "DeleteKeepsCanonical"):
        raise Broken("negative control: delete without normalisation should violate Insert/DeleteKeepsCanonical, got %s" % neg["inv"])
    files, summ = ctx.replay("triekv", graph=dot, shards=16, maxlen=300, timeout=1800)
    efiles = []
    if not quick:
        # edge universe: the empty key (strict prefix of every key), 1234, 1235, 12 with three value sizes
        edot = ctx.path("triekv-edge.dot")
        ctx.tlc_exhaustive("MCTrieKV", "MCTrieKV_edge.cfg", timeout=1200, dump=edot)
        efiles, esumm = ctx.replay("triekv", graph=edot, shards=16, maxlen=300, name="triekv-edge", timeout=1800)
        ctx.extra["edge_transitions_in_graph"] = esumm["graph_edges"]
    # random long behaviours of the larger configuration (3 value sizes, older roots reopened, cache limit 120)
    nsim, depth = (300, 80) if quick else (1200, 100)
    sim = ctx.tlc_simulate("MCTrieKV", "MCTrieKV_sim.cfg", nsim, depth, "triekv", timeout=1200)
    sfiles, ssumm = ctx.replay("triekv", sim=sim, shards=16, name="triekv-sim", timeout=1800)
    # one validation run over everything: the root history (content <-> root) spans all paths
    ok = validate_trie(ctx, files + efiles + sfiles, "state-graph tour(s) + simulated behaviours")
    ctx.extra["distinct_transitions_replayed"] = summ["graph_edges"] if ok else 0
    ctx.extra["transitions_in_graph"] = summ["graph_edges"]
    ctx.cov["samples"] = [x[:14] for x in summ["samples"][:2] + ssumm["samples"][:1]]
    for need in ("Put", "Remove", "Get", "Hash", "Commit", "Reopen", "ProveAll"):
        if not summ["action_counts"].get(need):
            raise Broken("replay never performed %s" % need)
    # ------------------------------------------------------------------ part 2: Merkle tree
    mcfg = "Merkle_quick.cfg" if quick else "Merkle_thorough.cfg"
    mdot = ctx.path("merkle.dot")
    ctx.tlc_exhaustive("Merkle", mcfg, timeout=1200, dump=mdot)
    mfiles, msumm = ctx.replay("merkle", graph=mdot, shards=8, maxlen=400, name="merkle")
    grid = ctx.path("traces", "merkle-grid.ndjson")
    rows = 150 if quick else 800
    ctx.drive("merkle-grid", ["-out", grid, "-seed", ctx.seed, "-rows", rows, "-maxlen", 40])
    # histories of computations over SHARED leaf storage (MerkleHist.tla): prefixes / sub-ranges of one caller-owned list in
    # real caller shapes (re-slice with capacity behind it, clipped, freshly built, reused scratch buffer), trees kept across calls
    hcfg = "MerkleHist_quick.cfg" if quick else "MerkleHist_thorough.cfg"
    hdot = ctx.path("merklehist.dot")
    ctx.tlc_exhaustive("MerkleHist", hcfg, timeout=1200, dump=hdot)
    if not quick:
        ctx.tlc_exhaustive("MerkleHist", "MerkleHist_slots2.cfg", timeout=1200)          # design only: two kept trees
    # negative control: a tree that builds its node queue in the caller's slice (Go append semantics) breaks the clauses
    hneg = ctx.tlc("MerkleHist", "MerkleHist_neg.cfg", timeout=300, expect_ok=False)
    ctx.extra["negative_control_nodes_built_in_callers_slice_violates"] = hneg["inv"]
    if hneg["inv"] not in ("ListKept", "ResultPure", "HandlesStable"):
        raise Broken("negative control: building the nodes in the caller's slice should violate ListKept/ResultPure/HandlesStable, got %s" % hneg["inv"])
    hfiles, hsumm = ctx.replay("merklehist", graph=hdot, shards=8, maxlen=400, name="merklehist")
    for need in ("AppendLeaf", "Compute", "Reread"):
        if not hsumm["action_counts"].get(need):
            raise Broken("merklehist replay never performed %s" % need)
    hdrv = ctx.path("traces", "merkle-hist.ndjson")
    hbehs, hsteps = (25, 60) if quick else (200, 80)
    ctx.drive("merkle-hist", ["-out", hdrv, "-seed", ctx.seed, "-behs", hbehs, "-steps", hsteps, "-maxlen", 24])
    # one validation run: the run-wide root function (one root per ordered list, one list per root) spans lists, grid and histories
    mok = ctx.validate("TraceMerkle", "TraceMerkle.cfg", mfiles + [grid] + hfiles + [hdrv],
                       what="all leaf lists of the graph + seeded grid + histories over shared storage (graph tours + seeded)", timeout=1800)
    ctx.extra["merkle_lists_in_graph"] = msumm["graph_nodes"]
    ctx.extra["merkle_grid_rows"] = rows if mok else 0
    ctx.extra["merkle_history_transitions_in_graph"] = hsumm["graph_edges"]
    ctx.extra["merkle_history_transitions_replayed"] = hsumm["graph_edges"] if mok else 0
    ctx.extra["merkle_seeded_histories"] = dict(behaviours=hbehs, steps=hsteps, max_leaves=24, slots=3) if mok else 0
    ctx.cov["samples"] += [x[:10] for x in msumm["samples"][:1]] + [x[:12] for x in hsumm["samples"][:1]]
    ctx.cov["exhaustive"] = True
    ctx.extra["bounds"] = dict(triekv_graph=open(ctx.specdir + "/" + cfg).read(), triekv_sim=open(ctx.specdir + "/MCTrieKV_sim.cfg").read(),
                               merkle=open(ctx.specdir + "/" + mcfg).read(), merkle_histories=open(ctx.specdir + "/" + hcfg).read(),
                               sim_behaviours=nsim, sim_depth=depth)
    ctx.assumptions += [
        "Keccak256 is collision free on the values that occur (free hash in the design models; 'a value outside the oracle table stays outside' in TraceMerkle)",
        "key universe: byte keys 1234 1235 1245 12 1334 7234 and the empty key (plain Trie; 12 and the empty key are strict prefixes) and six preimages whose Keccak hashes share 3/2/2/1/0 "
        "leading nibbles (SecureTrie); values of 1, 27 and 40 bytes",
        "Merkle leaves are 32-byte hashes that are not themselves hashes of two tree nodes",
        "Merkle histories: the caller only appends behind its list (existing positions are never rewritten by the caller) and a kept tree "
        "has been asked for its root before the caller goes on (New is lazy: it reads the leaf slice at the first Root/HashNodes)",
        "one trie object per TrieDatabase at a time; TrieDatabase.Reference/Dereference are not called (as in the project)"]
