"""Shared driver of the three ledger checks C05 / C11 / C12 (spec/Ledger.tla, spec/LedgerOps.tla, spec/TraceLedger.tla,
adapter `ledger`).  generate -> execute -> validate: TLC enumerates abstract scenarios (transaction kinds between the
accounts of a small universe, amount classes, 1-2 blocks); the adapter turns every behaviour into REAL signed
transactions, mines a real block after every transaction with the real assembler and feeds each finished block to a
second real node through DPoVP.InsertBlock; TLC validates what was logged against the property monitor."""
import os, sys
sys.path.insert(0, os.path.join(os.path.dirname(os.path.dirname(os.path.abspath(__file__))), "lib"))
from vlib import Broken

INVS = "NonNegative Conservation VotesAtBoundary SupplyEqualsEquity NothingForbiddenIncluded"


def _validate(ctx, files, what, consts, groups=4):
    """Trace validation is single-threaded per TLC run (-workers 1): validate the shard files in `groups` parallel runs."""
    import concurrent.futures, time
    if sum(os.path.getsize(f) for f in files) < 60e6:
        groups = 1
    parts = [files[i::groups] for i in range(groups)]
    parts = [p for p in parts if p]

    def one(ip):
        i, p = ip
        time.sleep(0.3 * i)        # ctx.validate names its work directory by the millisecond
        return ctx.validate("TraceLedger", "TraceLedger.cfg", p, what="%s, part %d/%d" % (what, i + 1, len(parts)), timeout=3000, consts=consts)
    with concurrent.futures.ThreadPoolExecutor(len(parts)) as ex:
        return all(list(ex.map(one, enumerate(parts))))


def run(ctx, check, exhaustive, negatives, sim, sim_quick, sim_thorough, depth):
    """exhaustive: cfg name per tier; negatives: [(cfg, expected violated invariant/property names)]"""
    ctx.build()
    consts = {"CHECK": check}
    # design side: the properties hold on the model with every deviation off ...
    cfg = exhaustive["quick" if ctx.quick() else "thorough"]
    dot = ctx.path("ledger_%s.dot" % check)
    ctx.tlc_exhaustive("MCLedger", "MCLedger_%s.cfg" % cfg, timeout=1500, dump=dot, coverage=False)
    # ... and each known deviation of the implementation switched on makes TLC find the violation (negative control)
    for ncfg, expect in negatives:
        neg = ctx.tlc("MCLedger", "MCLedger_%s.cfg" % ncfg, timeout=600, expect_ok=False)
        ctx.extra.setdefault("negative_controls", []).append(dict(cfg=ncfg, violated=neg["inv"]))
        if not neg["inv"] or (expect and neg["inv"] not in expect):
            raise Broken("negative control %s: expected a violation of %s, TLC reported %s\n%s" % (ncfg, expect, neg["inv"], neg["out"][-1500:]))
    # spec -> code: every transition of the graph on the real nodes (quick: a seeded sample of the tour's behaviours)
    files, summ = ctx.replay("ledger", graph=dot, shards=16, maxlen=24, name="ledger_%s_graph" % check, timeout=3000,
                             limit=3000 if ctx.quick() else 0)
    # wider universe (more accounts, amounts, kinds mixed, longer blocks): seeded simulation of the same model
    n = sim_quick if ctx.quick() else sim_thorough
    glob_ = ctx.tlc_simulate("MCLedger", "MCLedger_%s.cfg" % sim, num=n, depth=depth, prefix="led_" + check)
    files2, summ2 = ctx.replay("ledger", sim=glob_, shards=16, name="ledger_%s_sim" % check, timeout=3000)
    # code -> spec: the monitor judges the log
    if ctx.quick():
        ok = ok2 = _validate(ctx, files + files2, "state graph %s + simulated behaviours %s" % (cfg, sim), consts)
    else:
        ok = _validate(ctx, files, "state graph %s" % cfg, consts)
        ok2 = _validate(ctx, files2, "simulated behaviours %s" % sim, consts)
    ctx.cov["samples"] = summ["samples"]
    ctx.cov["exhaustive"] = summ["behaviours"] == summ["behaviours_total"]
    ctx.extra["graph"] = dict(cfg=cfg, nodes=summ["graph_nodes"], edges=summ["graph_edges"], behaviours=summ["behaviours"],
                              behaviours_in_tour=summ["behaviours_total"], real_blocks_mined=summ["steps"], accepted=ok, actions=summ["action_counts"])
    ctx.extra["simulation"] = dict(cfg=sim, behaviours=summ2["behaviours"], real_blocks_mined=summ2["steps"], accepted=ok2,
                                   actions=summ2["action_counts"])
    ctx.assumptions += [
        "universe: 4 key-holding accounts, the deputies' income account, 2 deputies, founder, deposit pool, zero address, 5 contracts "
        "(accept / revert / invalid opcode / selfdestruct to self / selfdestruct to caller); every address named in block.ChangeLogs must be "
        "inside it (harness failure otherwise)",
        "amounts in units of 10^15 mo with gas price 1-2 units (chain.TotalLEMO lowered to 10^6 LEMO, MinCandidateDeposit to 300 LEMO) so "
        "that sums fit TLC's 32-bit integers; a logged amount that is not a whole number of units is rejected by the monitor",
        "gasUsed and the miner's packaging decisions are adopted from the real log; the monitor recomputes every balance / tally / equity from them",
        "heights 4-5 of the first term: no reward block, no interim period, no deputy-set change"]
