"""Shared driver of the three ledger checks C05 / C11 / C12 (spec/Ledger.tla, spec/LedgerOps.tla, spec/TraceLedger.tla,
adapter `ledger`).  generate -> execute -> validate: TLC enumerates abstract scenarios (transaction kinds between the
accounts of a small universe, amount classes, 1-2 blocks in the middle of the genesis term; 1-4 blocks - interim
blocks, the REWARD block, the blocks after it - around a term boundary with shrunk term / interim durations); the
adapter turns every behaviour into REAL signed transactions, mines a real block after every transaction with the real
assembler and feeds each finished block to a second real node through DPoVP.InsertBlock; TLC validates what was logged
against the property monitor."""
import os, sys
sys.path.insert(0, os.path.join(os.path.dirname(os.path.dirname(os.path.abspath(__file__))), "lib"))
from vlib import Broken

INVS = "NonNegative Conservation DepositsBacked VotesAtBoundary SupplyEqualsEquity NothingForbiddenIncluded"


def _validate(ctx, files, what, consts, groups=4):
    """Trace validation is single-threaded per TLC run (-workers 1): validate the shard files in parallel runs, `groups` at a
    time.  A run holds its whole trace in memory (ndJsonDeserialize): big inputs are cut into more parts of <= ~45 MB."""
    import concurrent.futures, time
    total = sum(os.path.getsize(f) for f in files)
    nparts = 1 if total < 25e6 else min(len(files), max(groups, int(total / 45e6) + 1))
    parts = [files[i::nparts] for i in range(nparts)]
    parts = [p for p in parts if p]
    if len(parts) > groups:
        groups = 6
    os.environ.setdefault("VERIF_TLC_HEAP", "3g")     # a part needs ~1 GB; the shared machine kills 8g JVMs under load

    def one(ip):
        i, p = ip
        time.sleep(0.3 * (i % groups))        # ctx.validate names its work directory by the millisecond
        return ctx.validate("TraceLedger", "TraceLedger.cfg", p, what="%s, part %d/%d" % (what, i + 1, len(parts)), timeout=3000, consts=consts)
    with concurrent.futures.ThreadPoolExecutor(min(groups, len(parts))) as ex:
        return all(list(ex.map(one, enumerate(parts))))


def run(ctx, check, exhaustive, negatives, sim, sim_quick, sim_thorough, depth, term=None, more=()):
    """exhaustive: cfg name per tier; negatives: [(cfg, expected violated invariant/property names)];
    term: the term-boundary worlds - dict(graph={tier: cfg}, sim=cfg, sim_quick=n, sim_thorough=n, depth=d);
    more: further state graphs of the mid-term world, each dict(name=.., quick=cfg, thorough=cfg) - other case classes
    (asset categories and contract holders, block gas limits) whose product with the first graph would be too large"""
    ctx.build()
    consts = {"CHECK": check}
    # design side: the properties hold on the model with every deviation off ...
    cfg = exhaustive["quick" if ctx.quick() else "thorough"]
    dot = ctx.path("ledger_%s.dot" % check)
    ctx.tlc_exhaustive("MCLedger", "MCLedger_%s.cfg" % cfg, timeout=1500, dump=dot, coverage=False)
    # ... and each known deviation of the implementation (or mutant of the design) switched on makes TLC find the violation
    # (negative controls; independent runs, side by side)
    import concurrent.futures, time

    def negative(ia):
        i, (ncfg, expect) = ia
        time.sleep(0.2 * i)        # ctx.tlc names its metadata directory by the millisecond
        return ncfg, expect, ctx.tlc("MCLedger", "MCLedger_%s.cfg" % ncfg, timeout=600, expect_ok=False, workers=4)
    with concurrent.futures.ThreadPoolExecutor(max(1, len(negatives))) as ex:
        negs = list(ex.map(negative, enumerate(negatives)))
    for ncfg, expect, neg in negs:
        ctx.extra.setdefault("negative_controls", []).append(dict(cfg=ncfg, violated=neg["inv"]))
        if not neg["inv"] or (expect and neg["inv"] not in expect):
            raise Broken("negative control %s: expected a violation of %s, TLC reported %s\n%s" % (ncfg, expect, neg["inv"], neg["out"][-1500:]))
    # spec -> code: every transition of the graph on the real nodes (quick: a seeded sample of the tour's behaviours)
    files, summ = ctx.replay("ledger", graph=dot, shards=16, maxlen=24, name="ledger_%s_graph" % check, timeout=3000,
                             limit=3000 if ctx.quick() else 0)
    mfiles, msumm = [], []
    for m in more:
        mcfg = m["quick" if ctx.quick() else "thorough"]
        mdot = ctx.path("ledger_%s_%s.dot" % (check, m["name"]))
        ctx.tlc_exhaustive("MCLedger", "MCLedger_%s.cfg" % mcfg, timeout=1500, dump=mdot, coverage=False)
        f, sm = ctx.replay("ledger", graph=mdot, shards=16, maxlen=24, name="ledger_%s_%s" % (check, m["name"]), timeout=3000,
                           limit=2000 if ctx.quick() else 0)
        mfiles += f
        msumm.append((m["name"], mcfg, sm))
    # wider universe (more accounts, amounts, kinds mixed, longer blocks): seeded simulation of the same model
    n = sim_quick if ctx.quick() else sim_thorough
    glob_ = ctx.tlc_simulate("MCLedger", "MCLedger_%s.cfg" % sim, num=n, depth=depth, prefix="led_" + check)
    files2, summ2 = ctx.replay("ledger", sim=glob_, shards=16, name="ledger_%s_sim" % check, timeout=3000)
    # around a term boundary (term / interim duration shrunk, the snapshot block of term 1 in the setup chain): every
    # transition of a graph whose blocks are the interim block, the reward block and the block after it; and a seeded
    # simulation of a wider universe in which every committed block becomes stable (fresh node pair per behaviour)
    files3 = files4 = []
    if term:
        tcfg = term["graph"]["quick" if ctx.quick() else "thorough"]
        tdot = ctx.path("ledger_%s_term.dot" % check)
        ctx.tlc_exhaustive("MCLedger", "MCLedger_%s.cfg" % tcfg, timeout=1500, dump=tdot, coverage=False)
        files3, summ3 = ctx.replay("ledger", graph=tdot, shards=16, maxlen=24, name="ledger_%s_termgraph" % check, timeout=3000)
        n = term["sim_quick"] if ctx.quick() else term["sim_thorough"]
        glob3 = ctx.tlc_simulate("MCLedger", "MCLedger_%s.cfg" % term["sim"], num=n, depth=term["depth"], prefix="ledt_" + check)
        files4, summ4 = ctx.replay("ledger", sim=glob3, shards=16, name="ledger_%s_termsim" % check, timeout=3000)
    # code -> spec: the monitor judges the log
    if ctx.quick():
        ok = ok2 = ok3 = _validate(ctx, files + mfiles + files2 + files3 + files4, "state graphs %s + simulated behaviours %s"
                                   % (" ".join([cfg] + [m[1] for m in msumm] + ([tcfg] if term else [])),
                                      " ".join([sim] + ([term["sim"]] if term else []))), consts)
    else:
        ok = _validate(ctx, files + mfiles, "state graphs %s" % " ".join([cfg] + [m[1] for m in msumm]), consts)
        ok2 = _validate(ctx, files2, "simulated behaviours %s" % sim, consts)
        ok3 = _validate(ctx, files3 + files4, "term boundary: state graph %s + simulated behaviours %s" % (tcfg, term["sim"]), consts) if term else True
    ctx.cov["samples"] = summ["samples"]
    ctx.cov["exhaustive"] = summ["behaviours"] == summ["behaviours_total"]
    ctx.extra["graph"] = dict(cfg=cfg, nodes=summ["graph_nodes"], edges=summ["graph_edges"], behaviours=summ["behaviours"],
                              behaviours_in_tour=summ["behaviours_total"], real_blocks_mined=summ["steps"], accepted=ok, actions=summ["action_counts"])
    for name, mcfg, sm in msumm:
        ctx.cov["exhaustive"] = ctx.cov["exhaustive"] and sm["behaviours"] == sm["behaviours_total"]
        ctx.extra["graph_" + name] = dict(cfg=mcfg, nodes=sm["graph_nodes"], edges=sm["graph_edges"], behaviours=sm["behaviours"],
                                          behaviours_in_tour=sm["behaviours_total"], real_blocks_mined=sm["steps"], accepted=ok,
                                          actions=sm["action_counts"])
    ctx.extra["simulation"] = dict(cfg=sim, behaviours=summ2["behaviours"], real_blocks_mined=summ2["steps"], accepted=ok2,
                                   actions=summ2["action_counts"])
    if term:
        ctx.cov["exhaustive"] = ctx.cov["exhaustive"] and summ3["behaviours"] == summ3["behaviours_total"]
        ctx.extra["term_graph"] = dict(cfg=tcfg, nodes=summ3["graph_nodes"], edges=summ3["graph_edges"], behaviours=summ3["behaviours"],
                                       behaviours_in_tour=summ3["behaviours_total"], real_blocks_mined=summ3["steps"], accepted=ok3,
                                       actions=summ3["action_counts"])
        ctx.extra["term_simulation"] = dict(cfg=term["sim"], behaviours=summ4["behaviours"], real_blocks_mined=summ4["steps"], accepted=ok3,
                                            actions=summ4["action_counts"])
    ctx.assumptions += [
        "universe: 4 key-holding accounts and one that owns nothing (a5), the deputies' income account, the 2 genesis deputies' miner accounts, founder (= reward manager), "
        "the reward precompile, deposit pool, zero address, 5 contracts "
        "(accept / revert / invalid opcode / selfdestruct to self / selfdestruct to caller); every address named in block.ChangeLogs must be "
        "inside it (harness failure otherwise)",
        "amounts in units of 10^15 mo with gas price 1-2 units (chain.TotalLEMO lowered to 10^6 LEMO, MinCandidateDeposit to 300 LEMO) so "
        "that sums fit TLC's 32-bit integers; a logged amount that is not a whole number of units is rejected by the monitor",
        "gasUsed and the miner's packaging decisions are adopted from the real log; the monitor recomputes every balance / tally / equity from them",
        "issued assets: four assets of issuer a4 created by the setup chain - T (category 1), N (category 2, indivisible; ids N1, N2), "
        "C (category 3, divisible, replenishable; ids C1, C2), G (category 3, not replenishable, FROZEN by the setup chain; id G1) - and up to "
        "three asset ids created by issue transactions of the scenario; scenario blocks of the mid-term world are not stabilised, so only "
        "the receivers of the setup chain's issue transactions can send an id (the processor demands the id's metadata in the sender's "
        "stable account); replenishing under an id that belongs to another code is generated only towards a holder of that id",
        "voters at balance zero: account a5 holds a key and owns nothing (never touched by the setup chain); it votes with its gas paid by a4 "
        "and is funded in the same / a later block; a1 (votes for a3) sends away its whole balance to the last unit (gas paid by a4) and is "
        "refunded later (C11 graph c11_zero, simulation)",
        "mixed boxes: box transactions whose sub transactions are candidate / vote / asset transactions followed by a transfer that is valid "
        "(control: the box is packaged) or INVALID (a2 sends 1000 LEMO it does not own: the miner gives the whole box up - roll-back on the "
        "mining path; a validator never sees such a box), followed by other transactions that touch the same accounts in the same block "
        "(graphs c11_roll, c12_roll); C12 default configurations: the transactions after a given-up asset box are sent by a2 and the boxes "
        "carry no issue sub transaction - a1's fees move the votes of a3, and any non-equity change of an account whose FIRST equity / asset "
        "id entry was rolled back makes the unchanged code seal a block its validators refuse (finding "
        "Dev_RevertedFirstEntrySplitsMinerValidator; the wide configurations c12_rollw*, c12_simw are used once known_findings.txt lists "
        "the key or records its fix); failing contracts KR / KX as first-time receivers are generated, but what a reverted call leaves in "
        "their accounts cannot reach a block (nothing else can change such a contract's account)",
        "candidate ranking (C11): the votes recorded for every candidate listed in store.GetCandidatesTop at the block are compared with "
        "the account's votes; who must be listed is C10's subject",
        "block gas: the header of a scenario block may name a small gas limit (40000 .. 300000, chosen by the spec action GasLimit; "
        "otherwise the parent's, ample); which candidates fit is adopted from the real miner",
        "mid-term world: heights 4-5 of the genesis term with the real term / interim durations, blocks never confirmed",
        "term-boundary worlds (C05, C11): params.TermDuration = 5 or 6, InterimDuration = 1 or 2, params.TermRewardPoolTotal lowered to "
        "600000 LEMO; setup block 4 gives both genesis deputies a deposit, registers a4 and lets M1 and a4 vote for a3; the snapshot block "
        "(empty, stable, part of the setup chain) elects a3 and M2 - the election itself and snapshot blocks that carry transactions are "
        "C10 / C13's subject; scenario blocks are interim block(s), the reward block of term 0 and up to two blocks of term 1, mined by the "
        "re-elected genesis deputy; one reward block per behaviour (the reward of term 1 is set but never paid)",
        "the reward block enumerates refunds from the node's candidate index, which follows STABLE blocks: in the graph worlds scenario blocks "
        "stay unconfirmed (refunds reach the candidates registered in the setup chain: M1, a4; a3 and M2 are deputies of term 1), in the "
        "simulated term world every committed block is stabilised (validator: InsertConfirms with the other deputy's signature; builder: "
        "store.SetStableBlock) and later registrations are refunded too; the index is logged with every state and adopted by the monitor",
        "which accounts are deputies of a term (by node id), the income account and votes of every node of a term are read from the real "
        "deputy manager / account state at the start of a behaviour"]
