"""C08 durability: after any crash the node restarts intact on its last stable block.

Design side: TLC checks the write pipeline of spec/Durability.tla (tmp.data append+fsync, async bitcask writer with its
three index steps, stable pointer in LevelDB, in-place context.data flush, recovery as a sequence of steps, Crash /
TornCrash anywhere, also during recovery) against Opens / StableNotOlder / StableClosed / DurablyClosed / PendingScanned /
OffsetAtEnd / AccountsExact / ContextFresh.  With the repair flags ON (the deviation-free design) they hold; with the flags
OFF (= what the code does) TLC must find the known counterexamples (negative controls).  Every record carries a length class
relative to the 256-byte alignment of tmp.data and the bitcask files (below / on / above a boundary), tmp.data and the data
file are sequences of slots, the recovery scan walks tmp.data record by record; a scan stride or a bitcask advance that is
wrong exactly on / above a boundary are negative controls.

Binding: real crash-point enumeration.  The verif hook in /repo/store counts every write / fsync / LevelDB Put of the
pipeline and kills the workload SUB-PROCESS at the k-th one (optionally inside the write: torn).  A fresh process
reopens the directory, logs what the real code presents and then feeds the rest of the workload.  The payloads of the
workload (contract code, storage values, candidate introductions, block extra data) are sized by a calibration run that
reads the record lengths the real code wrote, so that records of every kind have lengths k*256-1, k*256, k*256+1.  Every
(workload log prefix, crash tag, recovery observation, continuation) record is validated by TLC against
spec/TraceDurability.tla, which holds all comparisons with the never-stopped reference."""
import concurrent.futures, json, os, random, re, shutil, subprocess

LEVEL = "fault_enumeration"

MANIFEST = dict(
    level="fault_enumeration",
    text="TLC model-checks the persistence pipeline design (WAL append, async bitcask writer, stable pointer, context flush, stepwise "
         "recovery scanning tmp.data record by record, crash / torn crash at every step incl. during recovery; every record below / on / "
         "above a 256-byte alignment boundary of the slot-structured files) with the repair flags on, and reproduces the known "
         "counterexamples with the flags off or a boundary-wrong scan stride / bitcask advance. The real store is then crashed at every hook-counted write/fsync/index-Put of a seeded "
         "insertion+stabilisation workload whose code, trie-leaf, account and block records are calibrated onto lengths k*256-1, k*256, "
         "k*256+1 (three schedules of the async writer, torn-write classes, second crash during reopening); a fresh "
         "process reopens the directory and continues the workload; TLC validates every recorded case against the never-stopped reference.",
    note="Crash model: process death (completed write(2) calls persist), LevelDB atomic per Put. Five genuine defects are carried as named "
         "deviations keyed by crash-point class and failure kind (see known_findings.txt).",
    technique="TLA+ model checking (Durability.tla) + crash-point fault enumeration on the real store.ChainDatabase in sub-processes + "
              "TLC trace validation (TraceDurability.tla)")

# in header, header only, header+partial body, one slot, half, most, all but one byte; then the tears around the padding of the
# last record of the write (a record of length k*256-1 / k*256 / k*256+1 carries 1 / 0 / 255 bytes of padding) and around a slot
TORN_WAL = ["b5", "b18", "b30", "r1", "f1/2", "f7/8", "m1", "m2", "m255", "m256", "b257", "r2"]
TORN_CTX = ["b4", "b20", "f1/2", "m1"]
TORN_CASK = ["b30", "f1/2", "m1", "r1", "m255"]
SCHEDS = ["lag", "drain", "free"]


class Runner:
    def __init__(self, ctx, wseed, nb):
        self.ctx, self.wseed, self.nb = ctx, wseed, nb
        self.base = ctx.path("work", "s%d" % wseed, ".keep")[:-6]
        self.ref = os.path.join(self.base, "ref.json")
        self.pads = os.path.join(self.base, "pads.json")
        self.n = 0

    def vh(self, args, env=None, timeout=120):
        e = dict(os.environ)
        e.update({"VERIF_SEED": str(self.ctx.seed)})
        for k in list(e):
            if k.startswith("VERIF_CRASH_"):
                del e[k]
        e.update(env or {})
        try:
            return subprocess.run([self.ctx.vh, "drive"] + [str(a) for a in args], env=e, timeout=timeout, stdout=subprocess.PIPE,
                                  stderr=subprocess.STDOUT, text=True, errors="replace")
        except subprocess.TimeoutExpired:
            raise __import__("vlib").Broken("timeout: vh drive %s" % " ".join(map(str, args))[:300])

    def workload(self, d, sched, env=None, mode="work"):
        return self.vh(["durability-workload", "-dir", os.path.join(d, "db"), "-log", os.path.join(d, "w.ndjson"), "-seed", self.wseed,
                        "-nb", self.nb, "-sched", sched, "-mode", mode, "-pads", self.pads], env=env)

    def calibrate(self):
        """Filler lengths that put one record of every kind per block on a 256-byte boundary class, measured on the real tmp.data."""
        d = os.path.join(self.base, "calib")
        os.makedirs(d)
        r = self.vh(["durability-calib", "-dir", d, "-out", self.pads, "-seed", self.wseed, "-nb", self.nb], env={"VERIF_CRASH_SCHED": "lag"})
        if r.returncode != 0:
            self.ctx.crashed(r, r.args)             # a panic of the real code in an uncrashed honest run is a verdict
            raise __import__("vlib").Broken("calibration of the record lengths failed (rc=%d)\n%s" % (r.returncode, r.stdout[-3000:]))
        shutil.rmtree(d, ignore_errors=True)
        return json.loads(open(self.pads).read())

    def make_ref(self):
        d = os.path.join(self.base, "refrun")
        os.makedirs(d)
        r = self.workload(d, "free", mode="ref")
        if r.returncode != 0:
            self.ctx.crashed(r, r.args)
            raise __import__("vlib").Broken("reference run failed (rc=%d)\n%s" % (r.returncode, r.stdout[-3000:]))
        ref = json.loads(open(os.path.join(d, "w.ndjson")).read())
        shutil.rmtree(d, ignore_errors=True)
        return ref

    def dry(self, sched):
        """Uncrashed run of the script: the tag of every hit, and the final observation."""
        d = os.path.join(self.base, "dry_" + sched)
        os.makedirs(d)
        tr = os.path.join(d, "hits.txt")
        r = self.workload(d, sched, env={"VERIF_CRASH_TRACE": tr, "VERIF_CRASH_SCHED": sched})
        if r.returncode != 0:
            self.ctx.crashed(r, r.args)
            raise __import__("vlib").Broken("dry run %s failed (rc=%d)\n%s" % (sched, r.returncode, r.stdout[-3000:]))
        tags = [ln.split()[1] for ln in open(tr) if ln.strip()]
        end = json.loads(open(os.path.join(d, "w.ndjson")).read().strip().split("\n")[-1])
        shutil.rmtree(d, ignore_errors=True)
        return tags, end

    @staticmethod
    def summarize(wlog):
        s = dict(ev="Workload", steps=0, inserted=-1, promote_done=-1, promote_begun=-1, conf_done=[], conf_begun=[])
        if os.path.exists(wlog):
            for ln in open(wlog):
                try:
                    e = json.loads(ln)
                except ValueError:
                    continue            # the process died inside its own log write: that step is not completed
                op, h = e.get("op"), e.get("h", -1)
                if op == "insert":
                    s["inserted"] = max(s["inserted"], h)
                elif op == "promote_begin":
                    s["promote_begun"] = max(s["promote_begun"], h)
                elif op == "promote":
                    s["promote_done"] = max(s["promote_done"], h)
                elif op == "confirm_begin":
                    s["conf_begun"].append(h)
                elif op == "confirm":
                    s["conf_done"].append(h)
                if op in ("insert", "promote", "confirm"):
                    s["steps"] += 1
        return s

    @staticmethod
    def site_of(out):
        m = re.findall(r"lemochain-core/store\.([A-Za-z0-9_().*]+)\(", out)
        return m[0] if m else ""

    def case(self, c):
        """c = dict(sched, k, torn, recrash).  Returns (list of trace lines, summary)."""
        Broken = __import__("vlib").Broken
        self.n += 1
        cid = "%s-%d-%s-%d" % (c["sched"], c["k"], c["torn"].replace("/", "_") or "x", c.get("recrash", 0))
        d = os.path.join(self.base, "c_" + cid)
        shutil.rmtree(d, ignore_errors=True)
        os.makedirs(d)
        clog = os.path.join(d, "crash.json")
        env = {"VERIF_CRASH_SCHED": c["sched"], "VERIF_CRASH_LOG": clog}
        if c["k"] > 0:
            env["VERIF_CRASH_AT"] = str(c["k"])
            if c["torn"]:
                env["VERIF_CRASH_TORN"] = c["torn"]
        r = self.workload(d, c["sched"], env=env)
        lines = [dict(ev="reset", case=cid, wseed=self.wseed, sched=c["sched"], k=c["k"], torn=c["torn"], recrash=c.get("recrash", 0))]
        lines.append(self.summarize(os.path.join(d, "w.ndjson")))
        crash = None
        if r.returncode == 77:
            crash = json.loads(open(clog).read())
            crash["ev"] = "Crash"
            lines.append(crash)
        elif r.returncode == 0:
            lines.append(dict(ev="NoCrash"))
        else:
            self.ctx.crashed(r, r.args)             # the workload process died by itself before its crash point
            raise Broken("workload %s failed (rc=%d)\n%s" % (cid, r.returncode, r.stdout[-3000:]))
        rlog = os.path.join(d, "r.ndjson")
        rec_lines = None
        if c.get("recrash", 0) > 0:
            # crash during recovery: reopen with an armed crash point, then recover for real
            rclog = os.path.join(d, "recrash.json")
            rr = self.vh(["durability-recover", "-dir", os.path.join(d, "db"), "-ref", self.ref, "-out", rlog, "-seed", self.wseed, "-nb", self.nb,
                          "-pads", self.pads, "-mode", "reopen"], env={"VERIF_CRASH_AT": str(c["recrash"]), "VERIF_CRASH_LOG": rclog})
            if rr.returncode == 77:
                rc2 = json.loads(open(rclog).read())
                rc2["ev"] = "Recrash"
                lines.append(rc2)
            elif rr.returncode == 0:
                got = [json.loads(x) for x in open(rlog) if x.strip()]
                if got and got[0]["ev"] == "Recover":      # it did not even open: that is the observation
                    rec_lines = got
            elif rr.returncode < 0 or rr.returncode > 2:
                raise Broken("reopen %s failed (rc=%d)\n%s" % (cid, rr.returncode, rr.stdout[-2000:]))
            # status 2: the reopening process panicked by itself; the real recovery below observes the directory
        if rec_lines is None:
            rr = self.vh(["durability-recover", "-dir", os.path.join(d, "db"), "-ref", self.ref, "-out", rlog, "-seed", self.wseed, "-nb", self.nb,
                          "-pads", self.pads])
            rec_lines = [json.loads(x) for x in open(rlog) if x.strip()] if os.path.exists(rlog) else []
            if rr.returncode != 0 and not (rr.returncode == 2 and ("panic:" in rr.stdout or "fatal error:" in rr.stdout)):
                raise Broken("recover %s failed without a Go panic (rc=%d)\n%s" % (cid, rr.returncode, rr.stdout[-2000:]))
            if rr.returncode != 0:
                # the recovering process died (a panic in a goroutine of the store cannot be caught by the driver)
                site = self.site_of(rr.stdout)
                if not any(e["ev"] == "Recover" for e in rec_lines):
                    rec_lines.append(dict(ev="Recover", opened=True, died=True, site=site, exit=rr.returncode, stderr=rr.stdout[-1500:]))
                elif not any(e["ev"] == "Continue" for e in rec_lines):
                    rec_lines.append(dict(ev="Continue", died=True, site=site, exit=rr.returncode, stderr=rr.stdout[-1500:]))
        if not rec_lines:
            raise Broken("recover %s produced nothing" % cid)
        lines += rec_lines
        rec = rec_lines[0]
        summ = dict(case=cid, crashed=crash is not None,
                    tag=crash["tag"] if crash else "end", main_last=crash["main_last"] if crash else "end",
                    writer_last=crash["writer_last"] if crash else "end",
                    torn=bool(crash and crash["torn"]), promote_done=lines[1]["promote_done"],
                    opened=bool(rec.get("opened")) and not rec.get("died"),
                    stable_h=rec["obs"]["stable_h"] if "obs" in rec else None)
        shutil.rmtree(d, ignore_errors=True)
        return lines, summ


def commit_batches(lag, layout):
    """(hit, slots of the block record) of every blockCommit batch write of the lag run: the wal.write hit that is followed by
    wal.synced and stable.ptr.pre on the main thread, paired in order with the block records that are followed by a height-index
    record in tmp.data."""
    main = [(i + 1, t) for i, t in enumerate(lag) if not t.startswith("cask.")]
    hits = [k for j, (k, t) in enumerate(main) if t == "wal.write" and [x[1] for x in main[j + 1:j + 3]] == ["wal.synced", "stable.ptr.pre"]]
    lens, flgs = layout["lens"], layout["flgs"]
    blk = [(lens[i] + 255) // 256 for i in range(len(lens) - 1) if flgs[i] == 1 and flgs[i + 1] == 2]
    if len(hits) != len(blk) or not hits:
        raise __import__("vlib").Broken("cannot pair the commit batches of the lag run with their block records (%d writes, %d records)" % (len(hits), len(blk)))
    return list(zip(hits, blk))


def select(ctx, rng, tags, layout):
    """Crash cases for one workload seed.  tags[sched] = tag of every hit of the dry run; layout = tmp.data of the lag run."""
    quick = ctx.quick()
    cases = []
    lag = tags["lag"]
    main = [i + 1 for i, t in enumerate(lag) if not t.startswith("cask.")]
    M = max(main)
    # 0. every blockCommit batch torn exactly behind its block record, and behind block + height index (what the kernel leaves when the
    #    process dies in another thread while this write crosses a page boundary): from genesis on, deterministically
    for k, q in commit_batches(lag, layout):
        cases.append(dict(sched="lag", k=k, torn="r%d" % q))
        if not quick or rng.randrange(3) == 0:
            cases.append(dict(sched="lag", k=k, torn="r%d" % (q + 1)))
    # 1. every main-thread crash point (the writer lags: nothing has reached the bitcask files yet)
    for k in range(1, M + 1):
        cases.append(dict(sched="lag", k=k, torn=""))
    # 2. torn classes at every main-thread file write
    for sched in (["lag"] if quick else ["lag", "drain"]):
        for i, t in enumerate(tags[sched]):
            cl = TORN_WAL if t == "wal.write" else TORN_CTX if t in ("ctx.head", "ctx.body") else None
            if cl and (sched == "drain" or i + 1 <= M):
                for torn in ([cl[rng.randrange(len(cl))], cl[rng.randrange(len(cl))]] if quick else cl):
                    cases.append(dict(sched=sched, k=i + 1, torn=torn))
    # 3. writer-thread points and the interleavings of the other schedules
    for sched, stride in (("lag", 24), ("drain", 12), ("free", 24)):
        n = len(tags[sched])
        if quick:
            ks = range(1 + rng.randrange(stride), n + 1, stride)
        else:
            ks = range(1, n + 1)
        for k in ks:
            if not (sched == "lag" and k <= M):
                cases.append(dict(sched=sched, k=k, torn=""))
        cases.append(dict(sched=sched, k=0, torn=""))                 # unarmed: exit at the end without Close()
    # 4. torn bitcask data writes
    cw = [i + 1 for i, t in enumerate(tags["drain"]) if t == "cask.write"]
    for k in rng.sample(cw, min(len(cw), 6 if quick else 120)):
        cases.append(dict(sched="drain", k=k, torn=TORN_CASK[rng.randrange(len(TORN_CASK))]))
    # 5. a second crash while the directory is being reopened (crash during recovery)
    for _ in range(12 if quick else 400):
        sched = rng.choice(["lag", "free"])
        cases.append(dict(sched=sched, k=1 + rng.randrange(M if sched == "lag" else len(tags[sched])), torn="", recrash=1 + rng.randrange(40)))
    # dedupe
    seen, out = set(), []
    for c in cases:
        key = (c["sched"], c["k"], c["torn"], c.get("recrash", 0))
        if key not in seen:
            seen.add(key)
            out.append(c)
    return out


KINDS = {1: "blk", 2: "height", 3: "trie", 4: "acct", 6: "code"}


def boundary_stats(ctx, wseed, cal, ref):
    """Evidence only: which (record kind, length class) pairs the workload's tmp.data contains, and where the on-boundary records sit."""
    lens, flgs = ref["layout"]["lens"], ref["layout"]["flgs"]
    cls = {255: "below", 0: "on", 1: "above"}
    seen, on_pos = {}, []
    for i, (l, f) in enumerate(zip(lens, flgs)):
        c = cls.get(l % 256)
        if c:
            k = "%s/%s" % (KINDS.get(f, "flag%d" % f), c)
            seen[k] = seen.get(k, 0) + 1
            if c == "on":
                on_pos.append(dict(index=i, followed_by=len(lens) - 1 - i, slots=l // 256))
    ctx.extra.setdefault("boundary_records", []).append(dict(
        seed=wseed, records=len(lens), calibration_rounds=cal["rounds"], by_kind_class=seen,
        targets=["%s@%d:%d" % (t["kind"], t["h"], t["len"]) for t in ref["targets"]],
        on_boundary_first=on_pos[0] if on_pos else None, on_boundary_last=on_pos[-1] if on_pos else None, on_boundary=len(on_pos)))


def pending_stats(ctx, lens):
    """Evidence only: where the records ON a boundary sat in the tmp.data a dead process left (position, records behind them)."""
    st = ctx.extra.setdefault("on_boundary_records_pending_at_crash", dict(cases_with=0, first=0, middle=0, last=0, followed_by_0=0, followed_by_1=0,
                                                                           followed_by_several=0, below=0, above=0))
    n, hit = len(lens), False
    for i, l in enumerate(lens):
        m = l % 256
        if m == 255:
            st["below"] += 1
        elif m == 1:
            st["above"] += 1
        elif m == 0:
            hit = True
            st["first" if i == 0 else "last" if i == n - 1 else "middle"] += 1
            st["followed_by_0" if i == n - 1 else "followed_by_1" if i == n - 2 else "followed_by_several"] += 1
    st["cases_with"] += 1 if hit else 0


def design(ctx):
    Broken = __import__("vlib").Broken
    # two design runs side by side: the pipeline with every record off the alignment boundaries (bigger workload), and the
    # pipeline with the record length classes free (below / on / above a 256-byte boundary at every position of tmp.data and
    # of the bitcask file, record-by-record recovery scan)
    if ctx.quick():
        runs = [("MCDurability_quick.cfg", 600, False), ("MCDurability_len.cfg", 600, False)]
    else:
        # the big configurations, and beside them the vacuity gate on the small ones (coverage statistics slow TLC down)
        runs = [("MCDurability_thorough.cfg", 1800, False), ("MCDurability_len_thorough.cfg", 1800, False), ("MCDurability_len2_thorough.cfg", 1800, False),
                ("MCDurability_quick.cfg", 1800, True), ("MCDurability_len.cfg", 1800, True)]
    ncpu = os.cpu_count() or 8

    def mc(i):
        __import__("time").sleep(0.3 * i)           # distinct metadir names
        cfg, to, gate = runs[i]
        w = max(4, ncpu // 2) if ctx.quick() else (max(4, ncpu // 2) if i == 0 else max(2, ncpu // 8))
        r = ctx.tlc_exhaustive("MCDurability", cfg, timeout=to, workers=w, coverage=gate, count=not gate)
        if gate and r.get("zero_cov"):
            raise Broken("vacuity gate: actions never taken in the design run %s: %s" % (cfg, sorted(set(r["zero_cov"]))))
    with concurrent.futures.ThreadPoolExecutor(len(runs)) as ex:
        list(ex.map(mc, range(len(runs))))
    # negative controls: with a repair flag off (= what the code does) TLC must find the corresponding counterexample
    neg = {}
    controls = [("MCDurability_code.cfg", None),                         # everything the code does: some clause fails
                ("MCDurability_noTornTail.cfg", "Opens"),                # Dev_TornWalTailPanics
                ("MCDurability_noTornTailZero.cfg", "AccountsExact"),    # Dev_TornWalRecordAccepted
                ("MCDurability_noAtomicCtx.cfg", "Opens"),               # Dev_TornContextPanics
                ("MCDurability_noScanPromotes.cfg", "AccountsExact"),    # Dev_BatchAheadOfStablePointer
                ("MCDurability_noScanPromotesCtx.cfg", "ContextFresh"),  # Dev_StaleCandidatesAfterCrash
                # length classes: a scan that steps (end/256+1)*256 instead of FileUtilsAlign is wrong exactly for a record ON a boundary
                ("MCDurability_negStride.cfg", "DurablyClosed"),         # ... the next record is no longer found by a restart
                ("MCDurability_negStrideEnd.cfg", "OffsetAtEnd"),        # ... followed by nothing: the append offset is one slot too far
                ("MCDurability_negStrideRead.cfg", "StableClosed"),      # ... the restarted node cannot read what had been acknowledged
                ("MCDurability_negAdvance.cfg", "StableClosed")]         # a bitcask offset advanced by len/256*256: wrong exactly ABOVE a boundary

    def one(i):
        __import__("time").sleep(0.15 * i)          # distinct metadir names
        return ctx.tlc("MCDurability", controls[i][0], workers=2, timeout=600, expect_ok=False)
    with concurrent.futures.ThreadPoolExecutor(len(controls)) as ex:
        res = list(ex.map(one, range(len(controls))))
    for (name, want), n in zip(controls, res):
        neg[name] = n["inv"]
        if not n["inv"]:
            raise Broken("negative control %s: the code-shaped pipeline should violate an invariant in the model\n%s" % (name, n["out"][-1500:]))
        if want and n["inv"] != want:
            raise Broken("negative control %s: expected %s to be violated, TLC reports %s" % (name, want, n["inv"]))
    ctx.extra["negative_controls_model_violates"] = neg


def run(ctx):
    Broken = __import__("vlib").Broken
    ctx.build()
    os.environ.setdefault("VERIF_TLC_HEAP", "4g")      # 6.6e6 small states at most: leave memory to the 16 store sub-processes
    design(ctx)
    nb = 6
    wseeds = [ctx.seed] if ctx.quick() else [ctx.seed, ctx.seed + 1000, ctx.seed + 2000]
    files, summaries, ncases = [], [], 0
    for wseed in wseeds:
        if wseed != wseeds[0] and __import__("time").time() - ctx.t0 > 520:
            # coverage only (never a verdict): on an overloaded machine the further workload seeds are dropped
            ctx.log("time budget: skipping workload seed %d" % wseed)
            ctx.extra.setdefault("workload_seeds_skipped", []).append(wseed)
            continue
        rn = Runner(ctx, wseed, nb)
        cal = rn.calibrate()
        if "layout_fail" in cal:
            # the tmp.data of an UNCRASHED run is not a sequence of records padded to 256 bytes: nothing can be steered or replayed on
            # such a file.  The observation goes to the trace spec (TRef / LayoutOK), which is what judges it.
            out = ctx.path("traces", "durability.%d.layout.ndjson" % wseed)
            with open(out, "w") as fh:
                fh.write(json.dumps(dict(ev="ref", nb=nb, seed=wseed, hash=[], obs_at=[], script=[], final={}, layout=cal["layout_fail"],
                                         targets=[]), separators=(",", ":")) + "\n")
            if ctx.validate("TraceDurability", "TraceDurability.cfg", [out], what="tmp.data layout of the uncrashed run", timeout=600):
                raise Broken("tmp.data of the uncrashed run does not parse (%s) but the trace spec accepts its layout" % cal["layout_fail"]["stop"])
            return
        ref = rn.make_ref()
        tags, ends = {}, {}
        for s in SCHEDS:
            tags[s], ends[s] = rn.dry(s)
        ref["final"] = ends["free"]["final"]
        # what the real code wrote to tmp.data in the run whose writer was held back: every record of the script in write order,
        # and the records steered onto the boundary classes (TraceDurability.tla: LayoutOK, TargetsHit, BoundaryCovered)
        ref["layout"], ref["targets"] = ends["lag"]["layout"], ends["lag"]["targets"]
        boundary_stats(ctx, wseed, cal, ref)
        open(rn.ref, "w").write(json.dumps(ref))
        rng = random.Random(ctx.seed * 1000003 + wseed)
        cases = select(ctx, rng, tags, ref["layout"])
        ctx.log("workload seed %d: %d hook hits (lag) / %d (drain) / %d (free); %d crash cases" %
                (wseed, len(tags["lag"]), len(tags["drain"]), len(tags["free"]), len(cases)))
        with concurrent.futures.ThreadPoolExecutor(16) as ex:
            res = list(ex.map(rn.case, cases))
        out = ctx.path("traces", "durability.%d.ndjson" % wseed)
        with open(out, "w") as fh:
            fh.write(json.dumps(ref, separators=(",", ":")) + "\n")
            for lines, summ in res:
                for ln in lines:
                    fh.write(json.dumps(ln, separators=(",", ":")) + "\n")
                    if ln.get("ev") == "Recover" and "wal" in ln:
                        pending_stats(ctx, ln["wal"]["lens"])
                summaries.append(summ)
        files.append(out)
        ncases += len(cases)
        ctx.extra.setdefault("workloads", []).append(dict(seed=wseed, script=ref["script"], hits={s: len(tags[s]) for s in SCHEDS},
                                                          hit_classes={t: tags["lag"].count(t) for t in sorted(set(tags["lag"]))}, cases=len(cases)))
    ctx.validate("TraceDurability", "TraceDurability.cfg", files, what="crash cases", timeout=2400)
    crashed = [s for s in summaries if s["crashed"]]
    classes = set((s["case"].split("-")[0], s["tag"], s["main_last"], s["torn"], s["promote_done"], s["stable_h"], s["opened"]) for s in crashed)
    ctx.cov["evaluations"] = ncases
    ctx.cov["distinct_nontrivial"] = len(classes)
    ctx.cov["rule"] = ("one evaluation = one sub-process run of the seeded workload killed at an armed crash point (hook hit k of the dry-run count, "
                       "schedule of the async writer lag/drain/free, optional torn-write class, optional second crash while reopening), reopened by a "
                       "fresh process and continued; non-trivial = the process really died at a crash point (exit 77); distinct = different "
                       "(schedule, crash tag, main-thread position, torn?, last completed promotion, recovered stable height, opened?) tuples")
    ctx.cov["exhaustive"] = False          # every hook hit of the workloads is enumerated in the thorough tier, thread interleavings are sampled (3 schedules)
    ctx.extra["all_hook_hits_enumerated"] = not ctx.quick()
    by_tag = {}
    for s in crashed:
        by_tag[s["tag"]] = by_tag.get(s["tag"], 0) + 1
    ctx.extra["crashes_by_tag"] = by_tag
    ctx.extra["cases_not_opened"] = sum(1 for s in summaries if not s["opened"])
    # which (main thread position, writer position) pairs - the (pc, wpc) pairs of Durability.tla - were really crashed in
    pairs = sorted(set((s["main_last"], s["writer_last"]) for s in crashed))
    ctx.extra["crash_position_pairs_covered"] = len(pairs)
    ctx.extra["crash_position_pairs"] = ["%s|%s" % p for p in pairs]
    ctx.cov["samples"] = [s for s in summaries if s["crashed"]][:: max(1, len(crashed) // 6)][:6]
    ctx.assumptions += [
        "crash model: process death - bytes of completed write(2) calls persist; not power loss",
        "LevelDB's own files are atomic per Put (goleveldb journal); torn LevelDB writes are not modelled",
        "workload at the store/account level (ChainDatabase + account.Manager: SetBlock, Save, SetStableBlock, SetConfirms); the consensus engine is not involved",
        "genesis + %d blocks, 7 accounts (3 candidates, 1 contract with a new code version and one rewritten storage slot per block); torn classes %s" % (nb, TORN_WAL),
        "record-length boundaries: one code / trie-leaf / account / block (or confirm-rewritten block) record per block is steered onto "
        "k*256-1, k*256 or k*256+1 bytes (head+body as FileUtilsEncode computes it), classes rotating per kind; the 57-byte height-index "
        "records and the 86/97-byte preimage records have a fixed length and cannot be steered; context.data is not a 256-aligned format "
        "(64-byte cells) and is covered by the torn-write classes only",
    ]
