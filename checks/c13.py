"""C13 mining schedule.  Schedule.tla: TLC checks the transcribed functions against the declarative
rotation on every parameter tuple; the REAL functions are then evaluated on every tuple TLC
enumerated and on a seeded grid far outside its bounds, and every row is validated by
TraceSchedule.tla."""
import json
LEVEL = "model_checking"


def run(ctx):
    ctx.build()
    cfg = "Schedule_quick.cfg" if ctx.quick() else "Schedule_thorough.cfg"
    dot = ctx.path("sched.dot")
    r = ctx.tlc_exhaustive("Schedule", cfg, timeout=900, dump=dot)
    shards = 16
    grid = 20000 if ctx.quick() else 200000
    files = []
    rows = 0
    import concurrent.futures

    def one(i):
        out = ctx.path("rows", "rows.%d.ndjson" % i)
        rr = ctx.drive("schedule", ["-graph", dot, "-grid", grid, "-out", out, "-shard", "%d/%d" % (i, shards), "-seed", ctx.seed])
        return out, json.loads(rr.stdout.strip().splitlines()[-1])["rows"]
    with concurrent.futures.ThreadPoolExecutor(shards) as ex:
        for out, n in ex.map(one, range(shards)):
            files.append(out)
            rows += n
    ctx.log("real scheduling functions evaluated on %d rows" % rows)
    # validate in batches (TLC reads the whole file into memory)
    ok = True
    batch = 4
    for i in range(0, len(files), batch):
        ok = ctx.validate("TraceSchedule", "TraceSchedule.cfg", files[i:i + batch], what="rows", timeout=900, count_behaviours=False) and ok
        if not ok:
            break
    ctx.cov["traces_validated_against_impl"] = rows if ok else 0
    ctx.cov["exhaustive"] = True
    ctx.cov["samples"] = [json.loads(open(files[0]).readline())]
    ctx.extra["rows_from_tlc_tuples"] = r["distinct"] * 2
    ctx.extra["rows_from_seeded_grid"] = grid * 2
    ctx.extra["bounds"] = open(ctx.specdir + "/" + cfg).read()
    ctx.assumptions += ["slot length is a whole number of seconds and the block interval is shorter than the slot",
                        "TLC bounds: see coverage.bounds; the seeded grid (n<=41, <=1000 rounds, ms offsets) is validated row by row, not exhaustively"]

MANIFEST = dict(
    level="model_checking",
    text="TLC checks nine invariants (exactly-one, rotation, window = earliest open slot, stamped header verifies, wake-up inside window) "
         "on every parameter tuple within bounds (n<=7, slot<=3 s, half-second ticks, >=3 rounds, both special heights); the real "
         "GetMinerDistance/GetDeputyByDistance/GetCorrectMiner/GetNextMineWindow/getSleepTime/VerifyMiner/PrepareHeader (the account the miner's own node stamps) are evaluated on every one of "
         "those tuples plus a seeded grid (n<=41, 1000 rounds, ms offsets) and each output row is validated by TLC against the spec.",
    note="Trusts TLC and the transcription-free declarative operators Entitled/Start; the real functions are called directly on a real deputynode.Manager with two terms of DIFFERENT sizes whose common nodes may mine for different accounts "
         "(height 1, normal heights of both terms, interim heights where the next term is already elected, first block of the new term); TermInCharge/FirstOfTerm in ScheduleOps.tla say which term's deputies count; wall-clock never enters (times are arguments).",
    technique="TLA+ spec (Schedule/ScheduleOps) model-checked by TLC + trace validation of real-function output rows (TraceSchedule)")
