"""C10 election integrity: the published top-candidate list equals the full sort of the registered candidates of that
block's state (votes descending, address ascending, cut to the list size) on every fork and after a restart; the deputy
list of a term-snapshot block is the first N entries of its parent's list, ranked 0..N-1 with non-increasing votes.

Design side: Ranking.tla is a code-shaped model of store/cblock.go updateTop (four branches) + the all-candidates index
+ SetStableBlock + restart, parameterised by a set of named deviations.  With the deviations OFF (repaired design)
TLC proves TopIsFullSort on the complete reachable state graph of small universes (no step bound: any number of
blocks); each deviation alone makes TLC find a counterexample (negative controls).

Binding, store level: every transition of the state graph, TLC -simulate walks of bigger configurations (forks, restart
with unconfirmed blocks) and seeded random histories (up to 8 candidates, list sizes 1..4, address tables with shared
prefixes) are performed on a REAL store.ChainDatabase through the real account.Manager (SetCandidate / SetVotes /
SetCandidateState, MergeChangeLogs, Finalise, SetBlock, Save -> CandidatesRanking; SetStableBlock; Close + reopen).
GetCandidatesTop of every live block and the candidate accounts read from the same block views are logged after every
step; TraceRanking.tla demands list = FullSort(state) and accepts a different list only as a listed named deviation.

Vote magnitudes and the persisted candidate file: the vote values of the model are abstract; a vote map (state variable
vm, RankingOps.tla MagOf) sends them strictly monotonically to real totals whose persisted record (one slot of
context.data with a {Pos, Len} header) is in another LENGTH class on either side of 2^7, 2^8, 2^16, 2^24, 2^32, 2^64
(and 0 for an unregistered candidate).  With Persist = TRUE the design model carries the file (slots in allocation
order, the length class each slot was allocated with, the current totals) and Restart ranks what the file decodes to;
MCRanking_mag*.cfg are complete graphs for every catalogue map, in which "a record has another length than its slot was
allocated with" is part of the state per slot position, so that a restart from every such state is replayed on the real
store (coverage is counted from the slot layout the store reports and a hole is a harness failure).  The other graphs use
a free map the binding draws per behaviour from a pool of totals around every boundary (up to 2^128); the random
histories likewise.  Negative control Dev_StaleSlotLength (the slot header keeps its first length): TLC finds the
restarted node publishing another list.

Binding, engine level: real nodes (harness/node) with params.TermDuration shortened process real register / vote /
unregister transactions; after every block the same observation is validated by the same monitor, and at snapshot
heights block.DeputyNodes is validated against the parent's list (TraceRanking.tla TNode*)."""
import concurrent.futures, os, time

LEVEL = "model_checking"

MANIFEST = dict(
    level="model_checking",
    text="TLC checks TopIsFullSort / RestartKeepsTop on the complete reachable state graph of the code-shaped ranking model (updateTop's four "
         "branches, all-candidates index, forks, stabilisation, restart) with the three named deviations off, and finds a counterexample with "
         "each of them on. Every transition of the graph, simulated walks of bigger configurations and seeded random histories are performed on "
         "the real store through the real account manager; the published list of every live block after every step is validated by TLC "
         "against the full sort of the candidates read from the same block view. Vote values are abstract and mapped strictly monotonically "
         "to real totals on both sides of every boundary at which the persisted candidate record changes its length (2^7, 2^8, 2^16, 2^24, "
         "2^32, 2^64; 0 of an unregistered candidate): the model carries the persisted candidate file (slot order, the length class every "
         "slot was allocated with) and the complete graphs for every such map - grown and shrunk records in the first / middle / last slot, "
         "restart from every state - are replayed on the real store; a restarted node must publish the full sort. Real nodes with a "
         "shortened term process register/vote/unregister transactions (amounts scaled so that totals cross 2^7, 2^8, 2^16); DeputyNodes "
         "of snapshot blocks is validated against the parent's list.",
    note="List size is lowered through the verif hook store.VerifSetMaxCandidates (max_candidate_count is a package variable). Four genuine "
         "defects (three in updateTop / restart, one in the snapshot block's DeputyNodes) are carried as named deviations (known_findings.txt; their repair changes consensus results); ties are compared through a logged integer "
         "address rank.",
    technique="TLA+ model checking (Ranking.tla) + replay of the full TLC state graph and simulated behaviours on the real store + seeded random "
              "histories + TLC trace validation (TraceRanking.tla, property monitor with named deviations)")

NEG = [("MCRanking_neg1.cfg", "Dev_UnregisteredReRanked"), ("MCRanking_neg2.cfg", "Dev_RestartForgetsIndex"),
       ("MCRanking_neg3.cfg", "Dev_MinTieIgnoresAddress"), ("MCRanking_neg4.cfg", "Dev_StaleSlotLength")]
MAPS = {1: "2^7", 2: "2^8", 3: "2^16", 4: "2^24", 5: "2^32", 6: "2^64"}     # RankingOps.tla BoundLo / votemap.go bounds


def cfgconst(ctx, cfg, name):
    import re
    return re.search(r"\b%s = (.*)" % name, open(os.path.join(ctx.specdir, cfg)).read()).group(1).strip()


def magnitude_coverage(files):
    """Coverage accounting (never a verdict): restarts of the real store at which some slot of the persisted candidate file
    holds a record of another length than the one the slot was allocated with, by vote map, direction and slot position.
    Read from the slot layout ([candidate, record length] per slot) the store reported BEFORE the restart."""
    import json
    cells, restarts, stale_restarts = {}, 0, 0
    for f in files:
        vm, first, cur = None, {}, []
        for ln in open(f):
            if '"slots"' not in ln:
                continue
            e = json.loads(ln)
            if e["ev"] == "reset":
                vm, first, cur = e.get("vm"), {}, []
            if e["ev"] == "Restart":
                restarts += 1
                hit = False
                for i, (c, n) in enumerate(cur):
                    if n != first[c]:
                        pos = "only" if len(cur) == 1 else "first" if i == 0 else "last" if i == len(cur) - 1 else "middle"
                        key = (vm, "grown" if n > first[c] else "shrunk", pos)
                        cells[key] = cells.get(key, 0) + 1
                        hit = True
                stale_restarts += hit
            cur = e["slots"]
            for c, n in cur:
                first.setdefault(c, n)
    return cells, restarts, stale_restarts


def validate_parallel(ctx, files, what, groups=4, timeout=1800):
    """Trace validation is single-threaded per TLC run; split the shard files over a few TLC processes."""
    files = [f for f in files if os.path.getsize(f) > 0]
    groups = max(1, min(groups, len(files)))
    parts = [files[i::groups] for i in range(groups)]

    def one(i):
        time.sleep(0.05 * i)          # distinct work directory names (millisecond clock)
        return ctx.validate("TraceRanking", "TraceRanking.cfg", parts[i], what="%s %d/%d" % (what, i + 1, groups), timeout=timeout)
    with concurrent.futures.ThreadPoolExecutor(groups) as ex:
        return all(list(ex.map(one, range(groups))))


def run(ctx):
    Broken = __import__("vlib").Broken
    ctx.build()
    quick = ctx.quick()
    tables = ["flat", "deep"]
    # ---- design: the repaired design satisfies the property on the complete state graph ...
    # (cfg, list size, replayed?)  quick: linear chain.  thorough: + forks (3 live blocks) exhaustively model-checked for 3 candidates /
    # list size 2 / votes 0..2 (521k transitions, not replayed: 16 replay processes of that graph do not fit the machine next to other
    # checks) and replayed for two smaller universes, + every kind of account touch on the chain, + 4 candidates.
    # MCRanking_mag*: the persisted candidate file with every catalogue vote map (2 candidates = first / last slot, restart with and
    # without an unconfirmed block; thorough: account touches, two changes per block, the 2^24 map, and - for one map each, chosen by the
    # seed - 3 candidates = first / middle / last slot and forks, where one SetStableBlock commits several blocks).
    graphs = [("MCRanking_quick.cfg", 2, True), ("MCRanking_mag.cfg", 1, True)]
    if not quick:
        graphs += [("MCRanking_forks.cfg", 2, False), ("MCRanking_wide.cfg", 2, False), ("MCRanking_wide3.cfg", 3, False),
                   ("MCRanking_magf.cfg", 1, False),
                   ("MCRanking_forks1.cfg", 2, True), ("MCRanking_forks2.cfg", 1, True), ("MCRanking_touch.cfg", 2, True),
                   ("MCRanking_mag2.cfg", 1, True), ("MCRanking_mag3.cfg", 2, True), ("MCRanking_magf1.cfg", 1, True)]
    for cfg, vmaps in (("MCRanking_mag3.cfg", [1 + ctx.seed % 6]), ("MCRanking_magf1.cfg", [1 + (ctx.seed + 3) % 6])):
        p = os.path.join(ctx.specdir, cfg)
        text = open(p).read().replace("@VMAPS@", ", ".join(map(str, vmaps)))
        open(p, "w").write(text)
        ctx.extra.setdefault("vote_maps_by_seed", {})[cfg] = [MAPS[m] for m in vmaps]

    def design(g):
        cfg, k, rep = g
        dot = ctx.path(cfg[:-4] + ".dot") if rep else None
        ctx.tlc_exhaustive("MCRanking", cfg, timeout=1500, dump=dot, workers=4 if quick else None)
        return (cfg[:-4], k, dot) if rep else None
    if quick:
        with concurrent.futures.ThreadPoolExecutor(2) as ex:     # two small graphs: side by side
            dots = [d for d in ex.map(lambda ig: (time.sleep(0.3 * ig[0]), design(ig[1]))[1], enumerate(graphs)) if d]
    else:
        dots = [d for d in map(design, graphs) if d]
    # ---- ... and each named deviation alone violates it (negative controls)
    def neg(i):
        time.sleep(0.3 * i)           # distinct metadir names (millisecond clock)
        r = ctx.tlc("MCRanking", NEG[i][0], timeout=600, expect_ok=False, workers=4, args=["-noGenerateSpecTE"])
        return NEG[i][1], r["inv"]
    with concurrent.futures.ThreadPoolExecutor(4) as ex:
        negs = dict(ex.map(neg, range(len(NEG))))
    ctx.extra["negative_controls_model_violates"] = negs
    for k, inv in negs.items():
        if inv != "TopIsFullSort":
            raise Broken("negative control %s: the model with the deviation on should violate TopIsFullSort (got %s)" % (k, inv))
    # ---- spec -> code: every transition of the dumped state graphs on the real store
    edges, ok = 0, True
    magcov = {}
    for i, (name, k, dot) in enumerate(dots):
        files, summ = ctx.replay("ranking", graph=dot, shards=16, maxlen=60, timeout=1800, name=name,
                                 env={"VERIF_RANKING_K": str(k), "VERIF_RANKING_MAXV": cfgconst(ctx, name + ".cfg", "MaxVotes"),
                                      "VERIF_RANKING_TABLE": tables[(ctx.seed + i) % 2]})
        ok = validate_parallel(ctx, files, "state-graph replay " + name, groups=4 if quick else 8) and ok
        edges += summ["graph_edges"]
        if i == 0:
            ctx.cov["samples"] = summ["samples"]
        magcov[name] = (files, magnitude_coverage(files))
    # the magnitude graphs must have restarted the real store with a grown and a shrunk record in every slot position, for every
    # vote map of the configuration (vacuity guard; meaningless once the real code has failed)
    for name, (files, (cells, restarts, stale)) in magcov.items():
        ctx.extra.setdefault("restarts_with_record_length_changed", {})[name] = dict(
            restarts=restarts, with_changed_length=stale,
            cells={"%s %s %s" % (MAPS.get(vm, "free map"), d, pos): n for (vm, d, pos), n in sorted(cells.items())})
        if name.startswith("MCRanking_mag") and not ctx.violations:
            vmaps = [int(x) for x in cfgconst(ctx, name + ".cfg", "VMaps").strip("{}").split(",")]
            npos = ["first", "middle", "last"] if cfgconst(ctx, name + ".cfg", "NC") == "3" else ["first", "last"]
            holes = [(MAPS[vm], d, pos) for vm in vmaps for d in ("grown", "shrunk") for pos in npos if not cells.get((vm, d, pos))]
            if holes:
                raise Broken("%s: no restart of the real store with a %s record in the %s slot for map %s (%d holes)" % (
                    name, holes[0][1], holes[0][2], holes[0][0], len(holes)))
    ctx.extra["distinct_transitions_replayed"] = edges if ok else 0
    ctx.extra["transitions_in_graph"] = edges
    ctx.cov["exhaustive"] = True
    # ---- bigger configurations (forks up to 4 live blocks, restart with unconfirmed blocks, 4-5 candidates): simulation
    for cfg, k, num, depth in (("MCRanking_sim.cfg", 2, 30 if quick else 1500, 25), ("MCRanking_sim2.cfg", 3, 0 if quick else 1000, 25)):
        if num == 0:
            continue
        sim = ctx.tlc_simulate("MCRanking", cfg, num=num, depth=depth, prefix=cfg[:-4], timeout=900)
        f2, _ = ctx.replay("ranking", sim=sim, shards=16, name=cfg[:-4], timeout=1800,
                           env={"VERIF_RANKING_K": str(k), "VERIF_RANKING_MAXV": cfgconst(ctx, cfg, "MaxVotes"),
                                "VERIF_RANKING_TABLE": tables[(ctx.seed + 1) % 2]})
        validate_parallel(ctx, f2, "simulated walks " + cfg, groups=2 if quick else 8)
        magcov[cfg[:-4]] = (f2, magnitude_coverage(f2))
    # ---- seeded random histories, bigger universes
    n = 25 if quick else 400

    def rnd(i):
        out = ctx.path("traces", "rand.%d.ndjson" % i)
        ctx.drive("ranking-rand", ["-out", out, "-seed", ctx.seed * 1000 + i, "-n", n, "-steps", 50, "-nc", 8, "-k", 4, "-votes", 3 + i % 3,
                                   "-maxlive", 6], env={"VERIF_SCRATCH_DIR": ctx.path("work", "rand.%d" % i, ".keep")[:-6]}, timeout=1800)
        return out
    with concurrent.futures.ThreadPoolExecutor(8) as ex:
        rfiles = list(ex.map(rnd, range(4 if quick else 8)))
    validate_parallel(ctx, rfiles, "random histories", groups=4 if quick else 8)
    magcov["random histories"] = (rfiles, magnitude_coverage(rfiles))
    for name in ("MCRanking_sim", "MCRanking_sim2", "random histories"):
        if name in magcov:
            cells, restarts, stale = magcov[name][1]
            by = {}
            for (vm, d, pos), n in cells.items():
                by["%s %s" % (d, pos)] = by.get("%s %s" % (d, pos), 0) + n
            ctx.extra["restarts_with_record_length_changed"][name] = dict(restarts=restarts, with_changed_length=stale, cells=by)
    # ---- engine level: real nodes, real transactions, term snapshot block, stabilisation, restart
    nn = 40 if quick else 300

    def nod(i):
        out = ctx.path("traces", "node.%d.ndjson" % i)
        ctx.drive("ranking-node", ["-out", out, "-seed", ctx.seed * 1000 + i, "-n", nn, "-snaptx", 50],
                  env={"VERIF_SCRATCH_DIR": ctx.path("work", "node.%d" % i, ".keep")[:-6]}, timeout=1800)
        return out
    with concurrent.futures.ThreadPoolExecutor(8) as ex:
        nfiles = list(ex.map(nod, range(2 if quick else 8)))
    validate_parallel(ctx, nfiles, "real nodes, term snapshot", groups=2 if quick else 8)
    ctx.assumptions += [
        "a registered candidate has at least one vote (deposit votes: params.MinCandidateDeposit >= params.DepositExchangeRate) and an "
        "unregistered candidate can never register again (candidate_vote_tx.go)",
        "model-checked universe (complete reachable graphs, no step bound): quick 3 candidates / list size 2 / votes 0..2 on a linear chain; "
        "thorough adds forks (3 live blocks), 4 candidates, list size 3, every kind of account touch; simulation and random histories up to 8 "
        "candidates, list size 4, 6 live blocks, restarts with unconfirmed blocks",
        "the database is closed quiescent before a restart (crash behaviour is C08)",
        "vote totals: model values are mapped strictly monotonically to real totals; complete graphs with the persisted-file model: the top "
        "value is 2^7, 2^8, 2^16, 2^32, 2^64 (thorough also 2^24) and the other registered values just below (2 candidates = first/last slot; "
        "thorough: 3 candidates and forks for one map chosen by the seed); elsewhere maps drawn per behaviour from 56 totals within 2 of "
        "2^7 ... 2^128; totals above 2^263 do not fit a slot of context.data (CandidateCache.Set panics) and are not generated",
        "engine level: TermDuration 4, InterimDuration 1, 3 genesis deputies + 4 further candidates, list size 4, heights 1..5 (the chain stops "
        "before the new term signs); no account both moves balance and votes inside one block (that tally defect is C11's)"]
