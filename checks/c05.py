"""C05 LEMO conservation, exact gas, no negative balance.  See checks/ledger_common.py."""
import os, sys
sys.path.insert(0, os.path.dirname(os.path.abspath(__file__)))
import ledger_common
LEVEL = "model_checking"

MANIFEST = dict(
    level="model_checking",
    text="TLC checks NonNegative, Conservation (sum of balances + fees held = start + issuance - burns at every intermediate state), "
         "GasWithinLimit and NotIncludedIsFree on the ledger model (plain transfers incl. to self, foreign gas payer, too-low gas limit, "
         "unaffordable amount, calls into contracts that accept / revert / burn by self-destruct / hand back, box transactions with 1-2 sub "
         "transactions at a different gas price; simulation adds votes, register / top-up / unregister through the deposit pool); every "
         "transition of the state graph is executed on real nodes: real signed transactions mined by the real BlockAssembler after every "
         "step and verified + executed by a second real node through DPoVP.InsertBlock; per block TLC validates every account's balance "
         "against parent balance - gasUsed x gasPrice for the payer - amounts of packaged successful transactions + receipts + the block's "
         "fees for the income address, the sum over the whole universe, gasUsed <= gasLimit, header gasUsed, and no negative balance.",
    note="gasUsed and packaging decisions are adopted from the real block (the model cannot predict gas); contract outcomes are fixed by the "
         "five deployed byte codes. Reward / refund blocks and term changes are not reached (heights 4-5 of the first term). "
         "Known defect carried as deviation Dev_BoxSubGasMinted.",
    technique="TLA+ model checking (Ledger.tla over LedgerOps.tla) + replay of the TLC state graph and simulated behaviours on real nodes "
              "(adapter ledger) + TLC trace validation (TraceLedger.tla, Check = C05)")


def run(ctx):
    ledger_common.run(ctx, "C05", exhaustive=dict(quick="c05_quick", thorough="c05_thorough"),
                      negatives=[("c05_neg", ["Conservation"])], sim="c05_sim", sim_quick=150, sim_thorough=3000, depth=9)
