"""C05 LEMO conservation, exact gas, no negative balance.  See checks/ledger_common.py."""
import os, sys
sys.path.insert(0, os.path.dirname(os.path.abspath(__file__)))
import ledger_common
LEVEL = "model_checking"

MANIFEST = dict(
    level="model_checking",
    text="TLC checks NonNegative, Conservation (sum of balances + fees held = start + issuance - burns at every intermediate state), "
         "GasWithinLimit and NotIncludedIsFree on the ledger model (plain transfers incl. to self, foreign gas payer, too-low gas limit, "
         "unaffordable amount, calls into contracts that accept / revert / burn by self-destruct / hand back, box transactions with 1-2 sub "
         "transactions at a different gas price; simulation adds votes, register / top-up / unregister through the deposit pool; blocks whose "
         "header names a SMALL GAS LIMIT - 40000 .. 175000 - so that the last candidates, a whole box, or a box's first / later sub transaction "
         "do not fit: such a candidate stays out of the block and must have cost nothing); every "
         "transition of the state graph is executed on real nodes: real signed transactions mined by the real BlockAssembler after every "
         "step and verified + executed by a second real node through DPoVP.InsertBlock; per block TLC validates every account's balance "
         "against parent balance - gasUsed x gasPrice for the payer - amounts of packaged successful transactions + receipts + the block's "
         "fees for the income address, the sum over the whole universe, gasUsed <= gasLimit, header gasUsed, and no negative balance. Around "
         "a term boundary (interim block, REWARD block, block after it) the model adds DepositsBacked (the deposit pool holds exactly the "
         "recorded deposits: deferred refunds are paid out of it by the reward block, once) and EndOfBlockIssuesTheReward (the end of a block "
         "issues LEMO only in a reward block: the reward set through the precompile for the finished term - unset / 0 / 3 / 500 / 300000 LEMO, "
         "refused settings: not the manager, >= pool, overdue, third setting - divided among the term's nodes, rounded down to 1 LEMO); the "
         "monitor recomputes every balance of the reward block (fees, reward shares, refunds) and the issued sum from the real log.",
    note="gasUsed and packaging decisions are adopted from the real block (the model cannot predict gas); contract outcomes are fixed by the "
         "five deployed byte codes. Term boundary: term / interim duration shrunk to 5-6 / 1-2 blocks, reward pool total lowered to 600000 LEMO, "
         "the (empty) snapshot block is part of the setup chain, one reward block per behaviour; the design run also shows that a refund not "
         "debited from the pool violates DepositsBacked (mutant Mut_RefundNotFromPool) and that a box dropped for lack of block gas without "
         "undoing its gas purchase and the sub transactions that ran violates Conservation / NotIncludedIsFree (Mut_BlockFullKeepsPartialBox). "
         "Known defect carried as deviation Dev_BoxSubGasMinted.",
    technique="TLA+ model checking (Ledger.tla over LedgerOps.tla) + replay of the TLC state graph and simulated behaviours on real nodes "
              "(adapter ledger) + TLC trace validation (TraceLedger.tla, Check = C05)")


def run(ctx):
    ledger_common.run(ctx, "C05", exhaustive=dict(quick="c05_quick", thorough="c05_thorough"),
                      negatives=[("c05_neg", ["Conservation"]), ("c05_negterm", ["DepositsBacked", "EndOfBlockIssuesTheReward"]),
                                 ("c05_neggas", ["Conservation", "NotIncludedIsFree"])],
                      more=[dict(name="gas", quick="c05_gas", thorough="c05_gas_thorough")],
                      sim="c05_sim", sim_quick=150, sim_thorough=3000, depth=9,
                      term=dict(graph=dict(quick="c05_term", thorough="c05_term_thorough"), sim="c05_simterm", sim_quick=64, sim_thorough=800, depth=10))
