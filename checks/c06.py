"""C06 only authorised transactions change state.  Auth.tla defines what "the holders authorised exactly this content"
means for a case (account configuration x signature sequence - every signature with the scheme it was made in, the account in
whose name it was made and whether it was made before or after the change - x field changed after signing x gasPayer member
(absent / the sender / another account / a second one; when signed and as submitted) x box (as signed / its JSON data re-written
after signing) x kind x signers of the last stable block vs current signers) and a model of the node's decision procedure; TLC
enumerates the case space and checks the clauses of the property on every case.  Every case is instantiated as a REAL signed
transaction (real keys, real signing hashes, real multi-signature accounts configured by real ModifySignersTx) and handed to a
real mining node and, inside a block (the miner's, or the one a dishonest deputy would publish when the miner refuses), to a
second real node; what the nodes did and what changed in the real account state is validated by TLC against the monitor
TraceAuth.tla."""
import concurrent.futures, json, os, time
import vlib
os.environ.setdefault("VERIF_TLC_HEAP", "3g")      # the case space is small; do not compete for memory with parallel checks
LEVEL = "model_checking"

MANIFEST = dict(
    level="model_checking",
    text="TLC enumerates every authorisation case within bounds - plain account and every multi-signature configuration of up to 3 signers "
         "with weights from {1,49,50,51,100} (total >= 100; plus two 4-signer accounts and one with rotated keys), every sequence of up to 3 signatures by registered signers / "
         "the account's own key / a foreign key in both signature encodings, malformed signature bytes, each of 12 signed fields changed after any "
         "subset of an honest signature set was made, reimbursed-gas transactions (plain and multi-signature payer; payer signatures missing / foreign / "
         "repeated / made before gas terms, payer field or sender signatures changed), the same reimbursed form naming the sender account itself as "
         "gas payer (plain and multi-signature, all payer-side tamper classes); WHAT EACH SIGNATURE COMMITS TO per signing scheme (default: every field; "
         "reimbursement: every field but the gas terms; gas payer: sender signature bytes + gas terms): for each value of the gasPayer member (absent / the "
         "sender / another account / a second other account) when signed and each value as submitted (member dropped, added, pointed elsewhere, payer swapped) "
         "and for each other field changed instead - sender signatures made in either sender scheme before / after the change, payer signatures absent / by the "
         "holders of the account named before / of the one named now, before / after the change; sender signatures copied into the payer list and payer-scheme "
         "signatures in the sender list; the same for box sub-transactions (transfers and votes; changed before / after the box sender signed), for votes and for "
         "re-configurations of the signers, and - member absent / dropped / added / swapped - with the transaction read from its JSON form (RPC carrier: member missing) "
         "as well as from its RLP form; WHAT THE PAYER'S STATEMENT COMMITS TO WHEN THE SENDER HAS SEVERAL SIGNATURES: the submitted sender-signature list is that of the "
         "sender's holders alone or with the sender signature of another account's transaction in front / in between / behind, and the payer's holders (plain or "
         "multi-signature other account, or the sender account itself) made their statement over every sequence of up to 3 positions of that list or foreign "
         "signatures (the list itself, its first element, a prefix = co-signers signed later, a longer list, a re-ordering, nothing, the list of the other "
         "transaction = a payer statement moved onto another transaction); "
         "box-wrapped transactions (also reimbursed ones, and a box signed "
         "by a foreign key), boxes whose JSON data was re-written after the box sender signed (sub-transaction field changed, re-signed by its own "
         "holders or not, signature replaced, gas terms raised by the payer; \"hash\" member true / absent / that of the replaced sub-transaction / "
         "arbitrary), vote and asset-creation transactions, re-configurations of the signers, and - while a re-configuration sits in a recent block that is "
         "not stable yet - every subset of the FORMER signers and of the new ones signing (also as gas payer, also to put themselves back), until the "
         "deputies confirm the block - and checks sixteen clauses on each (effect only if "
         "authorised, canonical accepted, repetition / foreign keys / removal never help, encoding irrelevant, tampering falsifies per scheme, the gasPayer "
         "member binds, a signature of one scheme or role does not authorise in another, payer binds, the payer's statement binds the whole sender-signature list, exact "
         "threshold, re-configuration iff packaged, every changed field covered by a later signature, box binds its sub-transactions, JSON hash label "
         "irrelevant); seven wrong decision procedures are negative controls. Every case is replayed as a real signed transaction on a real mining node (MineBlock) and, in a block, "
         "on a second real node (InsertBlock; forged block with the executed state roots when the miner refused); each behaviour has its own pair of nodes on which the block "
         "configuring the sender is stable (InsertConfirms); TLC validates every logged outcome and "
         "account-state delta against the monitor: any effect => Authorized for the signers registered NOW, canonical authorised => packaged and "
         "accepted, effect = that of the submitted content paid by the account the submitted gasPayer member makes pay, refusal changes nothing. A seeded driver does the same for random large accounts "
         "(up to 100 signers, weights 1..100, up to 110 signatures; also gasPayer member dropped / added / swapped, signatures of the other scheme, payer statements "
         "made over a prefix / the first element / a re-ordering of the sender signatures or moved from another transaction, JSON carrier).",
    note="One genuine defect was found and repaired in /repo (checkSignersWeight added a signer's weight once per signature; fix: commit in known_findings.txt); the "
         "named deviation Dev_MultisigCountsRepeatedSigner stays in the spec (design-side negative control) and would be accepted only if listed again. "
         "The arrival check of real nodes (VerifyTxBody) is applied before the miner, with the parent block's time as 'now'.",
    technique="TLA+ model checking (Auth.tla) + replay of every enumerated case on real nodes + TLC trace validation (TraceAuth.tla)")

DEV = "Dev_MultisigCountsRepeatedSigner"


def stats(files):
    """Plain counts over the recorded lines (for the evidence file and the vacuity gate; no judgement)."""
    st = dict(offers=0, packaged=0, refused=0, intake_refused=0, validator_honest_ok=0, validator_forged=0, validator_forged_accepted=0,
              packaged_carrying_a_repeated_signer=0, gaspayer_member_absent=0, gaspayer_member_absent_packaged=0,
              gaspayer_member_changed_after_signing=0, gaspayer_member_changed_packaged=0, signature_made_in_another_scheme=0,
              offered_while_signers_differ_from_stable_block=0, of_these_packaged=0, stabilised=0, real_code_failures=0,
              payer_statement_made_over_another_signature_list=0, of_these_sharing_the_first_sender_signature=0,
              payer_statement_over_submitted_list_with_a_foreign_sender_signature_packaged=0,
              json_carrier=0, json_carrier_packaged=0, json_carrier_gaspayer_member_missing=0)
    for f in files:
        for ln in open(f):
            e = json.loads(ln)
            if "panic" in e:
                st["real_code_failures"] += 1
                continue
            if e["ev"] == "Stabilise":
                st["stabilised"] += 1
            if e["ev"] in ("Offer", "OfferStale"):
                st["offers"] += 1
                st["packaged" if e["packaged"] else "refused"] += 1
                st["intake_refused"] += 0 if e["intake"] else 1
                c = e["a"][0]
                if c["gp"] == "absent":
                    st["gaspayer_member_absent"] += 1
                    st["gaspayer_member_absent_packaged"] += 1 if e["packaged"] else 0
                if c["gp"] != c["gp0"]:
                    st["gaspayer_member_changed_after_signing"] += 1
                    st["gaspayer_member_changed_packaged"] += 1 if e["packaged"] else 0
                form = "reimb" if c["psigs"] else "default"
                if any(s["sch"] != form for s in c["sigs"]) or any(s["sch"] != "payer" for s in c["psigs"]):
                    st["signature_made_in_another_scheme"] += 1
                if c["psigs"] and c["over"] != list(range(1, len(c["sigs"]) + 1)):
                    st["payer_statement_made_over_another_signature_list"] += 1
                    st["of_these_sharing_the_first_sender_signature"] += 1 if c["over"][:1] == [1] else 0
                elif c["psigs"] and e["packaged"] and any(s["who"] != "S" for s in c["sigs"]):
                    st["payer_statement_over_submitted_list_with_a_foreign_sender_signature_packaged"] += 1
                if c["via"] == "json":
                    st["json_carrier"] += 1
                    st["json_carrier_packaged"] += 1 if e["packaged"] else 0
                    st["json_carrier_gaspayer_member_missing"] += 1 if c["gp"] == "absent" else 0
                if e["scfg"] != e["cfg"]:
                    st["offered_while_signers_differ_from_stable_block"] += 1
                    st["of_these_packaged"] += 1 if e["packaged"] else 0
                for k in ("sigs", "psigs"):
                    by = [s["by"] for s in c[k]]
                    if e["packaged"] and len(by) != len(set(by)):
                        st["packaged_carrying_a_repeated_signer"] += 1
                        break
            elif e["ev"] == "Validate":
                if e["mode"] == "honest" and e["ok"]:
                    st["validator_honest_ok"] += 1
                if e["mode"] == "forged":
                    st["validator_forged"] += 1
                    st["validator_forged_accepted"] += 1 if e["ok"] else 0
    return st


def run(ctx):
    ctx.build()
    tier = "quick" if ctx.quick() else "thorough"
    # ---- design side: the clauses hold on every enumerated case (deviation off) ...
    dot = ctx.path("auth.dot")
    r = ctx.tlc_exhaustive("MCAuth", "MCAuth_%s.cfg" % tier, timeout=1500, dump=dot)
    # ... and the model of the defect violates them (negative control); so do five wrong decision procedures in the areas "the sender
    # reimburses itself", "re-written box data", "a signing hash that does not tell an absent gasPayer member from one naming the sender",
    # "sender signatures read without regard to the scheme they were made in", "the signers of the last stable block are consulted
    # instead of the current ones", "a payer's signing hash that takes only the first of several sender signatures".  (The controls run
    # beside the replay.)
    controls = (("MCAuth_neg.cfg", DEV, None), ("MCAuth_neg_own.cfg", "Neg_OwnPayerUnchecked", "ChangeCovered"),
                ("MCAuth_neg_box.cfg", "Neg_BoxTrustsLabel", "BoxBinds"), ("MCAuth_neg_gp.cfg", "Neg_GasPayerFallbackInHash", "GasPayerFieldBinds"),
                ("MCAuth_neg_scheme.cfg", "Neg_SchemeBlind", "SchemeBinds"), ("MCAuth_neg_stale.cfg", "Neg_StaleSigners", "EffectOnlyIfAuthorized"),
                ("MCAuth_neg_over.cfg", "Neg_PayerSignsFirstSig", "PayerBindsSigList"))

    def control(i):
        time.sleep(0.3 * i)                                 # (distinct TLC meta directories)
        return ctx.tlc("MCAuth", controls[i][0], workers=2, timeout=600, expect_ok=False, heap="1g")
    pool = concurrent.futures.ThreadPoolExecutor(len(controls))
    negs = [pool.submit(control, i) for i in range(len(controls))]
    # ---- every case on the real code
    files, summ = ctx.replay("auth", graph=dot, shards=16, maxlen=60, timeout=2400)
    ok = ctx.validate("TraceAuth", "TraceAuth.cfg", files, what="every enumerated case on real nodes", timeout=2400)
    for (cfg, model, clause), fu in zip(controls, negs):
        n2 = fu.result()
        if model == DEV:
            ctx.extra["negative_control_per_signature_weights_violates"] = n2["inv"]
        else:
            ctx.extra["negative_control_%s_violates" % model] = n2["inv"]
        if not n2["inv"] or (clause and n2["inv"] != clause):
            raise vlib.Broken("negative control: the model %s must violate %s\n%s" % (model, clause or "a clause", n2["out"][-2000:]))
    pool.shutdown()
    st = stats(files)
    ctx.extra["real_code_outcomes"] = st
    ctx.extra["cases_in_graph"] = sum(1 for ln in open(dot) if 'label="Offer' in ln)
    ctx.extra["distinct_transitions_replayed"] = summ["graph_edges"] if ok else 0
    ctx.extra["transitions_in_graph"] = summ["graph_edges"]
    ctx.cov["samples"] = summ["samples"]
    ctx.cov["exhaustive"] = True
    if ok and not (st["packaged"] and st["refused"] and st["validator_honest_ok"] and st["validator_forged"] and st["gaspayer_member_absent_packaged"]
                   and st["gaspayer_member_changed_after_signing"] and st["signature_made_in_another_scheme"] and st["stabilised"]
                   and st["offered_while_signers_differ_from_stable_block"] and st["of_these_packaged"]
                   and st["of_these_sharing_the_first_sender_signature"] and st["payer_statement_over_submitted_list_with_a_foreign_sender_signature_packaged"]
                   and st["json_carrier_packaged"] and st["json_carrier_gaspayer_member_missing"]):
        raise vlib.Broken("vacuous run: %s" % st)
    # ---- random large accounts (up to 100 signers, weights 1..100, up to 110 signatures), same monitor
    n = 150 if ctx.quick() else 1500
    rnd = ctx.path("traces", "auth-rand.ndjson")
    ctx.drive("auth-rand", ["-out", rnd, "-seed", ctx.seed, "-n", n], timeout=1500,
              env={"VERIF_SCRATCH_DIR": ctx.path("work", "auth-rand", ".keep")[:-6]})
    ctx.validate("TraceAuth", "TraceAuth.cfg", [rnd], what="random large multi-signature accounts", timeout=1500)
    ctx.extra["random_large_account_outcomes"] = stats([rnd])
    ctx.assumptions += [
        "a signature is abstracted to (account and signer, encoding variant, signing scheme, made before/after the field change); real signatures are "
        "produced with real keys over the real signing hashes (DefaultSigner / ReimbursementTxSigner / GasPayerSigner), variant 1 = s -> n-s; a payer-scheme "
        "signature placed in the sender list is made over the transaction without sender signatures",
        "all payer signatures of one transaction are made over the same list of sender signatures (c.over); a sender signature 'of another transaction' is "
        "made by the key of the other plain account Q (over this content when it stands in the submitted list, over another content when it does not)",
        "the JSON carrier is the text the node's own encoder writes, without the output-only hash member and without members whose value is null; a text "
        "the node's decoder refuses counts as refused on arrival",
        "one field changes per case (a changed gasPayer member is that field); the form of a transaction is what its format says: payer signatures present = reimbursed",
        "the mining node of a behaviour is told that a block is stable through its store (SetStableBlock), the validating node through DPoVP.InsertConfirms "
        "with the signatures of three further deputies; only the block that configures the sender (and a Stabilise step's head) is stable",
        "the validating node is offered, for a refused transaction, the block of a dishonest deputy: header roots obtained by mining a properly signed "
        "twin with the same content, transaction replaced, header re-signed with the deputy's key; the twin's own block must be accepted (harness check)",
        "exact gas fees are not checked here (C05): the payer's balance must fall, the recipient's must rise by the signed amount",
        "a box carries one sub-transaction; the box sender's signature is taken to cover the sub-transaction's identity (content and signature bytes)",
        "transaction kinds: transfer, vote, asset creation, signer re-configuration, box (the quick tier uses accounts of up to 2 signers plus "
        "{1,49,50} and {49,50,51}); signature recovery (secp256k1) is trusted"]
