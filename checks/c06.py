"""C06 only authorised transactions change state.  Auth.tla defines what "the holders authorised exactly this content"
means for a case (account configuration x signature sequence x field changed after signing x gas payer (another account / the
sender account itself) x box (as signed / its JSON data re-written after signing) x kind)
and a model of the node's decision procedure; TLC enumerates the case space and checks the clauses of the property on
every case.  Every case is instantiated as a REAL signed transaction (real keys, real signing hashes, real
multi-signature accounts configured by real ModifySignersTx) and handed to a real mining node and, inside a block
(the miner's, or the one a dishonest deputy would publish when the miner refuses), to a second real node; what the
nodes did and what changed in the real account state is validated by TLC against the monitor TraceAuth.tla."""
import json, os
import vlib
os.environ.setdefault("VERIF_TLC_HEAP", "3g")      # the case space is small; do not compete for memory with parallel checks
LEVEL = "model_checking"

MANIFEST = dict(
    level="model_checking",
    text="TLC enumerates every authorisation case within bounds - plain account and every multi-signature configuration of up to 3 signers "
         "with weights from {1,49,50,51,100} (total >= 100; plus two 4-signer accounts), every sequence of up to 3 signatures by registered signers / "
         "the account's own key / a foreign key in both signature encodings, malformed signature bytes, each of 12 signed fields changed after any "
         "subset of an honest signature set was made, reimbursed-gas transactions (plain and multi-signature payer; payer signatures missing / foreign / "
         "repeated / made before gas terms, payer field or sender signatures changed), the same reimbursed form naming the sender account itself as "
         "gas payer (plain and multi-signature, all payer-side tamper classes), box-wrapped transactions (also reimbursed ones, and a box signed "
         "by a foreign key), boxes whose JSON data was re-written after the box sender signed (sub-transaction field changed, re-signed by its own "
         "holders or not, signature replaced, gas terms raised by the payer; \"hash\" member true / absent / that of the replaced sub-transaction / "
         "arbitrary), vote and asset-creation transactions and re-configurations of the signers - and checks thirteen clauses on each (effect only if "
         "authorised, canonical accepted, repetition / foreign keys / removal never help, encoding irrelevant, tampering falsifies, payer binds, exact "
         "threshold, re-configuration iff packaged, every changed field covered by a later signature, box binds its sub-transactions, JSON hash label "
         "irrelevant). Every case is replayed as a real signed transaction on a real mining node (MineBlock) and, in a block, "
         "on a second real node (InsertBlock; forged block with the executed state roots when the miner refused); TLC validates every logged outcome and "
         "account-state delta against the monitor: any effect => Authorized for the really registered signers, canonical authorised => packaged and "
         "accepted, effect = that of the submitted content, refusal changes nothing. A seeded driver does the same for random large accounts "
         "(up to 100 signers, weights 1..100, up to 110 signatures).",
    note="One genuine defect was found and repaired in /repo (checkSignersWeight added a signer's weight once per signature; fix: commit in known_findings.txt); the "
         "named deviation Dev_MultisigCountsRepeatedSigner stays in the spec (design-side negative control) and would be accepted only if listed again. "
         "The arrival check of real nodes (VerifyTxBody) is applied before the miner, with the parent block's time as 'now'.",
    technique="TLA+ model checking (Auth.tla) + replay of every enumerated case on real nodes + TLC trace validation (TraceAuth.tla)")

DEV = "Dev_MultisigCountsRepeatedSigner"


def stats(files):
    """Plain counts over the recorded lines (for the evidence file and the vacuity gate; no judgement)."""
    st = dict(offers=0, packaged=0, refused=0, intake_refused=0, validator_honest_ok=0, validator_forged=0, validator_forged_accepted=0,
              packaged_carrying_a_repeated_signer=0)
    for f in files:
        for ln in open(f):
            e = json.loads(ln)
            if e["ev"] == "Offer":
                st["offers"] += 1
                st["packaged" if e["packaged"] else "refused"] += 1
                st["intake_refused"] += 0 if e["intake"] else 1
                c = e["a"][0]
                for k in ("sigs", "psigs"):
                    by = [s["by"] for s in c[k]]
                    if e["packaged"] and len(by) != len(set(by)):
                        st["packaged_carrying_a_repeated_signer"] += 1
                        break
            elif e["ev"] == "Validate":
                if e["mode"] == "honest" and e["ok"]:
                    st["validator_honest_ok"] += 1
                if e["mode"] == "forged":
                    st["validator_forged"] += 1
                    st["validator_forged_accepted"] += 1 if e["ok"] else 0
    return st


def run(ctx):
    ctx.build()
    tier = "quick" if ctx.quick() else "thorough"
    # ---- design side: the clauses hold on every enumerated case (deviation off) ...
    dot = ctx.path("auth.dot")
    r = ctx.tlc_exhaustive("MCAuth", "MCAuth_%s.cfg" % tier, timeout=1500, dump=dot)
    # ... and the model of the defect violates them (negative control)
    neg = ctx.tlc("MCAuth", "MCAuth_neg.cfg", timeout=300, expect_ok=False)
    ctx.extra["negative_control_per_signature_weights_violates"] = neg["inv"]
    if not neg["inv"]:
        raise vlib.Broken("negative control: the model with %s on must violate a clause\n%s" % (DEV, neg["out"][-2000:]))
    # ... and so do two wrong decision procedures in the areas "the sender reimburses itself" and "re-written box data"
    for cfg, model, clause in (("MCAuth_neg_own.cfg", "Neg_OwnPayerUnchecked", "ChangeCovered"), ("MCAuth_neg_box.cfg", "Neg_BoxTrustsLabel", "BoxBinds")):
        n2 = ctx.tlc("MCAuth", cfg, timeout=300, expect_ok=False)
        ctx.extra["negative_control_%s_violates" % model] = n2["inv"]
        if n2["inv"] != clause:
            raise vlib.Broken("negative control: the model %s must violate %s\n%s" % (model, clause, n2["out"][-2000:]))
    # ---- every case on the real code
    files, summ = ctx.replay("auth", graph=dot, shards=16, maxlen=60, timeout=2400)
    ok = ctx.validate("TraceAuth", "TraceAuth.cfg", files, what="every enumerated case on real nodes", timeout=2400)
    st = stats(files)
    ctx.extra["real_code_outcomes"] = st
    ctx.extra["cases_in_graph"] = summ["graph_edges"] - r["distinct"] // 2
    ctx.extra["distinct_transitions_replayed"] = summ["graph_edges"] if ok else 0
    ctx.extra["transitions_in_graph"] = summ["graph_edges"]
    ctx.cov["samples"] = summ["samples"]
    ctx.cov["exhaustive"] = True
    if not (st["packaged"] and st["refused"] and st["validator_honest_ok"] and st["validator_forged"]):
        raise vlib.Broken("vacuous run: %s" % st)
    # ---- random large accounts (up to 100 signers, weights 1..100, up to 110 signatures), same monitor
    n = 60 if ctx.quick() else 600
    rnd = ctx.path("traces", "auth-rand.ndjson")
    ctx.drive("auth-rand", ["-out", rnd, "-seed", ctx.seed, "-n", n], timeout=1500,
              env={"VERIF_SCRATCH_DIR": ctx.path("work", "auth-rand", ".keep")[:-6]})
    ctx.validate("TraceAuth", "TraceAuth.cfg", [rnd], what="random large multi-signature accounts", timeout=1500)
    ctx.extra["random_large_account_outcomes"] = stats([rnd])
    ctx.assumptions += [
        "a signature is abstracted to (signer, encoding variant, made before/after the field change); real signatures are produced with real keys over "
        "the real signing hashes (DefaultSigner / ReimbursementTxSigner / GasPayerSigner), variant 1 = s -> n-s",
        "the validating node is offered, for a refused transaction, the block of a dishonest deputy: header roots obtained by mining a properly signed "
        "twin with the same content, transaction replaced, header re-signed with the deputy's key; the twin's own block must be accepted (harness check)",
        "exact gas fees are not checked here (C05): the payer's balance must fall, the recipient's must rise by the signed amount",
        "a box carries one sub-transaction; the box sender's signature is taken to cover the sub-transaction's identity (content and signature bytes)",
        "transaction kinds: transfer, vote, asset creation, signer re-configuration, box (the quick tier uses accounts of up to 2 signers plus "
        "{1,49,50} and {49,50,51}); signature recovery (secp256k1) is trusted"]
