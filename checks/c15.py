"""C15 hostile network input.  Wire.tla states, per class of input and connection phase, the reaction the property
demands (node alive, no handler deadlocked, allocation <= one frame + c x bytes received, malformed closes / well-formed
keeps); a connection is opened by the remote party (the node accepts and reads a handshake request) or by the node (it
dials the remote party's listener, sends its request and reads the response); TLC enumerates every class sequence within
the bounds; each sequence is instantiated as real bytes and sent to a REAL node (real p2p handshake of either side and
frame reader over net.Pipe feeding the real ProtocolManager, chain and stores) running in a sub-process; TraceWire.tla
judges every logged step."""
import json, os, glob, re
from vlib import Broken

LEVEL = "exploration"

MANIFEST = dict(
    level="exploration",
    text="TLC enumerates all sequences of input classes (~250 classes: 21 handshake-packet classes sent in both directions (framing, ECIES layer), 16 request "
         "classes for the accepting node, 14 response classes for the DIALING node (off-curve / zero / foreign keys, nonce sizes, extra fields, echo), 17 raw/"
         "encrypted frame, 19 protocol-handshake and ~170 message classes: every dispatched code x {good, empty, truncated, wrong type, garbage} plus "
         "decodable-but-absurd payloads incl. absurd transactions, deputy-signed blocks, node strings and floods) up to 2 (quick) / 3 (thorough) inputs per phase "
         "on an accepted connection and 1 / 2 on a dialed one, plus a reconnect probe after every closing input; every sequence is instantiated as real bytes "
         "(seeded payloads and read splits) and replayed on a real node in a sub-process after a REAL handshake; exit status, connection state, "
         "lock-waiters in a consistent goroutine snapshot and TotalAlloc per step are judged by TLC against the trace spec.",
    note="The node is assembled like main/node.New; an inbound connection is handled like p2p.Server.listenLoop/HandleConn(fd, nil)/run, an outbound one like "
         "DialManager.runDialTask/Server.HandleConn(fd, nodeID)/run to an address learnt through DiscoverManager.AddNewList, with an evil listener at the other "
         "end of a net.Pipe (Server itself needs a TCP port). Classes, not all byte strings: within a class bytes are seeded (3 seeds in thorough). Quiescence is a stop-the-world goroutine "
         "snapshot with no runnable node goroutine, not a sleep. CPU exhaustion without allocation and retained (as opposed to allocated) memory are not judged.",
    technique="TLA+ model (Wire.tla) enumerated by TLC + replay of every behaviour on the real network stack in sub-processes + TLC trace validation (TraceWire.tla)")

# neg5: only dialed connections, the handshake-packet deviation on
NEG = [("MCWire_neg1.cfg", "NodeAlive"), ("MCWire_neg5.cfg", "NodeAlive"), ("MCWire_neg2.cfg", "NoDeadlock"), ("MCWire_neg3.cfg", "AllocBounded"), ("MCWire_neg4.cfg", "AllocBounded")]


def nontrivial(files):
    """distinct (phase-relevant prefix, class) cases in which the node really consumed attacker bytes."""
    seen, lines, samples = set(), 0, []
    ratios = 0.0
    for f in files:
        beh = []
        for ln in open(f):
            e = json.loads(ln)
            if e["ev"] == "reset":
                beh = []
                continue
            if e.get("stop") == "cap":
                raise Broken("the node was still running %s after the quiescence cap without allocating much: cannot be judged (overloaded machine?): %s"
                             % (e.get("busy"), json.dumps(e)[:400]))
            c = e["a"][0] if e.get("a") else e["ev"]
            beh.append(c)
            if "dead" not in e:
                lines += 1
            if e["ev"] == "Recv" and (e.get("read", 0) > 0 or e.get("alive") is False):
                seen.add(tuple(beh))
                if e.get("read", 0) >= 4096:
                    ratios = max(ratios, e["allocK"] * 1024.0 / e["read"])
                if len(samples) < 4 and len(beh) >= 3 and len(seen) % 97 == 1:
                    samples.append(dict(sequence=list(beh), last_step={k: e[k] for k in ("alive", "closed", "allocK", "read", "blocked", "resp", "split", "cseed") if k in e}))
    return len(seen), lines, samples, ratios


def run(ctx):
    ctx.build()
    cfg = "MCWire_quick.cfg" if ctx.quick() else "MCWire_thorough.cfg"
    dot = ctx.path("wire.dot")
    r = ctx.tlc_exhaustive("MCWire", cfg, timeout=600, dump=dot, coverage=not ctx.quick())
    if not ctx.quick() and r.get("zero_cov"):
        raise Broken("vacuity: actions never taken in the design run: %s" % r["zero_cov"])
    # negative controls: with a deviation on (the code as it is today) TLC must find the violated clause
    negs = {}
    for c, inv in (NEG[:3] if ctx.quick() else NEG):
        neg = ctx.tlc("MCWire", c, timeout=300, expect_ok=False)
        negs[c] = neg["inv"]
        if neg["inv"] != inv:
            raise Broken("negative control %s: expected violation of %s, got %s\n%s" % (c, inv, neg["inv"], neg["out"][-1500:]))
    ctx.extra["negative_controls"] = negs
    env = {"WIRE_LIMIT_MS": "30000"}  # only ends the wait for code that keeps running; never a verdict
    files, summ = ctx.replay("wire", graph=dot, shards=16, maxlen=12, env=env, timeout=1500)
    if summ["panics"]:
        raise Broken("harness panicked inside the adapter (%d)" % summ["panics"])
    ok = ctx.validate("TraceWire", "TraceWire.cfg", files, what="class-sequence tree", timeout=1500)
    allfiles = list(files)
    edges = summ["graph_edges"]
    if not ctx.quick():
        # a second tree: fewer inputs per phase but every carrier class, heartbeats before the protocol handshake
        dot2 = ctx.path("wire2.dot")
        ctx.tlc_exhaustive("MCWire", "MCWire_thorough2.cfg", timeout=600, dump=dot2)
        f2, s2 = ctx.replay("wire", graph=dot2, shards=16, maxlen=12, env=env, timeout=1500, name="wire.t2")
        ok = ctx.validate("TraceWire", "TraceWire.cfg", f2, what="class-sequence tree 2", timeout=1500) and ok
        allfiles += f2
        edges += s2["graph_edges"]
        # the first tree again with other payload bytes and read splits for every class
        e3 = dict(env, VERIF_SEED=str(ctx.seed * 1000 + 7))
        f3, s3 = ctx.replay("wire", graph=dot, shards=16, maxlen=12, env=e3, timeout=1500, name="wire.s2")
        ok = ctx.validate("TraceWire", "TraceWire.cfg", f3, what="class-sequence tree, other instantiation", timeout=1500) and ok
        allfiles += f3
        # longer random walks in which every kept class carries on
        sim = ctx.tlc_simulate("MCWire", "MCWire_sim.cfg", num=800, depth=10, prefix="wiresim", timeout=300)
        f4, s4 = ctx.replay("wire", sim=sim, shards=16, env=env, timeout=1500, name="wire.sim")
        ok = ctx.validate("TraceWire", "TraceWire.cfg", f4, what="simulated longer sequences", timeout=1500) and ok
        allfiles += f4
    n, lines, samples, ratio = nontrivial(allfiles)
    ctx.cov["evaluations"] = lines
    ctx.cov["distinct_nontrivial"] = n
    ctx.cov["rule"] = ("every path of the TLC-generated tree of input-class sequences (Wire.tla, bounds in the cfg) is instantiated as real bytes and sent to a real "
                       "node; evaluations = steps executed on the real node; a case is a distinct (sequence so far, class) pair and is non-trivial when the node "
                       "actually read attacker bytes in that step (or died in it)")
    ctx.cov["samples"] = samples or summ["samples"]
    ctx.cov["exhaustive"] = False
    ctx.extra["distinct_transitions_replayed"] = edges if ok else 0
    ctx.extra["transitions_in_graph"] = edges
    ctx.extra["max_alloc_bytes_per_byte_read_over_4KiB_inputs"] = round(ratio, 1)
    ctx.extra["bounds"] = dict(max_inputs_per_phase=dict(accepted=dict(PreHs=1, ProtoHs=1 if ctx.quick() else 2, Est=2 if ctx.quick() else 3),
                                                         dialed=dict(OutHs=1, ProtoHs=1 if ctx.quick() else 2, Est=1 if ctx.quick() else 2)),
                               reconnect_probe_after_len=3, reconnect_direction="as the first connection (tree 1) / either (tree 2, simulation)",
                               alloc_bound="25 MiB (MaxPackageLength) + 16 MiB + 256 x KiB read in the step", quiescence_cap_ms=30000)
    ctx.assumptions += [
        "input space is partitioned into the classes of spec/WireClasses.tla; inside a class the bytes are seeded samples, not all byte strings",
        "the node's side of a connection is driven like p2p.Server.HandleConn/run (inbound) resp. DialManager.runDialTask + Server.HandleConn (outbound) but over net.Pipe (Server needs a TCP port); one remote party at a time",
        "a remote party that stays silent (sends nothing, keeps the connection open) is not an input class: the handshake readers have no deadline, which is not judged",
        "allocation is runtime.MemStats.TotalAlloc of the whole node process during the step (harness overhead included, frames are built before the measurement)",
        "deadlock = a goroutine of the node waiting in sync.(*Mutex|*RWMutex).Lock in a stop-the-world snapshot in which no goroutine of the node can run",
    ]
