"""C15 hostile network input.  Wire.tla states, per class of input and connection phase, the reaction the property
demands (node alive, no handler deadlocked, allocation <= one frame + c x bytes received, malformed closes / well-formed
keeps) and, for SEQUENCES of decodable messages with arbitrary content (blocks of any height on any parent, several per height,
repetitions, the valid blocks a remote deputy can produce, confirm packets for any of them, in any order, the manager's own queue
timer in between, reconnects), that the protocol manager's out-of-order state (block cache, confirm cache) stays within the envelope
of WireSeq.tla; a connection is opened by the remote party (the node accepts and reads a handshake request) or by the node (it
dials the remote party's listener, sends its request and reads the response); TLC enumerates every class sequence within
the bounds; each sequence is instantiated as real bytes and sent to a REAL node (real p2p handshake of either side and
frame reader over net.Pipe feeding the real ProtocolManager, chain and stores) running in a sub-process; TraceWire.tla
judges every logged step.  The receive-side layer covers what the remote party does with the bytes the node SENDS (it stops reading,
resets the node's sending direction, hangs up, resumes, lets the node's write deadline pass, stays silent until the node gives up -
at any moment, in every phase, with an answer in flight or not, with a well-behaved bystander connected or not): within the bound
nothing of the node may still be in flight or wait for a lock, what is owed (closing after malformed input, passing a transaction
on to the bystander) is done, and the node goes on serving."""
import json, os, glob, re
from vlib import Broken

LEVEL = "exploration"

MANIFEST = dict(
    level="exploration",
    text="TLC enumerates all sequences of input classes (~250 classes: 21 handshake-packet classes sent in both directions (framing, ECIES layer), 16 request "
         "classes for the accepting node, 14 response classes for the DIALING node (off-curve / zero / foreign keys, nonce sizes, extra fields, echo), 17 raw/"
         "encrypted frame, 19 protocol-handshake and ~170 message classes: every dispatched code x {good, empty, truncated, wrong type, garbage} plus "
         "decodable-but-absurd payloads incl. absurd transactions, deputy-signed blocks, node strings and floods) up to 2 (quick) / 3 (thorough) inputs per phase "
         "on an accepted connection and 1 / 2 on a dialed one, plus a reconnect probe after every closing input; every sequence is instantiated as real bytes "
         "(seeded payloads and read splits) and replayed on a real node in a sub-process after a REAL handshake; exit status, connection state, "
         "lock-waiters in a consistent goroutine snapshot and TotalAlloc per step are judged by TLC against the trace spec. Sequence layer: TLC's state "
         "graph over the abstract content of the protocol manager's block / confirm cache and chain (5 blocks / 17 messages quick, 7-9 blocks / 25-40 "
         "messages thorough: BlocksMsg with lists of descriptors <<id, height, parent, valid|junk>>, ConfirmMsg, single-message classes, the 500 ms "
         "queue timer, reconnects); every (abstract state, message) edge is replayed on the real node, whose caches are read back after every step. "
         "Receive-side layer: TLC's state graph over (phase, what the remote does with the node's writes: reads / does not read / resets, which answer "
         "is in flight, bystander connected / owed a transaction) with the actions StopReading, Resume, ResetConn, HangUp, Deadline, StallOut, Bystander "
         "interleaved with requests, a transaction and malformed frames in every phase and both directions; every edge is replayed on the real node over an "
         "unbuffered pipe whose node end records the node's writes in flight, the deadlines it asked for and the writes that failed; a step is observed when "
         "nothing is in flight and nothing can run, or when the node's deadline plus a grace period is over.",
    note="The node is assembled like main/node.New; an inbound connection is handled like p2p.Server.listenLoop/HandleConn(fd, nil)/run, an outbound one like "
         "DialManager.runDialTask/Server.HandleConn(fd, nodeID)/run to an address learnt through DiscoverManager.AddNewList, with an evil listener at the other "
         "end of a net.Pipe (Server itself needs a TCP port). Classes, not all byte strings: within a class bytes are seeded (3 seeds in thorough). Quiescence is a stop-the-world goroutine "
         "snapshot with no runnable node goroutine, not a sleep. CPU exhaustion without allocation and retained (as opposed to allocated) memory are not judged. "
         "Receive-side layer: while the remote does not read, the node's end of the pipe honours a write deadline d as now + (d - now) / 20 (the node's deadlines are "
         "constants of 3 / 10 / 20 s); the thorough tier replays the quick graph once more with the true deadlines.",
    technique="TLA+ model (Wire.tla) enumerated by TLC + replay of every behaviour on the real network stack in sub-processes + TLC trace validation (TraceWire.tla)")

# neg5: only dialed connections, the handshake-packet deviation on
# rx_neg: the receive-side layer with a writer that re-enters the peer's write lock when its write fails
NEG = [("MCWire_neg1.cfg", "NodeAlive"), ("MCWire_neg5.cfg", "NodeAlive"), ("MCWire_neg2.cfg", "NoDeadlock"), ("MCWire_neg3.cfg", "AllocBounded"), ("MCWire_neg4.cfg", "AllocBounded"),
       ("MCWire_rx_neg.cfg", "NoDeadlock")]


def judge(ctx, files, what, timeout=1500):
    """Trace validation - after making sure that every step was observed at quiescence: a step that ended at the cap of the wait
    (the node still running after WIRE_LIMIT_MS without allocating much) cannot be judged and must not become a verdict."""
    for f in files:
        for ln in open(f):
            if '"stop":"cap"' in ln:
                e = json.loads(ln)
                raise Broken("the node was still running %s after the quiescence cap without allocating much: cannot be judged (overloaded machine?): %s"
                             % (e.get("busy"), json.dumps(e)[:400]))
    return ctx.validate("TraceWire", "TraceWire.cfg", files, what=what, timeout=timeout)


def nontrivial(files):
    """distinct (phase-relevant prefix, class) cases in which the node really consumed attacker bytes."""
    seen, lines, samples = set(), 0, []
    ratios = 0.0
    for f in files:
        beh = []
        for ln in open(f):
            e = json.loads(ln)
            if e["ev"] == "reset":
                beh = []
                continue
            if e.get("stop") == "cap":
                raise Broken("the node was still running %s after the quiescence cap without allocating much: cannot be judged (overloaded machine?): %s"
                             % (e.get("busy"), json.dumps(e)[:400]))
            c = e["a"][0] if e.get("a") else e["ev"]
            if not isinstance(c, str):
                c = e["ev"] + json.dumps(e["a"], separators=(",", ":"))
            beh.append(c)
            if "dead" not in e:
                lines += 1
            if e["ev"] in ("Recv", "SBlocks", "SConfirm", "Tick") and (e.get("read", 0) > 0 or e.get("alive") is False):
                seen.add(tuple(beh))
                if e.get("read", 0) >= 4096:
                    ratios = max(ratios, e["allocK"] * 1024.0 / e["read"])
                if len(samples) < 4 and len(beh) >= 3 and len(seen) % 97 == 1:
                    samples.append(dict(sequence=list(beh), last_step={k: e[k] for k in ("alive", "closed", "allocK", "read", "blocked", "resp", "split", "cseed") if k in e}))
    return len(seen), lines, samples, ratios


def seq_layer(ctx, cfg, name, shards=32, limit=0):
    """The message-sequence layer: state graph over the abstract cache contents, every edge replayed on the real node."""
    dot = ctx.path("wire_%s.dot" % name)
    r = ctx.tlc_exhaustive("MCWire", cfg, timeout=900, dump=dot, coverage=not ctx.quick())
    if [a for a in r.get("zero_cov", []) if a in ("Tick", "Next", "Recv", "Connect")]:
        raise Broken("vacuity: sequence-layer actions never taken in the design run %s: %s" % (cfg, r["zero_cov"]))
    env = {"WIRE_LIMIT_MS": "30000"}
    files, summ = ctx.replay("wire", graph=dot, shards=shards, maxlen=30, limit=limit, env=env, timeout=1800, name="wire." + name)
    if summ["panics"]:
        raise Broken("harness panicked inside the adapter (%d)" % summ["panics"])
    ok = judge(ctx, files, "message sequences, %s" % name, timeout=1800)
    # what the real node went through (vacuity guards: the sequences must really reach the manager's caches)
    st = dict(steps=0, ticks=0, ticks_that_took_blocks_out=0, ticks_that_took_two_or_more_out=0, max_blocks_cached=0, max_confirms_cached=0, valid_blocks_accepted=0,
              peer_dropped=0, distinct_real_states=0)
    seen, prev = set(), None
    for f in files:
        for ln in open(f):
            e = json.loads(ln)
            if e["ev"] == "reset":
                prev = None
                continue
            if "bc" not in e:
                continue
            st["steps"] += 1
            st["max_blocks_cached"] = max(st["max_blocks_cached"], e["bc"])
            st["max_confirms_cached"] = max(st["max_confirms_cached"], e["cc"])
            st["valid_blocks_accepted"] = max(st["valid_blocks_accepted"], len(e["has"]) - 1)
            if e["ev"] == "Tick":
                st["ticks"] += 1
                gone = len(set(prev["bcIds"]) - set(e["bcIds"])) if prev is not None else 0
                st["ticks_that_took_blocks_out"] += gone >= 1
                st["ticks_that_took_two_or_more_out"] += gone >= 2
            if e["ev"] == "SBlocks" and e.get("closed") and prev is not None and not prev.get("closed"):
                st["peer_dropped"] += 1
            seen.add((tuple(e["bcIds"]), e["cc"], tuple(e["has"]), e["stable"]))
            prev = e
    st["distinct_real_states"] = len(seen)
    ctx.extra.setdefault("sequence_layer", {})[name] = dict(st, graph_edges=summ["graph_edges"], graph_nodes=summ["graph_nodes"], behaviours=summ["behaviours"])
    # (kept to what does not depend on HOW the manager evicts: a functional change of the caches is not a failure of this check)
    if ok and not (st["max_blocks_cached"] >= 2 and st["max_confirms_cached"] >= 1 and st["valid_blocks_accepted"] >= 1 and st["ticks_that_took_blocks_out"] >= 1):
        raise Broken("vacuity: the message sequences did not reach the protocol manager's caches as the model says: %s" % st)
    return files, summ, ok


RX_OPS = ("StopReading", "Resume", "ResetConn", "HangUp", "Deadline", "StallOut")


def rx_layer(ctx, cfg, name, env):
    """The receive-side layer: what the remote does with the node's WRITES (not reading, resetting, hanging up, resuming, at any
    moment, also while an answer is in flight); every edge of TLC's graph over (phase, rx, answer in flight) replayed on the real node."""
    dot = ctx.path("wire_%s.dot" % name)
    r = ctx.tlc_exhaustive("MCWire", cfg, timeout=600, dump=dot, coverage=not ctx.quick())
    want = ("StopReading", "Resume", "ResetConn", "HangUp", "Deadline") + (("StallOut",) if "thorough" in cfg else ())
    if [a for a in r.get("zero_cov", []) if a in want]:
        raise Broken("vacuity: receive-side actions never taken in the design run %s: %s" % (cfg, r["zero_cov"]))
    # (32 shards on 16 cores: these replays mostly WAIT - for the node's deadlines, its heartbeat retries - and verdicts do not depend on speed)
    files, summ = ctx.replay("wire", graph=dot, shards=32, maxlen=12, env=env, timeout=1500, name="wire." + name)
    if summ["panics"]:
        raise Broken("harness panicked inside the adapter (%d)" % summ["panics"])
    ok = judge(ctx, files, "receive side of the remote, %s" % name)
    # what the real node went through (vacuity guards: writes of the node must really have been left in flight and must really have failed)
    st = dict(steps=0, steps_with_a_write_in_flight=0, writes_failed=0, deadlines_asked_ms=set(), failed_deadlines_ms=set(), closed_after=dict(), max_wait_ms=0, lock_waiters_behind_a_write=0)
    for f in files:
        for ln in open(f):
            e = json.loads(ln)
            if e["ev"] == "reset" or "wpend" not in e:
                continue
            st["steps"] += 1
            st["steps_with_a_write_in_flight"] += e["wpend"] > 0
            st["writes_failed"] += len(e["wfailed"])
            st["deadlines_asked_ms"] |= set(int(round(x, -2)) for x in e["wasked"])
            st["failed_deadlines_ms"] |= set(int(round(x, -2)) for x in e["wfailed"])
            st["lock_waiters_behind_a_write"] += (e["wpend"] > 0 and len(e["blocked"]) > 0)
            if e["ev"] in RX_OPS:
                k = st["closed_after"].setdefault(e["ev"], [0, 0])
                k[0] += 1
                k[1] += bool(e.get("closed"))
                st["max_wait_ms"] = max(st["max_wait_ms"], e.get("ms", 0))
    st["deadlines_asked_ms"] = sorted(st["deadlines_asked_ms"])
    st["failed_deadlines_ms"] = sorted(st["failed_deadlines_ms"])
    ctx.extra.setdefault("receive_side_layer", {})[name] = dict(st, graph_edges=summ["graph_edges"], graph_nodes=summ["graph_nodes"], behaviours=summ["behaviours"])
    if ok and not (st["steps_with_a_write_in_flight"] >= 3 and st["writes_failed"] >= 3 and st["closed_after"].get("Deadline", [0, 0])[1] >= 1
                   and st["closed_after"].get("HangUp", [0, 0])[1] >= 1):
        raise Broken("vacuity: the receive-side layer did not leave writes of the node in flight / make them fail: %s" % st)
    return files, summ, ok


def run(ctx):
    ctx.build()
    cfg = "MCWire_quick.cfg" if ctx.quick() else "MCWire_thorough.cfg"
    dot = ctx.path("wire.dot")
    r = ctx.tlc_exhaustive("MCWire", cfg, timeout=600, dump=dot, coverage=not ctx.quick())
    # (the sequence-layer actions Tick / SBlocks / SConfirm - the latter two show as Next - are off in this configuration)
    # (... and so are those of the receive-side layer)
    if not ctx.quick() and [a for a in r.get("zero_cov", []) if a not in ("Tick", "Next", "Bystander") + RX_OPS]:
        raise Broken("vacuity: actions never taken in the design run: %s" % r["zero_cov"])
    # negative controls: with a deviation on (the code as it is today) TLC must find the violated clause
    negs = {}
    for c, inv in (NEG[:3] if ctx.quick() else NEG):
        neg = ctx.tlc("MCWire", c, timeout=300, expect_ok=False)
        negs[c] = neg["inv"]
        if neg["inv"] != inv:
            raise Broken("negative control %s: expected violation of %s, got %s\n%s" % (c, inv, neg["inv"], neg["out"][-1500:]))
    # sequence layer: with the cache-pass deviation on, TLC must reach a pass that empties two slots
    neg = ctx.tlc("MCWire", "MCWire_seq_neg.cfg", timeout=300, expect_ok=False)
    negs["MCWire_seq_neg.cfg"] = neg["inv"]
    if neg["inv"] != "NodeAlive":
        raise Broken("negative control MCWire_seq_neg.cfg: expected violation of NodeAlive, got %s\n%s" % (neg["inv"], neg["out"][-1500:]))
    ctx.extra["negative_controls"] = negs
    env = {"WIRE_LIMIT_MS": "30000"}  # only ends the wait for code that keeps running; never a verdict
    files, summ = ctx.replay("wire", graph=dot, shards=16, maxlen=12, env=env, timeout=1500)
    if summ["panics"]:
        raise Broken("harness panicked inside the adapter (%d)" % summ["panics"])
    ok = judge(ctx, files, "class-sequence tree")
    allfiles = list(files)
    edges = summ["graph_edges"]
    # the message-sequence layer on top of the classes
    for name, cfg in ([("seq", "MCWire_seq_quick.cfg")] if ctx.quick() else [("seq", "MCWire_seq_thorough.cfg"), ("seq2", "MCWire_seq_thorough2.cfg")]):
        fq, sq, okq = seq_layer(ctx, cfg, name)
        ok = okq and ok
        allfiles += fq
        edges += sq["graph_edges"]
    # the receive side of the remote party
    for name, cfg, renv in ([("rx", "MCWire_rx_quick.cfg", env)] if ctx.quick() else
                            [("rx", "MCWire_rx_thorough.cfg", env), ("rx_true_deadlines", "MCWire_rx_quick.cfg", dict(env, WIRE_WDL_DIV="1", WIRE_LIMIT_MS="60000"))]):
        fr, sr, okr = rx_layer(ctx, cfg, name, renv)
        ok = okr and ok
        allfiles += fr
        edges += sr["graph_edges"]
    if not ctx.quick():
        # a second tree: fewer inputs per phase but every carrier class, heartbeats before the protocol handshake
        dot2 = ctx.path("wire2.dot")
        ctx.tlc_exhaustive("MCWire", "MCWire_thorough2.cfg", timeout=600, dump=dot2)
        f2, s2 = ctx.replay("wire", graph=dot2, shards=16, maxlen=12, env=env, timeout=1500, name="wire.t2")
        ok = judge(ctx, f2, "class-sequence tree 2") and ok
        allfiles += f2
        edges += s2["graph_edges"]
        # the first tree again with other payload bytes and read splits for every class
        e3 = dict(env, VERIF_SEED=str(ctx.seed * 1000 + 7))
        f3, s3 = ctx.replay("wire", graph=dot, shards=16, maxlen=12, env=e3, timeout=1500, name="wire.s2")
        ok = judge(ctx, f3, "class-sequence tree, other instantiation") and ok
        allfiles += f3
        # longer random walks in which every kept class carries on
        sim = ctx.tlc_simulate("MCWire", "MCWire_sim.cfg", num=800, depth=10, prefix="wiresim", timeout=300)
        f4, s4 = ctx.replay("wire", sim=sim, shards=16, env=env, timeout=1500, name="wire.sim")
        ok = judge(ctx, f4, "simulated longer sequences") and ok
        allfiles += f4
    n, lines, samples, ratio = nontrivial(allfiles)
    ctx.cov["evaluations"] = lines
    ctx.cov["distinct_nontrivial"] = n
    ctx.cov["rule"] = ("every path of the TLC-generated tree of input-class sequences (Wire.tla, bounds in the cfg) is instantiated as real bytes and sent to a real "
                       "node; evaluations = steps executed on the real node; a case is a distinct (sequence so far, class) pair and is non-trivial when the node "
                       "actually read attacker bytes in that step (or died in it)")
    ctx.cov["samples"] = samples or summ["samples"]
    ctx.cov["exhaustive"] = False
    ctx.extra["distinct_transitions_replayed"] = edges if ok else 0
    ctx.extra["transitions_in_graph"] = edges
    ctx.extra["max_alloc_bytes_per_byte_read_over_4KiB_inputs"] = round(ratio, 1)
    ctx.extra["bounds"] = dict(max_inputs_per_phase=dict(accepted=dict(PreHs=1, ProtoHs=1 if ctx.quick() else 2, Est=2 if ctx.quick() else 3),
                                                         dialed=dict(OutHs=1, ProtoHs=1 if ctx.quick() else 2, Est=1 if ctx.quick() else 2)),
                               sequence_layer=dict(quick="5 block descriptors, 13 BlocksMsg payloads (1-2 blocks), 2 ConfirmMsg, 2 interleaved classes, Tick, reconnect",
                                                   thorough="two graphs: 7 descriptors / 31 payloads (1-3 blocks) / 3 confirms / 2 classes; 9 descriptors (heights 0, 1, 2, 2^32-1, junk on junk, wrong height on genesis) / 20 payloads / 3 confirms with absurd height fields / 2 classes",
                                                   tour_maxlen=30, tick_wait_ms=560),
                               reconnect_probe_after_len=3, reconnect_direction="as the first connection (tree 1) / either (tree 2, simulation)",
                               receive_side_layer=dict(quick="<= 2 receive-side actions per behaviour, 1 input per phase, requests GetLstStatus (3 s deadline) / GetBlocks (20 s) / a transaction (20 s, passed on to every peer) / a frame with a bad magic, bystander, both directions, reconnect probe",
                                                       thorough="<= 3 receive-side actions, 2 inputs on the established connection, 11 classes (every answering request, the node's own requests after a higher status / an orphan block, heartbeat frame, malformed frame and payload), StallOut (the node's heartbeat gives up); the quick graph again with the true deadlines",
                                                       write_deadline_divisor=20, grace_ms=4000),
                               alloc_bound="25 MiB (MaxPackageLength) + 16 MiB + 256 x KiB read in the step", quiescence_cap_ms=30000)
    ctx.assumptions += [
        "input space is partitioned into the classes of spec/WireClasses.tla; inside a class the bytes are seeded samples, not all byte strings",
        "the node's side of a connection is driven like p2p.Server.HandleConn/run (inbound) resp. DialManager.runDialTask + Server.HandleConn (outbound) but over net.Pipe (Server needs a TCP port); one remote party at a time",
        "a remote party that stays silent (sends nothing, keeps the connection open) is not an input class: the handshake readers have no deadline, which is not judged",
        "allocation is runtime.MemStats.TotalAlloc of the whole node process during the step (harness overhead included, frames are built before the measurement)",
        "deadlock = a goroutine of the node waiting in sync.(*Mutex|*RWMutex).Lock in a stop-the-world snapshot in which no goroutine of the node can run",
        "sequence layer: blocks are abstracted to <<id, height, parent, valid|junk>> over a universe of 5 (quick) / 7-9 (thorough) descriptors; who signed a junk block, its timestamp (0, 1, genesis, now, 2^32-1, future) and whether it carries a transaction are seeded per block; the valid blocks are assembled for deputies 1 and 2 by a second real chain on the same genesis (a remote party does not have the node's own key)",
        "sequence layer: a Tick step waits 560 ms (the manager's queue timer is 500 ms and free-running) and then for quiescence; the timer also fires during other steps, which the envelope of WireSeq.tla allows (it may only shrink the caches)",
        "receive-side layer: net.Pipe has no buffer, so a remote that stops reading blocks the node's very next write - the state of a TCP connection whose send buffer is full; a remote that stops reading before the node has answered the encryption handshake of an ACCEPTED connection is not enumerated (that one write has no deadline; on TCP a packet below 1 KiB on a fresh connection never blocks), resetting and hanging up at that point are",
        "receive-side layer: a reset of the node's sending direction is injected at the node's end of the pipe (every write fails at once with ECONNRESET, reads go on); a hang-up closes both directions",
        "receive-side layer: bounded time = the deadline the node gave its write (divided by 20 while the remote does not read) plus a grace period of 4 s that only matters in the failing case; lock waiters are judged where no write of the node is in flight (behind a write in flight they may queue for the peer's write lock until its deadline)",
        "receive-side layer: input the node has read but not handled yet is not held against the step that is observed: the frame reader queues decoded messages (a channel of 10) for the one goroutine that handles them, and while that goroutine is inside a write the remote does not take (the protocol handshake of a dialed connection) 'nothing can run' is reached with messages still queued; the blocks / confirm packets sent since the last observation with nothing in flight and nothing able to run are credited to the envelope of the later steps (TraceWire: back)",
        "receive-side layer: 'a failed write drops the connection' is demanded only through its consequences (nothing in flight, nobody waiting, malformed input closed, hang-up / stall-out closed, peer forgotten, bystander served); after a passed deadline the connection may be closed or kept",
        "the protocol manager's unexported caches are read hook-free through reflect/unsafe and their own exported, locking accessors (Iterate with a callback that removes nothing, Size)",
    ]
