"""XNET - beyond the listed properties: several real nodes (one OS process each) driven by behaviours of Network.tla.
System-level question: can two honest nodes hold conflicting stable blocks?  TLC says yes for 3 deputies (the miner's own
implicit signature is not subject to the voting lock of Confirmer.needConfirm); the scripted counterexample is carried out
on three real node processes.  This is NOT a registered check (no listed property states cross-node agreement): it never
prints VIOLATION; it reports what it observed.  Usage: bin/check XNET"""
import json, vlib
LEVEL = "model_checking"


def run(ctx):
    ctx.build()
    r = ctx.tlc("Network", "Network_n3.cfg", timeout=900, expect_ok=False)
    ctx.cov["states"], ctx.cov["transitions"] = max(r["distinct"], 1), max(r["generated"], 1)
    ctx.extra["design_result"] = "TLC: invariant %s violated on Network.tla (NB=4, ND=3, honest nodes)" % r["inv"]
    print("XNET design: TLC reports %s violated on the multi-node model" % r["inv"], flush=True)
    dot = ctx.path("netscript.dot")
    ctx.tlc_exhaustive("MCNetworkScript", "MCNetworkScript.cfg", timeout=300, workers=1, dump=dot, count=False)
    files, summ = ctx.replay("network", graph=dot, shards=1, maxlen=20, timeout=600)
    ctx.cov["samples"] = summ["samples"]
    lines = [json.loads(x) for x in open(files[0])]
    st = {}
    for e in lines:
        if e["ev"] != "reset":
            st[e["a"][0]] = e["stable"]
    ctx.extra["real_nodes_final_stable"] = st
    # judged by TLC as usual; an Agreement failure on the real nodes is reported as information, not as VIOLATION
    ok = ctx.validate("TraceNetwork", "TraceNetwork.cfg", files, what="scripted counterexample on 3 real node processes", timeout=300)
    if not ok:
        print("XNET finding (beyond the listed properties): real nodes ended with stable blocks %s - see DESIGN.md 9.7" % st, flush=True)
        ctx.extra["finding"] = ctx.violations[0]["text"] if ctx.violations else "rejected"
        ctx.violations = []
