"""C18 transaction pool.  TxPool.tla (implementation-shaped, TLC-checked clauses) generates every
operation sequence within bounds; each is stepped through the real txpool.TxPool; the events the
verif hook emits under pool.RW are validated by TraceTxPool.tla against the set semantics of
TxPoolAbs.tla.  A concurrent driver (8 goroutines on one real pool) is validated the same way."""
import json
LEVEL = "model_checking"

MANIFEST = dict(
    level="model_checking",
    text="TLC checks the nine clause/representation invariants on every reachable state of the implementation-shaped pool model "
         "(5 txs incl. 2 overlapping boxes, capacity 2 so doubling/gc are reached, expiry around the query times); every transition of that "
         "state graph is replayed on the real TxPool and the hook-emitted linearised events (results of AddTx/AddTxs/GetTxs/DelTxs) are "
         "validated by TLC against the order-insensitive set semantics; concurrent 8-goroutine runs of the real pool are validated the same way.",
    note="The hook runs under pool.RW after the state change (deferred before Unlock), sequence numbers are taken under the same lock. "
         "The abstract semantics allows the documented box-dropped-with-its-sub-tx behaviour. The fork-switch clause is checked through a real engine (PoolFork.tla: every tree of 3 blocks - thorough: 4, sampled - carrying <=1 of 3 transactions each, every insertion order; a block may arrive with enough confirms or get them later (InsertConfirms), so the stable block moves, sibling forks are pruned and the head leaves a cut fork in the same call; block times and transaction expirations come from two or three epochs more than the 30 min transaction lifetime apart, so the replay guard is pruned by time and old transactions expire; expected pool after every call = the non-expired transactions the node was ever given (submitted before the run - all or none - or stored in a block) that are not on the head's chain. TLC checks that rule as an invariant of the modelled mechanism (guard cache, GetTxsByBranch, DelOldBlocks) and, as a negative control, finds it violated when the guard is pruned before the fork switch is handled. Quick replays a seeded sample of the behaviours on a real node)",
    technique="TLA+ model checking (TxPool.tla) + replay of the full TLC state graph on the real pool + TLC trace validation (TraceTxPool.tla over TxPoolAbs.tla)")


def run(ctx):
    ctx.build()
    steps = 5 if ctx.quick() else 6
    for f in ("MCTxPool_TRUE.cfg", "MCTxPool_FALSE.cfg"):
        p = ctx.specdir + "/" + f
        txt = open(p).read().replace("MaxSteps = 5", "MaxSteps = %d" % steps)
        open(p, "w").write(txt)
    dot = ctx.path("txpool.dot")
    r = ctx.tlc_exhaustive("MCTxPool", "MCTxPool_TRUE.cfg", timeout=1200, dump=dot, coverage=not ctx.quick())
    # negative control: the pool as written before the fix violates the clauses in the model
    neg = ctx.tlc("MCTxPool", "MCTxPool_FALSE.cfg", timeout=600, expect_ok=False)
    ctx.extra["negative_control_prefix_model_violates"] = neg["inv"]
    if not neg["inv"]:
        raise __import__("vlib").Broken("negative control: pre-fix delTx model should violate a clause")
    files, summ = ctx.replay("txpool", graph=dot, shards=16, maxlen=30)
    ok = ctx.validate("TraceTxPool", "TraceTxPool.cfg", files, what="state-graph replay", timeout=1800)
    ctx.extra["distinct_transitions_replayed"] = summ["graph_edges"] if ok else 0
    ctx.extra["transitions_in_graph"] = summ["graph_edges"]
    ctx.cov["samples"] = summ["samples"]
    ctx.cov["exhaustive"] = True
    # concurrent real pool
    rounds = 40 if ctx.quick() else 400
    conc = ctx.path("traces", "conc.ndjson")
    ctx.drive("txpool-conc", ["-out", conc, "-seed", ctx.seed, "-rounds", rounds])
    ctx.validate("TraceTxPool", "TraceTxPool.cfg", [conc], what="8-goroutine runs", timeout=1800)
    if not ctx.quick():
        vr = ctx.build(race=True)
        conc2 = ctx.path("traces", "conc-race.ndjson")
        rr = ctx.drive("txpool-conc", ["-out", conc2, "-seed", ctx.seed + 1, "-rounds", 100], vh=vr, check=False)
        if "DATA RACE" in rr.stdout:
            ctx.violation("data race in the real pool under the concurrent driver", dict(output=rr.stdout[-4000:]))
        elif rr.returncode != 0:
            raise __import__("vlib").Broken("race driver failed: " + rr.stdout[-2000:])
        else:
            ctx.validate("TraceTxPool", "TraceTxPool.cfg", [conc2], what="8-goroutine runs (-race build)", timeout=1800)
    # fork-switch clause through the real engine: PoolFork.tla (fork switches x stable changes x block-time epochs)
    pdot = ctx.path("poolfork.dot")
    ctx.tlc_exhaustive("MCPoolFork", "MCPoolFork_n3.cfg", timeout=900, dump=pdot)
    # negative control: a guard pruned BEFORE the fork switch is handled loses the pool update in the model
    pneg = ctx.tlc("MCPoolFork", "MCPoolFork_n3_neg.cfg", timeout=600, expect_ok=False)
    ctx.extra["negative_control_poolfork_prune_first_violates"] = pneg["inv"]
    if pneg["inv"] != "PoolIsOffChain":
        raise __import__("vlib").Broken("negative control: pruning the guard before the fork switch should violate PoolIsOffChain in the model")
    pfiles, psumm = ctx.replay("poolfork", graph=pdot, shards=16, maxlen=10, limit=600 if ctx.quick() else 0, chunk=300, timeout=3000)
    # 4 blocks, two and three epochs: invariants on every state (thorough), random behaviours of the model on the real node (both tiers)
    if not ctx.quick():
        ctx.tlc_exhaustive("MCPoolFork", "MCPoolFork_n4.cfg", timeout=1800)
        ctx.tlc_exhaustive("MCPoolFork", "MCPoolFork_n3e3.cfg", timeout=900)
        ctx.tlc_simulate("MCPoolFork", "MCPoolFork_n4.cfg", num=8000, depth=10, prefix="pf4e2", timeout=600)
    ctx.tlc_simulate("MCPoolFork", "MCPoolFork_n4e3.cfg", num=300 if ctx.quick() else 8000, depth=10, prefix="pf4e3", timeout=600)
    pfiles4, psumm4 = ctx.replay("poolfork", sim=ctx.path("sim", "pf4e") + "*", name="poolfork4", shards=16, chunk=300, timeout=3000)
    ctx.validate("TracePoolFork", "TracePoolFork.cfg", pfiles + pfiles4, what="engine fork switches x stable changes x block-time epochs", timeout=1800)
    ctx.extra["poolfork"] = dict(behaviours_total=psumm["behaviours_total"], replayed=psumm["behaviours"], graph_edges=psumm["graph_edges"],
                                 replayed_4_blocks=psumm4["behaviours"], actions=dict(psumm["action_counts"]), actions_4_blocks=dict(psumm4["action_counts"]))
    ctx.assumptions += ["transactions are identified by hash; the universe is 3 plain txs and 2 overlapping boxes (model) / 10 txs and 3 boxes (concurrent driver)",
                        "the order in which GetTxs hands out transactions is not constrained",
                        "fork-switch clause: 3 deputies (a block is stable with its miner and one more signer), the node under test is an observer; block times from two (3 blocks) or three (4 blocks) epochs 50 min apart; before the run all transactions of the universe were submitted to the node, or none; "
                        "a transaction expires 1000 s after the start of its epoch; the pool is asked at the latest block time the node has accepted"]
