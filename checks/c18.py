"""C18 transaction pool.  TxPool.tla (implementation-shaped, TLC-checked clauses) generates every
operation sequence within bounds; each is stepped through the real txpool.TxPool; the events the
verif hook emits under pool.RW are validated by TraceTxPool.tla against the set semantics of
TxPoolAbs.tla.  A concurrent driver (8 goroutines on one real pool) is validated the same way."""
import json
LEVEL = "model_checking"

MANIFEST = dict(
    level="model_checking",
    text="TLC checks the nine clause/representation invariants on every reachable state of the implementation-shaped pool model "
         "(5 txs incl. 2 overlapping boxes, capacity 2 so doubling/gc are reached, expiry around the query times); every transition of that "
         "state graph is replayed on the real TxPool and the hook-emitted linearised events (results of AddTx/AddTxs/GetTxs/DelTxs) are "
         "validated by TLC against the order-insensitive set semantics; concurrent 8-goroutine runs of the real pool are validated the same way.",
    note="The hook runs under pool.RW after the state change (deferred before Unlock), sequence numbers are taken under the same lock. "
         "The abstract semantics allows the documented box-dropped-with-its-sub-tx behaviour. The fork-switch clause is checked through a real engine (PoolFork.tla: every tree of 4 blocks carrying <=1 of 3 transactions each, every insertion order; quick replays a seeded sample of 600 of the 34k behaviours).",
    technique="TLA+ model checking (TxPool.tla) + replay of the full TLC state graph on the real pool + TLC trace validation (TraceTxPool.tla over TxPoolAbs.tla)")


def run(ctx):
    ctx.build()
    steps = 5 if ctx.quick() else 6
    for f in ("MCTxPool_TRUE.cfg", "MCTxPool_FALSE.cfg"):
        p = ctx.specdir + "/" + f
        txt = open(p).read().replace("MaxSteps = 5", "MaxSteps = %d" % steps)
        open(p, "w").write(txt)
    dot = ctx.path("txpool.dot")
    r = ctx.tlc_exhaustive("MCTxPool", "MCTxPool_TRUE.cfg", timeout=1200, dump=dot, coverage=not ctx.quick())
    # negative control: the pool as written before the fix violates the clauses in the model
    neg = ctx.tlc("MCTxPool", "MCTxPool_FALSE.cfg", timeout=600, expect_ok=False)
    ctx.extra["negative_control_prefix_model_violates"] = neg["inv"]
    if not neg["inv"]:
        raise __import__("vlib").Broken("negative control: pre-fix delTx model should violate a clause")
    files, summ = ctx.replay("txpool", graph=dot, shards=16, maxlen=30)
    ok = ctx.validate("TraceTxPool", "TraceTxPool.cfg", files, what="state-graph replay", timeout=1800)
    ctx.extra["distinct_transitions_replayed"] = summ["graph_edges"] if ok else 0
    ctx.extra["transitions_in_graph"] = summ["graph_edges"]
    ctx.cov["samples"] = summ["samples"]
    ctx.cov["exhaustive"] = True
    # concurrent real pool
    rounds = 40 if ctx.quick() else 400
    conc = ctx.path("traces", "conc.ndjson")
    ctx.drive("txpool-conc", ["-out", conc, "-seed", ctx.seed, "-rounds", rounds])
    ctx.validate("TraceTxPool", "TraceTxPool.cfg", [conc], what="8-goroutine runs", timeout=1800)
    if not ctx.quick():
        vr = ctx.build(race=True)
        conc2 = ctx.path("traces", "conc-race.ndjson")
        rr = ctx.drive("txpool-conc", ["-out", conc2, "-seed", ctx.seed + 1, "-rounds", 100], vh=vr, check=False)
        if "DATA RACE" in rr.stdout:
            ctx.violation("data race in the real pool under the concurrent driver", dict(output=rr.stdout[-4000:]))
        elif rr.returncode != 0:
            raise __import__("vlib").Broken("race driver failed: " + rr.stdout[-2000:])
        else:
            ctx.validate("TraceTxPool", "TraceTxPool.cfg", [conc2], what="8-goroutine runs (-race build)", timeout=1800)
    # fork-switch clause through the real engine: PoolFork.tla
    pdot = ctx.path("poolfork.dot")
    ctx.tlc_exhaustive("MCPoolFork", "MCPoolFork_n4.cfg", timeout=900, dump=pdot)
    pfiles, psumm = ctx.replay("poolfork", graph=pdot, shards=16, maxlen=10, limit=600 if ctx.quick() else 12000, chunk=300, timeout=3000)
    ctx.validate("TracePoolFork", "TracePoolFork.cfg", pfiles, what="engine fork switches with a full pool", timeout=1800)
    ctx.extra["poolfork"] = dict(behaviours_total=psumm["behaviours_total"], replayed=psumm["behaviours"], graph_edges=psumm["graph_edges"])
    ctx.assumptions += ["transactions are identified by hash; the universe is 3 plain txs and 2 overlapping boxes (model) / 10 txs and 3 boxes (concurrent driver)",
                        "the order in which GetTxs hands out transactions is not constrained"]
