"""C18 transaction pool.  TxPool.tla (implementation-shaped, TLC-checked clauses) generates every
operation sequence within bounds; each is stepped through the real txpool.TxPool; the events the
verif hook emits under pool.RW are validated by TraceTxPool.tla against the set semantics of
TxPoolAbs.tla.  A concurrent driver (8 goroutines on one real pool) is validated the same way."""
import json
LEVEL = "model_checking"

MANIFEST = dict(
    level="model_checking",
    text="TLC checks the nine clause/representation invariants on every reachable state of the implementation-shaped pool model "
         "(5 txs incl. 2 overlapping boxes, capacity 2 so doubling/gc are reached, expiry around the query times); every transition of that "
         "state graph is replayed on the real TxPool and the hook-emitted linearised events (results of AddTx/AddTxs/GetTxs/DelTxs) are "
         "validated by TLC against the order-insensitive set semantics; concurrent 8-goroutine runs of the real pool are validated the same way.",
    note="The hook runs under pool.RW after the state change (deferred before Unlock), sequence numbers are taken under the same lock. "
         "The abstract semantics allows the documented box-dropped-with-its-sub-tx behaviour. The fork-switch clause is checked through a real engine (PoolFork.tla: every tree of 3 blocks - thorough: 4, sampled - carrying <=1 of 3 transactions each, every insertion order; a block may arrive with enough confirms or get them later (InsertConfirms), so the stable block moves, sibling forks are pruned and the head leaves a cut fork in the same call; block times and transaction expirations come from two or three epochs more than the 30 min transaction lifetime apart, so the replay guard is pruned by time and old transactions expire; judged after every call by two bounds: UPPER - the pool holds no duplicates, only non-expired transactions the node was ever given (submitted before the run - all or none - or stored in a block) and none that are on the head's chain; LOWER - every transaction that was pending before the call or lies on the abandoned fork (old head's branch back to the common ancestor with the new head) is pending unless expired or on the new head's chain. A transaction known only from a side block that was never on the head's branch and never pending is not demanded: saveNewBlock makes it pending when the side block leaves the head unchanged and not when it makes the node switch to another stored leaf - an inconsistency, not a violation of the clause. TLC checks the two bounds (invariant PoolUpper, step property PoolLower) on the modelled mechanism (guard cache, GetTxsByBranch, DelOldBlocks) and, as a negative control, finds them violated when the guard is pruned before the fork switch is handled. Quick replays a seeded sample of the behaviours on a real node. Indirect switches - the new head is a stored leaf, not the delivered block: a higher fork that was at the wrong distance from the stable block becomes eligible when a confirm packet moves the stable block, and the next block on a third fork triggers the switch - need 5 blocks: a family of 5-block trees (one trunk block, forks on it) is model-checked in full, the behaviours that contain such a step are selected by a history variable of the model and ALL of them are replayed on a real node in both tiers; the run is broken unless the real node shows head' not in {head, delivered block} often enough)",
    technique="TLA+ model checking (TxPool.tla) + replay of the full TLC state graph on the real pool + TLC trace validation (TraceTxPool.tla over TxPoolAbs.tla)")


def run(ctx):
    ctx.build()
    steps = 5 if ctx.quick() else 6
    for f in ("MCTxPool_TRUE.cfg", "MCTxPool_FALSE.cfg"):
        p = ctx.specdir + "/" + f
        txt = open(p).read().replace("MaxSteps = 5", "MaxSteps = %d" % steps)
        open(p, "w").write(txt)
    dot = ctx.path("txpool.dot")
    r = ctx.tlc_exhaustive("MCTxPool", "MCTxPool_TRUE.cfg", timeout=1200, dump=dot, coverage=not ctx.quick())
    # negative control: the pool as written before the fix violates the clauses in the model
    neg = ctx.tlc("MCTxPool", "MCTxPool_FALSE.cfg", timeout=600, expect_ok=False)
    ctx.extra["negative_control_prefix_model_violates"] = neg["inv"]
    if not neg["inv"]:
        raise __import__("vlib").Broken("negative control: pre-fix delTx model should violate a clause")
    files, summ = ctx.replay("txpool", graph=dot, shards=16, maxlen=30)
    ok = ctx.validate("TraceTxPool", "TraceTxPool.cfg", files, what="state-graph replay", timeout=1800)
    ctx.extra["distinct_transitions_replayed"] = summ["graph_edges"] if ok else 0
    ctx.extra["transitions_in_graph"] = summ["graph_edges"]
    ctx.cov["samples"] = summ["samples"]
    ctx.cov["exhaustive"] = True
    # concurrent real pool
    rounds = 40 if ctx.quick() else 400
    conc = ctx.path("traces", "conc.ndjson")
    ctx.drive("txpool-conc", ["-out", conc, "-seed", ctx.seed, "-rounds", rounds])
    ctx.validate("TraceTxPool", "TraceTxPool.cfg", [conc], what="8-goroutine runs", timeout=1800)
    if not ctx.quick():
        vr = ctx.build(race=True)
        conc2 = ctx.path("traces", "conc-race.ndjson")
        rr = ctx.drive("txpool-conc", ["-out", conc2, "-seed", ctx.seed + 1, "-rounds", 100], vh=vr, check=False)
        if "DATA RACE" in rr.stdout:
            ctx.violation("data race in the real pool under the concurrent driver", dict(output=rr.stdout[-4000:]))
        elif rr.returncode != 0:
            raise __import__("vlib").Broken("race driver failed: " + rr.stdout[-2000:])
        else:
            ctx.validate("TraceTxPool", "TraceTxPool.cfg", [conc2], what="8-goroutine runs (-race build)", timeout=1800)
    # fork-switch clause through the real engine: PoolFork.tla (fork switches x stable changes x block-time epochs)
    poolfork(ctx)
    ctx.assumptions += ["transactions are identified by hash; the universe is 3 plain txs and 2 overlapping boxes (model) / 10 txs and 3 boxes (concurrent driver)",
                        "the order in which GetTxs hands out transactions is not constrained",
                        "fork-switch clause: 3 deputies (a block is stable with its miner and one more signer), the node under test is an observer; block times from two (3 blocks) or three (4 blocks) epochs 50 min apart, one epoch for the 5-block family of indirect switches (quick: 2 transactions, each in at most one block, one numbering per tree shape; thorough: 3 transactions, every numbering); before the run all transactions of the universe were submitted to the node, or none; "
                        "a transaction expires 1000 s after the start of its epoch; the pool is asked at the latest block time the node has accepted"]


def focus_dot(src, dst, marker):
    """Selection of behaviours (never a verdict): keep the part of a TLC state graph that lies on behaviours reaching a
    state whose label matches `marker` (a history variable of the model), i.e. the marked states and every state that can
    reach one.  Tours over the result cover every way to the marked steps and everything that follows them."""
    import re
    node = re.compile(r"^(-?\d+) \[label=")
    edge = re.compile(r"^(-?\d+) -> (-?\d+) ")
    mark = re.compile(marker)
    marked, preds, nodes = set(), {}, set()
    with open(src) as fh:
        for ln in fh:
            m = edge.match(ln)
            if m:
                preds.setdefault(m.group(2), []).append(m.group(1))
                continue
            m = node.match(ln)
            if m:
                nodes.add(m.group(1))
                if mark.search(ln):
                    marked.add(m.group(1))
    keep, todo = set(marked), list(marked)
    while todo:
        for q in preds.get(todo.pop(), ()):
            if q not in keep:
                keep.add(q)
                todo.append(q)
    kept_edges = 0
    with open(src) as fh, open(dst, "w") as out:
        for ln in fh:
            m = edge.match(ln)
            if m:
                if m.group(1) in keep and m.group(2) in keep:
                    out.write(ln)
                    kept_edges += 1
                continue
            m = node.match(ln)
            if m and m.group(1) in keep:
                out.write(ln)
    return dict(states=len(nodes), marked_states=len(marked), focused_states=len(keep), focused_edges=kept_edges)


def indirect_steps(files):
    """Non-vacuity counter (never a verdict): accepted InsertBlock steps of the REAL node after which the head is neither
    the old head nor the delivered block."""
    n = behs = 0
    for f in files:
        head, hit = 0, False
        with open(f) as fh:
            for ln in fh:
                if not ln.strip():
                    continue
                e = json.loads(ln)
                if e.get("ev") == "reset":
                    behs += hit
                    head, hit = 0, False
                    continue
                if e.get("ev") == "InsertBlock" and e.get("ok") and "panic" not in e and e.get("head") not in (head, e["a"][0]):
                    n += 1
                    hit = True
                if "head" in e:
                    head = e["head"]
        behs += hit
    return n, behs


def poolfork(ctx):
    import concurrent.futures, time
    Broken = __import__("vlib").Broken
    quick = ctx.quick()
    pdot, idot = ctx.path("poolfork.dot"), ctx.path("poolfork_ind.dot")
    icfg = "MCPoolFork_ind.cfg" if quick else "MCPoolFork_ind3.cfg"

    # negative control: a guard pruned BEFORE the fork switch is handled loses the pool update in the model
    def negs():
        return ctx.tlc("MCPoolFork", "MCPoolFork_n3_neg.cfg", timeout=600, expect_ok=False)

    # the TLC runs are independent: design invariants on 3 blocks (graph), on the 5-block family of indirect switches
    # (graph), random behaviours of 4 blocks / three epochs
    jobs = [lambda: ctx.tlc_exhaustive("MCPoolFork", "MCPoolFork_n3.cfg", timeout=900, dump=pdot, count=False),
            lambda: ctx.tlc_exhaustive("MCPoolFork", icfg, timeout=1800, dump=idot, count=False, workers=4 if quick else None),
            negs,
            lambda: ctx.tlc_simulate("MCPoolFork", "MCPoolFork_n4e3.cfg", num=300 if quick else 8000, depth=10, prefix="pf4e3", timeout=600)]
    with concurrent.futures.ThreadPoolExecutor(len(jobs)) as ex:
        futs = []
        for j in jobs:
            futs.append(ex.submit(j))
            time.sleep(0.3)        # scratch directories of the TLC wrapper are named by the millisecond
        res = [f.result() for f in futs]
    for r in res[:2]:
        ctx.cov["states"] += r["distinct"]
        ctx.cov["transitions"] += r["generated"]
    pneg = res[2]
    ctx.extra["negative_control_poolfork_prune_first_violates"] = pneg["inv"]
    if pneg["inv"] not in ("PoolUpper", "PoolLower"):
        raise Broken("negative control: pruning the guard before the fork switch should violate a bound of the clause (PoolUpper / PoolLower) in the model")
    pfiles, psumm = ctx.replay("poolfork", graph=pdot, shards=16, maxlen=10, limit=600 if quick else 0, chunk=300, timeout=3000)
    # 4 blocks, two and three epochs: invariants on every state (thorough), random behaviours of the model on the real node (both tiers)
    if not quick:
        ctx.tlc_exhaustive("MCPoolFork", "MCPoolFork_n4.cfg", timeout=1800)
        ctx.tlc_exhaustive("MCPoolFork", "MCPoolFork_n3e3.cfg", timeout=900)
        ctx.tlc_exhaustive("MCPoolFork", "MCPoolFork_ind_any.cfg", timeout=1800)
        ctx.tlc_simulate("MCPoolFork", "MCPoolFork_n4.cfg", num=8000, depth=10, prefix="pf4e2", timeout=600)
    pfiles4, psumm4 = ctx.replay("poolfork", sim=ctx.path("sim", "pf4e") + "*", name="poolfork4", shards=16, chunk=300, timeout=3000)
    # indirect switches (the new head is not the delivered block): the behaviours of the 5-block family that contain such a
    # step in the model (history variable ind), all of them, in both tiers, on a real node
    foc = ctx.path("poolfork_ind_focus.dot")
    finfo = focus_dot(idot, foc, r"/\\\\ ind = [1-9]")
    if not finfo["marked_states"]:
        raise Broken("the model of %s reaches no indirect fork switch (ind > 0)" % icfg)
    ifiles, isumm = ctx.replay("poolfork", graph=foc, name="poolforkind", shards=16, maxlen=12, limit=0, chunk=300, timeout=3000)
    nind, bind = indirect_steps(ifiles)
    need = max(100, isumm["behaviours"] // 4)
    ctx.log("indirect switches: %d steps in %d of %d replayed behaviours on the real node (model: %d marked states, %d focused edges)" % (
        nind, bind, isumm["behaviours"], finfo["marked_states"], finfo["focused_edges"]))
    if nind < need:
        raise Broken("only %d steps with head' not in {head, delivered block} were reached on the real node (need %d): "
                     "the model's head rule and the engine's disagree, or the selection is broken" % (nind, need))
    ctx.validate("TracePoolFork", "TracePoolFork.cfg", pfiles + pfiles4 + ifiles, what="engine fork switches x stable changes x block-time epochs, indirect switches", timeout=1800)
    ctx.extra["poolfork"] = dict(behaviours_total=psumm["behaviours_total"], replayed=psumm["behaviours"], graph_edges=psumm["graph_edges"],
                                 replayed_4_blocks=psumm4["behaviours"], actions=dict(psumm["action_counts"]), actions_4_blocks=dict(psumm4["action_counts"]),
                                 indirect=dict(cfg=icfg, focus=finfo, behaviours_total=isumm["behaviours_total"], replayed=isumm["behaviours"],
                                               real_steps_head_not_delivered_block=nind, real_behaviours_with_such_a_step=bind,
                                               actions=dict(isumm["action_counts"])))
