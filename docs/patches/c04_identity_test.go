package consensus

// C04 finding (unchanged code): a reimbursement ("gasless") transaction is signed by its sender WITHOUT gasPrice / gasLimit
// (types.ReimbursementTxSigner); the gas payer then fills in gasPrice / gasLimit and signs (types.GasPayerSigner). The identity
// the replay guard uses (Transaction.Hash) covers gasPrice, gasLimit and the gas payer's signature, so the gas payer can sign the
// SAME sender-signed transaction again with another gas limit: other hash, both valid, and the sender's transfer takes effect twice
// on one branch (e.g. a merchant who is recipient and gas payer charges the customer several times for one signed payment).
//
// Place this file at chain/consensus/c04_identity_test.go and run
//   GOFLAGS=-mod=mod GOPROXY=off GOSUMDB=off go test -count=1 -vet=off -run "TestC04Repriced|TestC04ExtraSig" ./chain/consensus/
// Unchanged tree: FAIL (block 3 accepted, recipient owns 6 LEMO).  With /dev/shm/c04_findings/c04_fix_replay_id.patch: ok.

import (
	"github.com/LemoFoundationLtd/lemochain-core/chain/params"
	"github.com/LemoFoundationLtd/lemochain-core/chain/types"
	"github.com/LemoFoundationLtd/lemochain-core/common"
	"github.com/LemoFoundationLtd/lemochain-core/common/crypto"
	"github.com/stretchr/testify/assert"
	"math/big"
	"testing"
	"time"
)

// c04NewBlock builds a correct block on the current head the way a remote miner would do (no replay check on that path)
func c04NewBlock(dp *DPoVP, deputyInfos deputyTestDatas, txs types.Transactions) *types.Block {
	parentHeader := dp.CurrentBlock().Header
	header, err := dp.assembler.PrepareHeader(parentHeader, dp.minerExtra)
	if err != nil {
		panic(err)
	}
	miner, err := GetCorrectMiner(parentHeader, int64(header.Time)*1000, int64(testDpovpCfg.MineTimeout), dp.dm)
	if err != nil {
		panic(err)
	}
	header.MinerAddress = miner
	block, invalidTxs, err := dp.assembler.MineBlock(header, txs, 10000)
	if err != nil {
		panic(err)
	}
	if len(invalidTxs) > 0 || len(block.Txs) != len(txs) {
		panic("the remote miner could not package the transactions")
	}
	hash := block.Hash()
	signData, err := crypto.Sign(hash[:], deputyInfos.FindByMiner(miner).PrivateKey)
	if err != nil {
		panic(err)
	}
	block.Header.SignData = signData
	return block
}

func TestC04Repriced_ReimbursementTxReplayedByItsGasPayer(t *testing.T) {
	dp, deputyInfos := newTestDPoVP(3)
	defer dp.db.Close()

	victimKey := deputyInfos[0].PrivateKey // the only account with balance in the test genesis
	victim := crypto.PubkeyToAddress(victimKey.PublicKey)
	payerKey, _ := crypto.GenerateKey()
	payer := crypto.PubkeyToAddress(payerKey.PublicKey)
	recipient := common.HexToAddress("0x7777777")
	expiration := uint64(time.Now().Unix() + 600)

	balanceOf := func(addr common.Address) *big.Int {
		dp.am.Reset(dp.CurrentBlock().Hash())
		return dp.am.GetAccount(addr).GetBalance()
	}
	insert := func(txs ...*types.Transaction) error {
		block := c04NewBlock(dp, deputyInfos, txs)
		avoidMiner(block.MinerAddress(), deputyInfos)
		_, err := dp.InsertBlock(block)
		return err
	}
	// the one and only gasless transfer the victim ever signs: 3 LEMO to recipient, gas to be paid by payer
	raw := types.NewReimbursementTransaction(victim, recipient, payer, common.Lemo2Mo("3"), nil, params.OrdinaryTx, testChainID, expiration, "", "pay once")
	signedByVictim, err := types.MakeReimbursementTxSigner().SignTx(raw, victimKey)
	assert.NoError(t, err)
	// the gas payer prices and signs it - as often as he likes
	priced := func(gasLimit uint64) *types.Transaction {
		tx := types.GasPayerSignatureTx(signedByVictim.Clone(), big.NewInt(1000000000), gasLimit)
		tx, err := types.MakeGasPayerSigner().SignTx(tx, payerKey)
		assert.NoError(t, err)
		return tx
	}
	x1, x2 := priced(50000), priced(50001)
	assert.NotEqual(t, x1.Hash(), x2.Hash())
	assert.Equal(t, types.MakeReimbursementTxSigner().Hash(x1), types.MakeReimbursementTxSigner().Hash(x2), "the victim signed one payload")
	assert.Equal(t, x1.Sigs(), x2.Sigs(), "one signature of the victim")

	// block 1: the payer gets some LEMO to pay gas
	assert.NoError(t, insert(MakeTx(victimKey, payer, common.Lemo2Mo("100"), expiration)))
	// block 2: the victim's transfer takes effect
	assert.NoError(t, insert(x1))
	assert.Equal(t, common.Lemo2Mo("3"), balanceOf(recipient))
	head := dp.CurrentBlock().Hash()
	// block 3: the same sender-signed transfer, priced again by the gas payer. It must be refused
	err = insert(x2)
	assert.Error(t, err, "C04 violated: the block that carries the victim's signed transfer a second time was accepted")
	assert.Equal(t, head, dp.CurrentBlock().Hash(), "C04 violated: the replaying block became the head")
	assert.Equal(t, common.Lemo2Mo("3"), balanceOf(recipient), "C04 violated: a transfer signed once took effect twice")
}

// Second finding (unchanged code): for a sender without multi-signature settings TxProcessor.checkSignersWeight looks at the FIRST
// signature only, and Transaction.Hash covers the whole signature list.  Anybody can take a signed transaction, append a signature of
// his own over the same sign hash (types.DefaultSigner.SignTx does exactly that) and obtains a valid transaction with another hash:
// the replay guard does not recognise it and the victim's transfer takes effect twice on one branch.
//   go test -count=1 -vet=off -run TestC04ExtraSig ./chain/consensus/
// Unchanged tree: FAIL (recipient owns 6 LEMO).  With c04_fix_replay_id.patch: ok.
func TestC04ExtraSig_TransferReplayedWithAnAppendedSignature(t *testing.T) {
	dp, deputyInfos := newTestDPoVP(3)
	defer dp.db.Close()

	victimKey := deputyInfos[0].PrivateKey
	attackerKey, _ := crypto.GenerateKey()
	recipient := common.HexToAddress("0x7777777")
	expiration := uint64(time.Now().Unix() + 600)
	balanceOf := func(addr common.Address) *big.Int {
		dp.am.Reset(dp.CurrentBlock().Hash())
		return dp.am.GetAccount(addr).GetBalance()
	}
	insert := func(txs ...*types.Transaction) error {
		block := c04NewBlock(dp, deputyInfos, txs)
		avoidMiner(block.MinerAddress(), deputyInfos)
		_, err := dp.InsertBlock(block)
		return err
	}
	x := MakeTx(victimKey, recipient, common.Lemo2Mo("3"), expiration) // the one transfer the victim signs
	x2 := SignTx(x, attackerKey)                                         // the attacker appends his signature
	assert.Equal(t, 2, len(x2.Sigs()))
	assert.Equal(t, x.Sigs()[0], x2.Sigs()[0])
	assert.NotEqual(t, x.Hash(), x2.Hash())

	assert.NoError(t, insert(x))
	assert.Equal(t, common.Lemo2Mo("3"), balanceOf(recipient))
	head := dp.CurrentBlock().Hash()
	err := insert(x2)
	assert.Error(t, err, "C04 violated: the block that carries the victim's signed transfer a second time was accepted")
	assert.Equal(t, head, dp.CurrentBlock().Hash(), "C04 violated: the replaying block became the head")
	assert.Equal(t, common.Lemo2Mo("3"), balanceOf(recipient), "C04 violated: a transfer signed once took effect twice")
}
