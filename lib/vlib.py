"""Shared orchestration for /verif checks (python3 stdlib only).

A check is a module checks/<id>.py with run(ctx).  It uses the helpers here to
  * build the Go harness from /repo's working tree with -tags verif,
  * run TLC (exhaustive / simulation) on the specs in a scratch copy,
  * replay TLC behaviours on the real code (vh replay) to obtain ndjson traces,
  * validate the traces with TLC against the trace specs,
  * write evidence/<id>.json and print VIOLATION / KNOWN-FINDING lines.
Exit codes: 0 held, 1 violation (from real-code behaviour only), 2 machinery failure.
"""
import json, threading, os, re, shutil, subprocess, sys, time, glob, concurrent.futures

VERIF = os.path.dirname(os.path.dirname(os.path.abspath(__file__)))
REPO = os.environ.get("VERIF_REPO", "/repo")
NCPU = os.cpu_count() or 4
GOENV = dict(GOFLAGS="-mod=mod", GOPROXY="off", GOSUMDB="off", GOTOOLCHAIN="local")


class Broken(Exception):
    """Machinery failure: exit 2, never a violation."""


class Ctx:
    def __init__(self, pid, tier, seed, level):
        self.pid, self.tier, self.seed, self.level = pid, tier, int(seed), level
        self.t0 = time.time()
        base = os.environ.get("VERIF_SCRATCH")
        if not base:
            base = "/dev/shm" if os.path.isdir("/dev/shm") and os.access("/dev/shm", os.W_OK) else "/var/tmp"
        self.scratch = os.path.join(base, "verif.%s.%d" % (pid, os.getpid()))
        shutil.rmtree(self.scratch, ignore_errors=True)
        os.makedirs(self.scratch)
        self.specdir = os.path.join(self.scratch, "spec")
        shutil.copytree(os.path.join(VERIF, "spec"), self.specdir)
        self.violations = []      # dicts
        self.known_seen = {}      # key -> text
        self.cov = dict(states=0, transitions=0, traces_validated_against_impl=0, samples=[],
                        evaluations=0, distinct_nontrivial=0, rule="", exhaustive=False)
        self.extra = {}
        self.assumptions = []
        self.known = load_known(pid)
        self.vh = None
        self.log("scratch %s tier=%s seed=%d" % (self.scratch, tier, self.seed))

    # ------------------------------------------------------------------ utils
    def log(self, msg):
        print("[%s %6.1fs] %s" % (self.pid, time.time() - self.t0, msg), flush=True)

    def quick(self):
        return self.tier == "quick"

    def path(self, *a):
        p = os.path.join(self.scratch, *a)
        os.makedirs(os.path.dirname(p), exist_ok=True)
        return p

    def sh(self, cmd, cwd=None, timeout=600, env=None, check=True, stdin=None):
        e = dict(os.environ)
        e.update(GOENV)
        if env:
            e.update(env)
        try:
            r = subprocess.run(cmd, cwd=cwd, timeout=timeout, env=e, stdout=subprocess.PIPE,
                               stderr=subprocess.STDOUT, input=stdin, text=True, errors="replace")
        except subprocess.TimeoutExpired as ex:
            raise Broken("timeout after %ss: %s" % (timeout, " ".join(map(str, cmd))[:300]))
        if check and r.returncode != 0:
            raise Broken("command failed (%d): %s\n%s" % (r.returncode, " ".join(map(str, cmd))[:300], r.stdout[-4000:]))
        return r

    # ------------------------------------------------------------------ build
    def build(self, race=False, tags="verif"):
        """Build harness/cmd/vh against /repo's current working tree."""
        h = os.path.join(VERIF, "harness")
        out = self.path("bin", "vh-race" if race else "vh")
        cmd = ["go", "build", "-tags", tags, "-o", out]
        if REPO == "/repo":
            shutil.copyfile(os.path.join(REPO, "go.sum"), os.path.join(h, "go.sum"))
        else:
            # self-test against a scratch worktree: alternative go.mod whose replace points there
            alt = self.path("gomod", "go.alt.mod")
            txt = open(os.path.join(h, "go.mod")).read().replace("=> /repo", "=> " + REPO)
            open(alt, "w").write(txt)
            shutil.copyfile(os.path.join(REPO, "go.sum"), alt[:-4] + ".sum")
            cmd += ["-modfile", alt]
        if race:
            cmd.append("-race")
        cmd.append("./cmd/vh")
        t = time.time()
        self.sh(cmd, cwd=h, timeout=900)
        self.log("built %s in %.1fs" % (os.path.basename(out), time.time() - t))
        if not race:
            self.vh = out
        return out

    # -------------------------------------------------------------------- TLC
    def tlc(self, module, cfg=None, workers=None, timeout=300, args=(), expect_ok=True, cwd=None, deque=False, heap=None):
        """Run TLC in the scratch spec dir.  Returns dict(ok, generated, distinct, out, inv)."""
        cwd = cwd or self.specdir
        md = self.path("md", "%s.%d" % (module, int(time.time() * 1000) % 10**9))
        cmd = ["timeout", str(timeout), "tlc", "-workers", str(workers or NCPU), "-metadir", md]
        if cfg:
            cmd += ["-config", cfg]
        cmd += list(args) + [module]
        env = {}
        jopts = []
        if deque:
            jopts.append("-Dtlc2.tool.queue.IStateQueue=StateDeque")
        jopts.append("-Xmx%s" % (heap or os.environ.get("VERIF_TLC_HEAP", "8g")))
        jopts.append("-Xss64m")
        env["JAVA_TOOL_OPTIONS"] = " ".join(jopts)
        t = time.time()
        r = self.sh(cmd, cwd=cwd, timeout=timeout + 30, env=env, check=False)
        out = r.stdout
        shutil.rmtree(md, ignore_errors=True)
        res = dict(rc=r.returncode, out=out, generated=0, distinct=0, inv=None, wall=time.time() - t)
        m = re.findall(r"(\d+) states generated, (\d+) distinct states found", out)
        if m:
            res["generated"], res["distinct"] = int(m[-1][0]), int(m[-1][1])
        m = re.search(r"Invariant (\S+) is violated|Action property (\S+) is violated|Temporal properties were violated", out)
        if m:
            res["inv"] = m.group(1) or m.group(2) or "temporal"
        res["ok"] = (r.returncode == 0 and "No error has been found" in out) or \
                    (r.returncode == 0 and "-simulate" in " ".join(args))
        if r.returncode == 124:
            raise Broken("TLC timed out after %ss on %s %s" % (timeout, module, cfg))
        if expect_ok and not res["ok"]:
            raise Broken("TLC failed on %s %s (rc=%d, violated=%s)\n%s" % (module, cfg, r.returncode, res["inv"], out[-3000:]))
        return res

    def tlc_exhaustive(self, module, cfg, timeout=300, dump=None, coverage=False, workers=None, count=True):
        args = []
        if dump:
            args += ["-dump", "dot,actionlabels", dump]
        if coverage:
            args += ["-coverage", "1"]
        r = self.tlc(module, cfg, workers=workers, timeout=timeout, args=args)
        if count:
            self.cov["states"] += r["distinct"]
            self.cov["transitions"] += r["generated"]
        self.extra.setdefault("tlc_runs", []).append(
            dict(module=module, cfg=cfg, generated=r["generated"], distinct=r["distinct"], wall_s=round(r["wall"], 1)))
        self.log("TLC %s/%s: %d generated, %d distinct, %.1fs" % (module, cfg, r["generated"], r["distinct"], r["wall"]))
        if coverage:
            r["zero_cov"] = re.findall(r"<(\w+) line[^>]*>: 0:0", r["out"])
        return r

    def tlc_simulate(self, module, cfg, num, depth, prefix, timeout=300, seed=None):
        """Writes behaviours prefix_0_<k>; returns the glob."""
        pre = self.path("sim", prefix)
        args = ["-simulate", "file=%s,num=%d" % (pre, num), "-depth", str(depth), "-seed", str(seed if seed is not None else self.seed)]
        r = self.tlc(module, cfg, workers=1, timeout=timeout, args=args, expect_ok=False)
        if r["rc"] != 0:
            raise Broken("TLC simulate failed on %s %s\n%s" % (module, cfg, r["out"][-3000:]))
        n = len(glob.glob(pre + "_*"))
        self.log("TLC simulate %s/%s: %d behaviours depth %d, %.1fs" % (module, cfg, n, depth, r["wall"]))
        self.extra.setdefault("tlc_runs", []).append(dict(module=module, cfg=cfg, simulate=n, depth=depth, wall_s=round(r["wall"], 1)))
        return pre + "_*"

    # ----------------------------------------------------------------- replay
    def replay(self, adapter, graph=None, sim=None, shards=None, maxlen=40, limit=0, name=None, timeout=900, env=None, vh=None, chunk=0):
        """Step behaviours through the real code; returns (list of trace files, merged summary)."""
        shards = shards or NCPU
        name = name or adapter
        vh = vh or self.vh

        # tours / simulated behaviours are computed ONCE and written shard by shard; the shards only execute
        prefix = self.path("beh", name)
        cmd = [vh, "tours", "-out", prefix, "-shards", str(shards), "-chunk", str(chunk), "-seed", str(self.seed), "-maxlen", str(maxlen), "-limit", str(limit)]
        cmd += ["-graph", graph] if graph else ["-sim", sim]
        t0 = time.time()
        r = self.sh(cmd, timeout=timeout, check=False)
        if r.returncode != 0:
            raise Broken("vh tours %s failed (rc=%d)\n%s" % (name, r.returncode, r.stdout[-3000:]))
        ginfo = json.loads(r.stdout.strip().splitlines()[-1])
        self.log("tours for %s: %d behaviours (%d selected) over %d edges in %.1fs" % (
            name, ginfo["behaviours_total"], ginfo["behaviours_selected"], ginfo["graph_edges"], time.time() - t0))

        def one(i):
            out = self.path("traces", "%s.%d.ndjson" % (name, i))
            summ = self.path("traces", "%s.%d.summary.json" % (name, i))
            cmd = [vh, "replay", "-adapter", adapter, "-out", out, "-summary", summ, "-beh", "%s.%d.beh" % (prefix, i)]
            e = {"VERIF_SCRATCH_DIR": self.path("work", "%s.%d" % (name, i), ".keep")[:-6], "VERIF_SEED": str(self.seed)}
            if env:
                e.update(env)
            r = self.sh(cmd, timeout=timeout, env=e, check=False)
            if r.returncode != 0:
                self.crashed(r, cmd)
                raise Broken("vh replay %s shard %d failed (rc=%d)\n%s" % (adapter, i, r.returncode, r.stdout[-3000:]))
            s = json.load(open(summ))
            s.update(ginfo)
            return out, s

        t = time.time()
        with concurrent.futures.ThreadPoolExecutor(shards) as ex:
            res = list(ex.map(one, range(ginfo.get("files", shards))))
        files = [r[0] for r in res]
        merged = dict(behaviours=0, steps=0, panics=0, action_counts={}, samples=[])
        for _, s in res:
            merged["behaviours"] += s["behaviours"]
            merged["steps"] += s["steps"]
            merged["panics"] += s["panics"]
            for k, v in s["action_counts"].items():
                merged["action_counts"][k] = merged["action_counts"].get(k, 0) + v
            merged["samples"] += s.get("samples") or []
            for k in ("graph_edges", "graph_nodes", "behaviours_total", "behaviours_selected"):
                merged[k] = s.get(k, 0)
        merged["samples"] = merged["samples"][:3]
        self.log("replayed %s: %d behaviours, %d steps on real code in %.1fs" % (name, merged["behaviours"], merged["steps"], time.time() - t))
        self.extra.setdefault("replays", []).append({k: merged[k] for k in merged if k != "samples"} | {"adapter": name})
        return files, merged

    def drive(self, driver, args, timeout=900, env=None, vh=None, check=True):
        e = {"VERIF_SEED": str(self.seed)}
        if env:
            e.update(env)
        cmd = [vh or self.vh, "drive", driver] + [str(a) for a in args]
        r = self.sh(cmd, timeout=timeout, env=e, check=False)
        if r.returncode != 0:
            self.crashed(r, cmd)
            if check:
                raise Broken("command failed (%d): %s\n%s" % (r.returncode, " ".join(cmd)[:300], r.stdout[-4000:]))
        return r

    # ------------------------------------------------------- trace validation
    def validate(self, module, cfg, traces, what="trace", timeout=600, consts=None, deque=False, count_behaviours=True):
        """Validate ndjson traces (concatenated) against a trace spec.

        The trace spec consumes every line or is rejected; its POSTCONDITION prints
        TRACE-HW <consumed> <len>.  Deviations listed in known_findings.txt are passed as
        the constant AllowedDev; the ones the trace needed are printed as TRACE-DEV and
        reported as KNOWN-FINDING.  Returns True when accepted."""
        work = self.path("tv", "%s.%d" % (module, int(time.time() * 1e3) % 10**9), ".keep")[:-6]
        for f in os.listdir(self.specdir):
            if f.endswith(".tla") or f.endswith(".cfg"):
                shutil.copy(os.path.join(self.specdir, f), work)
        lines = []
        for t in traces:
            with open(t) as fh:
                for ln in fh:
                    if ln.strip():
                        lines.append(ln if ln.endswith("\n") else ln + "\n")
        if not lines:
            raise Broken("no trace lines for %s" % module)
        with open(os.path.join(work, "trace.ndjson"), "w") as fh:
            fh.writelines(lines)
        cfgtext = open(os.path.join(work, cfg)).read()
        allowed = sorted(self.known.keys())
        cfgtext = cfgtext.replace("@ALLOWED_DEV@", "{" + ", ".join('"%s"' % k for k in allowed) + "}")
        for k, v in (consts or {}).items():
            cfgtext = cfgtext.replace("@%s@" % k, str(v))
        with open(os.path.join(work, cfg), "w") as fh:
            fh.write(cfgtext)
        r = self.tlc(module, cfg, workers=1, timeout=timeout, expect_ok=False, cwd=work, deque=deque)
        out = r["out"]
        m = re.search(r'"TRACE-HW", (\d+), (\d+)', out)
        nbeh = sum(1 for ln in lines if '"ev":"reset"' in ln)
        devs = set(re.findall(r'"TRACE-DEV", "([^"]+)"', out))
        accepted = bool(m) and m.group(1) == m.group(2) and r["rc"] == 0 and "No error has been found" in out
        self.extra.setdefault("trace_validations", []).append(
            dict(module=module, lines=len(lines), behaviours=nbeh, accepted=accepted, wall_s=round(r["wall"], 1),
                 states=r["distinct"]))
        if accepted:
            self.log("trace spec %s accepted %d lines / %d behaviours (%s) in %.1fs" % (module, len(lines), nbeh, what, r["wall"]))
            if count_behaviours:
                self.cov["traces_validated_against_impl"] += nbeh
            for k in devs:
                self.known_seen[k] = self.known.get(k, "")
            shutil.rmtree(work, ignore_errors=True)
            return True
        # --- rejected: decide what it is
        if r["inv"]:
            # an invariant of the spec is violated on the state the *logged real results* forced:
            cx = out[out.find("Error:"):][:6000]
            self.violation("real trace drives spec %s into a state violating %s" % (module, r["inv"]),
                           dict(module=module, cfg=cfg, invariant=r["inv"], tlc_counterexample=cx), tracefile=os.path.join(work, "trace.ndjson"))
            return False
        if m is None:
            raise Broken("trace validation of %s did not complete (rc=%d)\n%s" % (module, r["rc"], out[-3000:]))
        hw = int(m.group(1))
        bad = json.loads(lines[hw]) if hw < len(lines) else None
        # the behaviour containing the rejected line
        start = hw
        while start > 0 and '"ev":"reset"' not in lines[start]:
            start -= 1
        end = hw + 1
        while end < len(lines) and '"ev":"reset"' not in lines[end]:
            end += 1
        beh = [json.loads(x) for x in lines[start:end]]
        self.violation("trace spec %s rejects real-code event #%d: %s" % (module, hw + 1, json.dumps(bad)[:600]),
                       dict(module=module, cfg=cfg, rejected_line=hw + 1, rejected_event=bad, behaviour=beh,
                            note="events before the rejected one were accepted; the rejected event's logged result/post-state "
                                 "is not allowed by the spec action it names"))
        return False

    # --------------------------------------------------------------- verdicts
    def crashed(self, r, cmd):
        """A vh process died.  If the REAL code crashed (Go panic / fatal error whose first non-runtime frame is in
        lemochain-core, or an engine.Realf failure) that is a verdict, not a harness failure: record the violation
        and stop the check (RealCrash).  Anything else stays Broken."""
        kind, summary = classify_crash(r.stdout)
        if kind == "real":
            self.violation("the real code crashed while being driven through an honest scenario: " + summary,
                           dict(command=" ".join(map(str, cmd)), output_tail=r.stdout[-6000:]))
            raise RealCrash(summary)

    def violation(self, text, replay, tracefile=None):
        with _vlock:
            return self._violation(text, replay, tracefile)

    def _violation(self, text, replay, tracefile=None):
        d = os.path.join(VERIF, "out", "replays")
        os.makedirs(d, exist_ok=True)
        p = os.path.join(d, "%s_%s_%d_%d.json" % (self.pid, self.tier, self.seed, len(self.violations)))
        replay = dict(replay)
        replay.update(property=self.pid, tier=self.tier, seed=self.seed, what=text)
        if tracefile and os.path.exists(tracefile):
            keep = p[:-5] + ".trace.ndjson"
            shutil.copyfile(tracefile, keep)
            replay["trace_file"] = keep
        with open(p, "w") as fh:
            json.dump(replay, fh, indent=1, default=str)
        self.violations.append(dict(text=text, replay=p))
        self.log("VIOLATION candidate: " + text[:300])

    def known_finding(self, key, text=""):
        """Direct (non-trace) oracle hit of a listed finding; unlisted ones must go through violation()."""
        if key not in self.known:
            raise Broken("known_finding(%s) is not listed in known_findings.txt" % key)
        self.known_seen[key] = text or self.known[key]

    def finish(self, partial=False):
        wall = time.time() - self.t0
        cov = dict(self.cov)
        if not cov.get("rule"):
            cov.pop("rule")
        if self.level == "model_checking" and not partial and not (cov["states"] and cov["transitions"] and cov["samples"]):
            raise Broken("model_checking evidence needs states, transitions and samples")
        if not cov["evaluations"]:
            cov.pop("evaluations"); cov.pop("distinct_nontrivial", None)
        cov.update(self.extra)
        cov["known_findings_seen"] = sorted(self.known_seen)
        level = self.level
        if partial and level == "model_checking" and not (cov.get("states") and cov.get("transitions") and cov.get("samples")):
            # the run ended early (the real code crashed): say so instead of claiming model-checking coverage
            level = "other"
            cov["explanation"] = "run ended early with a violation: the real code crashed / failed an honest scenario before the exploration completed; counts are what had been covered until then"
            for k in ("states", "transitions", "samples"):
                if not cov.get(k):
                    cov.pop(k, None)
        ev = dict(property_id=self.pid, tier=self.tier, seed=self.seed, level=level, coverage=cov,
                  assumptions=self.assumptions, wall_s=round(wall, 1), violations=len(self.violations))
        # evidence describes runs against /repo itself; a self-test against a scratch worktree (VERIF_REPO) must not overwrite it
        evdir = os.path.join(VERIF, "evidence") if (REPO == "/repo" and not self.pid.startswith("X")) else os.path.join(VERIF, "out", "evidence-selftest")
        os.makedirs(evdir, exist_ok=True)
        with open(os.path.join(evdir, self.pid + ".json"), "w") as fh:
            json.dump(ev, fh, indent=1, default=str)
        for k in sorted(self.known_seen):
            print("KNOWN-FINDING: property=%s key=%s %s" % (self.pid, k, self.known.get(k, "")), flush=True)
        for v in self.violations:
            print("VIOLATION property=%s replay=%s" % (self.pid, v["replay"]), flush=True)
            print("  " + v["text"][:1000], flush=True)
        self.log("done in %.1fs: %s" % (wall, "VIOLATIONS=%d" % len(self.violations) if self.violations else "held"))
        return 1 if self.violations else 0

    def cleanup(self):
        if not os.environ.get("VERIF_KEEP"):
            shutil.rmtree(self.scratch, ignore_errors=True)


class RealCrash(Exception):
    pass


_vlock = threading.Lock()
_REAL = "github.com/LemoFoundationLtd/lemochain-core"


def classify_crash(out):
    """('real'|'harness'|None, summary) for the output of a crashed Go process."""
    m = re.search(r"^(panic: |fatal error: )(.*)$", out, re.M)
    if not m:
        return None, ""
    msg = m.group(2).strip()
    if "REAL-CODE FAILURE" in msg:
        return "real", msg[:600]
    rest = out[m.end():]
    g = re.search(r"^goroutine \d+ \[[^\]]*\]:\n((?:.+\n)+)", rest, re.M)
    if not g:
        return "harness", msg[:300]
    frames = [ln for ln in g.group(1).split("\n") if ln and not ln.startswith("\t")]
    for fr in frames:
        if fr.startswith("verifharness/engine.Failf"):
            return "harness", msg[:300]
        if fr.startswith(_REAL):
            return "real", "%s at %s" % (msg[:400], fr.split("(")[0][:200])
        if fr.startswith("verifharness") or fr.startswith("main."):
            return "harness", msg[:300]
    return "harness", msg[:300]


def load_known(pid):
    """known_findings.txt: 'known: property=<id> key=<key> <text>' entries for this property."""
    out = {}
    p = os.path.join(VERIF, "known_findings.txt")
    if os.path.exists(p):
        for ln in open(p):
            m = re.match(r"known:\s+property=(\S+)\s+key=(\S+)\s*(.*)", ln.strip())
            if m and pid in m.group(1).split(","):
                out[m.group(2)] = m.group(3)
    return out


def main(argv):
    import argparse, importlib.util
    ap = argparse.ArgumentParser()
    ap.add_argument("pid")
    ap.add_argument("--tier", default=os.environ.get("VERIF_TIER", "quick"), choices=["quick", "thorough"])
    ap.add_argument("--seed", default=os.environ.get("VERIF_SEED", "1"))
    ap.add_argument("--replay", default=None, help="print a stored replay file")
    a = ap.parse_args(argv)
    if a.replay:
        print(open(a.replay).read())
        return 0
    modpath = os.path.join(VERIF, "checks", a.pid.lower() + ".py")
    spec = importlib.util.spec_from_file_location("check_" + a.pid, modpath)
    mod = importlib.util.module_from_spec(spec)
    spec.loader.exec_module(mod)
    try:
        seed = int(a.seed)
    except ValueError:
        seed = sum(ord(c) for c in a.seed)
    ctx = Ctx(a.pid, a.tier, seed, getattr(mod, "LEVEL", "model_checking"))
    try:
        mod.run(ctx)
        rc = ctx.finish()
    except RealCrash:
        rc = ctx.finish(partial=True)
    except Broken as ex:
        print("BROKEN property=%s: %s" % (a.pid, ex), flush=True)
        rc = 2
    finally:
        ctx.cleanup()
    return rc
