SPECIFICATION Spec
CONSTANTS Times <- McTimes
 ExpChoices <- McExp
 OfferMenu <- McMenu
 MaxBlocks = 3
 MaxBoots = 1
 DupCheck = TRUE
 PayloadIdentity = TRUE
 Encs = {"c"}
 CarrierIdentity = FALSE
INVARIANTS AtMostOnce InWindow ForkFree CarrierFree
CHECK_DEADLOCK FALSE
