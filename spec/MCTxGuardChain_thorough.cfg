SPECIFICATION Spec
CONSTANTS Times <- McTimes
 ExpChoices <- McExp
 OfferMenu <- McMenu
 MaxBlocks = 3
 MaxBoots = 1
 DupCheck = TRUE
 PayloadIdentity = TRUE
INVARIANTS AtMostOnce InWindow ForkFree
CHECK_DEADLOCK FALSE
