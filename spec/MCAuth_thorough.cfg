SPECIFICATION Spec
CONSTANTS Weights = {1, 49, 50, 51, 100}
 MaxSigners = 3
 ExtraCfgs <- McExtraThorough
 MaxSigs = 3
 TamperFields = {"to", "amount", "gasPrice", "gasLimit", "data", "expiration", "chainID", "type", "toName", "message", "gasPayer", "version"}
 PayCfgs <- McPayCfgs
 PaySenders <- McPaySenders
 PayFields = {"gasPrice", "gasLimit", "sigs", "amount", "gasPayer"}
 GpFields = {"to", "amount", "gasPrice", "gasLimit", "data", "expiration", "chainID", "type", "toName", "message", "version", "sigs"}
 MaxOver = 4
 BoxCfgs <- McBoxCfgs
 Kinds = {"vote", "asset"}
 ReconfCfgs <- McReconfAll
 NewCfgs <- McNewThorough
 Slices = {"sigs", "tamper", "payer", "junk", "box", "kinds", "reconf", "gp", "over", "stale"}
 Dev = {}
VIEW View
PROPERTIES EffectOnlyIfAuthorized CanonicalAccepted RepeatNeverHelps ForeignNeverHelps RemovalNeverHelps EncodingIrrelevant TamperFalsifies GasPayerFieldBinds SchemeBinds PayerBinds PayerBindsSigList ThresholdExact Reconf ChangeCovered BoxBinds LabelIrrelevant
CHECK_DEADLOCK FALSE
