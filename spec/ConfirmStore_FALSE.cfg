SPECIFICATION Spec
CONSTANTS Proc = {1, 2, 3}
 Atomic = FALSE
INVARIANT CompletedKept
CHECK_DEADLOCK FALSE
