---- MODULE MCCallFramesBoundary ----
(* C16, boundary-operand layer, design side: TLC ENUMERATES the tuples (opcode, operand classes, context) as initial
   states - there are no transitions - and checks on every one of them that the demands of CallFramesBoundary.tla are
   coherent (invariants below).  The dot dump of this run is what harness/adapters/callframes/boundary.go compiles
   into real programs, one per state.  Ops = the opcodes of this run; the tuples of FullOps are enumerated completely
   (of the opcodes in FullData: those that read the data contract with ample gas), of the rest a seeded 1/SampleMod sample.  Model = the arithmetic of the bounds check of a hypothetical
   implementation: "exact" in the design run, every other model is a negative control (TLC must find a tuple on which
   it lets an out-of-bounds copy through: the classes are fine enough to tell it from the exact sum). *)
EXTENDS CallFramesBoundary
CONSTANTS Ops, FullOps, FullData, SampleMod, SampleSeed, Model
VARIABLES op, cls, rd, static, gas, stage
vars == <<op, cls, rd, static, gas, stage>>

\* the sizes of the harness' setup; the code length of a program varies (the trace spec takes it from the run)
ExtLen(c) == CASE c \in {"D", "dirtyD"} -> 50 [] c \in {"R", "dirtyR"} -> 53 [] c = "self" -> 100 [] OTHER -> 0
Env(o, c, r) == [ms |-> 64, nc |-> 72, rdn |-> IF r THEN 40 ELSE 0, nt |-> 100, bal |-> 5,
                 nx |-> IF Src(o) = "ext" THEN ExtLen(c[1]) ELSE 0]
E == Env(op, cls, rd)
V == Vals(op, cls, E)

T1(S) == {<<a>> : a \in S}
XAC == {"D", "dirtyD", "U", "self", "max"}
Big == {"2^64-1"}
Z == {"0"}
\* the code shapes: short code of every length modulo 8 ending in every PUSH class cut off at every edge; long code at the
\* two ends of the 8-byte group with nothing / everything of the data there
Tails == {t \in TOC \X TMC \X PRC \X LNC : /\ TailOK(t) /\ t[1] # "none"
                                         /\ (t[4] = "long" => t[2] \in {"0", "P"} /\ t[3] \in {"0", "7"})}
TuplesOf(o) ==
  CASE o \in Copy3 -> VC \X VC \X VC
    [] o = "EXTCODECOPY" -> XAC \X VC \X VC \X VC
    [] o \in {"CALLDATALOAD", "MLOAD", "SLOAD"} \cup Arith1 -> T1(VC)
    [] o \in {"MSTORE", "MSTORE8", "SSTORE"} -> VC \X WV
    [] o \in {"SHA3", "RETURN", "REVERT", "LOG0"} -> VC \X VC
    [] o = "LOG1" -> VC \X VC \X {"2^256-1"}
    [] o = "LOG2" -> VC \X VC \X {"2^256-1"} \X Z
    [] o = "LOG3" -> VC \X VC \X {"2^256-1"} \X Z \X {"2^255"}
    [] o = "LOG4" -> VC \X VC \X {"2^256-1"} \X Z \X {"2^255"} \X {"1"}
    [] o = "CREATE" -> (Z \X VC \X VC) \cup (VC \X Z \X {"0", "32"})
    \* calls: every input range, every output range, every gas x target x value
    [] o \in Call7 -> (Big \X {"R", "pre4"} \X Z \X VC \X VC \X Z \X Z)
                 \cup (Big \X {"R", "pre4"} \X Z \X Z \X {"32"} \X VC \X VC)
                 \cup (VC \X AC \X VC \X Z \X {"32"} \X Z \X {"32"})
    [] o \in Call6 -> (Big \X {"R", "pre4"} \X VC \X VC \X Z \X Z)
                 \cup (Big \X {"R", "pre4"} \X Z \X {"32"} \X VC \X VC)
                 \cup (VC \X AC \X Z \X {"32"} \X Z \X {"32"})
    \* jumps: every destination class in the plain program, the destinations that speak about the end of the code in every
    \* code shape (taken jumps only: a jump that is not taken does not look at the code)
    [] o = "JUMP" -> {<<j>> \o PlainTail : j \in JC \ {"taildata"}} \cup {<<j>> \o t : j \in JCT, t \in Tails}
    [] o = "JUMPI" -> {<<j, c>> \o PlainTail : j \in JC \ {"taildata"}, c \in CV} \cup {<<j, "1">> \o t : j \in JCT, t \in Tails}
    [] o \in {"BALANCE", "EXTCODESIZE", "SELFDESTRUCT"} -> T1(AC)
    [] o \in Arith2 -> VC \X VC
    [] o \in Arith3 -> VC \X VC \X VC
\* opcodes with so few tuples that the quick tier enumerates them completely too
SmallOps == {"JUMP", "JUMPI", "BALANCE", "EXTCODESIZE", "SELFDESTRUCT", "MLOAD", "CALLDATALOAD", "SLOAD", "MSTORE", "MSTORE8", "SSTORE"} \cup Arith1
QuickFull == Copy3 \cup SmallOps
\* contexts <<prior call left return data, inside a read-only frame, gas>>
CtxOf(o) == IF o \in ArithOps THEN {<<FALSE, FALSE, "ample">>, <<TRUE, TRUE, "tiny">>}
            ELSE BOOLEAN \X BOOLEAN \X {"ample", "tiny"}

\* the seeded sample
Names == <<"0", "1", "31", "32", "33", "N-1", "N", "N+1", "2^32-1", "2^32", "2^63", "2^64-1", "2^64", "2^64+1", "2^128", "2^255", "2^256-1",
           "R", "D", "dirtyD", "dirtyR", "U", "self", "fresh", "zero", "pre1", "pre4", "pre5", "pre9", "max",
           "dest", "dest+1", "pushdata", "2^32+dest", "2^63+dest", "2^64+dest", "2^255+dest",
           "taildata", "none", "P-1", "P", "short", "long", "2", "3", "4", "5", "6", "7", "8", "9", "15", "16", "17", "23", "24", "25">>
Idx == [c \in {Names[i] : i \in 1..Len(Names)} |-> CHOOSE i \in 1..Len(Names) : Names[i] = c]
Hash(c) == LET h[i \in 0..Len(c)] == IF i = 0 THEN 7 ELSE (h[i - 1] * 31 + Idx[c[i]]) % 65521 IN h[Len(c)]
Sampled(o, c, r, s, g) ==
  (Hash(c) + Len(o) * 5 + (IF r THEN 3 ELSE 0) + (IF s THEN 11 ELSE 0) + (IF g = "tiny" THEN 17 ELSE 0) + SampleSeed) % SampleMod = 0

\* (two stages only so that TLC's workers share the enumeration: the initial states fix opcode, context and the class
\* of the first operand, one step completes the tuple; the tuples are the states with stage = "tuple")
Init == /\ stage = "head"
        /\ op \in Ops
        /\ \E x \in CtxOf(op) : rd = x[1] /\ static = x[2] /\ gas = x[3]
        /\ \E h \in {t[1] : t \in TuplesOf(op)} : cls = <<h>>
Complete ==
  /\ stage = "head" /\ stage' = "tuple"
  /\ cls' \in {t \in TuplesOf(op) : t[1] = cls[1]}
  /\ WellFormed(op, cls', Env(op, cls', rd))
  \* (the code shapes in two contexts only: the shape does not interact with return data, write protection or gas)
  /\ (op \in {"JUMP", "JUMPI"} /\ TailOf(op, cls') # PlainTail) => <<rd, static, gas>> \in {<<FALSE, FALSE, "ample">>, <<TRUE, TRUE, "tiny">>}
  /\ (IF op \in FullOps \/ (op \in FullData /\ cls'[1] = "D" /\ gas = "ample") THEN TRUE ELSE Sampled(op, cls', rd, static, gas))
  /\ UNCHANGED <<op, rd, static, gas>>
Next == Complete
Spec == Init /\ [][Next]_vars
Tuple == stage = "tuple"

\* ------------------------------------------------------------------ the demands are coherent
TypeOK == Tuple => WellFormed(op, cls, E) /\ Outcome(op, cls, static, gas, E) \in {"ok", "fail", "any"}
\* every memory range of every tuple is either certainly paid for or certainly beyond any gas limit
RangesDecided == Tuple => \A r \in Ranges(op, V) : Affordable(End(r)) \/ Unaffordable(End(r))
\* less gas never turns a demanded failure into something else, and demands no success
TinyNeverBetter == Tuple => /\ (Outcome(op, cls, static, "tiny", E) = "fail") = (Outcome(op, cls, static, "ample", E) = "fail")
                   /\ Outcome(op, cls, static, "tiny", E) \in {"fail", "any"}
\* a read-only frame refuses every state change and otherwise behaves like any other frame
StaticRefusesWrites == Tuple => ((static /\ Writes(op, V)) => Outcome(op, cls, static, gas, E) = "fail")
StaticOnlyAddsFailures == Tuple => \/ Outcome(op, cls, TRUE, gas, E) = Outcome(op, cls, FALSE, gas, E)
                          \/ (Writes(op, V) /\ Outcome(op, cls, TRUE, gas, E) = "fail")
\* return data: out of bounds fails whatever the gas, the memory offset and the frame; in bounds succeeds
ReturnDataBounds ==
  (Tuple /\ op = "RETURNDATACOPY") =>
    /\ ~InBounds(V[2], V[3], E.rdn) => Outcome(op, cls, static, gas, E) = "fail"
    /\ (InBounds(V[2], V[3], E.rdn) /\ MemFine(op, V) /\ gas = "ample") => Outcome(op, cls, static, gas, E) = "ok"
\* the other copies read zeros beyond the end: the data offset never decides the outcome
PaddedCopies ==
  (Tuple /\ op \in CopyOps \ {"RETURNDATACOPY"} /\ gas = "ample" /\ ~static) =>
    LET d == IF op = "EXTCODECOPY" THEN 3 ELSE 2 IN
    \A c \in VC : ClassOK(c, BaseN(op, d, E)) => Outcome(op, [cls EXCEPT ![d] = c], static, gas, E) = Outcome(op, cls, static, gas, E)
\* a range of length 0 touches no memory, wherever it lies
ZeroLengthIsFree == Tuple => \A r \in Ranges(op, V) : r[2] = Zero => Affordable(End(r))
\* the demanded contents are bytes
NoData == [j \in 1..128 |-> 0]
ContentsDefined ==
  (Tuple /\ op \in CopyOps /\ gas = "ample" /\ ~static /\ Outcome(op, cls, static, "ample", E) = "ok") =>
     \A i \in 0..(ExpMs(op, V, E) - 1) : CopyMem(op, cls, V, E, NoData, i) \in 0..255
\* the bounds arithmetic of the implementation model lets through exactly what is in bounds
ImplBoundsAgree == (Tuple /\ op = "RETURNDATACOPY") => BoundsModel(Model, V[2], V[3], E.rdn) = InBounds(V[2], V[3], E.rdn)

\* the class products contain the pairs whose sum wraps at 2^32, 2^64 and 2^256, landing on both sides of N
ASSUME \A k \in {2, 4, 16} : \E p \in WrapPairs(k, 40) : LeqD(Low(AddD(Val(p[1], 40), Val(p[2], 40)), k), FromInt(40))
ASSUME <<"2^64-1", "1">> \in WrapPairs(4, 40) /\ <<"2^64-1", "N+1">> \in WrapPairs(4, 40) /\ <<"2^63", "2^63">> \in WrapPairs(4, 40)
ASSUME <<"2^32-1", "1">> \in WrapPairs(2, 40) /\ <<"2^256-1", "1">> \in WrapPairs(16, 40) /\ <<"2^255", "2^255">> \in WrapPairs(16, 40)
ASSUME <<"2^32", "2^32">> \in ProductWrapPairs(64) /\ <<"2^63", "2^63">> \in ProductWrapPairs(64) /\ <<"2^128", "2^128">> \in ProductWrapPairs(256)
       /\ <<"2^255", "2^255">> \in ProductWrapPairs(256) /\ <<"2^63", "32">> \in ProductWrapPairs(64)
ASSUME Ops \subseteq AllOps /\ FullOps \subseteq Ops /\ FullData \subseteq {"EXTCODECOPY"}
\* the code shapes contain the PUSH32 whose data is cut off right behind the opcode at every length modulo 8, short and long
ASSUME \A r \in PRC : <<"32", "0", r, "short">> \in Tails
ASSUME <<"32", "0", "0", "long">> \in Tails /\ <<"32", "P", "7", "long">> \in Tails /\ <<"1", "0", "0", "short">> \in Tails
\* a destination in the data of the last PUSH, the last byte and the first byte behind the code are never valid
Taken == op = "JUMP" \/ (op = "JUMPI" /\ V[2] # Zero)
TailDestsInvalid == (Tuple /\ op \in {"JUMP", "JUMPI"} /\ Taken /\ cls[1] \in {"taildata", "N-1", "N"}) => Outcome(op, cls, static, gas, E) = "fail"
\* how the code ends never decides whether a destination in front of it is valid
WithTail(c, t) == IF op = "JUMP" THEN <<c[1]>> \o t ELSE <<c[1], c[2]>> \o t
ShapeDoesNotDecide == (Tuple /\ op \in {"JUMP", "JUMPI"} /\ cls[1] # "taildata") =>
                         Outcome(op, cls, static, gas, E) = Outcome(op, WithTail(cls, PlainTail), static, gas, E)
====
