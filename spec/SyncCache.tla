---- MODULE SyncCache ----
(* The two caches of network/cache.go on their own (C20, standalone part).

   BlockCache: `slots` is the cache as BlockCache lays it out (a sequence of height slots) and is driven by the
   operators of SyncCacheOps, whose Add is written the way the code scans; `keys`/`mm` is the abstract SORTED
   MULTIMAP height -> set of blocks (with its explicit key set) driven by plain set operations.  The clauses say
   that the layout IS the sorted multimap: Refines, CacheSorted, SizeOK, FirstOK, IterateAscending.
   ConfirmCache: `bag` (confirm -> copies) against Pop / Clear / Size.

   Operations (every one is a call on the real structure in the replay):
     Add(b)  Iter(sel) (Iterate with a callback that answers "processed" for the blocks selected by sel)  Remove(b)  Clear(h)
     Push(c)  Pop(h, k)  CClear(h)
   BugAddMiddle = TRUE is the negative control (Dev_CacheAddMiddle). *)
EXTENDS SyncCacheOps, TLC
CONSTANTS Blocks,       \* block ids 10*height + variant
          MaxH,         \* heights 1..MaxH
          Confirms,     \* confirm ids <<height, block, signer>>
          Ops,          \* enabled operations (subset of {"Add","Iter","Remove","Clear","Push","Pop","CClear"})
          MaxSteps,     \* 0 = unbounded (the state graph is finite anyway)
          History,      \* TRUE: remember the operation sequence (behaviour tree: every ORDER is a distinct state)
          BugAddMiddle
VARIABLES slots, keys, mm, bag, steps, hist
vars == <<slots, keys, mm, bag, steps, hist>>

Init == slots = <<>> /\ keys = {} /\ mm = [h \in 1..MaxH |-> {}] /\ bag = [c \in Confirms |-> 0] /\ steps = 0 /\ hist = <<>>
Step(op) == /\ (MaxSteps = 0 \/ steps < MaxSteps)
            /\ steps' = IF MaxSteps = 0 THEN 0 ELSE steps + 1
            /\ hist' = IF History THEN Append(hist, op) ELSE hist

Add(b) == /\ "Add" \in Ops /\ b \in Blocks /\ Step(<<"Add", b>>)
          /\ slots' = IF BugAddMiddle THEN AddDev(slots, b) ELSE AddOK(slots, b)
          /\ keys' = keys \cup {HeightOf(b)} /\ mm' = [mm EXCEPT ![HeightOf(b)] = @ \cup {b}]
          /\ UNCHANGED bag
\* the callback is a predicate on blocks: <<"b", x>> = "is block x", <<"le", h>> = "height <= h" (h = 0: nothing, h = MaxH: everything)
IterSel == {<<"b", b>> : b \in Blocks} \cup {<<"le", h>> : h \in 0..MaxH}
Sel(sel) == IF sel[1] = "b" THEN {sel[2]} ELSE {b \in Blocks : HeightOf(b) <= sel[2]}
Iter(sel) == /\ "Iter" \in Ops /\ sel \in IterSel /\ Step(<<"Iter", sel>>)
             /\ slots' = IterRemove(slots, Sel(sel))
             /\ mm' = [h \in 1..MaxH |-> mm[h] \ Sel(sel)] /\ UNCHANGED <<keys, bag>>
Remove(b) == /\ "Remove" \in Ops /\ b \in Blocks /\ Step(<<"Remove", b>>)
             /\ slots' = RemoveBlock(slots, b)
             /\ LET h == HeightOf(b) IN /\ mm' = [mm EXCEPT ![h] = @ \ {b}]
                                        /\ keys' = IF h \in keys /\ mm[h] \ {b} = {} THEN keys \ {h} ELSE keys
             /\ UNCHANGED bag
Clear(h) == /\ "Clear" \in Ops /\ h \in 0..MaxH /\ Step(<<"Clear", h>>)
            /\ slots' = ClearUpTo(slots, h)
            /\ keys' = {k \in keys : k > h} /\ mm' = [k \in 1..MaxH |-> IF k <= h THEN {} ELSE mm[k]]
            /\ UNCHANGED bag
Push(c) == /\ "Push" \in Ops /\ c \in Confirms /\ bag[c] < 2 /\ Step(<<"Push", c>>)
           /\ bag' = BagAdd(bag, c) /\ UNCHANGED <<slots, keys, mm>>
PopKeys == {<<c[1], c[2]>> : c \in Confirms}
Pop(hk) == /\ "Pop" \in Ops /\ hk \in PopKeys /\ Step(<<"Pop", hk>>)
           /\ bag' = [c \in Confirms |-> IF <<c[1], c[2]>> = hk THEN 0 ELSE bag[c]] /\ UNCHANGED <<slots, keys, mm>>
CClear(h) == /\ "CClear" \in Ops /\ h \in 0..MaxH /\ Step(<<"CClear", h>>)
             /\ bag' = [c \in Confirms |-> IF c[1] <= h THEN 0 ELSE bag[c]] /\ UNCHANGED <<slots, keys, mm>>

Next == \/ \E b \in Blocks : Add(b) \/ Remove(b)
        \/ \E sel \in IterSel : Iter(sel)
        \/ \E h \in 0..MaxH : Clear(h) \/ CClear(h)
        \/ \E c \in Confirms : Push(c)
        \/ \E hk \in PopKeys : Pop(hk)
Spec == Init /\ [][Next]_vars

(* ---- clauses ---- *)
\* the sorted sequence of the abstract multimap's keys with their sets
RECURSIVE Canon(_)
Canon(K) == IF K = {} THEN <<>> ELSE LET k == MinOf(K) IN <<Slot(k, mm[k])>> \o Canon(K \ {k})
Refines == slots = Canon(keys)
CacheSorted == WellFormed(slots)
SizeOK == SizeOf(slots) = Cardinality(UNION {mm[h] : h \in 1..MaxH})
FirstOK == FirstHeight(slots) = IF keys = {} THEN 0 ELSE MinOf(keys)
IterateAscending == LET v == IterHeights(slots) IN \A i \in 1..(Len(v) - 1) : v[i] <= v[i + 1]
KeysOK == \A h \in 1..MaxH : mm[h] # {} => h \in keys
TypeOK == keys \subseteq 1..MaxH /\ bag \in [Confirms -> 0..2]
====
