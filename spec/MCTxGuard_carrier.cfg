SPECIFICATION Spec
CONSTANTS Times <- McTimesCT
 RootTimes <- McRootQ
 ExpChoices <- McExpQ
 Menu <- McMenuCT
 QMenu <- McQMenuCT
 MaxBlocks = 3
 HashCoversSig = FALSE
 Encs = {"c", "h", "k", "g", "x"}
 CarrierKeyed = FALSE
 PruneLife = 1800
 ReloadLife = 1800
INVARIANTS TypeOK GuardSound NoDangling LiveCached WindowSufficient TracerComplete CarryEquiv
CHECK_DEADLOCK FALSE
