SPECIFICATION Spec
CONSTANTS NB = 2
 Kind <- McKind
 Subs <- McSubs
 Blk <- McBlk2
 SideH = 0
 SideTxs <- McNoSide
 Palette <- McCore
 MaxLen = 2
 RaceLen = 0
 BugBatchAny = FALSE
 BugAddAfterInsert = FALSE
 BugStaleSubIndex = FALSE
 BugBatchAbort = TRUE
INVARIANTS TxReachesPool
CHECK_DEADLOCK FALSE
