SPECIFICATION TraceSpec
CONSTANTS Devs = {}
  AllowedDev = @ALLOWED_DEV@
CONSTRAINT HW
POSTCONDITION Accepted
CHECK_DEADLOCK FALSE
