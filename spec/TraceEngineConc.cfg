SPECIFICATION XSpec
CONSTRAINT HW
POSTCONDITION Accepted
CHECK_DEADLOCK FALSE
