SPECIFICATION Spec
CONSTANTS NB = 3
 Confs <- McNone
 NT = 0
 MaxDup = 0
 Races = FALSE
 BugAddMiddle = FALSE
 BugTxLoopVar = FALSE
 BugConfirmRace = FALSE
 MaxBatch = 3
 NBatch = 1
 BugBatchBreak = TRUE
INVARIANTS CacheKeepsUntilParent
CHECK_DEADLOCK FALSE
