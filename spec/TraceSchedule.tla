---- MODULE TraceSchedule ----
(* C13, code side: every row is the output of the REAL scheduling functions on one parameter
   tuple (times in ms relative to the parent).  A row is consumed only if every real output
   equals what the specification demands. *)
EXTENDS ScheduleOps, TraceBase
TPSms == 1000
RowOK(e) ==
  LET n == e.n  sp == e.special  pr == e.pr  tr == e.tr  slot == e.slot  now == e.now
      d == Distance(n, sp, pr, tr)
      wf == WindowFrom(n, d, slot, now)
  IN \* the deputies in play are those of the term in charge at the target height - for the count, for the rotation's
     \* special case and for the account the miner's own node stamps into its header
     /\ n = (IF TermInCharge(e.h, e.td, e.id) = 0 THEN e.c0 ELSE e.c1) /\ e.count = n
     /\ sp = FirstOfTerm(e.h, e.td, e.id)
     /\ e.hdr = tr
     /\ e.dist = d /\ d \in 1..n
     /\ e.bydist = tr                                                \* real round trip distance -> deputy
     /\ e.from = wf /\ e.to = wf + slot /\ e.to > now               \* earliest slot of tr that has not ended
     /\ Entitled(n, sp, pr, slot, e.from) = tr /\ Entitled(n, sp, pr, slot, e.to - 1) = tr
     /\ (e.from > now => \A k \in 1..n : e.from - k * slot < 0 \/ e.from - k * slot + slot <= now
                                          \/ Entitled(n, sp, pr, slot, e.from - k * slot) # tr)
     /\ e.end = e.to
     \* the miner wakes inside that window (WHEN inside it - e.g. the block-interval delay of the in-turn fast path - is its own business)
     /\ e.wake >= now /\ e.wake >= e.from /\ e.wake < e.to /\ Entitled(n, sp, pr, slot, e.wake) = tr
     /\ \A i \in 1..Len(e.cm) : e.cm[i][2] = Entitled(n, sp, pr, slot, e.cm[i][1])   \* verifier's miner = the entitled one
     /\ \A i \in 1..Len(e.ver) :
          LET t == e.ver[i][1]
              mine == Entitled(n, sp, pr, slot, Stamp(t, TPSms)) = tr
          IN /\ e.ver[i][2] = mine                                   \* accepted for this deputy iff entitled at the stamped second
             /\ e.ver[i][3] = (IF mine THEN 0 ELSE 1)                \* and for exactly one deputy overall
             /\ ((t >= e.from /\ t < e.to) => e.ver[i][2] = TRUE)    \* never rejected inside the own window
TRow == Ev("row") /\ RowOK(E)
TraceNext == TRow
TraceSpec == l = 1 /\ [][TraceNext]_l
====
