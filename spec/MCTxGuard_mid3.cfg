SPECIFICATION Spec
CONSTANTS Times <- McTimesT
 RootTimes <- McRootQ
 ExpChoices <- McExpT
 Menu <- McMenu
 QMenu <- McQMenu
 MaxBlocks = 3
 HashCoversSig = FALSE
 Encs = {"c"}
 CarrierKeyed = FALSE
 PruneLife = 1800
 ReloadLife = 1800
INVARIANTS TypeOK GuardSound NoDangling LiveCached WindowSufficient TracerComplete CarryEquiv
CHECK_DEADLOCK FALSE
