---- MODULE MCSyncTx ----
(* Model-checking instances of SyncTx.  The universe (harness/adapters/sync/txworld.go builds it from the `world`
   variable; its defaultUniverse is McKind / McSubs / McBlk3 / side block [e f] at height 2):
     main block 1 = [a]    2 = [bx]    3 = [f c]        side block (sibling of main block 2) = [e f]
     bx = box(s1 s2) is packaged by main block 2;  by = box(n1 n3), bz = box(a n4), bw = box(n5 x1) are in no block;
     n1..n5 are in no block;  x1 expired, x2 expires too late, x3 other chain id, x4 gas price below the minimum. *)
EXTENDS SyncTx
McTx == {"a", "s1", "s2", "bx", "c", "e", "f", "n1", "n2", "n3", "n4", "n5", "by", "bz", "bw", "x1", "x2", "x3", "x4"}
McKind == [t \in McTx |-> CASE t = "x1" -> "expired" [] t = "x2" -> "early" [] t = "x3" -> "chain" [] t = "x4" -> "cheap" [] OTHER -> "ok"]
McSubs == [t \in McTx |-> CASE t = "bx" -> {"s1", "s2"} [] t = "by" -> {"n1", "n3"} [] t = "bz" -> {"a", "n4"} [] t = "bw" -> {"n5", "x1"} [] OTHER -> {}]
McBlk3 == <<<<"a">>, <<"bx">>, <<"f", "c">>>>
McBlk2 == <<<<"a">>, <<"bx">>>>
McBlk1 == <<<<"a">>>>
McSide == <<"e", "f">>
McNoSide == <<>>
\* palettes: which transactions the batches of a configuration are made of
McCore == {"a", "s1", "n1", "by", "x1"}                 \* executed alone / inside a box, new, box around new, expired
McBoxes == {"a", "bz", "n4", "bx", "s2"}                \* box around an executed-to-be atom, its other atom, the packaged box and its atom
McSidePal == {"e", "f", "c", "n2", "x3"}                \* side-only, side + main, main only, new, other chain
McPos == {"a", "n1", "x2"}                              \* three statuses in every position of a batch of three
McWide == {"a", "s1", "e", "f", "n1", "by", "bz", "x1"}    \* the whole chain (3 main blocks + the side block) with one of each status
McBoxq == {"a", "bz", "n4"}                              \* the smallest world in which a pending box loses one atom to a block
McInvalid == {"n2", "x1", "x2", "x3", "x4", "bw"}       \* every way of being refused by the body check, around one new transaction
====
