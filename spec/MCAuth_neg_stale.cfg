SPECIFICATION Spec
CONSTANTS Weights = {50, 100}
 MaxSigners = 2
 ExtraCfgs <- McNone
 MaxSigs = 2
 TamperFields = {"amount"}
 PayCfgs <- McPlainOnly
 PaySenders <- McPlainOnly
 PayFields = {"gasPrice"}
 GpFields = {"gasPrice"}
 BoxCfgs <- McPlainOnly
 Kinds = {}
 ReconfCfgs <- McPlainOnly
 NewCfgs <- McNegNew
 Slices = {"sigs", "reconf", "stale"}
 Dev = {"Neg_StaleSigners"}
VIEW View
PROPERTIES EffectOnlyIfAuthorized
CHECK_DEADLOCK FALSE
