SPECIFICATION Spec
CONSTANTS NB = 3
 ND = 4
 Self = 0
 Packets <- McPackets
INVARIANTS QuorumOK HeadOK TreeOK StableChainKept
PROPERTY StableForward
CHECK_DEADLOCK FALSE
