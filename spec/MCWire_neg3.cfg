SPECIFICATION Spec
CONSTANTS Table <- McTable
 Carriers <- McCarriers
 Heavy <- McHeavy
 Probe <- McProbe
 MaxIn <- McMaxIn1
 Dirs <- BothDirs
 CrossProbe = FALSE
 MaxConns = 1
 ProbeAfter = 0
 MaxFrameK = 25600
 SlackK = 16384
 C = 256
 HsLimitDevK = 1048576
 SeqOn = FALSE
 SeqBlocks <- NoBlocks
 SeqMsgs <- NoMsgs
 SeqConfirms <- NoConfirms
 SeqMix <- NoMix
 RxOn = FALSE
 Answering <- NoAnswering
 RxMax = 0
 RxBystander = FALSE
 RxStallOut = FALSE
 Dev <- McDev3
INVARIANTS TypeOK UniqueRows NodeAlive NoDeadlock AllocBounded
PROPERTIES ClosedIsFinal OnlyHandshakesAdvance
CHECK_DEADLOCK FALSE
