SPECIFICATION Spec
CONSTANTS Contracts <- McOne
 Sender = "U"
 Creators = {"U", "A"}
 Slots <- McSlots
 InitBal <- McInitBal1
 InitStor <- McInitStor1
 Kinds <- McKindsC
 Vals = {1}
 SendVals = {0, 1}
 SuicideTo = {"U"}
 G0 = 16
 MaxDepth = 3
 MaxFan = 3
 DepthLimit = 1024
 DevS = FALSE
 DevG = FALSE
 JumpDests = {}
 ShapeAt <- McShapeAt
 DevJ = FALSE
 DevC = FALSE
 DevL <- McTrue
VIEW ViewNoHist
INVARIANTS StaticIsNoop GasWithinSupplied DepthBound NoCrash JournalMarksOrdered CodeOnlyByCreation
PROPERTIES JumpIsFrameLocal FailedFrameIsNoop OkKeepsEffects GasNeverGrows CollisionIsNoop
CHECK_DEADLOCK FALSE
