---- MODULE TraceSync ----
(* C20 as a monitor over traces of the REAL network.ProtocolManager (harness/adapters/sync).  One line per
   Sync.tla action; after every action the harness waited for the manager's own quiescence point and logged
   the node's observable state: chain (has / cur / stable / distinct signers stored with each block), the
   block cache (slot layout, and what Size / FirstHeight / Iterate say), the confirm cache, the pool, and the
   block requests written to the peer.  The monitor adopts the logged state and demands of every step what
   C20 demands:
     - a received block whose parent the chain knows is in the chain afterwards, with the early confirms;
     - otherwise it is kept (cache, sorted) until its parent has arrived, nothing else dropped, parent requested;
     - blocks enter the chain only when delivered or from the cache; after a timer drain no cached block has a known parent;
     - an early confirm stays cached until its block arrives, then it is stored with the block (unless it had enough);
     - a received batch leaves every valid transaction pending exactly once;
     - the chain stays linear, the stable block only moves forward and is the highest block with 2 of 3 signers;
     - a message with several blocks (DeliverBatch) is every block of it handled as if it had arrived alone, in order:
       whatever of it the chain can take (parent in the chain, possibly since an earlier block of the same message) is in the
       chain afterwards, the rest waits in the cache, nothing of it is dropped - whichever of its blocks the node held already;
     - no message of the session (all of them well-formed, about valid blocks) costs the sender its connection: the node
       never closes the peer's session (peer_dropped);
     - when nothing is in flight and no cached block is insertable, (current, stable) are those of the in-order
       run on a second real node (logged at reset), which is also what the design (Sync.tla) predicts.
   Named deviations (known_findings.txt): Dev_CacheAddMiddle, Dev_TxsLoopVar, Dev_ConfirmLostDuringInsert. *)
EXTENDS TraceBase, SyncCacheOps
CONSTANT AllowedDev
VARIABLES nb, nt, miners, ref, infl, seenT, lost, stuck, has, stable, sigs, slots, cc, pool
mvars == <<nb, nt, miners, ref, infl, seenT, lost, stuck, has, stable, sigs, slots, cc, pool, l>>

ND == 3
Quorum == 2
Enough(sg, h) == Cardinality((sg \cap (1..ND)) \cup {miners[h]}) >= Quorum
Known(hs, h) == h = 0 \/ h \in hs
CountIn(s, x) == Cardinality({i \in DOMAIN s : s[i] = x})

(* ---- the logged projection ---- *)
HasOf(e) == ToSet(e.has)
SigsOf(e) == [h \in 1..nb |-> IF ToString(h) \in DOMAIN e.sigs THEN ToSet(e.sigs[ToString(h)]) ELSE {}]
SlotsOf(e) == [i \in 1..Len(e.slots) |-> Slot(e.slots[i][1], ToSet(e.slots[i][2]))]
Bid(h) == 10 * h

\* what must hold of every logged state
ChainOK(e) ==
    /\ HasOf(e) = 1..e.cur                                        \* linear: no orphan, current = the highest block
    /\ has \subseteq HasOf(e)                                     \* the chain only grows
    /\ e.stable \in 0..e.cur /\ e.stable >= stable                \* stable only forward
    /\ LET ok == {h \in HasOf(e) : Enough(SigsOf(e)[h], h)} IN e.stable = IF ok = {} THEN 0 ELSE MaxOf(ok)
ApiOK(e) == LET s == SlotsOf(e) IN                                 \* Size / FirstHeight / Iterate agree with the layout
    /\ \A i \in DOMAIN s : \A b \in s[i].bs : HeightOf(b) = s[i].h
    /\ e.bsize = SizeOf(s) /\ e.first = FirstHeight(s)
    /\ [i \in DOMAIN e.iter |-> HeightOf(e.iter[i])] = IterHeights(s) /\ ToSet(e.iter) = Content(s)
    /\ e.ccsize = Len(e.cc)
\* The manager's queue timer is autonomous: besides the message's own effect, any logged state may already contain
\* the effect of timer drains (cached blocks whose parent became known moved into the chain).  Every relation below
\* is therefore stated so that it also holds with such drains folded in.
\* -- blocks enter the chain only by being delivered now or by having waited in the cache
NewOK(e, delivered) == \A h \in HasOf(e) \ has : h = delivered \/ Bid(h) \in Content(slots)
\* -- nothing that waits in the cache is dropped: it is still cached or it is in the chain now; nothing is invented;
\*    the cache stays sorted.  `base` is the cache content the step starts from (plus the block it caches).
KeptL(e, base, lst) == /\ \A b \in base : b \in Content(SlotsOf(e)) \/ HeightOf(b) \in HasOf(e) \/ HeightOf(b) \in lst
                       /\ Content(SlotsOf(e)) \subseteq base
Kept(e, added) == KeptL(e, Content(slots) \cup added, lost) /\ (Sorted(slots) => Sorted(SlotsOf(e)))
\* -- confirm cache: a confirm is cached exactly while its block is not in the chain (`stuck`: confirms the named
\*    deviation Dev_ConfirmLostDuringInsert left behind; they stay until the stable-clear reaches them)
CcRel(e, added) == \A h \in 1..nb, d \in 0..ND :
    LET n2 == CountIn(e.cc, <<h, d>>)  n1 == CountIn(cc, <<h, d>>) IN
    IF h \in HasOf(e) THEN n2 = 0 \/ (<<h, d>> \in stuck /\ n2 = n1)
                      ELSE n2 = n1 + (IF added = <<h, d>> THEN 1 ELSE 0)
\* -- signers stored with the blocks: nothing invented, nothing removed, and a confirm that was received for a block
\*    in the chain is with the block unless the block had enough signers without it
SigRel(e, conf) == \A h \in HasOf(e) :
    LET old == IF h \in has THEN sigs[h] ELSE {}
        avail == old \cup (IF h \in has THEN {} ELSE {d \in 0..ND : CountIn(cc, <<h, d>>) > 0})
                     \cup (IF conf # <<>> /\ conf[1] = h THEN {conf[2]} ELSE {})
        new == SigsOf(e)[h]
    IN old \subseteq new /\ new \subseteq avail /\ (new = avail \/ Enough(new, h))
NoInsertable(e) == \A b \in Content(SlotsOf(e)) : ~Known(HasOf(e), HeightOf(b) - 1)
AllDelivered(f) == \A m \in DOMAIN f : f[m] = 0
Converges(e, f, lst) == (AllDelivered(f) /\ NoInsertable(e) /\ lst = {} /\ stuck' = {}) => e.cur = ref[1] /\ e.stable = ref[2]
Common(e, f, lst) == ChainOK(e) /\ ApiOK(e) /\ Converges(e, f, lst) /\ e.peer_dropped = FALSE
Adopt(e) == /\ has' = HasOf(e) /\ stable' = e.stable /\ sigs' = SigsOf(e) /\ slots' = SlotsOf(e) /\ cc' = e.cc /\ pool' = e.pool
            /\ UNCHANGED <<nb, nt, miners, ref>>

Msgs(n, cs, t) == {<<"B", h, 0>> : h \in 1..n} \cup {<<"C", cs[i][1], cs[i][2]>> : i \in DOMAIN cs} \cup (IF t > 0 THEN {<<"T", 0, 0>>} ELSE {})
\* the in-order result the design predicts for this universe (Sync!RefCur, Sync!RefStable)
DesignRef(n, cs, mi) == LET ok == {h \in 1..n : Cardinality({cs[i][2] : i \in {j \in DOMAIN cs : cs[j][1] = h}} \cup {mi[h]}) >= Quorum}
                        IN <<n, IF ok = {} THEN 0 ELSE MaxOf(ok)>>

TReset == /\ Ev("reset")
          /\ nb' = E.nb /\ nt' = E.nt /\ miners' = E.miners /\ ref' = <<E.ref_cur, E.ref_stable>>
          /\ <<E.ref_cur, E.ref_stable>> = DesignRef(E.nb, E.confs, E.miners)   \* real in-order run = the design's in-order run
          /\ infl' = [m \in Msgs(E.nb, E.confs, E.nt) |-> 1] /\ seenT' = FALSE /\ lost' = {} /\ stuck' = {}
          /\ E.cur = 0 /\ E.stable = 0 /\ E.has = <<>> /\ E.slots = <<>> /\ E.cc = <<>> /\ E.pool = <<>>
          /\ has' = {} /\ stable' = 0 /\ sigs' = [h \in 1..E.nb |-> {}] /\ slots' = <<>> /\ cc' = <<>> /\ pool' = <<>>

Take(m) == m \in DOMAIN infl /\ infl[m] > 0 /\ infl' = [infl EXCEPT ![m] = @ - 1]
HeightsSeq(s) == [i \in DOMAIN s |-> s[i].h]
IsSuffix(s, t) == Len(s) <= Len(t) /\ s = SubSeq(t, Len(t) - Len(s) + 1, Len(t))

\* ---- a block arrives
TBlock == /\ Ev("Deliver") /\ E.a[1][1] = "B"
          /\ LET h == E.a[1][2]  b == Bid(E.a[1][2]) IN
             /\ Take(E.a[1]) /\ UNCHANGED <<seenT, stuck>>
             /\ E.pool = pool /\ SigRel(E, <<>>) /\ CcRel(E, <<>>)
             /\ IF h \in has \/ h <= stable                        \* stale: nothing happens
                THEN NewOK(E, 0) /\ Kept(E, {}) /\ lost' = lost
                ELSE IF Known(has, h - 1)                          \* parent known: it is in the chain now, with the early confirms
                THEN h \in HasOf(E) /\ NewOK(E, h) /\ Kept(E, {}) /\ lost' = lost
                ELSE /\ NewOK(E, h)                                \* parent unknown: cached (kept until the parent arrives), parent requested
                     /\ (E.path = "cache" => <<h - 1, h - 1>> \in ToSet(E.reqs))
                     /\ \/ Kept(E, {b}) /\ lost' = lost
                        \/ /\ "Dev_CacheAddMiddle" \in AllowedDev /\ ~Kept(E, {b}) /\ IsMiddleNew(slots, b)
                           /\ LET dv == AddDev(slots, b) IN
                              /\ lost' = lost \cup {HeightOf(x) : x \in (Content(slots) \cup {b}) \ Content(dv)}
                              /\ KeptL(E, Content(dv), lost')
                              /\ IsSuffix(HeightsSeq(SlotsOf(E)), HeightsSeq(dv))
                           /\ UseDev("Dev_CacheAddMiddle")
             /\ Common(E, infl', lost')
          /\ Adopt(E)

\* ---- one message with several blocks arrives (E.a[1] = their heights in message order)
RECURSIVE MustHave(_, _, _)
MustHave(H, bs, i) == IF i > Len(bs) THEN H ELSE MustHave(IF Known(H, bs[i] - 1) THEN H \cup {bs[i]} ELSE H, bs, i + 1)
TBatch == /\ Ev("DeliverBatch")
          /\ LET bs == E.a[1]  hs == ToSet(E.a[1])
                 fresh == {Bid(h) : h \in {x \in ToSet(E.a[1]) : x \notin has /\ x > stable}} IN
             /\ Len(bs) >= 2 /\ hs \subseteq 1..nb
             /\ infl' = [m \in DOMAIN infl |-> IF m[1] = "B" /\ m[2] \in hs /\ infl[m] > 0 THEN infl[m] - 1 ELSE infl[m]]
             /\ UNCHANGED <<seenT, stuck, lost>>
             /\ E.pool = pool /\ SigRel(E, <<>>) /\ CcRel(E, <<>>)
             /\ MustHave(has, bs, 1) \subseteq HasOf(E)                                  \* what the chain could take, it has
             /\ \A h \in HasOf(E) \ has : h \in hs \/ Bid(h) \in Content(slots)         \* and nothing else entered it
             /\ Kept(E, fresh)                                                          \* the rest waits; nothing dropped
             /\ Common(E, infl', lost)
          /\ Adopt(E)

\* Dev_ConfirmLostDuringInsert: deputy d's confirm for h was handled while the engine was busy inserting h - the handler did
\* not find the block and cached the confirm; the block is in the chain without it and the confirm sits in the cache
\* (until the stable-clear takes it).  Nothing else differs.
RaceDev(e, h, d) ==
    /\ "Dev_ConfirmLostDuringInsert" \in AllowedDev
    /\ h \notin has /\ h \in HasOf(e) /\ e.path = "cache"
    /\ SigRel(e, <<>>)
    /\ stuck' = stuck \cup {<<h, d>>}
    /\ \A x \in 1..nb, y \in 0..ND :
          LET n2 == CountIn(e.cc, <<x, y>>)  n1 == CountIn(cc, <<x, y>>) IN
          IF <<x, y>> = <<h, d>> THEN n2 = 1 \/ (n2 = 0 /\ e.stable >= h)
          ELSE IF x \in HasOf(e) THEN n2 = 0 \/ (<<x, y>> \in stuck /\ n2 = n1) ELSE n2 = n1
    /\ UseDev("Dev_ConfirmLostDuringInsert")

\* ---- a confirm arrives: stored with its block if the chain has it, else cached
TConfirm == /\ Ev("Deliver") /\ E.a[1][1] = "C"
            /\ LET h == E.a[1][2]  d == E.a[1][3]
                   ok == SigRel(E, <<h, d>>) /\ CcRel(E, IF h \in has THEN <<>> ELSE <<h, d>>) IN
               /\ Take(E.a[1]) /\ UNCHANGED <<seenT, lost>>
               /\ E.pool = pool /\ NewOK(E, 0) /\ Kept(E, {})
               /\ \/ ok /\ stuck' = stuck
                  \/ ~ok /\ RaceDev(E, h, d)         \* (the queue timer was inserting the block from the cache at that moment)
               /\ Common(E, infl', lost)
            /\ Adopt(E)

\* ---- a confirm arrives while the engine is busy inserting its block (the harness holds the engine inside InsertBlock):
\*      the outcome must be that of the two messages handled one after the other
TRace == /\ Ev("RaceInsert")
         /\ LET h == E.a[1]  d == E.a[2]  mb == <<"B", E.a[1], 0>>  mc == <<"C", E.a[1], E.a[2]>>
                ok == SigRel(E, <<E.a[1], E.a[2]>>) /\ CcRel(E, <<>>) IN
            /\ mb \in DOMAIN infl /\ mc \in DOMAIN infl /\ infl[mb] > 0 /\ infl[mc] > 0
            /\ infl' = [infl EXCEPT ![mb] = @ - 1, ![mc] = @ - 1] /\ UNCHANGED <<seenT, lost>>
            /\ h \notin has /\ h > stable /\ Known(has, h - 1)
            /\ E.pool = pool /\ h \in HasOf(E) /\ NewOK(E, h) /\ Kept(E, {})
            /\ \/ ok /\ stuck' = stuck
               \/ ~ok /\ RaceDev(E, h, d)
            /\ Common(E, infl', lost)
         /\ Adopt(E)

\* ---- a transaction batch arrives
TTxs == /\ Ev("Deliver") /\ E.a[1][1] = "T"
        /\ Take(E.a[1]) /\ seenT' = TRUE /\ UNCHANGED <<lost, stuck>>
        /\ NewOK(E, 0) /\ SigRel(E, <<>>) /\ Kept(E, {}) /\ CcRel(E, <<>>)
        /\ E.valid = nt
        /\ \/ ToSet(E.pool) = 1..nt /\ Len(E.pool) = nt                       \* every valid tx pending exactly once
           \/ /\ "Dev_TxsLoopVar" \in AllowedDev /\ ~(ToSet(E.pool) = 1..nt /\ Len(E.pool) = nt)
              /\ Len(E.pool) = Cardinality(ToSet(E.pool)) /\ ToSet(pool) \subseteq ToSet(E.pool)
              /\ ToSet(E.pool) \subseteq 1..nt /\ nt \in ToSet(E.pool)        \* the goroutines saw later loop values; the last tx is always among them
              /\ UseDev("Dev_TxsLoopVar")
        /\ Common(E, infl', lost)
        /\ Adopt(E)

\* ---- the network duplicates a message in flight: the node sees nothing
TDuplicate == /\ Ev("Duplicate")
              /\ E.a[1] \in DOMAIN infl /\ infl[E.a[1]] > 0 /\ infl' = [infl EXCEPT ![E.a[1]] = @ + 1] /\ UNCHANGED <<seenT, lost, stuck>>
              /\ E.pool = pool /\ NewOK(E, 0) /\ SigRel(E, <<>>) /\ Kept(E, {}) /\ CcRel(E, <<>>)
              /\ Common(E, infl', lost)
              /\ Adopt(E)

\* ---- the queue timer has fired as often as needed: no cached block has a known parent any more
TDrain == /\ Ev("TimerDrain") /\ UNCHANGED <<infl, seenT, lost, stuck>>
          /\ E.pool = pool
          /\ NoInsertable(E)
          /\ NewOK(E, 0) /\ SigRel(E, <<>>) /\ Kept(E, {}) /\ CcRel(E, <<>>)
          /\ Common(E, infl, lost)
          /\ Adopt(E)

TraceNext == TReset \/ TBlock \/ TBatch \/ TConfirm \/ TRace \/ TTxs \/ TDuplicate \/ TDrain
TraceSpec == /\ l = 1 /\ nb = 0 /\ nt = 0 /\ miners = <<>> /\ ref = <<0, 0>> /\ infl = <<>> /\ seenT = FALSE /\ lost = {} /\ stuck = {}
             /\ has = {} /\ stable = 0 /\ sigs = <<>> /\ slots = <<>> /\ cc = <<>> /\ pool = <<>>
             /\ [][TraceNext]_mvars
====
