SPECIFICATION Spec
CONSTANTS Acct <- AcctCU
 KindsOf <- KindsTwo
 BaseSet <- BaseTwo
 MaxSteps = 6
 MaxSnap = 2
 WithSeal = TRUE
 FreeVals = FALSE
 Dv <- NoDev
INVARIANTS UndoMatchesSaved NoPanic RevsOK DiscardAllIsBase RedoEqualsExec NoTraceOfReverted
CHECK_DEADLOCK FALSE
