SPECIFICATION Spec
CONSTANTS Acct <- AcctCU
 KindsOf <- KindsTwo
 BaseSet <- BaseTwo
 MaxSteps = 6
 MaxSnap = 2
 FreeVals = FALSE
 Dv <- NoDev
INVARIANTS UndoMatchesSaved NoPanic RevsOK DiscardAllIsBase
CHECK_DEADLOCK FALSE
