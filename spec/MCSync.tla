---- MODULE MCSync ----
(* Model-checking instances of Sync: which deputies' confirm packets travel.  Miner(h) = ((h-1)%3)+1, so
   every packet below is signed by a deputy other than the block's miner and makes its block stable. *)
EXTENDS Sync
\* 3 blocks: confirms for blocks 1 and 2; the in-order run ends with current = 3, stable = 2
McConfs2 == {<<1, 2>>, <<2, 3>>}
\* 4 blocks: confirms for blocks 1, 2 and 3 (stable = 3), block 2 confirmed by deputy 3
McConfs3 == {<<1, 2>>, <<2, 3>>, <<3, 1>>}
\* two packets for the same block (the second finds the block confirmed enough) and one for the block above
McConfs2x == {<<1, 2>>, <<1, 3>>, <<2, 1>>}
McNone == {}
\* read by the vacuity guard of checks/c20.py (one line of TLC's output)
ASSUME PrintT(<<"ConfiguredOff", ConfiguredOff>>)
====
