SPECIFICATION Spec
CONSTANTS NB = 3
 ND = 2
 Self = 1
 Packets <- McPackets
INVARIANTS QuorumOK HeadOK TreeOK StableChainKept
PROPERTY StableForward
CHECK_DEADLOCK FALSE
