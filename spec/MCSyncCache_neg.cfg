SPECIFICATION Spec
CONSTANTS Blocks <- McBlocks1
 MaxH = 5
 Confirms <- McNoConfirms
 Ops <- McOpsAdd
 MaxSteps = 0
 History = FALSE
 BugAddMiddle = TRUE
INVARIANTS Refines
CHECK_DEADLOCK FALSE
