SPECIFICATION Spec
CONSTANTS Weights = {50, 100}
 MaxSigners = 2
 ExtraCfgs <- McNone
 MaxSigs = 2
 TamperFields = {"amount"}
 PayCfgs <- McPlainOnly
 PaySenders <- McPlainOnly
 PayFields = {"gasPrice"}
 GpFields = {"gasPrice"}
 MaxOver = 3
 BoxCfgs <- McPlainOnly
 Kinds = {}
 ReconfCfgs <- McNegCfgs
 NewCfgs <- McNegNew
 Slices = {"sigs", "tamper", "payer", "junk", "box", "reconf"}
 Dev = {"Neg_BoxTrustsLabel"}
VIEW View
PROPERTIES BoxBinds
CHECK_DEADLOCK FALSE
