---- MODULE MCWire ----
(* Bounds of the exhaustive / simulation runs of Wire over the class table of WireClasses. *)
EXTENDS Wire, WireClasses

McTable == ClassTable

\* kept classes after which the exhaustive enumeration goes on (one per handler that changes node or peer state)
McCarriers == {"HsGood", "OhsGood", "Phs_Good", "FrHeartbeat", "GetStatus_Good", "Status_Higher", "Hash_Good", "Txs_Good", "GetBlocks_Good",
               "Blocks_Good", "Confirm_Good", "GetConfirms_Good", "Confirms_Good", "DiscRes_Good",
               "Blocks_ChildUnsigned", "Blocks_DeputyPlausible", "Confirm_Known"}
\* the quick tier continues after fewer of them
McCarriersQ == {"HsGood", "OhsGood", "Phs_Good", "GetStatus_Good", "Txs_Good", "Blocks_Good", "Confirm_Good", "Blocks_DeputyPlausible"}
\* in simulation every kept class carries on
McAllKept == {t[1] : t \in {u \in McTable : u[3] \in {"keep", "adv"}}} \cup {"Blocks_ChildUnsigned", "Blocks_DeputyPlausible", "Confirm_Known", "Blocks_OrphanMax", "Confirms_Unknown"}
McHeavy == {"Confirm_Flood", "Blocks_Flood", "GetBlocks_Huge", "GetBlocksCL_Huge", "FrMaxLenGarbage", "FrMaxLenTrunc", "Confirms_HugePack",
            "DiscRes_Many", "Txs_Many", "HsHugeLenTrunc", "HsLen64MTrunc", "DiscRes_HugeString"}
Phases == {"PreHs", "OutHs", "ProtoHs", "Est"}
McProbe == [p \in Phases |-> CASE p = "PreHs" -> "HsGood" [] p = "OutHs" -> "OhsGood" [] p = "ProtoHs" -> "Phs_Good" [] OTHER -> "GetStatus_Good"]
\* [direction |-> [phase |-> inputs]]; one handshake packet per connection in either direction
Mx(ph, es) == [p \in Phases |-> CASE p = "ProtoHs" -> ph [] p = "Est" -> es [] OTHER -> 1]
McMaxIn1 == [d \in {"in", "out"} |-> Mx(1, 1)]
McMaxIn2 == [d \in {"in", "out"} |-> IF d = "in" THEN Mx(1, 2) ELSE Mx(1, 1)]     \* quick: the dialed connection is followed one input deep
McMaxIn2p == [d \in {"in", "out"} |-> Mx(2, 1)]
McMaxIn3 == [d \in {"in", "out"} |-> IF d = "in" THEN Mx(2, 3) ELSE Mx(2, 2)]
McMaxIn4 == [d \in {"in", "out"} |-> Mx(2, 4)]
BothDirs == {"in", "out"}
InOnly == {"in"}
OutOnly == {"out"}
NoDev == {}
AllDev == {t[6] : t \in McTable} \ {""}
DevOnly(d) == {d}
McDev1 == {"Dev_FrameLenNotBlockMultiple"}
McDev2 == {"Dev_ConfirmCacheSelfDeadlock"}
McDev3 == {"Dev_HandshakeLenLimit1GiB"}
McDev4 == {"Dev_GetBlocksRangeUnbounded"}
McDev5 == {"Dev_EciesShortCiphertextPanics"}
\* ------------------------------------------------------------------ the sequence layer (WireSeq)
NoBlocks == {}
NoMsgs == {}
NoConfirms == {}
NoMix == {}
\* the valid chain a remote deputy can produce (V1 on genesis, V2 on V1, V3 on V2) and junk around it
V1 == <<"V1", 1, "G", "v">>
V2 == <<"V2", 2, "V1", "v">>
V3 == <<"V3", 3, "V2", "v">>
Ja == <<"Ja", 5, "V1", "j">>     \* junk on a valid block that has not arrived yet: waits, and can be handed over once V1 is there
Jb == <<"Jb", 6, "V1", "j">>     \* same parent, another height
Jc == <<"Jc", 5, "V1", "j">>     \* same parent, the height of Ja (two blocks in one slot)
Jd == <<"Jd", -1, "U", "j">>     \* height 2^32-1 on a parent nobody has: waits for ever, in the last slot
Je == <<"Je", 9, "Ja", "j">>     \* junk on junk: a gap that never closes
Jf == <<"Jf", 2, "U", "j">>      \* the lowest height that can wait, parent nobody has
Jg == <<"Jg", 0, "U", "j">>      \* height 0
Jh == <<"Jh", 1, "U", "j">>      \* height 1 on an unknown parent ("different genesis")
Ji == <<"Ji", 7, "G", "j">>      \* a wrong height on a parent the chain has: goes straight to the chain, which rejects it
Jk == <<"Jk", 3, "V2", "j">>     \* junk competing with V3
Jl == <<"Jl", -1, "V2", "j">>    \* height 2^32-1 on a valid block
Seqs(S, k) == UNION {[1..j -> S] : j \in 1..k}
\* quick: one valid block, three junk children of it in two slots, one block that never leaves the last slot
McSeqBlocksQ == {V1, Ja, Jb, Jc, Jd}
McSeqMsgsQ == Seqs(McSeqBlocksQ, 1) \cup {<<Ja, Jb>>, <<Jb, Ja>>, <<Ja, Jc>>, <<Ja, Ja>>, <<Jb, Jd>>, <<V1, Ja>>, <<Ja, V1>>, <<V1, V1>>}
McSeqConfirmsQ == {<<V1, "d2">>, <<Jb, "x">>}
McSeqMixQ == {"Txs_Duplicate", "GetBlocks_Wrap"}
\* thorough: two valid blocks, junk around both, every ordered pair of the blocks that matter most
McSeqBlocksT == {V1, V2, Ja, Jb, Jc, Jd, Jk}
McSeqMsgsT == Seqs(McSeqBlocksT, 1) \cup Seqs({V1, Ja, Jb, Jd}, 2)
              \cup {<<V2, V1>>, <<V1, V2>>, <<Ja, Jc>>, <<Jk, V2>>, <<V2, Jk>>, <<Ja, Jb, Jc>>, <<Jb, Ja, V1>>, <<V2, V1, V2>>}
McSeqConfirmsT == {<<V1, "d2">>, <<V2, "d1">>, <<V1, "x">>}      \* the last one: a junk signature waiting for a valid block
McSeqMixT == {"Txs_Duplicate", "GetBlocks_Wrap"}
\* thorough, second graph: absurd heights and parents around the same chain
McSeqBlocksU == {V1, V2, Ja, Je, Jf, Jg, Jh, Ji, Jl}
McSeqMsgsU == Seqs(McSeqBlocksU, 1) \cup {<<Jh, Ja>>, <<Ja, Jh>>, <<Ji, Ja>>, <<Ja, Ji>>, <<Jg, Jf>>, <<Jl, Ja>>, <<Ja, Je>>, <<Je, Ja>>, <<V1, Jf>>, <<Jl, Jl>>, <<V1, V2, Jl>>}
McSeqConfirmsU == {<<V1, "d2max">>, <<Jg, "d2zero">>, <<V1, "z">>}     \* absurd height fields, an all-zero signature
McSeqMixU == {"Confirm_MaxHeight", "Status_Max"}
\* in the sequence layer only the genuine handshakes lead to an established connection
SeqRows(mix) == {t \in ClassTable : t[1] \in {"HsGood", "OhsGood", "Phs_Good", "GetStatus_Good"} \cup mix}
\* ... and of the interleaved single-message classes the enumeration goes on after those the node must keep the connection for;
\* after the others ("any": keeping or dropping are both fine) the remote party reconnects
SeqCarriers(mix) == {"HsGood", "OhsGood", "Phs_Good"} \cup {c \in mix : \E t \in ClassTable : t[1] = c /\ "Est" \in t[2] /\ t[3] = "keep"}
McTableSeqQ == SeqRows(McSeqMixQ)
McTableSeqT == SeqRows(McSeqMixT)
McCarriersSeqQ == SeqCarriers(McSeqMixQ)
McCarriersSeqT == SeqCarriers(McSeqMixT)
McTableSeqU == SeqRows(McSeqMixU)
McCarriersSeqU == SeqCarriers(McSeqMixU)
McHeavySeq == {}
McMaxInSeq == [d \in {"in", "out"} |-> Mx(1, 1)]
McDev6 == {"Dev_CachePassEmptiesTwoSlots"}
\* ------------------------------------------------------------------ the receive-side layer
NoAnswering == {}
\* classes after which the node writes: its handshake response (accepting) / its protocol handshake (after the response to its dial),
\* answers to requests, and requests of its own (a higher status / an orphan block make it ask for blocks)
McAnswering == {"HsGood", "OhsGood", "GetStatus_Good", "GetBlocks_Good", "GetBlocksCL_Good", "GetConfirms_Good", "DiscReq_Good",
                "Status_Higher", "Blocks_Good", "GetBlocks_Range", "Txs_Good"}
\* quick: the status answer (short deadline), the blocks answer (frame deadline), a malformed frame behind a write in flight,
\* a transaction the node passes on to all its peers (the remote itself and the bystander)
McRxMixQ == {"GetStatus_Good", "GetBlocks_Good", "FrBadMagic", "Txs_Good"}
\* thorough: every kind of answer and of own request, a kept message that is not answered, malformed input
McRxMixT == {"GetStatus_Good", "GetBlocks_Good", "GetBlocksCL_Good", "GetConfirms_Good", "DiscReq_Good", "Status_Higher", "Blocks_Good",
             "Txs_Good", "FrHeartbeat", "FrBadMagic", "GetStatus_Trunc"}
RxRows(mix) == {t \in ClassTable : t[1] \in {"HsGood", "OhsGood", "Phs_Good", "GetStatus_Good"} \cup mix}
RxCarriers(mix) == {"HsGood", "OhsGood", "Phs_Good"} \cup {c \in mix : \E t \in ClassTable : t[1] = c /\ "Est" \in t[2] /\ t[3] = "keep"}
McTableRxQ == RxRows(McRxMixQ)
McTableRxT == RxRows(McRxMixT)
McCarriersRxQ == RxCarriers(McRxMixQ)
McCarriersRxT == RxCarriers(McRxMixT)
McMaxInRxQ == [d \in {"in", "out"} |-> Mx(1, 1)]
McMaxInRxT == [d \in {"in", "out"} |-> Mx(1, 2)]
McDev7 == {"Dev_FailedWriteSelfDeadlock"}
UniqueRows == \A c \in Classes : \A ph \in Phases : Cardinality(Rows(c, ph)) <= 1
====
