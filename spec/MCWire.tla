---- MODULE MCWire ----
(* Bounds of the exhaustive / simulation runs of Wire over the class table of WireClasses. *)
EXTENDS Wire, WireClasses

McTable == ClassTable

\* kept classes after which the exhaustive enumeration goes on (one per handler that changes node or peer state)
McCarriers == {"HsGood", "OhsGood", "Phs_Good", "FrHeartbeat", "GetStatus_Good", "Status_Higher", "Hash_Good", "Txs_Good", "GetBlocks_Good",
               "Blocks_Good", "Confirm_Good", "GetConfirms_Good", "Confirms_Good", "DiscRes_Good",
               "Blocks_ChildUnsigned", "Blocks_DeputyPlausible", "Confirm_Known"}
\* the quick tier continues after fewer of them
McCarriersQ == {"HsGood", "OhsGood", "Phs_Good", "GetStatus_Good", "Txs_Good", "Blocks_Good", "Confirm_Good", "Blocks_DeputyPlausible"}
\* in simulation every kept class carries on
McAllKept == {t[1] : t \in {u \in McTable : u[3] \in {"keep", "adv"}}} \cup {"Blocks_ChildUnsigned", "Blocks_DeputyPlausible", "Confirm_Known", "Blocks_OrphanMax", "Confirms_Unknown"}
McHeavy == {"Confirm_Flood", "Blocks_Flood", "GetBlocks_Huge", "GetBlocksCL_Huge", "FrMaxLenGarbage", "FrMaxLenTrunc", "Confirms_HugePack",
            "DiscRes_Many", "Txs_Many", "HsHugeLenTrunc", "HsLen64MTrunc", "DiscRes_HugeString"}
Phases == {"PreHs", "OutHs", "ProtoHs", "Est"}
McProbe == [p \in Phases |-> CASE p = "PreHs" -> "HsGood" [] p = "OutHs" -> "OhsGood" [] p = "ProtoHs" -> "Phs_Good" [] OTHER -> "GetStatus_Good"]
\* [direction |-> [phase |-> inputs]]; one handshake packet per connection in either direction
Mx(ph, es) == [p \in Phases |-> CASE p = "ProtoHs" -> ph [] p = "Est" -> es [] OTHER -> 1]
McMaxIn1 == [d \in {"in", "out"} |-> Mx(1, 1)]
McMaxIn2 == [d \in {"in", "out"} |-> IF d = "in" THEN Mx(1, 2) ELSE Mx(1, 1)]     \* quick: the dialed connection is followed one input deep
McMaxIn2p == [d \in {"in", "out"} |-> Mx(2, 1)]
McMaxIn3 == [d \in {"in", "out"} |-> IF d = "in" THEN Mx(2, 3) ELSE Mx(2, 2)]
McMaxIn4 == [d \in {"in", "out"} |-> Mx(2, 4)]
BothDirs == {"in", "out"}
InOnly == {"in"}
OutOnly == {"out"}
NoDev == {}
AllDev == {t[6] : t \in McTable} \ {""}
DevOnly(d) == {d}
McDev1 == {"Dev_FrameLenNotBlockMultiple"}
McDev2 == {"Dev_ConfirmCacheSelfDeadlock"}
McDev3 == {"Dev_HandshakeLenLimit1GiB"}
McDev4 == {"Dev_GetBlocksRangeUnbounded"}
McDev5 == {"Dev_EciesShortCiphertextPanics"}
UniqueRows == \A c \in Classes : \A ph \in Phases : Cardinality(Rows(c, ph)) <= 1
====
