---- MODULE MCWire ----
(* Bounds of the exhaustive / simulation runs of Wire over the class table of WireClasses. *)
EXTENDS Wire, WireClasses

McTable == ClassTable

\* kept classes after which the exhaustive enumeration goes on (one per handler that changes node or peer state)
McCarriers == {"HsGood", "Phs_Good", "FrHeartbeat", "GetStatus_Good", "Status_Higher", "Hash_Good", "Txs_Good", "GetBlocks_Good",
               "Blocks_Good", "Confirm_Good", "GetConfirms_Good", "Confirms_Good", "DiscRes_Good",
               "Blocks_ChildUnsigned", "Blocks_DeputyPlausible", "Confirm_Known"}
\* the quick tier continues after fewer of them
McCarriersQ == {"HsGood", "Phs_Good", "GetStatus_Good", "Txs_Good", "Blocks_Good", "Confirm_Good", "Blocks_DeputyPlausible"}
\* in simulation every kept class carries on
McAllKept == {t[1] : t \in {u \in McTable : u[3] \in {"keep", "adv"}}} \cup {"Blocks_ChildUnsigned", "Blocks_DeputyPlausible", "Confirm_Known", "Blocks_OrphanMax", "Confirms_Unknown"}
McHeavy == {"Confirm_Flood", "Blocks_Flood", "GetBlocks_Huge", "GetBlocksCL_Huge", "FrMaxLenGarbage", "FrMaxLenTrunc", "Confirms_HugePack",
            "DiscRes_Many", "Txs_Many", "HsHugeLenTrunc", "HsLen64MTrunc"}
McProbe == [p \in {"PreHs", "ProtoHs", "Est"} |-> IF p = "PreHs" THEN "HsGood" ELSE IF p = "ProtoHs" THEN "Phs_Good" ELSE "GetStatus_Good"]
McMaxIn1 == [p \in {"PreHs", "ProtoHs", "Est"} |-> 1]
McMaxIn2 == [p \in {"PreHs", "ProtoHs", "Est"} |-> IF p = "Est" THEN 2 ELSE 1]
McMaxIn2p == [p \in {"PreHs", "ProtoHs", "Est"} |-> IF p = "PreHs" THEN 1 ELSE 2]
McMaxIn3 == [p \in {"PreHs", "ProtoHs", "Est"} |-> IF p = "Est" THEN 3 ELSE IF p = "ProtoHs" THEN 2 ELSE 1]
McMaxIn4 == [p \in {"PreHs", "ProtoHs", "Est"} |-> IF p = "Est" THEN 4 ELSE IF p = "ProtoHs" THEN 2 ELSE 1]
NoDev == {}
AllDev == {t[6] : t \in McTable} \ {""}
DevOnly(d) == {d}
McDev1 == {"Dev_FrameLenNotBlockMultiple"}
McDev2 == {"Dev_ConfirmCacheSelfDeadlock"}
McDev3 == {"Dev_HandshakeLenLimit1GiB"}
McDev4 == {"Dev_GetBlocksRangeUnbounded"}
UniqueRows == \A c \in Classes : \A ph \in {"PreHs", "ProtoHs", "Est"} : Cardinality(Rows(c, ph)) <= 1
====
