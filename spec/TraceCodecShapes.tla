---- MODULE TraceCodecShapes ----
(* C14 part 2, code side.  Every "shape" line is one seeded instance of a (type, shape) pair TLC
   enumerated, built on the REAL types, encoded, decoded the way the node decodes it, observed and
   re-encoded.  Logged before (0) and after (1) the round trip:
     v  projection of the value (all encoded fields; nil and empty byte strings render alike)
     t  dynamic Go types of the interface-typed payloads (change logs: Redo type-asserts on them)
     h  hash(es): Hash(), merkle roots that contain the object
     s  recovered signers / node ids (or the error text)
     b  the encoding
     x  (transactions) the box payload: hashes and signers of the sub-transactions - x0 taken from the
        sub-transactions before they were packed, x1 from GetBox on the decoded transaction's Data
   and, for transactions, the same observations after a JSON round trip (jv, jh, js) - the form in
   which box payloads carry their sub-transactions.  "addr" lines are the Lemo text form of an
   address.  A line is consumed only if it shows what Class(typ) demands; the named deviations are
   available only when listed in known_findings.txt (AllowedDev) and only for a line that the
   correct disjunct rejects.

   Part 3 (CodecShapesSlots.tla) lines come in chunks.  A "reset" line carries the encoding b0 of one
   honest instance (typ, sub = change-log type / message name, inst, var); it is decoded once with
   Rlp!Decode and must be accepted by the type's descriptor.  A "slot" line is that encoding with the
   item at `path` replaced by the primitive encoding class `off`: b is the offered string, acc / err
   what the REAL typed decoder said, b1 the re-encoding of what it built.  The line is consumed when
   b is the string the class stands for, acc = Acc(descriptor, Decode(b)) and b1 = b.  A "num" line is
   the boundary value `val` put into the numeric field (path, jp, w): b the RLP form offered, ra / rb /
   rh / rs the real decoder's verdict, re-encoding, hash, signers; jt the decimal text put into the
   JSON member, ja / jb / jh / jsg / jt1 the same observations of the JSON form (jb = the RLP
   encoding of the object decoded from JSON, jt1 = the member as that object writes it again); xa /
   xh a transaction's trip through a box payload.  The three typed-decoder deviations are consumed
   only when the real result is exactly what Acc / Canon with that deviation predict. *)
EXTENDS CodecShapesSlots, TraceBase
CONSTANT AllowedDev

InUniverse(e)  == e.typ \in Types /\ e.sh \in Shapes(e.typ)
Coded(e)       == e.enc = "ok" /\ e.dec = "ok" /\ e.reenc = "ok"
HashStable(e)  == e.h0 = e.h1 /\ e.s0 = e.s1
ValueStable(e) == e.v0 = e.v1 /\ e.t0 = e.t1 /\ HashStable(e)
ByteStable(e)  == e.b0 = e.b1
OuterOK(e)     == Coded(e) /\ ValueStable(e) /\ (Class(e.typ) = "bytes" => ByteStable(e))
RlpOK(e)       == OuterOK(e) /\ e.x0 = e.x1
JsonOK(e)      == e.typ = "tx" => (e.j = "ok" /\ e.jv = e.v0 /\ e.jh = e.h0 /\ e.js = e.s0 /\ e.jx = e.x0 /\ e.jq = "ok")
RowOK(e)       == InUniverse(e) /\ RlpOK(e) /\ JsonOK(e)

AddrOK(e)      == e.sh \in AddressShapes /\ e.err = "ok" /\ e.a1 = e.a0 /\ e.t1 = e.t0

TShape == Ev("shape") /\ RowOK(E)
TAddr  == Ev("addr") /\ AddrOK(E)
\* the registry of the real code and the spec's catalogue of change-log types are the same set
TReg   == Ev("registry") /\ ToSet(E.logTypes) = LogTypes

(* ---- named deviations (see known_findings.txt) ---- *)
\* an empty container / nil pointer payload comes back with another dynamic type (untyped nil, *interface{}):
\* bytes and hash survive, but the decoded log is not the value the constructor made (Redo rejects it)
TDevUntyped ==
  /\ Ev("shape") /\ ~RowOK(E) /\ "Dev_EmptyPayloadDecodedUntyped" \in AllowedDev
  /\ InUniverse(E) /\ E.typ = "log"
  /\ <<E.sh.t, E.sh.nv>> \in {<<"SignerLog", "s0">>, <<"CandidateLog", "p0">>, <<"AssetCodeLog", "nilptr">>}
  /\ Coded(E) /\ HashStable(E) /\ ByteStable(E) /\ E.t0 # E.t1
  /\ UseDev("Dev_EmptyPayloadDecodedUntyped")
\* Address.Decode into a receiver that already holds an address keeps its leading bytes when the decoded
\* address starts with zero bytes; the low bytes are right
TDevStale ==
  /\ Ev("addr") /\ ~AddrOK(E) /\ "Dev_AddressDecodeKeepsStaleBytes" \in AllowedDev
  /\ E.sh \in AddressShapes /\ E.sh.recv = "dirty" /\ E.sh.lead > 0 /\ E.err = "ok"
  /\ Len(E.a1) = 20 /\ SubSeq(E.a1, E.sh.lead + 1, 20) = SubSeq(E.a0, E.sh.lead + 1, 20)
  /\ UseDev("Dev_AddressDecodeKeepsStaleBytes")
\* the JSON form replaces bytes that are not valid UTF-8 in Message/ToName: the RLP round trip is exact, the
\* JSON one yields another transaction (other hash, other recovered signers) - also for the sub-transactions of a box,
\* whose payload is JSON
TDevUtf8 ==
  /\ Ev("shape") /\ ~RowOK(E) /\ "Dev_JsonManglesInvalidUtf8" \in AllowedDev
  /\ InUniverse(E) /\ E.typ = "tx" /\ E.sh.text = "badutf8"
  /\ OuterOK(E) /\ E.j = "ok"
  /\ UseDev("Dev_JsonManglesInvalidUtf8")

(* ---- part 3: typed-decoder canonicity (slot lines) and numeric boundary values (num lines) ---- *)
\* the facts of the real code the descriptors rest on
TSlotReg == /\ Ev("slotreg")
            /\ {<<p[1], p[2]>> : p \in ToSet(E.logNums)} = {<<t, LogNum(t)>> : t \in LogTypes}
            /\ E.emptyTrie = EmptyTrieHash /\ E.hashLen = 32 /\ E.addrLen = 20

\* a "reset" line opens a chunk: one honest instance, built and encoded by the real code.  Its encoding must be one the
\* specification's typed decoder accepts (the field layouts of CodecShapesSlots are the real ones); it is decoded once and
\* kept in TLC register 3 for the slot / num lines of the chunk.
SubsOf(typ) == IF typ = "log" THEN LogTypes ELSE IF typ = "msg" THEN MsgNames ELSE {"-"}
JsonOnly    == {"issueAsset", "replenishAsset", "transferAsset"}
ASSUME TLCSet(3, [typ |-> "", sub |-> "", inst |-> "", var |-> -1, H |-> Err])
Cur == TLCGet(3)
TInst == /\ Ev("reset")
         /\ E.typ \in SlotTypes \cup NumTypes /\ E.sub \in SubsOf(E.typ) /\ E.inst \in Insts
         /\ LET H == IF E.typ \in JsonOnly THEN Err ELSE Decode(E.b0) IN
              /\ (E.typ \notin JsonOnly => ~IsErr(H) /\ Acc(TopDesc(E.typ, E.sub), H, {}))
              /\ TLCSet(3, [typ |-> E.typ, sub |-> E.sub, inst |-> E.inst, var |-> E.var, H |-> H])
OfCur(e) == Cur.typ = e.typ /\ Cur.sub = e.sub /\ Cur.inst = e.inst /\ Cur.var = e.var

SlotIn(e)   == e.typ \in SlotTypes /\ e.sub \in SubsOf(e.typ) /\ e.off \in Offers /\ OfCur(e)
\* the harness offered exactly the string the class stands for
SlotInput(e) == /\ SlotIn(e)
                /\ Resolves(Cur.H, e.path)
                /\ e.b = SlotBytes(Cur.H, PosDesc(e.typ, e.sub), e.path, e.off)
\* what the real typed decoder did with it under the deviations D: it accepts exactly the encodings of values of the type,
\* and what it accepted re-encodes to Canon - with D = {} that is the offered string itself
SlotVerdict(e, D) ==
  LET v   == Decode(e.b)
      acc == ~IsErr(v) /\ Acc(TopDesc(e.typ, e.sub), v, D) IN
    /\ e.acc = acc
    /\ (acc => e.re = "ok" /\ e.b1 = Encode(Canon(TopDesc(e.typ, e.sub), v, D)))
SlotOK(e) == SlotInput(e) /\ SlotVerdict(e, {}) /\ (e.acc => e.b1 = e.b)
TSlot == Ev("slot") /\ SlotOK(E)
\* named deviations of the typed decoders: the line is accepted only with the key listed, only when the correct verdict does
\* not match, and only when the real result is exactly what the deviation's model predicts
TDevSlot(k) == /\ Ev("slot") /\ ~SlotOK(E) /\ k \in AllowedDev
               /\ SlotInput(E) /\ SlotVerdict(E, {k})
               /\ UseDev(k)

NumIn(e)  == /\ e.typ \in NumTypes /\ e.sub \in SubsOf(e.typ) /\ e.val \in NumVals /\ OfCur(e)
             /\ NF(e.path, e.jp, e.w) \in NumFields(e.typ, e.sub)
NumRlp(e) == LET be   == NumOf(e.val).be
                 bs   == EncWith(Cur.H, e.path, Encode(Str(be)))
                 fits == Fits(e.val, e.w) IN
               /\ e.b = bs                                                  \* the canonical integer in the field's position
               /\ e.ra = (IF fits THEN "ok" ELSE "err")                      \* accepted exactly when the value fits the field
               /\ (fits => e.re = "ok" /\ e.rb = bs)                        \* and written back as the same bytes
NumJson(e) == LET fits == Fits(e.val, e.w) IN
               /\ e.jt = NumOf(e.val).dec                                    \* the decimal text in the field's member
               /\ e.ja = (IF fits THEN "ok" ELSE "err")
               /\ (fits => e.jt1 = NumOf(e.val).dec)                         \* and written back as the same text
\* both forms yield the same object: same encoding, same hash, same recovered signers; for a transaction the form
\* inside a box payload too
NumBoth(e) == (e.path # <<>> /\ e.jp # <<>> /\ Fits(e.val, e.w)) =>
                 /\ e.jre = "ok" /\ e.jb = e.rb /\ e.jh = e.rh /\ e.jsg = e.rs
                 /\ (e.typ = "tx" => e.xa = "ok" /\ e.xh = e.rh)
NumOK(e) == NumIn(e) /\ (e.path # <<>> => NumRlp(e)) /\ (e.jp # <<>> => NumJson(e)) /\ NumBoth(e)
TNum == Ev("num") /\ NumOK(E)

TraceNext == \/ TShape \/ TAddr \/ TReg \/ TDevUntyped \/ TDevStale \/ TDevUtf8
             \/ TSlotReg \/ TInst \/ TSlot \/ TNum \/ \E k \in SlotDevs : TDevSlot(k)
TraceSpec == l = 1 /\ [][TraceNext]_l
====
