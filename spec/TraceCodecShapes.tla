---- MODULE TraceCodecShapes ----
(* C14 part 2, code side.  Every "shape" line is one seeded instance of a (type, shape) pair TLC
   enumerated, built on the REAL types, encoded, decoded the way the node decodes it, observed and
   re-encoded.  Logged before (0) and after (1) the round trip:
     v  projection of the value (all encoded fields; nil and empty byte strings render alike)
     t  dynamic Go types of the interface-typed payloads (change logs: Redo type-asserts on them)
     h  hash(es): Hash(), merkle roots that contain the object
     s  recovered signers / node ids (or the error text)
     b  the encoding
     x  (transactions) the box payload: hashes and signers of the sub-transactions - x0 taken from the
        sub-transactions before they were packed, x1 from GetBox on the decoded transaction's Data
   and, for transactions, the same observations after a JSON round trip (jv, jh, js) - the form in
   which box payloads carry their sub-transactions.  "addr" lines are the Lemo text form of an
   address.  A line is consumed only if it shows what Class(typ) demands; the named deviations are
   available only when listed in known_findings.txt (AllowedDev) and only for a line that the
   correct disjunct rejects. *)
EXTENDS CodecShapes, TraceBase
CONSTANT AllowedDev

InUniverse(e)  == e.typ \in Types /\ e.sh \in Shapes(e.typ)
Coded(e)       == e.enc = "ok" /\ e.dec = "ok" /\ e.reenc = "ok"
HashStable(e)  == e.h0 = e.h1 /\ e.s0 = e.s1
ValueStable(e) == e.v0 = e.v1 /\ e.t0 = e.t1 /\ HashStable(e)
ByteStable(e)  == e.b0 = e.b1
OuterOK(e)     == Coded(e) /\ ValueStable(e) /\ (Class(e.typ) = "bytes" => ByteStable(e))
RlpOK(e)       == OuterOK(e) /\ e.x0 = e.x1
JsonOK(e)      == e.typ = "tx" => (e.j = "ok" /\ e.jv = e.v0 /\ e.jh = e.h0 /\ e.js = e.s0 /\ e.jx = e.x0 /\ e.jq = "ok")
RowOK(e)       == InUniverse(e) /\ RlpOK(e) /\ JsonOK(e)

AddrOK(e)      == e.sh \in AddressShapes /\ e.err = "ok" /\ e.a1 = e.a0 /\ e.t1 = e.t0

TShape == Ev("shape") /\ RowOK(E)
TAddr  == Ev("addr") /\ AddrOK(E)
\* the registry of the real code and the spec's catalogue of change-log types are the same set
TReg   == Ev("registry") /\ ToSet(E.logTypes) = LogTypes

(* ---- named deviations (see known_findings.txt) ---- *)
\* an empty container / nil pointer payload comes back with another dynamic type (untyped nil, *interface{}):
\* bytes and hash survive, but the decoded log is not the value the constructor made (Redo rejects it)
TDevUntyped ==
  /\ Ev("shape") /\ ~RowOK(E) /\ "Dev_EmptyPayloadDecodedUntyped" \in AllowedDev
  /\ InUniverse(E) /\ E.typ = "log"
  /\ <<E.sh.t, E.sh.nv>> \in {<<"SignerLog", "s0">>, <<"CandidateLog", "p0">>, <<"AssetCodeLog", "nilptr">>}
  /\ Coded(E) /\ HashStable(E) /\ ByteStable(E) /\ E.t0 # E.t1
  /\ UseDev("Dev_EmptyPayloadDecodedUntyped")
\* Address.Decode into a receiver that already holds an address keeps its leading bytes when the decoded
\* address starts with zero bytes; the low bytes are right
TDevStale ==
  /\ Ev("addr") /\ ~AddrOK(E) /\ "Dev_AddressDecodeKeepsStaleBytes" \in AllowedDev
  /\ E.sh \in AddressShapes /\ E.sh.recv = "dirty" /\ E.sh.lead > 0 /\ E.err = "ok"
  /\ Len(E.a1) = 20 /\ SubSeq(E.a1, E.sh.lead + 1, 20) = SubSeq(E.a0, E.sh.lead + 1, 20)
  /\ UseDev("Dev_AddressDecodeKeepsStaleBytes")
\* the JSON form replaces bytes that are not valid UTF-8 in Message/ToName: the RLP round trip is exact, the
\* JSON one yields another transaction (other hash, other recovered signers) - also for the sub-transactions of a box,
\* whose payload is JSON
TDevUtf8 ==
  /\ Ev("shape") /\ ~RowOK(E) /\ "Dev_JsonManglesInvalidUtf8" \in AllowedDev
  /\ InUniverse(E) /\ E.typ = "tx" /\ E.sh.text = "badutf8"
  /\ OuterOK(E) /\ E.j = "ok"
  /\ UseDev("Dev_JsonManglesInvalidUtf8")

TraceNext == TShape \/ TAddr \/ TReg \/ TDevUntyped \/ TDevStale \/ TDevUtf8
TraceSpec == l = 1 /\ [][TraceNext]_l
====
