SPECIFICATION Spec
CONSTANTS Keys <- Keys5
 Vals = {"s", "L"}
 Path <- McPath
 Variants <- VarQuick
 MaxOld = 0
 ReopenModes = {"same", "fresh", "restart"}
 Ticking = FALSE
 Merge = TRUE
INVARIANTS TypeOK InsertKeepsCanonical DeleteKeepsCanonical ReadsLastWritten RootBindsContent
CHECK_DEADLOCK FALSE
