SPECIFICATION Spec
CONSTANTS Keys <- Keys5
 Vals = {"s", "L"}
 Path <- McPath
 Kinds = {"plain", "secure"}
 Lims = {0, 1, 2}
 MaxOld = 0
 ReopenModes = {"same", "fresh", "restart"}
 Merge = TRUE
INVARIANTS TypeOK ShapeCanonical ReadsLastWritten RootBindsContent
CHECK_DEADLOCK FALSE
