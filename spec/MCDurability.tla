---- MODULE MCDurability ----
(* Model-checking instance of Durability: all constants are scalars set in the cfg files.
   MCDurability_quick / _thorough : all repair flags TRUE (the deviation-free design), every record "below" an
                                    alignment boundary (MaxEdge = 0) - every invariant must hold.
   MCDurability_len / len*_thorough : the same design with the length classes free: up to MaxEdge records of a
                                    behaviour sit on / above a 256-byte boundary, at every position of tmp.data and of
                                    the bitcask file - every invariant must hold.
   MCDurability_code              : all flags FALSE (what the code does)            - negative control.
   MCDurability_no<Flag>          : one flag FALSE                                  - negative control per finding.
   MCDurability_negStride*        : the recovery scan steps (end/256+1)*256 instead of FileUtilsAlign - negative controls
                                    of the length classes: a record "on" a boundary hides the next one (DurablyClosed,
                                    StableClosed) and leaves the append offset one slot too far (OffsetAtEnd).
   MCDurability_negAdvance        : BitCask.Put advances by len/256*256 - negative control: the record after one
                                    "above" a boundary overwrites its last slot. *)
EXTENDS Durability
====
