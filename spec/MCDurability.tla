---- MODULE MCDurability ----
(* Model-checking instance of Durability: all constants are scalars set in the cfg files.
   MCDurability_quick / _thorough : all repair flags TRUE (the deviation-free design) - every invariant must hold.
   MCDurability_code              : all flags FALSE (what the code does)            - negative control.
   MCDurability_no<Flag>          : one flag FALSE                                  - negative control per finding. *)
EXTENDS Durability
====
