SPECIFICATION Spec
CONSTANTS Addrs <- McAddrs
 InitStable <- McInitStable
 AddrN = 3
 Mixed = TRUE
 MaxBlocks = 3
 MaxWrites = 1
 MaxStable = 1
 MaxRestart = 1
 MaxReads = 1
 LeafOnly = TRUE
 MaxSlots = 1
 CanonSlots = TRUE
 Kinds = {"time"}
 IdentByHash = TRUE
INVARIANTS TypeOK ViewIsNearestWrite ForksIsolated PersistEqualsStableView
PROPERTIES PruneExact WriteLocal ReadPure AttrInert
CHECK_DEADLOCK FALSE
