SPECIFICATION Spec
CONSTANTS Ctx <- McCtx
 Init0 <- McInit
 Gas <- McGas
 Devs = {}
 Kinds = {"xfer", "vote", "reg", "topup", "unreg"}
 From = {"a1", "a2"}
 XTo = {"a1", "a2", "I"}
 XAmt = {100, 1000}
 Payers = {}
 Voters = {"a1", "a2", "I"}
 Cands = {"a3", "a4"}
 RegAmt = {50, 300}
 AFrom = {}
 ATo = {}
 AAmt = {}
 IAmt = {}
 ACodes = {}
 AIds = {}
 BGL = {}
 BoxFrom = {}
 BoxTo = {}
 BoxSeqs = {}
 SpendFrom = {}
 RewFrom = {}
 RewTerms = {}
 RewAmt = {}
 EmptyOK = FALSE
 MaxTx = 3
 MaxBlk = 2
 MaxTot = 3
VIEW View
INVARIANTS NonNegative Conservation DepositsBacked VotesAtBoundary SupplyEqualsEquity NothingForbiddenIncluded
PROPERTIES EndOfBlockIssuesTheReward GasWithinLimit NotIncludedIsFree OnlyOwnEquityDecreases SupplyChangesOnlyByIssuerOrHolder FrozenDoesNotMove
CHECK_DEADLOCK FALSE
