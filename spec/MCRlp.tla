---- MODULE MCRlp ----
(* C14 part 1, design side.  There are no transitions: TLC enumerates, as initial states,
     mode = "bytes": every byte string of length <= MaxLen over the boundary bytes of the RLP grammar,
     mode = "value": a universe of nested values (strings around the 1-byte and 55/56-byte
                     boundaries, lists of depth <= 2),
   and checks the clauses of Rlp.tla on each.  The dumped state graph is the work list of the Go
   driver, which evaluates the REAL codec on the very same strings and values. *)
EXTENDS Rlp, TLC
CONSTANTS MaxLen
VARIABLES mode, x
vars == <<mode, x>>

Boundary == {0, 1, 127, 128, 129, 183, 184, 185, 191, 192, 193, 247, 248, 255}
Seqs(S, n) == UNION {[1..k -> S] : k \in 0..n}
ByteStrings == Seqs(Boundary, MaxLen)

Fill(n, c) == [i \in 1..n |-> c]
V0 == {Str(<<>>), Str(<<0>>), Str(<<127>>), Str(<<128>>), Str(<<1, 2>>), Str(Fill(55, 7)), Str(Fill(56, 200))}
V1 == V0 \cup {Lst(s) : s \in Seqs(V0, 2)}
V2 == V1 \cup {Lst(s) : s \in Seqs(V1, 2)}

Init == \/ mode = "bytes" /\ x \in ByteStrings
        \/ mode = "value" /\ x \in V2
Next == UNCHANGED vars
Spec == Init /\ [][Next]_vars

InvDecEnc     == mode = "value" => DecEnc(x)
InvEncDec     == mode = "bytes" => EncDec(x)
InvIntCanon   == mode = "bytes" => IntCanon(x)
InvScanAgrees == mode = "bytes" => ScanAgrees(x)
\* vacuity guards: the enumeration reaches accepted strings of every kind, and rejected ones
InvTypeOK     == mode = "bytes" => Decode(x).k \in {"str", "list", "err"}
====
