---- MODULE TracePoolFork ----
(* Monitor for the fork-switch clause of C18 on a real engine.  The harness logs the universe once (reset: parent,
   transactions and time of every block, expiration of every transaction, all relative to genesis time) and after
   every InsertBlock / InsertConfirms the chain state the real node is in (head, stable block) and the pool content:
   GetTxs at `now`, the latest block time the node has seen, with a size larger than the universe.  The monitor
   ADOPTS the logged chain state (which block becomes head or stable is C03's business, it only has to be a
   well-formed state of the logged tree) and JUDGES the pool by the two bounds of the clause - whether the head moved
   by extension, by a fork switch to the delivered block or to another stored leaf, by a fork switch forced by a
   stable change (own fork cut), with or without the guard having been pruned by time:
     UPPER  no duplicates; only transactions the node was ever given (seen: submitted to the pool before the run, logged
            at reset, or carried by a block it accepted since, on whatever fork), not expired at `now`, and NONE that
            are on the (new) head's chain;
     LOWER  every transaction that was pending after the previous call (pend) or lies in a block of the OLD head's
            branch back to the common ancestor with the new head (the abandoned fork) is pending, unless it is on the
            new head's chain or expired at `now`.
   A transaction known only from side blocks that were never on the head's branch and never pending may be pending or
   not: the clause does not demand it. *)
EXTENDS TraceBase
VARIABLES parent, txs, time, exp, all, known, stable, head, now, seen, pend
pvars == <<parent, txs, time, exp, all, known, stable, head, now, seen, pend, l>>
G == 0
RECURSIVE Anc(_)
Anc(b) == IF b = G THEN {G} ELSE {b} \cup Anc(parent[b])
H(b) == Cardinality(Anc(b)) - 1
OnChain(b) == UNION {ToSet(txs[x]) : x \in Anc(b) \ {G}}
Live(n) == {t \in all : exp[t] >= n}                                      \* TxPool: expired iff Expiration < time
Prune(kn, st) == {b \in kn : b \in Anc(st) \/ st \in Anc(b)}               \* SetStableBlock drops the other forks
TxsOfBlocks(S) == UNION {ToSet(txs[x]) : x \in S \ {G}}
\* oh: the head before the call, hd: after; sn: seen; pp: pending before the call; pl: the pool as handed out now
Judge(oh, hd, nw, sn, pp, pl) ==
  /\ Len(pl) = Cardinality(ToSet(pl))                       \* no duplicates handed out
  /\ ToSet(pl) \subseteq sn \cap Live(nw)                   \* nothing expired, nothing the node was never given
  /\ ToSet(pl) \cap OnChain(hd) = {}                        \* none that are on the (new) current fork
  /\ ((pp \cup TxsOfBlocks(Anc(oh) \ Anc(hd))) \cap Live(nw)) \ OnChain(hd) \subseteq ToSet(pl)
                                                            \* the abandoned fork's transactions are pending, nothing pending was lost
\* the logged chain state is a state of the logged tree: stable moved forward along known blocks, head on top of it
Adopt(kn, st, hd) ==
  /\ st \in kn /\ stable \in Anc(st)
  /\ hd \in Prune(kn, st) /\ st \in Anc(hd)
  /\ known' = Prune(kn, st) /\ stable' = st /\ head' = hd
TReset == /\ Ev("reset")
          /\ parent' = E.parent /\ txs' = E.txs /\ time' = E.time /\ exp' = E.exp /\ all' = ToSet(E.all)
          /\ known' = {G} /\ stable' = G /\ head' = G /\ now' = E.now
          /\ E.now = 0
          /\ ToSet(E.pend) \subseteq ToSet(E.all)
          /\ ToSet(E.pool) = ToSet(E.pend) /\ Len(E.pool) = Len(E.pend)   \* what was submitted is pending and alive at genesis time
          /\ seen' = ToSet(E.pend) /\ pend' = ToSet(E.pool)
          /\ \A t \in ToSet(E.all) : E.exp[t] >= 0
TInsert == /\ Ev("InsertBlock")
           /\ LET b == E.a[1] IN
              /\ b \in 1..Len(parent)
              /\ E.ok <=> (b \notin known /\ parent[b] \in known /\ H(b) > H(stable))
              /\ IF E.ok THEN Adopt(known \cup {b}, E.stable, E.head) /\ E.now >= now /\ E.now >= time[b]
                         ELSE Adopt(known, E.stable, E.head) /\ E.now = now
              /\ now' = E.now
              /\ seen' = IF E.ok THEN seen \cup ToSet(txs[b]) ELSE seen
              /\ Judge(head, E.head, E.now, seen', pend, E.pool)
              /\ pend' = ToSet(E.pool)
           /\ UNCHANGED <<parent, txs, time, exp, all>>
\* a confirm packet: accepted or not, the stable block may move and cut the current fork
TConfirm == /\ Ev("InsertConfirms")
            /\ E.a[1] \in known
            /\ Adopt(known, E.stable, E.head)
            /\ E.now = now
            /\ Judge(head, E.head, E.now, seen, pend, E.pool)
            /\ pend' = ToSet(E.pool)
            /\ UNCHANGED <<parent, txs, time, exp, all, now, seen>>
TraceNext == TReset \/ TInsert \/ TConfirm
TraceSpec == /\ l = 1 /\ parent = <<>> /\ txs = <<>> /\ time = <<>> /\ exp = <<>> /\ all = {}
             /\ known = {G} /\ stable = G /\ head = G /\ now = 0 /\ seen = {} /\ pend = {}
             /\ [][TraceNext]_pvars
====
