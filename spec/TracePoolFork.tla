---- MODULE TracePoolFork ----
(* Monitor for the fork-switch clause of C18 on a real engine: after every InsertBlock the harness logs the head and
   the pool content (GetTxs with a size larger than the universe); the pool must hold exactly the universe's
   transactions that are not on the head's chain. *)
EXTENDS TraceBase
VARIABLES parent, txs, all, known, head
pvars == <<parent, txs, all, known, head, l>>
G == 0
RECURSIVE Anc(_)
Anc(b) == IF b = G THEN {G} ELSE {b} \cup Anc(parent[b])
OnChain(b) == UNION {ToSet(txs[x]) : x \in Anc(b) \ {G}}
TReset == /\ Ev("reset")
          /\ parent' = E.parent /\ txs' = E.txs /\ all' = ToSet(E.all)
          /\ ToSet(E.pool) = ToSet(E.all)
          /\ known' = {G} /\ head' = G
TInsert == /\ Ev("InsertBlock")
           /\ LET b == E.a[1] IN
              /\ E.ok /\ b \notin known /\ parent[b] \in known
              /\ E.head \in known \cup {b}
              /\ Len(E.pool) = Cardinality(ToSet(E.pool))                \* no duplicates handed out
              /\ ToSet(E.pool) \cap OnChain(E.head) = {}                 \* none that are on the (new) current fork
              /\ all \ OnChain(E.head) \subseteq ToSet(E.pool)           \* the abandoned fork's transactions are back
              /\ ToSet(E.pool) \subseteq all
              /\ known' = known \cup {b} /\ head' = E.head
           /\ UNCHANGED <<parent, txs, all>>
TraceNext == TReset \/ TInsert
TraceSpec == l = 1 /\ parent = <<>> /\ txs = <<>> /\ all = {} /\ known = {G} /\ head = G /\ [][TraceNext]_pvars
====
