---- MODULE TraceLedger ----
(* C05 / C11 / C12 as a monitor over what the REAL block assembler, processor and validator did (adapter `ledger`).
   Every event is one real block mined on the committed parent: the transactions of the block under construction
   up to and including the one the spec action names (EndBlock: the same block after a second real node verified
   and executed it through DPoVP.InsertBlock; its state is read from that node).  Logged per block: for every
   transaction whether it was packaged, gasUsed, gas limit / price, payer; the state of the whole address universe
   at the block - the state at its parent is the committed state `cur` logged before (every address named in block.ChangeLogs is inside the universe, the adapter fails
   otherwise).  Amounts are in units of 10^15 mo, exact (a remainder is listed in `inexact`, which must be empty).
   The state also carries the block height, the term / interim durations in force, what the reward precompile has stored
   and the node's candidate index; the reset event names the deputies (by account) and the paid nodes of every term the
   setup chain has elected.  With these the block at height cur.h + 1 is an ordinary, an interim or a REWARD block.

   The monitor adopts the logged state, gasUsed and packaging decisions and demands what the property says, using
   the ledger semantics of LedgerOps (model-checked in Ledger.tla):
     C05  every balance = balance at the parent - fees paid as gas payer (gasUsed x gasPrice) - amounts sent by
          packaged, successful transactions + amounts received (+ the block's fees for the income address; in a
          reward block + the term reward shares and + / - the deferred deposit refunds);
          the sum changes by issuance (the term reward actually divided) - burns only; the deposit pool keeps holding
          exactly the recorded deposits; gasUsed <= gasLimit; header gasUsed = sum; no negative balance;
          a discarded transaction costs nothing.
     C11  votes[c] = deposit votes + current voters' balance votes for registered candidates, else 0, never negative
          - at the end of EVERY block, reward blocks (reward issue, refunds, then the vote pass) included; the votes the
          node's candidate ranking records for a listed candidate are the votes of its account (RankOK).
     C12  per asset code and asset id (all three categories; the reset event names every code's category, flags and
          issuer; the state carries supply / freeze per code, every holder's equity per id - only non-zero ones are
          logged - and the code recorded with each id): equity / supply move only as issuer issue / replenish, holder
          transfer / destroy of an owned non-negative amount while the code is not frozen (an indivisible id as a
          whole); a contract that self-destructs keeps what it holds; supply = sum of equities (indivisible: number
          of ids still held); nothing negative.
   The header of a block may name a small gas limit (event GasLimit; logged with every block as bgl): a candidate that
   does not fit is neither packaged nor discarded by the miner - for the monitor it is simply not packaged and must
   have cost nothing.
   Check selects the clauses of the property under test.  Known defects are accepted only when listed (AllowedDev),
   only where the correct clause fails, and only if the logged state is exactly what the deviation predicts. *)
EXTENDS TraceBase, LedgerOps
CONSTANTS AllowedDev, Check
VARIABLES c, cur, split     \* split: the validator refused a block of this behaviour under a listed deviation
mvars == <<c, cur, split, l>>

RECURSIVE GasOK(_, _)
GasOK(q, i) == IF i > Len(q) THEN TRUE
               ELSE /\ IF q[i].inc THEN q[i].gu <= q[i].gl /\ q[i].gu >= 0 ELSE q[i].gu = 0
                    /\ GasOK(q[i].subs, 1)
                    /\ GasOK(q, i + 1)
RECURSIVE GasSum(_, _)
GasSum(q, i) == IF i > Len(q) THEN 0 ELSE (IF q[i].inc THEN q[i].gu ELSE 0) + GasSum(q, i + 1)

\* equity is logged sparsely (holders with a non-zero equity under an id)
Norm(s) == [s EXCEPT !.eq = [i \in DOMAIN s.eq |-> [a \in DOMAIN s.bal |-> IF a \in DOMAIN s.eq[i] THEN s.eq[i][a] ELSE 0]]]
X(e, dv) == Block(c, dv, cur, e.txs)    \* every block of a behaviour is mined on the committed parent, whose state is cur
Has(k) == k \in AllowedDev

(* ---------------------------------------------------------------- C05 *)
C05Common(e) == /\ NonNegBal(e.post) /\ GasOK(e.txs, 1) /\ e.hgu = GasSum(e.txs, 1)
                /\ PoolSurplus(c, e.post) = PoolSurplus(c, cur)     \* no scenario sends LEMO to the pool directly
C05OK(e) == LET x == X(e, {}) IN
            /\ C05Common(e) /\ e.post.bal = x.s.bal
            /\ Total(e.post.bal) - Total(cur.bal) = x.rew - x.burn
C05Dev(e) == LET k == "Dev_BoxSubGasMinted" IN
             /\ Has(k) /\ ~C05OK(e) /\ C05Common(e) /\ e.post.bal = X(e, {k}).s.bal /\ UseDev(k)
(* ---------------------------------------------------------------- C11 *)
\* Where the monitor predicts votes (below) it does so on the REAL balances: the model run the prediction is read from must
\* reproduce the logged balances - as they should be or, where a box was packaged, as C05's known defect Dev_BoxSubGasMinted
\* leaves the income account (balances are judged by C05, not here; the income account is a voter too).
BalDevs == {{}, {"Dev_BoxSubGasMinted"}}
\* The node keeps a second record of every candidate's votes: the candidate RANKING of the block (the list the election
\* of the next term reads; store.GetCandidatesTop), maintained from the votes change logs of the blocks.  Whoever is listed
\* there is listed with exactly the votes of its account (who must be listed is C10's subject).
RankOK(s) == \A x \in DOMAIN s.rank : s.rank[x] = s.votes[x]
C11Votes(e) == IF VotesOK(c, cur) THEN VotesOK(c, e.post)
               ELSE (\E bd \in BalDevs : LET x == X(e, bd) IN               \* after an accepted deviation: the block itself must still be right
                                            e.post.bal = x.s.bal /\ e.post.votes = x.s.votes) = TRUE
C11OK(e) == RankOK(e.post) /\ C11Votes(e)
C11Dev(e) == LET k == "Dev_VoteUsesPreTxBalance" IN
             /\ Has(k) /\ ~C11OK(e) /\ RankOK(e.post)
             /\ (\E bd \in BalDevs : LET x == X(e, bd \cup {k})  y == X(e, bd) IN
                                       e.post.bal = x.s.bal /\ e.post.votes = x.s.votes /\ y.s.votes # x.s.votes) = TRUE
             /\ UseDev(k)
(* ---------------------------------------------------------------- C12 *)
C12With(e, x) == LET p == Norm(e.post) IN
                 /\ p.eq = x.s.eq /\ p.sup = x.s.sup /\ p.frz = x.s.frz /\ p.idc = x.s.idc /\ ~x.bad /\ SupplyOK(c, p)
C12OK(e) == C12With(e, X(e, {}))
C12Dev(e) == LET k == "Dev_NegativeAssetTransfer" IN Has(k) /\ ~C12OK(e) /\ C12With(e, X(e, {k})) /\ UseDev(k)

Judge(e) == /\ e.inexact = <<>> /\ e.post.h = cur.h + 1 /\ e.post.T = cur.T /\ e.post.I = cur.I
            /\ CASE Check = "C05" -> C05OK(e) \/ C05Dev(e)
                 [] Check = "C11" -> C11OK(e) \/ C11Dev(e)
                 [] Check = "C12" -> C12OK(e) \/ C12Dev(e)

TReset == /\ Ev("reset") /\ E.inexact = <<>>
          /\ c' = [V |-> E.V, D |-> E.D, mindep |-> E.mindep, income |-> E.income, pool |-> E.pool, zero |-> E.zero,
                   issuer |-> E.issuer, rev |-> ToSet(E.rev), sink |-> ToSet(E.sink), burn |-> ToSet(E.burn), back |-> ToSet(E.back),
                   deps |-> [k \in 1..Len(E.deps) |-> ToSet(E.deps[k])], payees |-> E.payees,
                   prec |-> E.prec, rm |-> E.rm, rc |-> E.rc, rpool |-> E.rpool, assets |-> E.assets]
          /\ cur' = Norm(E.st) /\ split' = FALSE
          /\ NonNegBal(E.st) /\ VotesOK(c', E.st) /\ SupplyOK(c', cur') /\ (Check = "C11" => RankOK(E.st))
TxEvents == {"Transfer", "Vote", "VoteBy", "SpendAll", "MixedBox", "Register", "TopUp", "Unregister", "SetReward", "Issue", "Replenish", "AssetTransfer", "Freeze", "Box"}
TTx == /\ \E n \in TxEvents : Ev(n)
       /\ Judge(E) /\ UNCHANGED <<c, cur, split>>
\* Known defect, third face: a DISCARDED negative transfer to an account that does not hold the asset leaves a trace in
\* the miner's account manager (the equity change log is pushed before the negative value fails to encode); the block
\* the miner then seals carries change logs the validator cannot reproduce and is refused ("changeLogs is incorrect").
NegDiscarded(q) == \E i \in 1..Len(q) : q[i].k = "axfer" /\ q[i].amt < 0 /\ ~q[i].inc
\* Known defect of the account tries (same family): a box that the miner GIVES UP (a later sub transaction is invalid) after
\* an earlier sub transaction wrote a FIRST entry into a trie of an account - asset equity / asset id metadata of somebody
\* who never held that id - leaves the hash of the EMPTY trie instead of the zero hash as that trie's root in the miner's
\* account manager; when a later transaction of the block changes that account in any other way, the sealed block carries a
\* root change log the validator cannot reproduce and is refused ("changeLogs is incorrect").
GivenUpAssetBox(q) == \E i \in 1..Len(q) : /\ q[i].k = "box" /\ ~q[i].inc /\ ~q[i].left
                                           /\ \E j \in 1..Len(q[i].subs) : q[i].subs[j].k \in {"axfer", "issue", "repl"}
TEnd == /\ Ev("EndBlock")
        /\ \/ E.vok /\ split' = split      \* the block the real miner sealed is accepted and executed by the real validator
           \/ /\ ~E.vok /\ split /\ split' = split              \* its parent was refused before
           \/ /\ ~E.vok /\ ~split /\ Check = "C12" /\ Has("Dev_NegativeAssetTransferSplitsMinerValidator") /\ NegDiscarded(E.txs)
              /\ UseDev("Dev_NegativeAssetTransferSplitsMinerValidator") /\ split' = TRUE
           \/ /\ ~E.vok /\ ~split /\ Check = "C12" /\ Has("Dev_RevertedFirstEntrySplitsMinerValidator") /\ GivenUpAssetBox(E.txs)
              /\ (Has("Dev_NegativeAssetTransferSplitsMinerValidator") => ~NegDiscarded(E.txs))   \* (that one is repaired: a discarded negative transfer explains nothing any more)
              /\ UseDev("Dev_RevertedFirstEntrySplitsMinerValidator") /\ split' = TRUE
        /\ Judge(E) /\ cur' = Norm(E.post) /\ UNCHANGED c
\* Known defect, second face: a negative transferAmount to an account that does not hold the asset yet makes the
\* processor PANIC while mining (the negative equity cannot be RLP-encoded, the revert then trips over the first-equity
\* change log).  TraceBase.Ev never consumes a panic line; this action does, only for exactly that input and only if listed.
TNegPanic == /\ l <= Len(Trace) /\ Trace[l].ev = "AssetTransfer" /\ "panic" \in DOMAIN Trace[l] /\ l' = l + 1
             /\ Check = "C12" /\ Has("Dev_NegativeAssetTransferPanics") /\ Trace[l].a[3] < 0
             /\ UseDev("Dev_NegativeAssetTransferPanics") /\ UNCHANGED <<c, cur, split>>
\* Known defect of the change journal (C07 Dev_UndoFirstEquityPanics) reached through a transaction: an asset transfer to a
\* contract whose code fails, when the contract does not hold that asset yet, makes the processor PANIC in the revert.
TRevPanic == /\ l <= Len(Trace) /\ Trace[l].ev = "AssetTransfer" /\ "panic" \in DOMAIN Trace[l] /\ l' = l + 1
             /\ Check = "C12" /\ Has("Dev_AssetToFailingContractPanics") /\ Trace[l].a[2] \in c.rev /\ Trace[l].a[3] >= 0
             /\ UseDev("Dev_AssetToFailingContractPanics") /\ UNCHANGED <<c, cur, split>>
\* the header of the block under construction names a gas limit: nothing is mined yet
TGas == Ev("GasLimit") /\ UNCHANGED <<c, cur, split>>
TraceNext == TReset \/ TTx \/ TGas \/ TEnd \/ TNegPanic \/ TRevPanic
TraceSpec == l = 1 /\ c = <<>> /\ cur = <<>> /\ split = FALSE /\ [][TraceNext]_mvars
====
