---- MODULE TraceNetwork ----
(* Monitor for runs of SEVERAL real nodes (one OS process each) driven by behaviours of Network.tla: after every delivery
   the receiving node reports its stable block and head.  Checked on the real nodes: every node's stable block only moves
   to descendants, and - the system-level question - any two nodes' stable blocks are on one branch (Agreement). *)
EXTENDS TraceBase
VARIABLES parent, nd, stable
nvars == <<parent, nd, stable, l>>
G == 0
RECURSIVE Anc(_)
Anc(b) == IF b = G THEN {G} ELSE {b} \cup Anc(parent[b])
Compatible(a, b) == a \in Anc(b) \/ b \in Anc(a)
Agreement(st) == \A m, n \in 1..nd : Compatible(st[m], st[n])
TReset == Ev("reset") /\ parent' = E.parent /\ nd' = E.nd /\ stable' = [n \in 1..E.nd |-> G]
TStep == /\ Ev("Receive") \/ Ev("Confirms") \/ Ev("SReceive")
         /\ LET n == E.a[1] IN
            /\ E.stable # -1
            /\ stable[n] \in Anc(E.stable)                               \* node-local: forward only (C03)
            /\ stable' = [stable EXCEPT ![n] = E.stable]
         /\ UNCHANGED <<parent, nd>>
TraceNext == TReset \/ TStep
TraceSpec == l = 1 /\ parent = <<>> /\ nd = 0 /\ stable = <<>> /\ [][TraceNext]_nvars
AgreementInv == nd > 0 => Agreement(stable)
====
