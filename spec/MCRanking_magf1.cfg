SPECIFICATION Spec
CONSTANTS NC = 2
 K = 1
 MaxVotes = 2
 MaxLive = 3
 MaxSteps = 0
 RestartAnywhere = FALSE
 Touch = {0}
 VMaps = {@VMAPS@}
 Persist = TRUE
 MaxChg = 1
 Dev = {}
INVARIANTS TypeOK TopIsFullSort FileOK
PROPERTIES RestartKeepsTop
CHECK_DEADLOCK FALSE
