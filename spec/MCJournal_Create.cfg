SPECIFICATION Spec
CONSTANTS Acct <- AcctCU
 KindsOf <- KindsCreate
 BaseSet <- BaseCreate
 MaxSteps = 6
 MaxSnap = 1
 MaxRevs = 1
 MaxOuter = 1
 MaxInner = 2
 WithSeal = TRUE
 FreeVals = FALSE
 Dv <- NoDev
INVARIANTS UndoMatchesSaved NoPanic RevsOK DiscardAllIsBase RedoEqualsExec NoTraceOfReverted SaveSucceeds
CHECK_DEADLOCK FALSE
