SPECIFICATION Spec
CONSTANTS NB = 1
 Kind <- McKind
 Subs <- McSubs
 Blk <- McBlk1
 SideH = 0
 SideTxs <- McNoSide
 Palette <- McInvalid
 MaxLen = 2
 RaceLen = 0
 BugBatchAny = FALSE
 BugAddAfterInsert = FALSE
 BugStaleSubIndex = FALSE
 BugBatchAbort = FALSE
INVARIANTS TypeOK ChainLinear Converges TxReachesPool PeerKept PoolClean PoolOnce PoolValid
CHECK_DEADLOCK FALSE
