SPECIFICATION TraceSpec
CONSTANTS AllowedDev = @ALLOWED_DEV@
 Check = "@CHECK@"
CONSTRAINT HW
POSTCONDITION Accepted
CHECK_DEADLOCK FALSE
