SPECIFICATION Spec
CONSTANTS NB = 2
 MaxCrash = 2
 RepairTornTail = TRUE
 RepairAtomicContext = TRUE
 RepairScanPromotes = FALSE
INVARIANTS AccountsExact
CHECK_DEADLOCK FALSE
