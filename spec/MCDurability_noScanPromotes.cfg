SPECIFICATION Spec
CONSTANTS NB = 2
 MaxCrash = 2
 RepairTornTail = TRUE
 RepairAtomicContext = TRUE
 MaxEdge = 0
 ScanStride = "align"
 CaskAdvance = "align"
 RepairScanPromotes = FALSE
INVARIANTS AccountsExact
CHECK_DEADLOCK FALSE
