SPECIFICATION Spec
CONSTANTS MaxCands = 2
 MaxBlocks = 2
INVARIANT Deterministic
CHECK_DEADLOCK FALSE
