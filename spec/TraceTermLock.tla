---- MODULE TraceTermLock ----
(* The real deputynode.Manager under concurrent readers and a writer that overwrites term 1 with alternating versions
   (driver term-lock).  TermLock.tla: every query answers from one saved version (ReadsASavedVersion: bad = 0) and nobody
   waits for ever (NoHang: the watchdog saw progress until all saves were done). *)
EXTENDS TraceBase
VARIABLE n
TRun == Ev("TermLock") /\ E.bad = 0 /\ ~E.hang /\ E.calls > 0 /\ n' = n + 1
TraceNext == TRun
TraceSpec == l = 1 /\ n = 0 /\ [][TraceNext]_<<l, n>>
====
