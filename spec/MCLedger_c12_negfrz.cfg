SPECIFICATION Spec
CONSTANTS Ctx <- McCtx
 Init0 <- McInit
 Gas <- McGas
 Devs = {"Mut_FreezeLookupById"}
 Kinds = {"issue", "repl", "axfer", "freeze", "unfreeze", "xfer"}
 From = {"a1"}
 XTo = {"KO", "KD"}
 XAmt = {100}
 Payers = {}
 Voters = {}
 Cands = {}
 RegAmt = {}
 AFrom = {"a1", "a4"}
 ATo = {"a2", "Z", "KO"}
 AAmt <- McAAmtC
 IAmt <- McIAmtC
 ACodes = {"N", "C", "G"}
 AIds = {"N1", "C1", "G1", "X1"}
 BGL = {}
 BoxFrom = {}
 BoxTo = {}
 BoxSeqs = {}
 SpendFrom = {}
 RewFrom = {}
 RewTerms = {}
 RewAmt = {}
 EmptyOK = FALSE
 MaxTx = 2
 MaxBlk = 2
 MaxTot = 2
VIEW View
INVARIANTS NonNegative Conservation DepositsBacked VotesAtBoundary SupplyEqualsEquity NothingForbiddenIncluded
PROPERTIES EndOfBlockIssuesTheReward GasWithinLimit NotIncludedIsFree OnlyOwnEquityDecreases SupplyChangesOnlyByIssuerOrHolder FrozenDoesNotMove
CHECK_DEADLOCK FALSE
