---- MODULE Consensus ----
(* The node-local DPoVP engine: chain/consensus/{dpovp,stable_manager,fork_manager,confirmer,validator}.go over
   store.ChainDatabase's unconfirmed tree.  One action per engine entry point (each runs under chainLock).
   Blocks are 1..NB with parent[b] < b (G = 0 is genesis); a smaller hrank stands for a smaller hash.
   A signature is <<signer, variant>>: variant 1 is the s -> n-s re-encoding of the same signer's signature
   (different bytes, same recovered node); signer ND+1 is a key that is not a deputy.
   conf[b] is the set of DISTINCT DEPUTIES (other than the miner) whose confirm is stored with b - the
   property counts nodes, not byte strings. *)
EXTENDS Naturals, FiniteSets, TLC
CONSTANTS NB, ND, Self,         \* Self \in 1..ND (a deputy) or 0 (observer)
          Packets               \* the confirm packets (sets of signatures) that may be delivered
Block == 1..NB
G == 0
Dep == 1..ND
Outsider == ND + 1
Q == (2 * ND + 2) \div 3        \* ceil(2n/3): IsConfirmEnough / TwoThirdDeputyCount
VARIABLES parent, miner, hrank, \* the block universe (chosen once in Init)
          known,                \* blocks in the store (stable chain + unconfirmed tree)
          conf, stable, head, lastSig
vars == <<parent, miner, hrank, known, conf, stable, head, lastSig>>
RECURSIVE Anc(_)
Anc(b) == IF b = G THEN {G} ELSE {b} \cup Anc(parent[b])
H(b) == Cardinality(Anc(b)) - 1
Signers(sg) == {s[1] : s \in sg}
Unconf(kn, st) == {b \in kn : st \in Anc(b) /\ b # st}
Enough(b, c) == Cardinality(c[b] \cup {miner[b]}) >= Q
Best(S, dflt) == IF S = {} THEN dflt
                 ELSE CHOOSE x \in S : \A y \in S : H(x) > H(y) \/ (H(x) = H(y) /\ hrank[x] <= hrank[y])   \* ChooseNewFork
Prune(kn, st) == {b \in kn : b \in Anc(st) \/ st \in Anc(b)}                                              \* SetStableBlock
Init == /\ parent \in {f \in [Block -> Block \cup {G}] : \A b \in Block : f[b] < b}
        /\ miner \in [Block -> Dep]
        /\ hrank = [b \in Block |-> b]
        /\ known = {G} /\ conf = [b \in Block |-> {}] /\ stable = G /\ head = G /\ lastSig = G
\* Confirmer.needConfirm (the voting lock)
NeedConfirm(b, c) ==
  LET L == IF H(lastSig) <= H(stable) THEN stable ELSE lastSig IN
  /\ Self \in Dep /\ ~Enough(b, c)
  /\ (parent[b] = L \/ H(b) > H(L) + Q)
NewStable(b, c) == IF H(b) > H(stable) /\ Enough(b, c) THEN b ELSE stable                                 \* StableManager.UpdateStable
\* ForkManager.UpdateFork
NewHead(b, kn, st) ==
  LET un == Unconf(kn, st) IN
  IF head \notin un THEN Best(un, st)
  ELSE IF parent[b] = head THEN b
  ELSE LET cand == Best(un, st) IN
       IF H(cand) > H(head) /\ (H(cand) - H(st)) % Q = 0 THEN cand ELSE head
Insertable(b) == /\ b \notin known /\ H(b) > H(stable)                       \* isIgnorableBlock
                 /\ parent[b] \in Unconf(known, stable) \cup {stable}       \* parent in the store and not pruned
InsertBlock(b, sg) ==
  /\ Insertable(b)
  /\ LET valid == (Signers(sg) \cap Dep) \ {miner[b]}       \* VerifyNewConfirms: deputies only, distinct nodes, not the miner
         c1 == [conf EXCEPT ![b] = valid]
         sign == NeedConfirm(b, c1) /\ Self # miner[b]
         c2 == IF sign THEN [c1 EXCEPT ![b] = @ \cup {Self}] ELSE c1
         st2 == NewStable(b, c2)
         kn2 == Prune(known \cup {b}, st2)
     IN /\ conf' = c2 /\ stable' = st2 /\ known' = kn2
        /\ head' = NewHead(b, kn2, st2)
        /\ lastSig' = IF (sign \/ Self = miner[b]) /\ H(b) > H(lastSig) THEN b ELSE lastSig
  /\ UNCHANGED <<parent, miner, hrank>>
\* a block that is known, not above the stable block, or whose parent is missing/pruned: refused, nothing changes (C02)
RejectBlock(b, sg) == ~Insertable(b) /\ UNCHANGED vars
InsertConfirms(b, sg) ==
  /\ b \in known \ {G} /\ ~Enough(b, conf)
  /\ LET new == ((Signers(sg) \cap Dep) \ {miner[b]}) \ conf[b] IN
     /\ new # {}
     /\ LET c2 == [conf EXCEPT ![b] = @ \cup new]
            st2 == NewStable(b, c2)
            kn2 == Prune(known, st2)
            un == Unconf(kn2, st2)
        IN /\ conf' = c2 /\ stable' = st2 /\ known' = kn2
           /\ head' = IF head \notin un THEN Best(un, st2) ELSE head                                      \* UpdateForkForConfirm
  /\ UNCHANGED <<parent, miner, hrank, lastSig>>
\* the same deliveries with every signature of the packet relayed twice (byte-identical duplicates inside one list)
InsertBlockDup(b, sg) == sg # {} /\ InsertBlock(b, sg)
InsertConfirmsDup(b, sg) == InsertConfirms(b, sg)
\* confirms that bring nothing new (unknown block, enough already, duplicates, non-deputies, the miner itself)
IgnoreConfirms(b, sg) ==
  /\ (b \notin known \ {G} \/ Enough(b, conf) \/ ((Signers(sg) \cap Dep) \ {miner[b]}) \ conf[b] = {})
  /\ UNCHANGED vars
Next == \/ \E b \in Block, sg \in Packets \cup {{}} : InsertBlock(b, sg)
        \/ \E b \in Block, sg \in Packets : InsertBlockDup(b, sg)
        \/ \E b \in Block, sg \in Packets : InsertConfirmsDup(b, sg)
        \/ \E b \in Block : RejectBlock(b, {})
        \/ \E b \in Block, sg \in Packets : InsertConfirms(b, sg)
        \/ \E b \in Block, sg \in Packets : IgnoreConfirms(b, sg)
Spec == Init /\ [][Next]_vars
\* ---- C03 ----
QuorumOK == stable # G => Cardinality(conf[stable] \cup {miner[stable]}) >= Q
HeadOK == stable \in Anc(head) /\ head \in known
TreeOK == \A b \in known : b \in Anc(stable) \/ stable \in Anc(b)
StableChainKept == Anc(stable) \subseteq known
StableForwardStep == stable \in Anc(stable')
StableForward == [][StableForwardStep]_vars
====
