---- MODULE Consensus ----
(* The node-local DPoVP engine: chain/consensus/{dpovp,stable_manager,fork_manager,confirmer,validator}.go over
   store.ChainDatabase's unconfirmed tree.  One action per engine entry point (each runs under chainLock).
   Blocks are 1..NB with parent[b] < b (G = 0 is genesis, or the tip of a stabilised prefix of PL blocks); a smaller
   hrank stands for a smaller hash.
   A signature is <<signer, variant>>: variant 1 is the s -> n-s re-encoding of the same signer's signature
   (different bytes, same recovered node); signer Outsider is a key that is a deputy of no term.
   conf[b] is the set of DISTINCT DEPUTIES (other than the miner) whose confirm is stored with b - the
   property counts nodes, not byte strings.

   TERMS.  The deputies that sign a block are those OF THE BLOCK'S TERM: DepAt(h) / QAt(h) are functions of the
   block's height (deputynode.Manager.GetDeputiesByHeight(h, true) / TwoThirdDeputyCount(h)).  Heights below
   TermStart (= TermDuration + InterimDuration + 1) are signed by the genesis deputies DepOld = 1..ND, heights from
   TermStart on by DepNew, the set elected by the snapshot block at height SnapHeight (= TermDuration); a node knows
   DepNew once that snapshot block is stable on it.  The defaults below describe a universe with one term; the
   term configurations override DepNew, TermStart, SnapHeight and PL (cfg: X <- McX) so that the boundary lies
   inside the block universe: G is then the last block of a fixed stabilised prefix (heights 1..PL) and the explored
   tree consists of the last block(s) of the old term and the first blocks of the new one.  For a LATER term change
   (k -> k+1, k >= 1: TermStart = (k+1)*TermDuration + InterimDuration + 1) DepOld is overridden as well: the earlier
   changes then lie inside the prefix and a former deputy (of neither term) may still sign packets. *)
EXTENDS Naturals, FiniteSets, TLC
CONSTANTS NB, ND, Self,         \* Self: an identity (a deputy of some term) or 0 (observer)
          Packets               \* the confirm packets (sets of signatures) that may be delivered
Block == 1..NB
G == 0
DepOld == 1..ND                 \* the term before the boundary (default: the genesis term)
DepNew == DepOld                \* the term after the boundary (overridden: differs in membership and size)
TermStart == 1                  \* first height signed by DepNew
SnapHeight == 0                 \* height of the snapshot block electing DepNew
PL == 0                         \* height of G
MinerPool == DepOld \cup DepNew  \* the nodes that mine blocks of the universe (a term configuration may pick one node per class)
Ident == DepOld \cup DepNew     \* every node that is a deputy of some term
Outsider == (CHOOSE m \in Ident : \A x \in Ident : x <= m) + 1
DepAt(h) == IF h < TermStart THEN DepOld ELSE DepNew
QAt(h) == (2 * Cardinality(DepAt(h)) + 2) \div 3       \* ceil(2n/3): IsConfirmEnough / TwoThirdDeputyCount(height)
VARIABLES parent, miner, hrank, \* the block universe (chosen once in Init)
          known,                \* blocks in the store (stable chain + unconfirmed tree)
          conf, stable, head, lastSig
vars == <<parent, miner, hrank, known, conf, stable, head, lastSig>>
RECURSIVE Anc(_)
Anc(b) == IF b = G THEN {G} ELSE {b} \cup Anc(parent[b])
H(b) == PL + Cardinality(Anc(b)) - 1
Signers(sg) == {s[1] : s \in sg}
Unconf(kn, st) == {b \in kn : st \in Anc(b) /\ b # st}
Enough(b, c) == Cardinality(c[b] \cup {miner[b]}) >= QAt(H(b))
Best(S, dflt) == IF S = {} THEN dflt
                 ELSE CHOOSE x \in S : \A y \in S : H(x) > H(y) \/ (H(x) = H(y) /\ hrank[x] <= hrank[y])   \* ChooseNewFork
Prune(kn, st) == {b \in kn : b \in Anc(st) \/ st \in Anc(b)}                                              \* SetStableBlock
Init == /\ parent \in {f \in [Block -> Block \cup {G}] : \A b \in Block : f[b] < b}
        /\ miner \in {m \in [Block -> Ident] : \A b \in Block : m[b] \in DepAt(H(b)) \cap MinerPool}   \* mined by a deputy of its own term
        /\ hrank = [b \in Block |-> b]
        /\ known = {G} /\ conf = [b \in Block |-> {}] /\ stable = G /\ head = G /\ lastSig = G
\* the deputies of height h are known to the node: the snapshot block that elects them is stable (dp.saveSnapshot)
TermKnown(h) == h < TermStart \/ H(stable) >= SnapHeight
\* Confirmer.needConfirm (the voting lock): IsSelfDeputyNode(height), TwoThirdDeputyCount(height)
NeedConfirm(b, c) ==
  LET L == IF H(lastSig) <= H(stable) THEN stable ELSE lastSig IN
  /\ Self \in DepAt(H(b)) /\ ~Enough(b, c)
  /\ (parent[b] = L \/ H(b) > H(L) + QAt(H(b)))
NewStable(b, c) == IF H(b) > H(stable) /\ Enough(b, c) THEN b ELSE stable                                 \* StableManager.UpdateStable
\* ForkManager.UpdateFork
NewHead(b, kn, st) ==
  LET un == Unconf(kn, st) IN
  IF head \notin un THEN Best(un, st)
  ELSE IF parent[b] = head THEN b
  ELSE LET cand == Best(un, st) IN
       IF H(cand) > H(head) /\ (H(cand) - H(st)) % QAt(H(cand)) = 0 THEN cand ELSE head
Insertable(b) == /\ b \notin known /\ H(b) > H(stable)                       \* isIgnorableBlock
                 /\ parent[b] \in Unconf(known, stable) \cup {stable}       \* parent in the store and not pruned
                 /\ TermKnown(H(b))                                          \* verifySigner: the miner is a deputy of a known term
\* VerifyNewConfirms: deputies OF THE BLOCK'S TERM only, distinct nodes, not the miner
\* (TermLag = 1 is the negative control: signers looked up at the parent's height - QuorumOK must then fail at the boundary)
TermLag == 0
Valid(b, sg) == (Signers(sg) \cap DepAt(H(b) - TermLag)) \ {miner[b]}
InsertBlock(b, sg) ==
  /\ Insertable(b)
  /\ LET c1 == [conf EXCEPT ![b] = Valid(b, sg)]
         sign == NeedConfirm(b, c1) /\ Self # miner[b]
         c2 == IF sign THEN [c1 EXCEPT ![b] = @ \cup {Self}] ELSE c1
         st2 == NewStable(b, c2)
         kn2 == Prune(known \cup {b}, st2)
     IN /\ conf' = c2 /\ stable' = st2 /\ known' = kn2
        /\ head' = NewHead(b, kn2, st2)
        /\ lastSig' = IF (sign \/ Self = miner[b]) /\ H(b) > H(lastSig) THEN b ELSE lastSig
  /\ UNCHANGED <<parent, miner, hrank>>
\* a block that is known, not above the stable block, whose parent is missing/pruned or whose term is not known yet:
\* refused, nothing changes (C02)
RejectBlock(b, sg) == ~Insertable(b) /\ UNCHANGED vars
InsertConfirms(b, sg) ==
  /\ b \in known \ {G} /\ ~Enough(b, conf)
  /\ LET new == Valid(b, sg) \ conf[b] IN
     /\ new # {}
     /\ LET c2 == [conf EXCEPT ![b] = @ \cup new]
            st2 == NewStable(b, c2)
            kn2 == Prune(known, st2)
            un == Unconf(kn2, st2)
        IN /\ conf' = c2 /\ stable' = st2 /\ known' = kn2
           /\ head' = IF head \notin un THEN Best(un, st2) ELSE head                                      \* UpdateForkForConfirm
  /\ UNCHANGED <<parent, miner, hrank, lastSig>>
\* the same deliveries with every signature of the packet relayed twice (byte-identical duplicates inside one list)
InsertBlockDup(b, sg) == sg # {} /\ InsertBlock(b, sg)
InsertConfirmsDup(b, sg) == InsertConfirms(b, sg)
\* confirms that bring nothing new (unknown block, enough already, duplicates, nodes that are not deputies of the
\* block's term - outsiders and deputies of the other term alike -, the miner itself)
IgnoreConfirms(b, sg) ==
  /\ (b \notin known \ {G} \/ Enough(b, conf) \/ Valid(b, sg) \ conf[b] = {})
  /\ UNCHANGED vars
Next == \/ \E b \in Block, sg \in Packets \cup {{}} : InsertBlock(b, sg)
        \/ \E b \in Block, sg \in Packets : InsertBlockDup(b, sg)
        \/ \E b \in Block, sg \in Packets : InsertConfirmsDup(b, sg)
        \/ \E b \in Block : RejectBlock(b, {})
        \/ \E b \in Block, sg \in Packets : InsertConfirms(b, sg)
        \/ \E b \in Block, sg \in Packets : IgnoreConfirms(b, sg)
Spec == Init /\ [][Next]_vars
\* ---- C03 ----
\* stable only with 2/3 (rounded up) of the deputies OF ITS TERM, distinct nodes, the miner included
QuorumOK == stable # G => Cardinality((conf[stable] \cap DepAt(H(stable))) \cup {miner[stable]}) >= QAt(H(stable))
HeadOK == stable \in Anc(head) /\ head \in known
TreeOK == \A b \in known : b \in Anc(stable) \/ stable \in Anc(b)
StableChainKept == Anc(stable) \subseteq known
StableForwardStep == stable \in Anc(stable')
StableForward == [][StableForwardStep]_vars
\* only deputies of a block's own term are ever stored as its signers; a block of the next term is held only by a node that knows that term
ConfTermOK == \A b \in Block : conf[b] \subseteq DepAt(H(b)) /\ miner[b] \in DepAt(H(b))
TermKnownOK == \A b \in known \ {G} : TermKnown(H(b))
====
