SPECIFICATION Spec
CONSTANTS Table <- McTableRxQ
 Carriers <- McCarriersRxQ
 Heavy <- McHeavySeq
 Probe <- McProbe
 MaxIn <- McMaxInRxQ
 Dirs <- BothDirs
 CrossProbe = FALSE
 MaxConns = 2
 ProbeAfter = 7
 MaxFrameK = 25600
 SlackK = 16384
 C = 256
 HsLimitDevK = 1048576
 SeqOn = FALSE
 SeqBlocks <- NoBlocks
 SeqMsgs <- NoMsgs
 SeqConfirms <- NoConfirms
 SeqMix <- McRxMixQ
 RxOn = TRUE
 Answering <- McAnswering
 RxMax = 2
 RxBystander = TRUE
 RxStallOut = FALSE
 Dev <- McDev7
VIEW RxView
INVARIANTS TypeOK UniqueRows NodeAlive NoDeadlock AllocBounded RxPendOnlyStalled RxBystanderServed
PROPERTIES ClosedIsFinal RxSettles RxDeadlineSettles
CHECK_DEADLOCK FALSE
