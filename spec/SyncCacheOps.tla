---- MODULE SyncCacheOps ----
(* The two caches of the network layer (network/cache.go) as values.

   BlockCache: a SORTED MULTIMAP  height -> set of blocks, written as the sequence of its slots
   [h |-> height, bs |-> set of block ids] in ascending height order, one slot per height.  A slot
   survives Iterate-removal of its last block (only Remove and Clear drop slots), so FirstHeight is the
   height of the first slot.  Block ids are integers 10*height + variant (two distinct blocks of one
   height differ in the variant).

   Add is written the way BlockCache.Add scans (prepend / append / first slot with height >= h), which
   on a sorted sequence IS the sorted-multimap insert.  AddDev is the named deviation
   Dev_CacheAddMiddle: what the code as written does when a NEW height falls strictly between two
   existing slots (network/cache.go:128-131: the slot is spliced in AFTER the first higher slot and,
   through slice aliasing, overwrites the slot that followed).

   ConfirmCache: height -> block -> list of confirms, written as a bag (function to counts). *)
EXTENDS Integers, Sequences, FiniteSets

HeightOf(b) == b \div 10
Slot(h, bs) == [h |-> h, bs |-> bs]
Heights(s) == {s[i].h : i \in DOMAIN s}
Content(s) == UNION {s[i].bs : i \in DOMAIN s}
Sorted(s) == \A i \in 1..(Len(s) - 1) : s[i].h < s[i + 1].h
WellFormed(s) == Sorted(s) /\ \A i \in DOMAIN s : \A b \in s[i].bs : HeightOf(b) = s[i].h
RECURSIVE SizeOf(_)
SizeOf(s) == IF s = <<>> THEN 0 ELSE Cardinality(Head(s).bs) + SizeOf(Tail(s))
FirstHeight(s) == IF s = <<>> THEN 0 ELSE s[1].h
MinOf(S) == CHOOSE x \in S : \A y \in S : x <= y
MaxOf(S) == CHOOSE x \in S : \A y \in S : x >= y
\* the sequence of heights Iterate visits (one entry per visited block; order inside a slot is not fixed)
RECURSIVE IterHeights(_)
IterHeights(s) == IF s = <<>> THEN <<>> ELSE [i \in 1..Cardinality(Head(s).bs) |-> Head(s).h] \o IterHeights(Tail(s))

InsertAt(s, i, x) == SubSeq(s, 1, i - 1) \o <<x>> \o SubSeq(s, i, Len(s))
\* where Add's scan stops: the first slot whose height is >= h (0 = the scan runs off the end; unsorted layouts only)
ScanStop(s, h) == LET I == {i \in DOMAIN s : s[i].h >= h} IN IF I = {} THEN 0 ELSE MinOf(I)
IsMiddleNew(s, b) == LET h == HeightOf(b) IN
    /\ s # <<>> /\ h >= s[1].h /\ h <= s[Len(s)].h
    /\ ScanStop(s, h) # 0 /\ s[ScanStop(s, h)].h > h
AddOK(s, b) == LET h == HeightOf(b)  new == Slot(h, {b}) IN
    IF s = <<>> \/ h < s[1].h THEN <<new>> \o s
    ELSE IF h > s[Len(s)].h THEN Append(s, new)
    ELSE LET i == ScanStop(s, h) IN
         IF i = 0 THEN s
         ELSE IF s[i].h = h THEN [s EXCEPT ![i].bs = @ \cup {b}]
         ELSE InsertAt(s, i, new)
AddDev(s, b) == LET h == HeightOf(b)  new == Slot(h, {b})  i == ScanStop(s, h) IN
    IF ~IsMiddleNew(s, b) THEN AddOK(s, b)
    ELSE SubSeq(s, 1, i) \o <<new>> \o (IF i < Len(s) THEN <<new>> \o SubSeq(s, i + 2, Len(s)) ELSE <<>>)
\* Iterate with a callback that says "processed" exactly for the blocks in P: they leave, the slots stay
IterRemove(s, P) == [i \in DOMAIN s |-> Slot(s[i].h, s[i].bs \ P)]
\* Remove(b): the block leaves; a slot of its height that is (now) empty is dropped
RemoveBlock(s, b) == LET t == [i \in DOMAIN s |-> IF s[i].h = HeightOf(b) THEN Slot(s[i].h, s[i].bs \ {b}) ELSE s[i]] IN
    SelectSeq(t, LAMBDA x : ~(x.h = HeightOf(b) /\ x.bs = {}))
\* Clear(h): the leading slots of height <= h are dropped (all of them when the sequence is sorted)
RECURSIVE ClearUpTo(_, _)
ClearUpTo(s, h) == IF s # <<>> /\ Head(s).h <= h THEN ClearUpTo(Tail(s), h) ELSE s

(* ConfirmCache as a bag over confirm ids; hOf(c) is the height the confirm names, kOf(c) its block *)
BagAdd(bag, c) == [bag EXCEPT ![c] = @ + 1]
BagSize(bag) == LET RECURSIVE Sum(_)
                    Sum(S) == IF S = {} THEN 0 ELSE LET x == CHOOSE y \in S : TRUE IN bag[x] + Sum(S \ {x})
                IN Sum(DOMAIN bag)
====
