---- MODULE MCAuth ----
EXTENDS Auth
McPlainOnly == {<<>>}
McPayCfgs == {<<>>, <<50, 50>>}
McPaySenders == {<<>>, <<50, 50>>}
McBoxCfgs == {<<>>, <<50, 50>>, <<49, 51>>}
McNewCfgs == {<<100>>, <<50, 50>>}
McReconfQuick == {<<>>, <<100>>, <<50, 50>>, <<49, 51>>}
McReconfAll == Configs
McExtraQuick == {<<1, 49, 50>>, <<49, 50, 51>>}
McExtraThorough == {<<25, 25, 25, 25>>, <<1, 33, 33, 33>>, <<0, 0, 100>>}     \* (<<0, 0, 100>>: the keys are rotated - only key 3 is registered)
McNewThorough == {<<100>>, <<50, 50>>, <<0, 0, 100>>}
McNone == {}
McNegNew == {<<100>>}
McNegCfgs == {<<50, 50>>}
====
