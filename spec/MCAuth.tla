---- MODULE MCAuth ----
EXTENDS Auth
McPayCfgs == {<<>>, <<50, 50>>}
McPaySenders == {<<>>, <<50, 50>>}
McBoxCfgs == {<<>>, <<50, 50>>, <<49, 51>>}
McNewCfgs == {<<100>>, <<50, 50>>}
McPlainOnly == {<<>>}
====
