SPECIFICATION Spec
CONSTANTS Ctx <- McCtx
 Init0 <- McInit
 Gas <- McGas
 Devs = {"Dev_BoxSubGasMinted"}
 Kinds = {"xfer", "box", "reg", "topup", "unreg"}
 From = {"a1", "a2"}
 XTo = {"a1", "a2", "KR", "KS", "KD", "KO"}
 XAmt = {100, 1000}
 Payers = {"a4"}
 Voters = {}
 Cands = {"a3", "a4"}
 RegAmt = {50, 300}
 AFrom = {}
 ATo = {}
 AAmt = {}
 IAmt = {}
 ACodes = {}
 AIds = {}
 BGL = {}
 BoxFrom = {"a1"}
 BoxTo = {"a1", "a2"}
 BoxSeqs = {}
 SpendFrom = {}
 RewFrom = {}
 RewTerms = {}
 RewAmt = {}
 EmptyOK = FALSE
 MaxTx = 2
 MaxBlk = 2
 MaxTot = 2
VIEW View
INVARIANTS NonNegative Conservation DepositsBacked VotesAtBoundary SupplyEqualsEquity NothingForbiddenIncluded
PROPERTIES EndOfBlockIssuesTheReward GasWithinLimit NotIncludedIsFree OnlyOwnEquityDecreases SupplyChangesOnlyByIssuerOrHolder FrozenDoesNotMove
CHECK_DEADLOCK FALSE
