---- MODULE TraceBase ----
(* Shared plumbing of every trace specification.  A trace is an ndjson file written by the Go
   harness (one event per spec action, fields = arguments + results/post-state scalars observed
   on the REAL code).  A trace spec consumes one line per step; acceptance = every line consumed
   (high-water mark in TLC register 1, checked by POSTCONDITION Accepted, -workers 1).
   A line carrying "panic" is never consumable: the real code panicked in that operation. *)
EXTENDS Json, TLC, Sequences, Integers, FiniteSets
Trace == ndJsonDeserialize("trace.ndjson")
VARIABLE l
Ev(n) == l <= Len(Trace) /\ Trace[l].ev = n /\ "panic" \notin DOMAIN Trace[l] /\ l' = l + 1
E == Trace[l]
ToSet(s) == {s[i] : i \in 1..Len(s)}
ASSUME TLCSet(1, 0) /\ TLCSet(2, {})
HW == IF l - 1 > TLCGet(1) THEN TLCSet(1, l - 1) ELSE TRUE
UseDev(k) == TLCSet(2, TLCGet(2) \cup {k})
Accepted == /\ PrintT(<<"TRACE-HW", TLCGet(1), Len(Trace)>>)
            /\ \A k \in TLCGet(2) : PrintT(<<"TRACE-DEV", k>>)
            /\ TLCGet(1) = Len(Trace)
====
