SPECIFICATION Spec
CONSTANTS NB = 4
 ND = 3
INVARIANTS QuorumReal Agreement
CHECK_DEADLOCK FALSE
