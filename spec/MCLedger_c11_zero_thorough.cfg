SPECIFICATION Spec
CONSTANTS Ctx <- McCtx
 Init0 <- McInit
 Gas <- McGas
 Devs = {}
 Kinds = {"xfer", "vote", "voteby"}
 From = {"a2", "a4", "a5"}
 XTo = {"a1", "a2", "a5"}
 XAmt = {100, 500}
 Payers = {"a4"}
 Voters = {"a5", "a2"}
 Cands = {"a3"}
 RegAmt = {}
 AFrom = {}
 ATo = {}
 AAmt = {}
 IAmt = {}
 ACodes = {}
 AIds = {}
 BGL = {}
 BoxFrom = {}
 BoxTo = {}
 BoxSeqs = {}
 SpendFrom = {"a1"}
 RewFrom = {}
 RewTerms = {}
 RewAmt = {}
 EmptyOK = FALSE
 MaxTx = 2
 MaxBlk = 3
 MaxTot = 3
VIEW View
INVARIANTS NonNegative Conservation DepositsBacked VotesAtBoundary SupplyEqualsEquity NothingForbiddenIncluded
PROPERTIES EndOfBlockIssuesTheReward GasWithinLimit NotIncludedIsFree OnlyOwnEquityDecreases SupplyChangesOnlyByIssuerOrHolder FrozenDoesNotMove
CHECK_DEADLOCK FALSE
