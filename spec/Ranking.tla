---- MODULE Ranking ----
(* C10 election integrity, store level: "at every block the published top-candidate list equals the list of all
   currently registered candidates sorted by votes (descending, ties by address) and cut to the maximum size, as
   computed from that block's account state ... on every fork and the same for a node that has restarted".

   Code-shaped design model of store.ChainDatabase as far as the ranking is concerned:
     Block(p, nv, t)  SetBlock(child of p) + account.Manager.Save: accounts of the changed candidates are put into
                      the block's account view, the merged VotesLogs go to CBlock.Ranking -> dye() -> updateTop()
     Stable(b)        SetStableBlock(b): b and its descendants survive, b's CBlock (index and Top) becomes LastConfirm
     Restart          Close + NewChainDataBase: only the stable block survives, Top is re-ranked from context.data
                      filtered by isCandidate, the all-candidates index starts empty (or is rebuilt, see Dev)
   Blocks form a tree below the stable block.  A registered candidate has votes >= 1 (deposit votes); unregistering
   sets the votes to 0 and is final (candidate_vote_tx.go: ErrRegisterAgain).
   nv[c] = votes of c after the block (0 = not registered / unregister now).  t # 0 additionally touches the account
   of candidate t without a vote change: a never-registered t registers AND unregisters inside the block (no
   VotesLog at all), a registered t has e.g. its profile or balance changed, an unregistered t e.g. gets a refund.

   idx[b] = set of candidates in CBlock.CandidateTrieDB (the stored totals are always the current votes),
   top[b] = CBlock.Top as a sequence of candidates (best first).
   Dev = the named deviations switched on (RankingOps.tla); {} is the repaired design. *)
EXTENDS RankingOps, TLC
CONSTANTS NC, K, MaxVotes, MaxLive, MaxSteps, RestartAnywhere, Touch, Dev
Cand == 1..NC
Rk == [c \in Cand |-> c]
VARIABLES par, st, idx, top, stable, steps
vars == <<par, st, idx, top, stable, steps>>
Live == DOMAIN st
S0 == [c \in Cand |-> [r |-> 0, v |-> 0]]
RECURSIVE AncSelf(_)
AncSelf(x) == IF x = stable THEN {x} ELSE {x} \cup AncSelf(par[x])
Desc(b) == {x \in Live : b \in AncSelf(x)}
Restrict(f, S) == [x \in S |-> f[x]]

\* block ids are reused (smallest free one); MaxSteps = 0 means no step bound: the complete reachable state graph
NewId == CHOOSE i \in 0..MaxLive : i \notin Live /\ \A j \in 0..i-1 : j \in Live
Budget == MaxSteps = 0 \/ steps < MaxSteps
Tick == IF MaxSteps = 0 THEN 0 ELSE steps + 1

Init == /\ par = <<>> /\ st = (0 :> S0) /\ idx = (0 :> {}) /\ top = (0 :> <<>>)
        /\ stable = 0 /\ steps = 0

Block(p, nv, t) ==
  LET sp == st[p]
      sn == NewState(sp, nv, t)
      chg == Changed(sp, sn)
      b == NewId
  IN /\ p \in Live /\ Cardinality(Live) < MaxLive /\ Budget
     /\ Legal(sp, nv, t)
     /\ par' = (b :> p) @@ par
     /\ st' = (b :> sn) @@ st
     /\ idx' = (b :> idx[p] \cup chg) @@ idx
     /\ top' = (b :> CodeTop(Dev, K, Rk, top[p], idx[p] \cup chg, sp, sn, chg, Unreg(sp, sn, t))) @@ top
     /\ steps' = Tick /\ UNCHANGED stable

Stable(b) ==
  /\ b \in Live \ {stable} /\ Budget
  /\ LET keep == Desc(b)
     IN /\ par' = Restrict(par, keep \ {b})
        /\ st' = Restrict(st, keep) /\ idx' = Restrict(idx, keep) /\ top' = Restrict(top, keep)
  /\ stable' = b /\ steps' = Tick

Restart ==
  /\ Budget /\ (RestartAnywhere \/ Live = {stable})
  /\ par' = <<>> /\ st' = Restrict(st, {stable})
  /\ idx' = (stable :> IF "Dev_RestartForgetsIndex" \in Dev THEN {} ELSE {c \in Cand : st[stable][c].r # 0})
  /\ top' = (stable :> FullSort(st[stable], Rk, K))
  /\ steps' = Tick /\ UNCHANGED stable

\* bound sets are constants so that TLC labels every edge with the instantiated action
Ids == 0..MaxLive-1
Next == \/ \E p \in Ids, nv \in [Cand -> 0..MaxVotes], t \in Touch : Block(p, nv, t)
        \/ \E b \in Ids : Stable(b)
        \/ Restart
Spec == Init /\ [][Next]_vars

\* ---- the property
TopIsFullSort == \A b \in Live : top[b] = FullSort(st[b], Rk, K)
RestartKeepsTop == [][stable' = stable => top'[stable] = top[stable]]_vars
\* sanity of the model itself
TypeOK == /\ stable \in Live /\ DOMAIN idx = Live /\ DOMAIN top = Live /\ DOMAIN par = Live \ {stable}
          /\ \A b \in Live : \A c \in Cand : (st[b][c].r = 1) = (st[b][c].v > 0)
          /\ \A b \in Live : Len(top[b]) <= K
====
