---- MODULE Ranking ----
(* C10 election integrity, store level: "at every block the published top-candidate list equals the list of all
   currently registered candidates sorted by votes (descending, ties by address) and cut to the maximum size, as
   computed from that block's account state ... on every fork and the same for a node that has restarted".

   Code-shaped design model of store.ChainDatabase as far as the ranking is concerned:
     Block(p, nv, t)  SetBlock(child of p) + account.Manager.Save: accounts of the changed candidates are put into
                      the block's account view, the merged VotesLogs go to CBlock.Ranking -> dye() -> updateTop()
     Stable(b)        SetStableBlock(b): b and its descendants survive, b's CBlock (index and Top) becomes LastConfirm
     Restart          Close + NewChainDataBase: only the stable block survives, Top is re-ranked from context.data
                      filtered by isCandidate, the all-candidates index starts empty (or is rebuilt, see Dev)
   Blocks form a tree below the stable block.  A registered candidate has votes >= 1 (deposit votes); unregistering
   sets the votes to 0 and is final (candidate_vote_tx.go: ErrRegisterAgain).
   nv[c] = votes of c after the block (0 = not registered / unregister now).  t # 0 additionally touches the account
   of candidate t without a vote change: a never-registered t registers AND unregisters inside the block (no
   VotesLog at all), a registered t has e.g. its profile or balance changed, an unregistered t e.g. gets a refund.

   idx[b] = set of candidates in CBlock.CandidateTrieDB (the stored totals are always the current votes),
   top[b] = CBlock.Top as a sequence of candidates (best first).
   Dev = the named deviations switched on (RankingOps.tla); {} is the repaired design.

   Vote magnitudes and the persisted candidate file.  The vote values 0..MaxVotes are abstract; vm (chosen in Init from
   VMaps, never changed) is the vote map that sends them to real totals (RankingOps: MagOf gives the magnitude class =
   length class of the persisted record).  With Persist = TRUE the model carries context.data's candidate part:
     file = the slots in allocation order, each [c |-> candidate, fl |-> class of the record the slot was allocated
            with, v |-> votes of the record now in the slot]
   SetStableBlock(b) commits every block on the path to b, oldest first; a block writes the record of every account it
   changed that has a candidate profile (an unregistered candidate is written with 0 votes): in place when the candidate
   has a slot (the slot header {Pos, Len} gets the new length), else into the next slot.  Restart decodes the file slot
   by slot with the header lengths, keeps the candidates whose account says isCandidate and ranks them by the totals OF
   THE FILE.  fl is history: it makes "this record has another length than the one its slot was allocated with" part of
   the state, per slot position, so that a restart from every such state is an edge of the graph (the binding replays
   every edge).  Dev_StaleSlotLength (design-side negative control only; never an allowed deviation): a rewrite leaves
   the header's Len as it was, so the decode of a record whose length class changed fails and the restarted node
   publishes an empty list (first slot) or cannot start at all (later slot; modelled as the empty list, too). *)
EXTENDS RankingOps, TLC
CONSTANTS NC, K, MaxVotes, MaxLive, MaxSteps, RestartAnywhere, Touch, Dev, VMaps, Persist, MaxChg
ASSUME Persist => VMaps \subseteq MagMaps
Cand == 1..NC
Rk == [c \in Cand |-> c]
VARIABLES par, st, idx, top, stable, steps, vm, file
vars == <<par, st, idx, top, stable, steps, vm, file>>
Live == DOMAIN st
S0 == [c \in Cand |-> [r |-> 0, v |-> 0]]
RECURSIVE AncSelf(_)
AncSelf(x) == IF x = stable THEN {x} ELSE {x} \cup AncSelf(par[x])
Desc(b) == {x \in Live : b \in AncSelf(x)}
Restrict(f, S) == [x \in S |-> f[x]]

\* block ids are reused (smallest free one); MaxSteps = 0 means no step bound: the complete reachable state graph
NewId == CHOOSE i \in 0..MaxLive : i \notin Live /\ \A j \in 0..i-1 : j \in Live
Budget == MaxSteps = 0 \/ steps < MaxSteps
Tick == IF MaxSteps = 0 THEN 0 ELSE steps + 1

\* ---- the persisted candidate file
Mag(v) == MagOf(vm, v, MaxVotes)
Slotted(f) == {f[i].c : i \in 1..Len(f)}
RECURSIVE PathTo(_)
PathTo(b) == IF b = stable THEN <<>> ELSE Append(PathTo(par[b]), b)               \* CollectToParent(LastConfirm), oldest first
Written(x) == {c \in Cand : st[x][c] # st[par[x]][c] /\ st[x][c].r # 0}           \* filterCandidates(Collect(height))
CommitOne(f, x) ==                                                                \* blockCommit(x) -> Context.SetCandidates + Flush
  LET W == Written(x)
      upd == [i \in 1..Len(f) |-> IF f[i].c \in W THEN [f[i] EXCEPT !.v = st[x][f[i].c].v] ELSE f[i]]
      fresh == SortBy(W \ Slotted(f), [c \in Cand |-> 0], Rk)
  IN upd \o [i \in 1..Len(fresh) |-> [c |-> fresh[i], fl |-> Mag(st[x][fresh[i]].v), v |-> st[x][fresh[i]].v]]
RECURSIVE CommitAll(_, _)
CommitAll(f, p) == IF p = <<>> THEN f ELSE CommitAll(CommitOne(f, Head(p)), Tail(p))
HeaderLen(s) == IF "Dev_StaleSlotLength" \in Dev THEN s.fl ELSE Mag(s.v)            \* CandidatePos.Len in the slot header
Readable == \A i \in 1..Len(file) : HeaderLen(file[i]) = Mag(file[i].v)            \* CandidateCache.Decode succeeds
Loaded == IF Readable THEN Slotted(file) ELSE {}
FileVotes == [c \in Cand |-> IF c \in Slotted(file) THEN file[CHOOSE i \in 1..Len(file) : file[i].c = c].v ELSE 0]

Init == /\ par = <<>> /\ st = (0 :> S0) /\ idx = (0 :> {}) /\ top = (0 :> <<>>)
        /\ stable = 0 /\ steps = 0
        /\ vm \in VMaps /\ file = <<>>

Block(p, nv, t) ==
  LET sp == st[p]
      sn == NewState(sp, nv, t)
      chg == Changed(sp, sn)
      b == NewId
  IN /\ p \in Live /\ Cardinality(Live) < MaxLive /\ Budget
     /\ Legal(sp, nv, t)
     /\ Cardinality(chg) <= MaxChg                                                  \* bound: candidates whose votes change in one block
     /\ par' = (b :> p) @@ par
     /\ st' = (b :> sn) @@ st
     /\ idx' = (b :> idx[p] \cup chg) @@ idx
     /\ top' = (b :> CodeTop(Dev, K, Rk, top[p], idx[p] \cup chg, sp, sn, chg, Unreg(sp, sn, t))) @@ top
     /\ steps' = Tick /\ UNCHANGED <<stable, vm, file>>

Stable(b) ==
  /\ b \in Live \ {stable} /\ Budget
  /\ LET keep == Desc(b)
     IN /\ par' = Restrict(par, keep \ {b})
        /\ st' = Restrict(st, keep) /\ idx' = Restrict(idx, keep) /\ top' = Restrict(top, keep)
  /\ file' = IF Persist THEN CommitAll(file, PathTo(b)) ELSE file
  /\ stable' = b /\ steps' = Tick /\ UNCHANGED vm

Restart ==
  /\ Budget /\ (RestartAnywhere \/ Live = {stable})
  /\ par' = <<>> /\ st' = Restrict(st, {stable})
  /\ idx' = (stable :> IF "Dev_RestartForgetsIndex" \in Dev THEN {} ELSE {c \in Cand : st[stable][c].r # 0})
  /\ top' = (stable :> IF Persist THEN Rank(Loaded \cap Registered(st[stable]), FileVotes, Rk, K)
                        ELSE FullSort(st[stable], Rk, K))
  /\ steps' = Tick /\ UNCHANGED <<stable, vm, file>>

\* bound sets are constants so that TLC labels every edge with the instantiated action
Ids == 0..MaxLive-1
Next == \/ \E p \in Ids, nv \in [Cand -> 0..MaxVotes], t \in Touch : Block(p, nv, t)
        \/ \E b \in Ids : Stable(b)
        \/ Restart
Spec == Init /\ [][Next]_vars

\* ---- the property
TopIsFullSort == \A b \in Live : top[b] = FullSort(st[b], Rk, K)
RestartKeepsTop == [][stable' = stable => top'[stable] = top[stable]]_vars
\* sanity of the model itself
TypeOK == /\ stable \in Live /\ DOMAIN idx = Live /\ DOMAIN top = Live /\ DOMAIN par = Live \ {stable}
          /\ \A b \in Live : \A c \in Cand : (st[b][c].r = 1) = (st[b][c].v > 0)
          /\ \A b \in Live : Len(top[b]) <= K
          /\ vm \in VMaps
\* the file holds exactly the candidates that ever registered on the stable chain, once each, with their current totals
FileOK == Persist => /\ Slotted(file) = {c \in Cand : st[stable][c].r # 0}
                     /\ Len(file) = Cardinality(Slotted(file))
                     /\ \A i \in 1..Len(file) : file[i].v = st[stable][file[i].c].v /\ file[i].fl \in 1..BoundLo[Len(BoundLo)] + 1
====
