SPECIFICATION Spec
CONSTANTS NB = 4
 ND = 3
 NE = 2
 Tx <- McTx
 TxEp <- McTxEp
 Pend <- McPend
 PruneFirst = FALSE
INVARIANT PoolUpper
PROPERTY PoolLower
INVARIANT HeadOK
INVARIANT UnconfCached
CHECK_DEADLOCK FALSE
