SPECIFICATION Spec
CONSTANTS NB = 4
 ND = 3
 Tx <- McTx
INVARIANT PoolIsOffChain
CHECK_DEADLOCK FALSE
