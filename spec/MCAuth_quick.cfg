SPECIFICATION Spec
CONSTANTS Weights = {1, 49, 50, 51, 100}
 MaxSigners = 2
 ExtraCfgs <- McExtraQuick
 MaxSigs = 3
 TamperFields = {"to", "amount", "gasPrice", "gasLimit", "data", "expiration", "chainID", "type", "toName", "message", "gasPayer", "version"}
 PayCfgs <- McPayCfgs
 PaySenders <- McPaySenders
 PayFields = {"gasPrice", "sigs", "amount"}
 GpFields = {"to", "amount", "gasPrice", "gasLimit", "data", "expiration", "chainID", "type", "toName", "message", "version", "sigs"}
 MaxOver = 3
 BoxCfgs <- McBoxCfgs
 Kinds = {"vote"}
 ReconfCfgs <- McReconfQuick
 NewCfgs <- McNewCfgs
 Slices = {"sigs", "tamper", "payer", "junk", "box", "kinds", "reconf", "gp", "over", "stale"}
 Dev = {}
VIEW View
PROPERTIES EffectOnlyIfAuthorized CanonicalAccepted RepeatNeverHelps ForeignNeverHelps RemovalNeverHelps EncodingIrrelevant TamperFalsifies GasPayerFieldBinds SchemeBinds PayerBinds PayerBindsSigList ThresholdExact Reconf ChangeCovered BoxBinds LabelIrrelevant
CHECK_DEADLOCK FALSE
