SPECIFICATION Spec
CONSTANTS Weights = {1, 49, 50, 51, 100}
 MaxSigners = 3
 MaxSigs = 2
 TamperFields = {"to", "amount", "gasPrice", "gasLimit", "data", "expiration", "chainID", "type", "toName", "message"}
 PayCfgs <- McPayCfgs
 PaySenders <- McPaySenders
 PayFields = {"gasPrice", "gasLimit", "sigs", "amount"}
 BoxCfgs <- McBoxCfgs
 Kinds = {}
 NewCfgs <- McNewCfgs
 Slices = {"sigs", "tamper"}
 Dev = {}
VIEW View
PROPERTIES EffectOnlyIfAuthorized CanonicalAccepted RepeatNeverHelps ForeignNeverHelps RemovalNeverHelps EncodingIrrelevant TamperFalsifies PayerBinds ThresholdExact Reconf
CHECK_DEADLOCK FALSE
