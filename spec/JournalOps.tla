---- MODULE JournalOps ----
(* C07: the pure part of the change-journal model of chain/account (SafeAccount setters, ChangeLog undo,
   LogProcessor.RevertToSnapshot, MergeChangeLogs, RebuildAll), shared by the design specification
   (Journal.tla) and the trace specification (TraceJournal.tla).

   An account is a function from observable-attribute names to values (what the AccountAccessor getters
   return, see harness/adapters/journal):
     bal votes asup eq s1 s2 ev : Nat        balance, votes, asset total supply, equity amount (0 = no entry),
                                             two storage slots (0 = empty), number of events in GetEvents()
     code chash                 : STRING     contract code ("" none) and the code the code-hash stands for
     afr aid p1 p2 vf sig       : STRING     asset profile["freeze"], asset-id metadata, candidate profile
                                             ["isCandidate"] / ["host"], voteFor, signers ("" = none / empty)
     ax sui                     : BOOLEAN    asset-code entry exists, self-destructed
     rs rac rai req             : STRING     the four storage roots (opaque)
   A configuration may carry only a subset of the fields (Upd ignores absent ones).

   Dv is the set of named deviations switched on.  With Dv = {} every operator describes the behaviour the
   property demands; with a key in Dv the operator reproduces what the code in /repo does instead:
     Dev_UndoCodeDropsPreviousCode   undoCode calls SetCode(nil) instead of restoring the previous code
     Dev_UndoSuicideShallow          undoSuicide restores balance/codeHash/storageRoot only: unsaved code,
                                     dirty storage and all asset-code/asset-id entries of the account are lost
     Dev_UndoEventNoop               undoAddEvent does not pop the event from Account.events
     Dev_RevertVersionGapPanics      RevertToSnapshot demands contiguous versions, but undone versions are never
                                     handed out again: revert-inner, write again, revert-outer panics
     Dev_UndoFirstEquityPanics       undoEquity rejects the nil old value of an equity that did not exist
   (merge / publish deviations and the Finalise / Save deviations are described at their operators below) *)
EXTENDS Naturals, Sequences, FiniteSets, TLC

Has(r, f) == f \in DOMAIN r
Upd(r, f, v) == IF Has(r, f) THEN [r EXCEPT ![f] = v] ELSE r
Get(r, f, dflt) == IF Has(r, f) THEN r[f] ELSE dflt

\* the change-log type a setter kind is journalled under (versions are counted per account and log type)
LogType(k) == CASE k \in {"s1", "s2"} -> "sto" [] k \in {"p1", "p2"} -> "pst" [] OTHER -> k

RECURSIVE UpdAll(_, _, _)
UpdAll(r, fs, v) == IF fs = <<>> THEN r ELSE UpdAll(Upd(r, Head(fs), v), Tail(fs), v)

\* SetSuicide(true): balance, code hash, storage root, asset-code root and asset-id root are zeroed (caches reset)
Suicided(r, z) ==
  UpdAll(UpdAll(UpdAll(UpdAll(Upd(r, "sui", TRUE),
         <<"bal", "s1", "s2", "asup">>, 0), <<"code", "chash", "afr", "aid">>, ""), <<"ax">>, FALSE), <<"rs", "rac", "rai">>, z)

\* effect of the setter of kind k with new value v on account record r (z = the zero root)
Effect(r, k, v, z) ==
  CASE k = "code" -> Upd(Upd(r, "code", v), "chash", v)
    [] k = "sui"  -> Suicided(r, z)
    [] k = "ev"   -> Upd(r, "ev", Get(r, "ev", 0) + 1)
    [] k = "ax"   -> Upd(Upd(Upd(r, "ax", TRUE), "asup", 0), "afr", "")      \* CreateAssetTx: fresh asset, supply 0
    [] k = "cand" -> Upd(Upd(r, "p1", v[1]), "p2", v[2])                      \* SetCandidate replaces the profile
    [] OTHER      -> Upd(r, k, v)

\* what the journal entry of that setter remembers
OldOf(r, k) ==
  CASE k = "sui"  -> r
    [] k = "cand" -> <<Get(r, "p1", ""), Get(r, "p2", "")>>
    [] k \in {"ev", "ax"} -> 0
    [] OTHER      -> r[k]

\* undo of one journal entry e = [a, k, old, n] on the account record r; b = the committed (parent-block) record
UndoAcc(r, e, b, z, Dv) ==
  CASE e.k = "code" -> IF "Dev_UndoCodeDropsPreviousCode" \in Dv THEN Upd(Upd(r, "code", ""), "chash", "")
                       ELSE Upd(Upd(r, "code", e.old), "chash", e.old)
    [] e.k = "sui"  -> IF "Dev_UndoSuicideShallow" \in Dv
                       THEN LET o == e.old IN
                            \* balance, code hash and storage root come back; the code only if the database has it;
                            \* storage reads the committed trie again; asset-code / asset-id roots stay zero
                            UpdAll(UpdAll(UpdAll(UpdAll(
                              Upd(Upd(Upd(Upd(Upd(Upd(Upd(r, "sui", FALSE), "bal", Get(o, "bal", 0)), "chash", Get(o, "chash", "")),
                                  "code", IF Get(o, "chash", "") \in {"", Get(b, "chash", "")} THEN Get(o, "chash", "") ELSE "ERR"),
                                  "rs", Get(o, "rs", z)), "s1", IF Get(o, "rs", z) = Get(b, "rs", z) THEN Get(b, "s1", 0) ELSE 0),
                                  "s2", IF Get(o, "rs", z) = Get(b, "rs", z) THEN Get(b, "s2", 0) ELSE 0),
                              <<"asup">>, 0), <<"afr", "aid">>, ""), <<"ax">>, FALSE), <<"rac", "rai">>, z)
                       ELSE e.old
    [] e.k = "ev"   -> IF "Dev_UndoEventNoop" \in Dv THEN r ELSE Upd(r, "ev", Get(r, "ev", 1) - 1)
    [] e.k = "ax"   -> Upd(Upd(Upd(r, "ax", FALSE), "asup", 0), "afr", "")
    [] e.k = "cand" -> Upd(Upd(r, "p1", e.old[1]), "p2", e.old[2])
    [] OTHER        -> Upd(r, e.k, e.old)

RECURSIVE UndoFrom(_, _, _, _, _, _)
\* walk the journal j backwards down to index idx (exclusive), as RevertToSnapshot does
UndoFrom(s, j, idx, base, z, Dv) ==
  IF Len(j) <= idx THEN s
  ELSE LET e == j[Len(j)] IN
       UndoFrom([s EXCEPT ![e.a] = UndoAcc(s[e.a], e, base[e.a], z, Dv)], SubSeq(j, 1, Len(j) - 1), idx, base, z, Dv)

\* the version-continuity check of RevertToSnapshot fires: two entries of one account and log type that are undone
\* one after the other do not carry consecutive versions (a version in between was handed out and reverted earlier)
HasGap(j, idx) ==
  \E p, q \in (idx + 1)..Len(j) :
     /\ p < q /\ j[p].a = j[q].a /\ LogType(j[p].k) = LogType(j[q].k)
     /\ \A m \in (p + 1)..(q - 1) : ~(j[m].a = j[p].a /\ LogType(j[m].k) = LogType(j[p].k))
     /\ j[q].n # j[p].n + 1
\* an equity entry that did not exist before is among the undone ones
HasNilEquity(j, idx) == \E p \in (idx + 1)..Len(j) : j[p].k = "eq" /\ j[p].old = 0

Panics(j, idx, Dv) == \/ "Dev_RevertVersionGapPanics" \in Dv /\ HasGap(j, idx)
                      \/ "Dev_UndoFirstEquityPanics" \in Dv /\ HasNilEquity(j, idx)

\* ---------------------------------------------------------------- publishing the block's logs and redo
\* (Manager.MergeChangeLogs / log_compressor.go, Manager.Finalise, Manager.RebuildAll / ChangeLog.Redo)
\*   Dev_MergeAcrossSuicide   MergeChangeLogs folds a later balance/votes/voteFor/supply/equity log into the first log
\*                            of that kind even when a self-destruct log of the account lies in between, so the
\*                            published order replays the self-destruct AFTER the later write
\*   Dev_WorthlessSuicideDropped  IsValuable drops the self-destruct log of an account with zero balance, no code and
\*                            no committed storage, so the replay neither sets the flag nor wipes the dirty storage
\* kinds whose logs are folded into the first log of the same kind (and key) of the account
Mergeable == {"bal", "vf", "votes", "asup", "eq"}
\* a log that changes nothing is not published (IsValuable)
Valuable(e, z, Dv) == CASE e.k \in {"bal", "s1", "s2", "votes", "vf", "asup", "aid", "p1", "p2"} -> e.old # e.new
                        [] e.k = "code" -> e.new # ""
                        [] e.k = "sui"  -> \/ "Dev_WorthlessSuicideDropped" \notin Dv
                                           \/ Get(e.old, "bal", 0) # 0 \/ Get(e.old, "chash", "") # "" \/ Get(e.old, "rs", z) # z
                        [] OTHER -> TRUE
LastSui(out) == IF \E i \in 1..Len(out) : out[i].k = "sui"
                THEN CHOOSE i \in 1..Len(out) : out[i].k = "sui" /\ \A m \in (i + 1)..Len(out) : out[m].k # "sui"
                ELSE 0
RECURSIVE MergeAcc(_, _, _)
\* merge the logs js of ONE account, in journal order
MergeAcc(js, out, Dv) ==
  IF js = <<>> THEN out
  ELSE LET e == Head(js)
           barrier == IF "Dev_MergeAcrossSuicide" \in Dv THEN 0 ELSE LastSui(out)
           hits == {i \in (barrier + 1)..Len(out) : out[i].k = e.k}
       IN IF e.k \in Mergeable /\ hits # {}
          THEN MergeAcc(Tail(js), [out EXCEPT ![CHOOSE i \in hits : TRUE].new = e.new], Dv)
          ELSE MergeAcc(Tail(js), Append(out, e), Dv)
Published(j, a, z, Dv) == LET mine(e) == e.a = a
                              keep(e) == Valuable(e, z, Dv)
                          IN SelectSeq(MergeAcc(SelectSeq(j, mine), <<>>, Dv), keep)
RECURSIVE RedoAcc(_, _, _)
\* RebuildAll: the published logs of the account re-applied in order to its committed record
RedoAcc(r, logs, z) == IF logs = <<>> THEN r ELSE RedoAcc(Effect(r, Head(logs).k, Head(logs).new, z), Tail(logs), z)
Redone(b, j, z, Dv) == [a \in DOMAIN b |-> RedoAcc(b[a], Published(j, a, z, Dv), z)]

\* ---------------------------------------------------------------- finishing the block: roots, root logs, Save
\* (Manager.Finalise / Account.updateTrie / StorageCache.Update, Manager.Save / Account.Save)
\* The four roots commit to the contents of the four per-account tries; Finalise recomputes them for every account
\* that keeps at least one published log and publishes a root log for every root that changed; Save writes those
\* accounts, their tries and their code.
\*   Dev_EmptyWriteLeavesEmptyRoot   writing the EMPTY value to an entry leaves the key in the trie cache's dirty set -
\*                            undoStorage / undoAssetId / undoEquity do that for an entry that did not exist at the
\*                            snapshot.  Finalise of an account whose trie has the zero root then opens an empty trie,
\*                            deletes the key and stores the hash of the empty trie ("E") instead of keeping the zero
\*                            root, and publishes a root log for it.  A run that never executed the reverted write
\*                            (and the replay of the published logs) keeps the zero root.
\*   Dev_SaveFailsOnDirtyEmptyCode   SetCode marks the code dirty for good; when the account's code is empty at the end
\*                            of the block (undoCode of a first deployment, or a self-destruct after a deployment)
\*                            Account.Save passes the empty code to the store, which refuses it: Manager.Save fails.
\*   Dev_UndoAssetProfileKeyLeavesEmptyEntry   an asset profile key holding "" is a real map entry of the encoded asset
\*                            (the getters cannot tell it from an absent key, the asset-code root can);
\*                            undoAssetCodeState writes "" back for a key that did not exist at the snapshot, so the
\*                            asset-code root (and the published AssetCodeRootLog) differ from those of a run that never
\*                            executed the reverted write; a log writing "" over an absent key is not published, so the
\*                            replay differs likewise.
Roots == {"rs", "rac", "rai", "req"}
\* the trie a setter kind writes to ("" none) ...
TrieOf(k) == CASE k \in {"s1", "s2"} -> "rs" [] k \in {"ax", "asup", "afr"} -> "rac" [] k = "aid" -> "rai" [] k = "eq" -> "req" [] OTHER -> ""
\* ... and whether a value is "no such entry" for the kinds whose empty value is written into the cache (asset codes
\* are removed from the cache by undoAssetCode, so "ax" is not among them)
EmptyVal(k, v) == CASE k \in {"s1", "s2", "eq"} -> v = 0 [] k = "aid" -> v = "" [] OTHER -> FALSE
\* ghost pairs <<account, root>>: the trie cache got an empty dirty entry; <<account, "code">>: the code got dirty;
\* <<account, "afrkey">>: "" was written to the asset's profile key.
\* Undoing the journal j down to idx writes the old values back:
GhostsOf(j, idx) == {<<j[p].a, TrieOf(j[p].k)>> : p \in {q \in (idx + 1)..Len(j) : EmptyVal(j[q].k, j[q].old)}}
                    \cup {<<j[p].a, "afrkey">> : p \in {q \in (idx + 1)..Len(j) : j[q].k = "afr" /\ j[q].old = ""}}
\* a setter; SetSuicide(true) resets the storage, asset-code and asset-id caches of the account
GhostsAfterSet(g, a, k, v) == IF k = "sui" THEN g \ {<<a, "rs">>, <<a, "rac">>, <<a, "rai">>, <<a, "afrkey">>}
                              ELSE IF k = "code" THEN g \cup {<<a, "code">>}
                              ELSE IF k = "afr" /\ v = "" THEN g \cup {<<a, "afrkey">>}
                              ELSE IF EmptyVal(k, v) THEN g \cup {<<a, TrieOf(k)>>}
                              ELSE g
Content(r, f) == CASE f = "rs"  -> <<Get(r, "s1", 0), Get(r, "s2", 0)>>
                   [] f = "rac" -> <<Get(r, "ax", FALSE), Get(r, "asup", 0), Get(r, "afr", "")>>
                   [] f = "rai" -> <<Get(r, "aid", "")>>
                   [] f = "req" -> <<Get(r, "eq", 0)>>
NoContent(f) == CASE f = "rs" -> <<0, 0>> [] f = "rac" -> <<FALSE, 0, "">> [] f = "rai" -> <<"">> [] f = "req" -> <<0>>
\* the design's root: an injective function of the content, the zero root for no content
RootOf(r, f, z) == IF Content(r, f) = NoContent(f) THEN z ELSE ToString(Content(r, f))
WithRoots(r, z) == [f \in DOMAIN r |-> IF f \in Roots THEN RootOf(r, f, z) ELSE r[f]]
\* Finalise of one account; g = the ghost pairs of the manager that executed the block
FinAcc(r, a, z, g, Dv) ==
  [f \in DOMAIN r |-> IF f \notin Roots THEN r[f]
                      ELSE IF /\ "Dev_EmptyWriteLeavesEmptyRoot" \in Dv /\ <<a, f>> \in g
                              /\ r[f] = z /\ Content(r, f) = NoContent(f) THEN "E"
                      ELSE IF /\ "Dev_UndoAssetProfileKeyLeavesEmptyEntry" \in Dv /\ f = "rac" /\ <<a, "afrkey">> \in g
                              /\ Get(r, "ax", FALSE) /\ Get(r, "afr", "") = "" THEN ToString(<<Content(r, f), "">>)
                      ELSE RootOf(r, f, z)]
Finalised(s, j, z, g, Dv) == [a \in DOMAIN s |-> IF Published(j, a, z, Dv) # <<>> THEN FinAcc(s[a], a, z, g, Dv) ELSE s[a]]
\* what the block publishes for account a: the kinds of its merged, valuable logs in order and the roots that changed
PubOf(fin, b, j, a, z, Dv) == [kinds |-> [i \in 1..Len(Published(j, a, z, Dv)) |-> Published(j, a, z, Dv)[i].k],
                               roots |-> {f \in Roots \cap DOMAIN b[a] : fin[a][f] # b[a][f]}]
\* the state obtained by executing ONLY the surviving journal entries on the parent state (no snapshot, no revert)
Executed(b, j, z) == LET mine(a) == LET m(e) == e.a = a IN SelectSeq(j, m)
                     IN [a \in DOMAIN b |-> RedoAcc(b[a], mine(a), z)]
\* Manager.Save of the finalised state s fails
SaveFails(s, j, z, g, Dv) == /\ "Dev_SaveFailsOnDirtyEmptyCode" \in Dv
                             /\ \E a \in DOMAIN s : <<a, "code">> \in g /\ Published(j, a, z, Dv) # <<>> /\ Get(s[a], "code", "") = ""
\* ---- comparing two projections of real accounts (trace specifications)
DropF(o, F) == [a \in DOMAIN o |-> [f \in DOMAIN o[a] \ F |-> o[a][f]]]
\* the ghost pairs of a manager that executed exactly the setter calls es = Seq([a, k, new, ..]) on fresh caches (no
\* snapshot, no revert): the reverts-free run executes the surviving journal, the replay the published logs
RECURSIVE GhostsOfRun(_, _)
GhostsOfRun(es, g) == IF es = <<>> THEN g ELSE GhostsOfRun(Tail(es), GhostsAfterSet(g, Head(es).a, Head(es).k, Head(es).new))
\* The deviations needed to call the projection x of another manager and the projection y of the manager that executed
\* the block the same: every getter must agree and every root must agree, but for root differences the listed
\* deviations explain - each only on a ghost pair of its kind (g = the ghost pairs of the executing manager, gx = those
\* of the other one) and, where the outcome is predictable, only with the predicted values (z = zero hash, e = hash of
\* the empty trie):
\*   Dev_EmptyWriteLeavesEmptyRoot            one side has the hash of the empty trie where the other has the zero root
\*   Dev_UndoAssetProfileKeyLeavesEmptyEntry  the asset-code roots differ (an entry "" against no entry)
\*   Dev_UndoSuicideShallow                   the executing manager LOST an empty dirty entry the other one has (gx \ g: only
\*                            a SetSuicide takes ghost pairs away, and one that survives takes them away on both sides, so
\*                            this is a self-destruct that was reverted - undoSuicide does not bring the trie cache back -
\*                            after surviving writes that left the trie empty again, e.g. SetStorageState(k,1);
\*                            SetStorageState(k,0)): the executing manager never opens the trie and keeps the zero root, the
\*                            other one stores the hash of the empty trie
\* "MISMATCH" (never an allowed deviation) when nothing explains the difference.
RootDevsX(x, y, g, gx, z, e) ==
  IF DropF(x, Roots) # DropF(y, Roots) THEN {"MISMATCH"}
  ELSE LET D  == {p \in (DOMAIN x) \X Roots : p[2] \in DOMAIN x[p[1]] /\ x[p[1]][p[2]] # y[p[1]][p[2]]}
           De == {p \in D : p \in g /\ {x[p[1]][p[2]], y[p[1]][p[2]]} = {e, z}}
           Dp == {p \in D \ De : p[2] = "rac" /\ <<p[1], "afrkey">> \in g}
           Dl == {p \in D \ (De \cup Dp) : p \in gx \ g /\ x[p[1]][p[2]] = e /\ y[p[1]][p[2]] = z}
       IN (IF D \subseteq De \cup Dp \cup Dl THEN {} ELSE {"MISMATCH"})
          \cup (IF De # {} THEN {"Dev_EmptyWriteLeavesEmptyRoot"} ELSE {})
          \cup (IF Dp # {} THEN {"Dev_UndoAssetProfileKeyLeavesEmptyEntry"} ELSE {})
          \cup (IF Dl # {} THEN {"Dev_UndoSuicideShallow"} ELSE {})
\* ... when nothing is known about the other manager's caches (gx \ g = {}: the third explanation is off)
RootDevs(x, y, g, z, e) == RootDevsX(x, y, g, g, z, e)
RootLogName(f) == CASE f = "rs" -> "StorageRootLog" [] f = "rac" -> "AssetCodeRootLog" [] f = "rai" -> "AssetIdRootLog" [] f = "req" -> "EquityRootLog"
\* the published logs p without the root logs of the roots in which x and y differ
SansDifferingRootLogs(p, x, y) ==
  LET keep(l) == ~\E a \in DOMAIN x : \E f \in Roots \cap DOMAIN x[a] : x[a][f] # y[a][f] /\ l.a = a /\ l.t = RootLogName(f)
  IN SelectSeq(p, keep)
\* what a node that loads the saved block sees: events and the self-destruct flag are not persisted
Volatile == {"ev", "sui"}
Persisted(s) == [a \in DOMAIN s |-> [f \in DOMAIN s[a] |-> IF f = "ev" THEN 0 ELSE IF f = "sui" THEN FALSE ELSE s[a][f]]]
====
