---- MODULE TraceTxPool ----
(* Validates linearised traces of the REAL txpool.TxPool (events emitted under pool.RW by the
   verif hook, in sequence-number order) against the set semantics of TxPoolAbs. *)
EXTENDS TxPoolAbs, TraceBase
VARIABLES s, subs, exp
tvars == <<s, subs, exp, l>>
Ids(e) == {e.txs[i] : i \in 1..Len(e.txs)}
FromObj(o, dflt) == [k \in DOMAIN o |-> o[k]]
TReset == /\ Ev("reset")
          /\ s' = EmptyPool
          /\ subs' = [t \in DOMAIN E.subs |-> ToSet(E.subs[t])]
          /\ exp' = E.exp
RECURSIVE AddAll(_, _)
\* set of <<state, count>> reachable by submitting the sequence ts one by one
AddAll(S, ts) ==
  IF ts = <<>> THEN S
  ELSE AddAll(UNION {{<<o[1], p[2] + (IF o[2] THEN 1 ELSE 0)>> : o \in AddOutcomes(subs, p[1], Head(ts))} : p \in S}, Tail(ts))
TAdd == /\ Ev("AddTx") \/ Ev("AddTxs")
        /\ \E r \in AddAll({<<s, 0>>}, E.txs) : r[2] = E.added /\ s' = r[1]
        /\ UNCHANGED <<subs, exp>>
TDel == /\ Ev("DelTxs")
        /\ s' = DelSeq(subs, s, E.txs)
        /\ UNCHANGED <<subs, exp>>
TGet == /\ Ev("GetTxs")
        /\ GetOK(subs, exp, s, E.time, E.size, E.out)
        /\ s' = GetNext(exp, s, E.time, E.out)
        /\ UNCHANGED <<subs, exp>>
TraceNext == TReset \/ TAdd \/ TDel \/ TGet
TraceSpec == l = 1 /\ s = EmptyPool /\ subs = <<>> /\ exp = <<>> /\ [][TraceNext]_tvars
\* state invariants evaluated on every prefix of every real trace
PendExclusive == \A a, b \in s.pend : a # b => ~Related(subs, a, b)
====
