---- MODULE TrieKVHeap ----
(* C17 design, memory-shaped: why several trie handles over SHARED nodes stay independent tries.

   TrieKV.tla treats a trie as a value; the Go tries are pointer graphs: a Copy() of a trie (SecureTrie.Copy, a
   struct copy of a Trie, the trie an account manager keeps while it goes on working on a copy, a snapshot kept across
   an operation) shares EVERY node with its origin, and insert / delete rebuild only the path they touch
   (trie.go:213 insert, trie.go:304 delete: `n = n.copy()` before a full node is edited, new short nodes otherwise).
   Here the nodes live in a heap (address -> node), a handle is a root reference, and insert / delete are
   transcribed with their allocation behaviour:

   heap    <<node, ...>>; node = <<"short", key, ref>> | <<"full", [0..16 -> ref]>>;  ref = <<"nil">> | <<"val", v>> | <<"at", address>>
   root    handle -> ref
   kv      handle -> abstract content (what reads through THIS handle must return)
   InPlace the sites that edit a node where it is instead of a private copy: {} is the implementation;
           "delete-full" / "insert-full" are the negative controls (the 17-slot branch edited in place).

   After every step the heap is garbage collected and renumbered in first-visit order from the roots, so the state
   space is the finite set of sharing patterns and TLC explores ALL of it (no step bound).
   HandlesIndependent: the tree every live handle points to is the canonical trie of that handle's own content -
   whatever was done through the other handles. *)
EXTENDS TrieKVOps
CONSTANTS Keys, Vals, Path, NH, InPlace
VARIABLES heap, root, live, kv
vars == <<heap, root, live, kv>>

Handles == 1..NH
Empty == [k \in Keys |-> NONE]
At(a) == <<"at", a>>
\* a new node (what allocates is dirty)
Alloc(h, node) == [h |-> Append(h, node), r |-> At(Len(h) + 1), d |-> TRUE]

\* ---- trie.go insert on the heap: returns [h |-> heap, r |-> ref of the (new) subtree, d |-> dirty] ---------------
RECURSIVE HIns(_, _, _, _)
HIns(h, n, key, val) ==
  IF key = <<>> THEN [h |-> h, r |-> val, d |-> n # val]
  ELSE IF n[1] = "nil" THEN Alloc(h, <<"short", key, val>>)
  ELSE LET a == n[2]  node == h[a] IN
    IF node[1] = "short" THEN
      LET m == PrefixLen(key, node[2]) IN
      IF m = Len(node[2]) THEN
        LET s == HIns(h, node[3], Drop(key, m), val) IN
        IF ~s.d THEN [h |-> s.h, r |-> n, d |-> FALSE]
        ELSE Alloc(s.h, <<"short", node[2], s.r>>)          \* always a new short node
      ELSE LET c1 == HIns(h, NIL, Drop(node[2], m + 1), node[3])
               c2 == HIns(c1.h, NIL, Drop(key, m + 1), val)
               br == Alloc(c2.h, <<"full", [i \in 0..16 |-> IF i = node[2][m + 1] THEN c1.r ELSE IF i = key[m + 1] THEN c2.r ELSE NIL]>>)
           IN IF m = 0 THEN br ELSE Alloc(br.h, <<"short", Take(key, m), br.r>>)
    ELSE \* full node
      LET s == HIns(h, node[2][key[1]], Tail(key), val) IN
      IF ~s.d THEN [h |-> s.h, r |-> n, d |-> FALSE]
      ELSE LET edited == <<"full", [s.h[a][2] EXCEPT ![key[1]] = s.r]>> IN
           IF "insert-full" \in InPlace THEN [h |-> [s.h EXCEPT ![a] = edited], r |-> n, d |-> TRUE]
           ELSE Alloc(s.h, edited)                           \* n = n.copy()

\* ---- trie.go delete on the heap ------------------------------------------------------------------------------
RECURSIVE HDel(_, _, _)
HDel(h, n, key) ==
  IF n[1] = "nil" THEN [h |-> h, r |-> NIL, d |-> FALSE]
  ELSE IF n[1] = "val" THEN [h |-> h, r |-> NIL, d |-> TRUE]
  ELSE LET a == n[2]  node == h[a] IN
    IF node[1] = "short" THEN
      LET m == PrefixLen(key, node[2]) IN
      IF m < Len(node[2]) THEN [h |-> h, r |-> n, d |-> FALSE]
      ELSE IF m = Len(key) THEN [h |-> h, r |-> NIL, d |-> TRUE]
      ELSE LET s == HDel(h, node[3], Drop(key, Len(node[2]))) IN
           IF ~s.d THEN [h |-> s.h, r |-> n, d |-> FALSE]
           ELSE IF s.r[1] = "at" /\ s.h[s.r[2]][1] = "short"
                THEN Alloc(s.h, <<"short", node[2] \o s.h[s.r[2]][2], s.h[s.r[2]][3]>>)     \* merge
                ELSE Alloc(s.h, <<"short", node[2], s.r>>)
    ELSE \* full node
      LET s == HDel(h, node[2][key[1]], Tail(key)) IN
      IF ~s.d THEN [h |-> s.h, r |-> n, d |-> FALSE]
      ELSE LET ch == [s.h[a][2] EXCEPT ![key[1]] = s.r]
               \* n = n.copy(); n.Children[key[0]] = nn   -   or the node edited where it is
               e == IF "delete-full" \in InPlace THEN [h |-> [s.h EXCEPT ![a] = <<"full", ch>>], r |-> n, d |-> TRUE]
                    ELSE Alloc(s.h, <<"full", ch>>)
               lv == {i \in 0..16 : ch[i] # NIL}
           IN IF Cardinality(lv) = 1 THEN
                LET pos == CHOOSE i \in lv : TRUE  c == ch[pos] IN
                IF pos # 16 /\ c[1] = "at" /\ e.h[c[2]][1] = "short"
                THEN Alloc(e.h, <<"short", <<pos>> \o e.h[c[2]][2], e.h[c[2]][3]>>)
                ELSE Alloc(e.h, <<"short", <<pos>>, c>>)
              ELSE e

\* ---- the tree a reference stands for (TrieKVOps representation) -------------------------------------------------
RECURSIVE Deref(_, _)
Deref(h, r) ==
  IF r[1] # "at" THEN r
  ELSE LET node == h[r[2]] IN
       IF node[1] = "short" THEN <<"short", node[2], Deref(h, node[3])>>
       ELSE <<"full", [i \in 0..16 |-> Deref(h, node[2][i])]>>

\* ---- garbage collection: keep what the roots reach, numbered in first-visit order --------------------------------
InSeq(s, x) == \E i \in 1..Len(s) : s[i] = x
RECURSIVE Visit(_, _, _)
Visit(h, todo, seen) ==
  IF todo = <<>> THEN seen
  ELSE LET r == Head(todo) IN
       IF r[1] # "at" \/ InSeq(seen, r[2]) THEN Visit(h, Tail(todo), seen)
       ELSE LET node == h[r[2]]
                kids == IF node[1] = "short" THEN <<node[3]>> ELSE [i \in 1..17 |-> node[2][i - 1]]
            IN Visit(h, kids \o Tail(todo), Append(seen, r[2]))
Collect(h, rt) ==
  LET order == Visit(h, [i \in 1..NH |-> rt[i]], <<>>)
      new(a) == CHOOSE i \in 1..Len(order) : order[i] = a
      ren(r) == IF r[1] = "at" THEN At(new(r[2])) ELSE r
      mv(node) == IF node[1] = "short" THEN <<"short", node[2], ren(node[3])>> ELSE <<"full", [i \in 0..16 |-> ren(node[2][i])]>>
  IN [h |-> [i \in 1..Len(order) |-> mv(h[order[i]])], rt |-> [g \in Handles |-> ren(rt[g])]]
Settle(h, rt) == LET c == Collect(h, rt) IN heap' = c.h /\ root' = c.rt

Init == heap = <<>> /\ root = [h \in Handles |-> NIL] /\ live = {1} /\ kv = [h \in Handles |-> Empty]
Put(hd, k, v) == /\ hd \in live
                 /\ LET s == HIns(heap, root[hd], Path[k], V(v)) IN Settle(s.h, [root EXCEPT ![hd] = s.r])
                 /\ kv' = [kv EXCEPT ![hd] = PutKV(kv[hd], k, v)] /\ UNCHANGED live
Remove(hd, k) == /\ hd \in live
                 /\ LET s == HDel(heap, root[hd], Path[k]) IN Settle(s.h, [root EXCEPT ![hd] = s.r])
                 /\ kv' = [kv EXCEPT ![hd] = DelKV(kv[hd], k)] /\ UNCHANGED live
\* a second object with the same root pointer
Copy(src, dst) == /\ src \in live /\ dst \in Handles \ live
                  /\ live' = live \cup {dst} /\ kv' = [kv EXCEPT ![dst] = kv[src]]
                  /\ Settle(heap, [root EXCEPT ![dst] = root[src]])
Close(hd) == /\ hd \in live /\ live # {hd}
             /\ live' = live \ {hd} /\ kv' = [kv EXCEPT ![hd] = Empty]
             /\ Settle(heap, [root EXCEPT ![hd] = NIL])
Next == \/ \E hd \in Handles, k \in Keys, v \in Vals : Put(hd, k, v)
        \/ \E hd \in Handles, k \in Keys : Remove(hd, k)
        \/ \E s \in Handles, d \in Handles : Copy(s, d)
        \/ \E hd \in Handles : Close(hd)
Spec == Init /\ [][Next]_vars

\* ---- clauses ---------------------------------------------------------------------------------------------
\* every handle's tree is the canonical trie of ITS OWN content, hence its reads (TrieKV.ReadsLastWritten) and its
\* root (free hash of the structure) are functions of that content alone
HandlesIndependent == \A hd \in live : Deref(heap, root[hd]) = Canon(Pairs(Path, kv[hd]))
\* the situation the clause is about does occur: two live handles with different contents that share a node
Reach(h, r) == LET s == Visit(h, <<r>>, <<>>) IN {s[i] : i \in 1..Len(s)}
SharingOccurs == ~\E g, hd \in live : g # hd /\ kv[g] # kv[hd] /\ Reach(heap, root[g]) \cap Reach(heap, root[hd]) # {}
TypeOK == /\ live \subseteq Handles /\ live # {}
          /\ \A hd \in Handles \ live : root[hd] = NIL /\ kv[hd] = Empty
          /\ \A hd \in Handles : root[hd][1] \in {"nil", "at"} /\ (root[hd][1] = "at" => root[hd][2] \in 1..Len(heap))
====
