SPECIFICATION Spec
CONSTANTS NB = 3
 ND = 3
 Self = 2
 Packets <- McPackets
INVARIANTS QuorumOK HeadOK TreeOK StableChainKept
PROPERTY StableForward
CHECK_DEADLOCK FALSE
