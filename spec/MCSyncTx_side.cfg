SPECIFICATION Spec
CONSTANTS NB = 3
 Kind <- McKind
 Subs <- McSubs
 Blk <- McBlk3
 SideH = 2
 SideTxs <- McSide
 Palette <- McSidePal
 MaxLen = 2
 RaceLen = 0
 BugBatchAny = FALSE
 BugAddAfterInsert = FALSE
 BugStaleSubIndex = FALSE
 BugBatchAbort = FALSE
INVARIANTS TypeOK ChainLinear Converges TxReachesPool PeerKept PoolClean PoolOnce PoolValid
CHECK_DEADLOCK FALSE
