SPECIFICATION Spec
CONSTANTS NB = 3
 ND = 3
 Self = 0
 Packets <- McTermPackets
 DepNew <- McNewGrow
 TermStart <- McStart6
 SnapHeight <- McSnap4
 PL <- McPL4
INVARIANTS QuorumOK HeadOK TreeOK StableChainKept ConfTermOK TermKnownOK
PROPERTY StableForward
CHECK_DEADLOCK FALSE
