SPECIFICATION Spec
CONSTANTS Weights = {50, 100}
 MaxSigners = 2
 ExtraCfgs <- McNone
 MaxSigs = 2
 TamperFields = {"amount"}
 PayCfgs <- McPlainOnly
 PaySenders <- McPlainOnly
 PayFields = {"gasPrice"}
 GpFields = {"gasPrice"}
 MaxOver = 3
 BoxCfgs <- McPlainOnly
 Kinds = {}
 ReconfCfgs <- McNegCfgs
 NewCfgs <- McNegNew
 Slices = {"sigs", "tamper", "payer", "junk", "box", "reconf"}
 Dev = {"Dev_MultisigCountsRepeatedSigner"}
VIEW View
PROPERTIES EffectOnlyIfAuthorized CanonicalAccepted RepeatNeverHelps ForeignNeverHelps RemovalNeverHelps EncodingIrrelevant TamperFalsifies GasPayerFieldBinds SchemeBinds PayerBinds ThresholdExact Reconf ChangeCovered BoxBinds LabelIrrelevant
CHECK_DEADLOCK FALSE
