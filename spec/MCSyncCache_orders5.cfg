SPECIFICATION Spec
CONSTANTS Blocks <- McBlocks1
 MaxH = 5
 Confirms <- McNoConfirms
 Ops <- McOpsAdd
 MaxSteps = 5
 History = TRUE
 BugAddMiddle = FALSE
INVARIANTS TypeOK Refines CacheSorted SizeOK FirstOK IterateAscending KeysOK
CHECK_DEADLOCK FALSE
