SPECIFICATION Spec
CONSTANTS Ctx <- McCtx
 Init0 <- McInit
 Gas <- McGas
 Devs = {"Mut_ZeroStartSkipped"}
 Kinds = {"xfer", "vote", "voteby"}
 From = {"a4"}
 XTo = {"a1", "a5"}
 XAmt = {500}
 Payers = {"a4"}
 Voters = {"a5"}
 Cands = {"a3"}
 RegAmt = {}
 AFrom = {}
 ATo = {}
 AAmt = {}
 IAmt = {}
 ACodes = {}
 AIds = {}
 BGL = {}
 BoxFrom = {}
 BoxTo = {}
 BoxSeqs = {}
 SpendFrom = {"a1"}
 RewFrom = {}
 RewTerms = {}
 RewAmt = {}
 EmptyOK = FALSE
 MaxTx = 2
 MaxBlk = 2
 MaxTot = 3
VIEW View
INVARIANTS NonNegative Conservation DepositsBacked VotesAtBoundary SupplyEqualsEquity NothingForbiddenIncluded
PROPERTIES EndOfBlockIssuesTheReward GasWithinLimit NotIncludedIsFree OnlyOwnEquityDecreases SupplyChangesOnlyByIssuerOrHolder FrozenDoesNotMove
CHECK_DEADLOCK FALSE
