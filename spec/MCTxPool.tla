---- MODULE MCTxPool ----
EXTENDS TxPool
McPlain == {"t1", "t2", "t3"}
McBox == {"b1", "b2"}
McSubs == [b \in McBox |-> IF b = "b1" THEN {"t1", "t2"} ELSE {"t2", "t3"}]
McExp == [t \in McPlain \cup McBox |-> IF t \in {"t1", "t3"} THEN 10 ELSE 20]
McTimes == {5, 15, 25}
====
