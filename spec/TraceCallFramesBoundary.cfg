SPECIFICATION TraceSpec
CONSTANTS AllowedDev = @ALLOWED_DEV@
CONSTRAINT HW
POSTCONDITION Accepted
CHECK_DEADLOCK FALSE
