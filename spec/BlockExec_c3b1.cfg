SPECIFICATION Spec
CONSTANTS MaxCands = 3
 MaxBlocks = 1
INVARIANT Deterministic
CHECK_DEADLOCK FALSE
