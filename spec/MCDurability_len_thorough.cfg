SPECIFICATION Spec
CONSTANTS NB = 1
 MaxCrash = 2
 RepairTornTail = TRUE
 RepairAtomicContext = TRUE
 RepairScanPromotes = TRUE
 MaxEdge = 4
 ScanStride = "align"
 CaskAdvance = "align"
INVARIANTS TypeOK Opens StableNotOlder StableClosed WalClauses AccountsExact ContextFresh
CHECK_DEADLOCK FALSE
