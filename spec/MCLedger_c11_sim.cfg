SPECIFICATION Spec
CONSTANTS Ctx <- McCtx
 Init0 <- McInit
 Gas <- McGas
 Devs = {}
 Kinds = {"xfer", "vote", "voteby", "reg", "topup", "unreg", "box"}
 From = {"a1", "a2", "a3", "a4", "I"}
 XTo = {"a1", "a2", "a3", "a4", "a5", "I", "KS", "KO"}
 XAmt = {0, 100, 150, 1000}
 Payers = {"a4"}
 Voters = {"a1", "a2", "a3", "a4", "a5", "I"}
 Cands = {"a3", "a4", "a1"}
 RegAmt = {0, 50, 300, 350}
 AFrom = {}
 ATo = {}
 AAmt = {}
 IAmt = {}
 ACodes = {}
 AIds = {}
 BGL = {}
 BoxFrom = {"a4"}
 BoxTo = {"a1", "a2"}
 BoxSeqs <- McBoxVote
 SpendFrom = {"a1", "a2"}
 RewFrom = {}
 RewTerms = {}
 RewAmt = {}
 EmptyOK = FALSE
 MaxTx = 4
 MaxBlk = 2
 MaxTot = 7
VIEW View
INVARIANTS NonNegative Conservation DepositsBacked VotesAtBoundary SupplyEqualsEquity NothingForbiddenIncluded
PROPERTIES EndOfBlockIssuesTheReward GasWithinLimit NotIncludedIsFree OnlyOwnEquityDecreases SupplyChangesOnlyByIssuerOrHolder FrozenDoesNotMove
CHECK_DEADLOCK FALSE
