---- MODULE ForkView ----
(* C09: per-block account views above the stable block (store/chain_database.go, store/cblock.go,
   store/act_database.go).

   The state machine is shaped like the implementation at the level the property talks about:
     * SetBlock gives the new block a COPY of its parent's view taken at that moment (the trie clone),
     * Put(b, a) changes b's own view only (copy-on-write), and - as account.Manager.Save does - a block
       is written before it gets children (LeafOnly) and each (block, address) at most once,
     * Get(b, a) is a read: no effect on anything abstract (so any effect of the read-through cache
       of the real code is a divergence),
     * SetStableBlock(b) persists the write sets of the path old stable -> b, oldest first
       (Collect(height) per block), keeps exactly the strict descendants of b and drops the rest,
     * Restart reopens the database: unconfirmed blocks are gone, persisted data stays.
   The PROPERTY is stated declaratively on the history variables (parent, wr): DeclView(b, a) is the value
   written by the nearest ancestor-or-self of b that wrote a, else the persisted value.  TLC checks that
   the copy-at-creation machine satisfies it (and, as a negative control, that it does not when a block
   may be written after it got children: LeafOnly = FALSE).

   Values identify their writer: Val(b, a) = 16*b + a for block b >= 1; the initially persisted value
   of a is a itself, 0 means "account does not exist".  Block ids are handed out in creation order
   (n+1), block 0 is the initial stable block. *)
EXTENDS Integers, FiniteSets, Sequences, TLC
CONSTANTS Addrs,       \* set of address indices (subset of 1..15)
          MaxBlocks, MaxWrites, MaxStable, MaxRestart, MaxReads,
          InitStable,  \* set of initially persisted states, functions [Addrs -> Nat]
          LeafOnly     \* TRUE: the write discipline of account.Manager.Save / dpovp.go (SetBlock; Save)
VARIABLES parent,  \* [live block -> parent id]          CBlock.Parent (live = DOMAIN parent = UnConfirmBlocks)
          n,       \* number of blocks created so far
          stable,  \* id of the stable block               LastConfirm
          chain,   \* ids of persisted blocks (stable block and its ancestors)
          view,    \* [live \cup {stable} -> [Addrs -> Nat]]  materialised per-block views (the tries)
          sv,      \* [Addrs -> Nat]                        persisted account data (disk)
          wr,      \* history: set of <<b, a>> written, b live
          nstab, nrest, nreads
vars == <<parent, n, stable, chain, view, sv, wr, nstab, nrest, nreads>>

Val(b, a) == 16 * b + a
Live == DOMAIN parent
Views == Live \cup {stable}
RECURSIVE AncSelf(_)
AncSelf(b) == IF b = stable \/ b \notin Live THEN {} ELSE {b} \cup AncSelf(parent[b])    \* b and its unconfirmed ancestors
RECURSIVE Height(_)
Height(b) == IF b = stable \/ b \notin Live THEN 0 ELSE 1 + Height(parent[b])              \* height above the stable block
Desc(b) == {c \in Live : c # b /\ b \in AncSelf(c)}                                       \* strict descendants
IsLeaf(b) == ~\E c \in Live : parent[c] = b
Writers(b, a) == {c \in AncSelf(b) : <<c, a>> \in wr}
\* the property's definition of what a read through b returns
DeclView(b, a) ==
  IF Writers(b, a) = {} THEN sv[a]
  ELSE LET c == CHOOSE c \in Writers(b, a) : \A d \in Writers(b, a) : Height(d) <= Height(c) IN Val(c, a)
\* path old stable -> b, oldest first, as a sequence
RECURSIVE PathTo(_)
PathTo(b) == IF b = stable \/ b \notin Live THEN <<>> ELSE Append(PathTo(parent[b]), b)
RECURSIVE Persist(_, _)
Persist(s, path) == IF path = <<>> THEN s
                    ELSE Persist([a \in Addrs |-> IF <<Head(path), a>> \in wr THEN Val(Head(path), a) ELSE s[a]], Tail(path))

Init == /\ parent = <<>> /\ n = 0 /\ stable = 0 /\ chain = {0}
        /\ sv \in InitStable /\ view = (0 :> sv) /\ wr = {}
        /\ nstab = 0 /\ nrest = 0 /\ nreads = 0

\* ChainDatabase.SetBlock(hash(n+1), block{ParentHash: hash(p), Height: height(p)+1})
AddBlock(p) == /\ p \in Views /\ n < MaxBlocks
               /\ n' = n + 1
               /\ parent' = parent @@ ((n + 1) :> p)
               /\ view' = view @@ ((n + 1) :> view[p])
               /\ UNCHANGED <<stable, chain, sv, wr, nstab, nrest, nreads>>
\* GetActDatabase(hash(b)).Put(account{a, Val(b, a)}, height(b))
Put(b, a) == /\ b \in Live /\ a \in Addrs /\ <<b, a>> \notin wr
             /\ LeafOnly => IsLeaf(b)
             /\ Cardinality({x \in wr : x[1] = b}) < MaxWrites
             /\ wr' = wr \cup {<<b, a>>}
             /\ view' = [view EXCEPT ![b][a] = Val(b, a)]
             /\ UNCHANGED <<parent, n, stable, chain, sv, nstab, nrest, nreads>>
\* GetActDatabase(hash(b)).Get(a)
Get(b, a) == /\ b \in Views /\ a \in Addrs /\ nreads < MaxReads
             /\ nreads' = nreads + 1
             /\ UNCHANGED <<parent, n, stable, chain, view, sv, wr, nstab, nrest>>
\* ChainDatabase.SetStableBlock(hash(b))
SetStable(b) == /\ b \in Live /\ nstab < MaxStable
                /\ nstab' = nstab + 1
                /\ stable' = b
                /\ chain' = chain \cup AncSelf(b)
                /\ sv' = Persist(sv, PathTo(b))
                /\ parent' = [c \in Desc(b) |-> parent[c]]
                /\ view' = [c \in Desc(b) \cup {b} |-> view[c]]
                /\ wr' = {x \in wr : x[1] \in Desc(b)}
                /\ UNCHANGED <<n, nrest, nreads>>
\* Close(); NewChainDataBase(same directory)
Restart == /\ nrest < MaxRestart
           /\ nrest' = nrest + 1
           /\ parent' = <<>> /\ wr' = {}
           /\ view' = (stable :> sv)
           /\ UNCHANGED <<n, stable, chain, sv, nstab, nreads>>
\* quantifier bounds are constant sets so that TLC labels every edge with the instantiated action
Ids == 0..MaxBlocks
Next == \/ \E p \in Ids : AddBlock(p)
        \/ \E b \in Ids, a \in Addrs : Put(b, a)
        \/ \E b \in Ids, a \in Addrs : Get(b, a)
        \/ \E b \in Ids : SetStable(b)
        \/ Restart
Spec == Init /\ [][Next]_vars

\* ---- the clauses of C09 ----
TypeOK == /\ Live \subseteq 1..n /\ stable \in chain /\ stable \notin Live /\ DOMAIN view = Views
          /\ \A b \in Live : parent[b] \in Views
\* a read through b returns the nearest ancestor-or-self write, else the persisted value
ViewIsNearestWrite == \A b \in Views, a \in Addrs : view[b][a] = DeclView(b, a)
\* ... so forks never see each other's writes (the value names its writer)
ForksIsolated == \A b \in Views, a \in Addrs :
                   view[b][a] # sv[a] => \E c \in AncSelf(b) : <<c, a>> \in wr /\ view[b][a] = Val(c, a)
\* the persisted account data equals the stable block's view
PersistEqualsStableView == \A a \in Addrs : sv[a] = view[stable][a]
\* stabilising b keeps exactly its strict descendants, with unchanged views, and persists b's view
PruneExactStep == \A b \in Live : (stable' = b) =>
                     /\ DOMAIN parent' = Desc(b)
                     /\ \A c \in Desc(b), a \in Addrs : view'[c][a] = view[c][a]
                     /\ \A a \in Addrs : sv'[a] = view[b][a]
PruneExact == [][PruneExactStep]_vars
\* reads and writes of one block never change another block's view
WriteLocalStep == \A b \in Live, a \in Addrs : (wr' = wr \cup {<<b, a>>} /\ wr' # wr) =>
                     \A c \in Views \ {b}, x \in Addrs : view'[c][x] = view[c][x]
WriteLocal == [][WriteLocalStep]_vars
ReadPure == [][nreads' # nreads => UNCHANGED <<parent, stable, chain, view, sv, wr>>]_vars
====
