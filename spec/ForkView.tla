---- MODULE ForkView ----
(* C09: per-block account views above the stable block (store/chain_database.go, store/cblock.go,
   store/act_database.go).

   The state machine is shaped like the implementation at the level the property talks about:
     * SetBlock gives the new block a COPY of its parent's view taken at that moment (the trie clone),
     * Put(b, a) changes b's own view only (copy-on-write), and - as account.Manager.Save does - a block
       is written before it gets children (LeafOnly) and each (block, address) at most once,
     * Get(b, a) is a read: no effect on anything abstract (so any effect of the read-through cache
       of the real code is a divergence),
     * SetStableBlock(b) persists the write sets of the path old stable -> b, oldest first
       (Collect(height) per block), keeps exactly the strict descendants of b and drops the rest,
     * Restart reopens the database: unconfirmed blocks are gone, persisted data stays.
   The PROPERTY is stated declaratively on the history variables (parent, wr): DeclView(b, a) is the value
   written by the nearest ancestor-or-self of b that wrote a, else the persisted value.  TLC checks that
   the copy-at-creation machine satisfies it (and, as a negative control, that it does not when a block
   may be written after it got children: LeafOnly = FALSE).

   BLOCK IDENTITY.  The id of a block stands for its HASH and nothing else identifies a block.  What the header
   says besides is an ATTRIBUTE the tree must never look at: attr[b] is the block's slot (miner + timestamp; in
   the binding every header field except ParentHash/Height and the one field named by `kind` is a function of
   the slot alone).  Two different blocks with the same parent and the same slot are TWINS: they agree in
   height, parent hash, miner, time, roots, gas, ... and differ only in the content field `kind` (what an
   equivocating or restarted miner, or two blocks built on one parent within a second, look like); blocks of
   one slot under different parents additionally differ in ParentHash only.  No action of the machine reads
   attr or kind - that IS the statement - so the universe simply contains twins at every position (children of
   the stable block, deeper, with and without descendants) and every clause is checked over it.  As a negative
   control IdentByHash = FALSE makes SetStableBlock's walk recognise "the" next stable block by its header
   attributes (CBlock.Walk / IsSameBlock shaped): TLC must then find PruneExact violated, which shows that the
   universe really contains the twins that matter.

   Values identify their writer: Val(b, a) = 16*b + a for block b >= 1; the initially persisted value
   of a is a itself, 0 means "account does not exist".  Block ids are handed out in creation order
   (n+1), block 0 is the initial stable block. *)
EXTENDS Integers, FiniteSets, Sequences, TLC
CONSTANTS Addrs,       \* set of address indices (subset of 1..15)
          MaxBlocks, MaxWrites, MaxStable, MaxRestart, MaxReads,
          InitStable,  \* set of initially persisted states, functions [Addrs -> Nat]
          LeafOnly,    \* TRUE: the write discipline of account.Manager.Save / dpovp.go (SetBlock; Save)
          MaxSlots,    \* slots (miner, time) a new block may be given: 1..MaxSlots
          CanonSlots,  \* TRUE: slots are handed out in canonical order (a slot in use or the first free one) - only the
                       \*       equalities between slots matter, so this is a symmetry reduction of the model, not a bound
          Kinds,       \* header fields that may carry the difference between twins (one per behaviour)
          IdentByHash  \* TRUE: a block is identified by its hash (id) only.  FALSE: negative control
VARIABLES parent,  \* [live block -> parent id]          CBlock.Parent (live = DOMAIN parent = UnConfirmBlocks)
          n,       \* number of blocks created so far
          stable,  \* id of the stable block               LastConfirm
          chain,   \* ids of persisted blocks (stable block and its ancestors)
          view,    \* [live \cup {stable} -> [Addrs -> Nat]]  materialised per-block views (the tries)
          sv,      \* [Addrs -> Nat]                        persisted account data (disk)
          wr,      \* history: set of <<b, a>> written, b live
          nstab, nrest, nreads,
          attr,    \* [live \cup {stable} -> slot]  header attributes of the blocks (0: the initial stable block's own slot)
          kind     \* the header field in which the blocks of this behaviour carry their content difference
vars == <<parent, n, stable, chain, view, sv, wr, nstab, nrest, nreads, attr, kind>>

Val(b, a) == 16 * b + a
Live == DOMAIN parent
Views == Live \cup {stable}
RECURSIVE AncSelf(_)
AncSelf(b) == IF b = stable \/ b \notin Live THEN {} ELSE {b} \cup AncSelf(parent[b])    \* b and its unconfirmed ancestors
RECURSIVE Height(_)
Height(b) == IF b = stable \/ b \notin Live THEN 0 ELSE 1 + Height(parent[b])              \* height above the stable block
Desc(b) == {c \in Live : c # b /\ b \in AncSelf(c)}                                       \* strict descendants
IsLeaf(b) == ~\E c \in Live : parent[c] = b
\* different blocks that agree in every header field but the content field
Twin(c, d) == c # d /\ c \in Live /\ d \in Live /\ parent[c] = parent[d] /\ attr[c] = attr[d]
UsedSlots == {attr[c] : c \in Views}
FirstFree == CHOOSE s \in 1..(MaxSlots + 1) : s \notin UsedSlots /\ \A t \in 1..(s - 1) : t \in UsedSlots
\* what SetStableBlock's walk takes for "the block x of the path to the new stable block" among the children of x's parent
SameAs(c, x) == IF IdentByHash THEN c = x ELSE parent[c] = parent[x] /\ attr[c] = attr[x]
\* blocks that survive SetStableBlock(b): every old root's children are walked and removed with their subtrees,
\* except the child that is the next block of the path (IdentByHash: exactly the strict descendants of b)
Spared(b) == {c \in Live \ AncSelf(b) : \E x \in AncSelf(b) : SameAs(c, x)}
Keep(b) == Desc(b) \cup UNION {{c} \cup Desc(c) : c \in Spared(b)}
Writers(b, a) == {c \in AncSelf(b) : <<c, a>> \in wr}
\* the property's definition of what a read through b returns
DeclView(b, a) ==
  IF Writers(b, a) = {} THEN sv[a]
  ELSE LET c == CHOOSE c \in Writers(b, a) : \A d \in Writers(b, a) : Height(d) <= Height(c) IN Val(c, a)
\* path old stable -> b, oldest first, as a sequence
RECURSIVE PathTo(_)
PathTo(b) == IF b = stable \/ b \notin Live THEN <<>> ELSE Append(PathTo(parent[b]), b)
RECURSIVE Persist(_, _)
Persist(s, path) == IF path = <<>> THEN s
                    ELSE Persist([a \in Addrs |-> IF <<Head(path), a>> \in wr THEN Val(Head(path), a) ELSE s[a]], Tail(path))

Init == /\ parent = <<>> /\ n = 0 /\ stable = 0 /\ chain = {0}
        /\ sv \in InitStable /\ view = (0 :> sv) /\ wr = {}
        /\ nstab = 0 /\ nrest = 0 /\ nreads = 0
        /\ attr = (0 :> 0) /\ kind \in Kinds

\* ChainDatabase.SetBlock(hash(n+1), block{ParentHash: hash(p), Height: height(p)+1, miner/time/... of slot s, content in field kind})
AddBlock(p, s) == /\ p \in Views /\ n < MaxBlocks
               /\ s \in 1..MaxSlots /\ (CanonSlots => s \in UsedSlots \cup {FirstFree})
               /\ attr' = attr @@ ((n + 1) :> s)
               /\ n' = n + 1
               /\ parent' = parent @@ ((n + 1) :> p)
               /\ view' = view @@ ((n + 1) :> view[p])
               /\ UNCHANGED <<stable, chain, sv, wr, nstab, nrest, nreads, kind>>
\* GetActDatabase(hash(b)).Put(account{a, Val(b, a)}, height(b))
Put(b, a) == /\ b \in Live /\ a \in Addrs /\ <<b, a>> \notin wr
             /\ LeafOnly => IsLeaf(b)
             /\ Cardinality({x \in wr : x[1] = b}) < MaxWrites
             /\ wr' = wr \cup {<<b, a>>}
             /\ view' = [view EXCEPT ![b][a] = Val(b, a)]
             /\ UNCHANGED <<parent, n, stable, chain, sv, nstab, nrest, nreads, attr, kind>>
\* GetActDatabase(hash(b)).Get(a)
Get(b, a) == /\ b \in Views /\ a \in Addrs /\ nreads < MaxReads
             /\ nreads' = nreads + 1
             /\ UNCHANGED <<parent, n, stable, chain, view, sv, wr, nstab, nrest, attr, kind>>
\* ChainDatabase.SetStableBlock(hash(b))
SetStable(b) == /\ b \in Live /\ nstab < MaxStable
                /\ nstab' = nstab + 1
                /\ stable' = b
                /\ chain' = chain \cup AncSelf(b)
                /\ sv' = Persist(sv, PathTo(b))
                /\ parent' = [c \in Keep(b) |-> parent[c]]
                /\ view' = [c \in Keep(b) \cup {b} |-> view[c]]
                /\ attr' = [c \in Keep(b) \cup {b} |-> attr[c]]
                /\ wr' = {x \in wr : x[1] \in Keep(b)}
                /\ UNCHANGED <<n, nrest, nreads, kind>>
\* Close(); NewChainDataBase(same directory)
Restart == /\ nrest < MaxRestart
           /\ nrest' = nrest + 1
           /\ parent' = <<>> /\ wr' = {}
           /\ view' = (stable :> sv) /\ attr' = (stable :> attr[stable])
           /\ UNCHANGED <<n, stable, chain, sv, nstab, nreads, kind>>
\* quantifier bounds are constant sets so that TLC labels every edge with the instantiated action
Ids == 0..MaxBlocks
Next == \/ \E p \in Ids, s \in 1..MaxSlots : AddBlock(p, s)
        \/ \E b \in Ids, a \in Addrs : Put(b, a)
        \/ \E b \in Ids, a \in Addrs : Get(b, a)
        \/ \E b \in Ids : SetStable(b)
        \/ Restart
Spec == Init /\ [][Next]_vars

\* ---- the clauses of C09 ----
TypeOK == /\ Live \subseteq 1..n /\ stable \in chain /\ stable \notin Live /\ DOMAIN view = Views /\ DOMAIN attr = Views
          /\ \A b \in Live : parent[b] \in Views
\* a read through b returns the nearest ancestor-or-self write, else the persisted value
ViewIsNearestWrite == \A b \in Views, a \in Addrs : view[b][a] = DeclView(b, a)
\* ... so forks never see each other's writes (the value names its writer)
ForksIsolated == \A b \in Views, a \in Addrs :
                   view[b][a] # sv[a] => \E c \in AncSelf(b) : <<c, a>> \in wr /\ view[b][a] = Val(c, a)
\* the persisted account data equals the stable block's view
PersistEqualsStableView == \A a \in Addrs : sv[a] = view[stable][a]
\* stabilising b keeps exactly its strict descendants, with unchanged views, and persists b's view
PruneExactStep == \A b \in Live : (stable' = b) =>
                     /\ DOMAIN parent' = Desc(b)
                     /\ \A c \in Desc(b), a \in Addrs : view'[c][a] = view[c][a]
                     /\ \A a \in Addrs : sv'[a] = view[b][a]
PruneExact == [][PruneExactStep]_vars
\* reads and writes of one block never change another block's view
WriteLocalStep == \A b \in Live, a \in Addrs : (wr' = wr \cup {<<b, a>>} /\ wr' # wr) =>
                     \A c \in Views \ {b}, x \in Addrs : view'[c][x] = view[c][x]
WriteLocal == [][WriteLocalStep]_vars
ReadPure == [][nreads' # nreads => UNCHANGED <<parent, stable, chain, view, sv, wr>>]_vars
\* the header attributes of a block never change and play no part in which blocks exist: a twin of the new stable
\* block (or of one of its ancestors) goes like any other non-descendant, twins among the descendants both stay
AttrInert == [][/\ kind' = kind
                /\ \A b \in Views \cap DOMAIN attr' : attr'[b] = attr[b]
                /\ \A b \in Live : stable' = b => \A x \in AncSelf(b), c \in Live : Twin(x, c) => c \notin DOMAIN parent']_vars
====
