---- MODULE TxPool ----
(* C18: chain/txpool/tx_pool.go, implementation-shaped: a slice with holes (slots), a
   hash -> slot index (one entry for the tx and one per sub-tx of a box), capacity doubling and gc.
   One action per public method (each runs under pool.RW, so it is atomic).
   The abstraction is  Pending == non-nil slots;  the property clauses are the invariants below.
   FixDelBox = FALSE models delTx exactly as written: deleting a box removes the index entries of
   ALL its sub-transaction hashes even when they point at a standalone copy in another slot. *)
EXTENDS Naturals, Sequences, FiniteSets, TLC
CONSTANTS Plain, Box, Subs, Exp, Times, MaxSteps, Cap0, FixDelBox
Tx == Plain \cup Box
NIL == "nil"
SubsOf(t) == IF t \in Box THEN Subs[t] ELSE {}
Keys(t) == {t} \cup SubsOf(t)
VARIABLES slots,  \* Seq(Tx \cup {NIL})                     pool.txs
          index,  \* set of <<hash, slot number>> pairs      pool.hashIndexMap
          cap,    \*                                          pool.cap
          steps,
          accepted, deleted, expired, dropped                \* history, hidden by VIEW
vars == <<slots, index, cap, steps, accepted, deleted, expired, dropped>>
Has(ix, h) == \E p \in ix : p[1] = h
Idx(ix, h) == (CHOOSE p \in ix : p[1] = h)[2]
Pending == {slots[i] : i \in 1..Len(slots)} \ {NIL}
Init == /\ slots = <<>> /\ index = {} /\ cap = Cap0 /\ steps = 0
        /\ accepted = {} /\ deleted = {} /\ expired = {} /\ dropped = {}
Step == steps < MaxSteps /\ steps' = steps + 1
Exists(ix, t) == \E k \in Keys(t) : Has(ix, k)

\* addTx on (slots, index, cap): returns <<slots', index', cap', ok>>
AddTo(sl, ix, cp, t) ==
  IF Exists(ix, t) THEN <<sl, ix, cp, FALSE>>
  ELSE LET cp2 == IF cp - Len(sl) < 1 THEN cp * 2 ELSE cp
           ix2 == {p \in ix : p[1] \notin Keys(t)} \cup {<<k, Len(sl) + 1>> : k \in Keys(t)}
       IN <<Append(sl, t), ix2, cp2, TRUE>>

\* delTx.  With FixDelBox whatever a sub-transaction hash of the deleted box points at (a standalone copy,
\* another box containing it) is removed as well - the sub-transaction has been packaged inside the box;
\* without it only the index entries disappear (the code before the fix).
DelOne(sl, ix, t) ==
  LET sl1 == IF Has(ix, t) THEN [sl EXCEPT ![Idx(ix, t)] = NIL] ELSE sl
      hit == {Idx(ix, k) : k \in {k \in SubsOf(t) : Has(ix, k)}}
      sl2 == IF FixDelBox THEN [i \in 1..Len(sl1) |-> IF i \in hit THEN NIL ELSE sl1[i]] ELSE sl1
  IN <<sl2, {p \in ix : p[1] \notin Keys(t)}>>
Gc(sl, ix, cp) == IF ix = {} THEN <<<<>>, {}, IF cp > Cap0 THEN cp - 1 ELSE cp>> ELSE <<sl, ix, cp>>

AddTx(t) == LET r == AddTo(slots, index, cap, t) IN
            /\ Step /\ slots' = r[1] /\ index' = r[2] /\ cap' = r[3]
            /\ accepted' = IF r[4] THEN accepted \cup {t} ELSE accepted
            /\ deleted' = IF r[4] THEN deleted \ {t} ELSE deleted
            /\ expired' = IF r[4] THEN expired \ {t} ELSE expired
            /\ dropped' = IF r[4] THEN dropped \ {t} ELSE dropped
AddTxs(t, u) == LET r1 == AddTo(slots, index, cap, t)  r == AddTo(r1[1], r1[2], r1[3], u)
                    new == (IF r1[4] THEN {t} ELSE {}) \cup (IF r[4] THEN {u} ELSE {}) IN
            /\ t # u /\ Step /\ slots' = r[1] /\ index' = r[2] /\ cap' = r[3]
            /\ accepted' = accepted \cup new /\ deleted' = deleted \ new /\ expired' = expired \ new /\ dropped' = dropped \ new
Victims(sl, ix, t) == {sl[Idx(ix, k)] : k \in {k \in Keys(t) : Has(ix, k)}} \ (Keys(t) \cup {NIL})
DelTxs(ts) ==
  LET RECURSIVE Go(_, _, _, _)
      Go(sl, ix, rest, dr) == IF rest = <<>> THEN <<sl, ix, dr>>
                              ELSE LET r == DelOne(sl, ix, Head(rest)) IN Go(r[1], r[2], Tail(rest), dr \cup Victims(sl, ix, Head(rest)))
      r == Go(slots, index, ts, {})
      g == Gc(r[1], r[2], cap)
  IN /\ Step /\ slots' = g[1] /\ index' = g[2] /\ cap' = g[3]
     /\ deleted' = deleted \cup UNION {Keys(ts[i]) : i \in 1..Len(ts)}   \* a box is packaged with its sub-transactions
     /\ dropped' = dropped \cup r[3]           \* named deviation BoxDroppedWithSubTx: the box goes with its sub-tx
     /\ UNCHANGED <<accepted, expired>>
TimedOut(t, now) == Exp[t] < now \/ \E x \in SubsOf(t) : Exp[x] < now
RECURSIVE Scan(_, _, _, _, _, _)
\* GetTxs(time, size): walk the slots in order, delete expired ones, collect up to size
Scan(i, sl, ix, out, now, size) ==
  IF i > Len(sl) \/ Len(out) >= size THEN <<sl, ix, out>>
  ELSE IF sl[i] = NIL THEN Scan(i + 1, sl, ix, out, now, size)
  ELSE IF TimedOut(sl[i], now) THEN LET r == DelOne(sl, ix, sl[i]) IN Scan(i + 1, r[1], r[2], out, now, size)
  ELSE Scan(i + 1, sl, ix, Append(out, sl[i]), now, size)
GetTxs(now, size) == LET r == Scan(1, slots, index, <<>>, now, size) IN
                  /\ Step /\ slots' = r[1] /\ index' = r[2]
                  /\ expired' = expired \cup {t \in Pending : TimedOut(t, now)}
                  /\ UNCHANGED <<cap, accepted, deleted, dropped>>
GetResult(now, size) == Scan(1, slots, index, <<>>, now, size)[3]
Next == \/ \E t \in Tx : AddTx(t)
        \/ \E t, u \in Tx : AddTxs(t, u)
        \/ \E t \in Tx : DelTxs(<<t>>)
        \/ \E ts \in {q \in Tx \X Tx : q[1] # q[2]} : DelTxs(ts)
        \/ \E now \in Times, size \in 1..3 : GetTxs(now, size)
Spec == Init /\ [][Next]_vars
\* ---- the clauses of C18 ----
Big == Cardinality(Tx) + 2
NoDupOut == \A now \in Times : LET o == GetResult(now, Big) IN \A i, j \in 1..Len(o) : i # j => o[i] # o[j]
NoExpiredOut == \A now \in Times : LET o == GetResult(now, Big) IN \A i \in 1..Len(o) : ~TimedOut(o[i], now)
NoDeletedOut == \A now \in Times : LET o == GetResult(now, Big) IN \A i \in 1..Len(o) : o[i] \notin deleted
BoxExclusive == \A b \in Box \cap Pending : Subs[b] \cap Pending = {}
NoLoss == (accepted \ (deleted \cup expired \cup dropped)) \subseteq Pending
\* representation invariants the clauses rest on
IndexSound == \A p \in index : p[2] \in 1..Len(slots)
IndexComplete == \A i \in 1..Len(slots) : slots[i] # NIL => \A k \in Keys(slots[i]) : Has(index, k) /\ Idx(index, k) = i
SlotsDistinct == \A i, j \in 1..Len(slots) : (i # j /\ slots[i] # NIL) => slots[i] # slots[j]
CapOK == Len(slots) <= cap
View == <<slots, index, cap, steps>>
====
