SPECIFICATION Spec
CONSTANTS Contracts <- McContracts
 Sender = "U"
 Creators = {"U", "A", "B"}
 Slots <- McSlots2
 InitBal <- McInitBal
 InitStor <- McInitStor2
 Kinds <- McKinds5
 Vals = {0, 1, 2}
 SendVals = {0, 1}
 SuicideTo = {"U", "A", "B"}
 G0 = 12
 MaxDepth = 4
 MaxFan = 3
 DepthLimit = 1024
 DevS = FALSE
 DevG = FALSE
 JumpDests = {"next", "far", "s0", "s1", "s2"}
 ShapeAt <- McShapeAt
 DevJ = FALSE
 DevC = FALSE
INVARIANTS StaticIsNoop GasWithinSupplied DepthBound NoCrash JournalMarksOrdered CodeOnlyByCreation
PROPERTIES JumpIsFrameLocal FailedFrameIsNoop OkKeepsEffects GasNeverGrows CollisionIsNoop
CHECK_DEADLOCK FALSE
