SPECIFICATION Spec
CONSTANTS Contracts <- McContracts
 Sender = "U"
 Slots <- McSlots2
 InitBal <- McInitBal
 InitStor <- McInitStor2
 Kinds <- McKinds
 Vals = {0, 1, 2}
 SendVals = {0, 1}
 SuicideTo = {"U", "A", "B"}
 G0 = 12
 MaxDepth = 4
 MaxFan = 3
 DepthLimit = 1024
 DevS = FALSE
 DevG = FALSE
INVARIANTS StaticIsNoop GasWithinSupplied DepthBound NoCrash JournalMarksOrdered
PROPERTIES FailedFrameIsNoop OkKeepsEffects GasNeverGrows
CHECK_DEADLOCK FALSE
