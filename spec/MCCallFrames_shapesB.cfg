SPECIFICATION Spec
CONSTANTS Contracts <- McOne
 Sender = "U"
 Creators = {"U", "A"}
 Slots <- McSlots
 InitBal <- McInitBal1
 InitStor <- McInitStor1
 Kinds <- McKindsC
 Vals <- McNoSlots
 SendVals = {0}
 SuicideTo <- McNoSlots
 G0 = 6
 MaxDepth = 3
 MaxFan = 1
 DepthLimit = 1024
 DevS = FALSE
 DevG = FALSE
 JumpDests = {"next", "far", "s0", "s1", "s2"}
 ShapeAt <- McShapeAtB
 DevJ = FALSE
 DevC = FALSE
VIEW ViewNoHist
INVARIANTS StaticIsNoop GasWithinSupplied DepthBound NoCrash JournalMarksOrdered CodeOnlyByCreation
PROPERTIES JumpIsFrameLocal FailedFrameIsNoop OkKeepsEffects GasNeverGrows CollisionIsNoop
CHECK_DEADLOCK FALSE
