SPECIFICATION Spec
CONSTANTS NB = 3
 ND = 3
 Self = 0
 Packets <- McUPackets
 DepOld <- McT1
 DepNew <- McT2
 TermStart <- McStart10
 SnapHeight <- McSnap8
 PL <- McPL8
 MinerPool <- McPoolU
INVARIANTS QuorumOK HeadOK TreeOK StableChainKept ConfTermOK TermKnownOK
PROPERTY StableForward
CHECK_DEADLOCK FALSE
