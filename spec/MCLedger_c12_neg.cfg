SPECIFICATION Spec
CONSTANTS Ctx <- McCtx
 Init0 <- McInit
 Gas <- McGas
 Devs = {"Dev_NegativeAssetTransfer"}
 Kinds = {"issue", "repl", "axfer", "freeze", "unfreeze"}
 From = {}
 XTo = {}
 XAmt = {}
 Payers = {}
 Voters = {}
 Cands = {}
 RegAmt = {}
 AFrom = {"a1", "a2", "a3", "a4"}
 ATo = {"a1", "a2", "a3", "Z"}
 AAmt <- McAAmtQ
 IAmt <- McIAmt
 ACodes = {"T", "C"}
 AIds = {"T"}
 BGL = {}
 BoxFrom = {}
 BoxTo = {}
 BoxSeqs = {}
 SpendFrom = {}
 RewFrom = {}
 RewTerms = {}
 RewAmt = {}
 EmptyOK = FALSE
 MaxTx = 2
 MaxBlk = 2
 MaxTot = 2
VIEW View
INVARIANTS NonNegative Conservation DepositsBacked VotesAtBoundary SupplyEqualsEquity NothingForbiddenIncluded
PROPERTIES EndOfBlockIssuesTheReward GasWithinLimit NotIncludedIsFree OnlyOwnEquityDecreases SupplyChangesOnlyByIssuerOrHolder FrozenDoesNotMove
CHECK_DEADLOCK FALSE
