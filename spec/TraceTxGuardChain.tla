---- MODULE TraceTxGuardChain ----
(* C04 layer 2: judge of traces of the REAL engine (adapter replayprot and the driver replayprot-mine).
   Event Offer: a real block on block p with timestamp tm was assembled by the real miner path from a candidate list
   (got = the transactions it packaged) and offered to a real node (chain.BlockChain.InsertBlock): ok = accepted;
   cnt = how many times the payloads t, u and r have taken effect on the branch ending in the new block, read from the
   node's own state (recipient balance / amount).  Stabilise: the block received the missing confirms.  Reboot: the node
   was closed and reopened (chain.NewBlockChain: the guard is rebuilt by initTxPool).
   The monitor keeps the tree of offered blocks and demands
     ok  <=>  every transaction (and sub-transaction) of the block is inside its window at tm, no signed payload occurs
              twice in the block (standalone, inside a box, in another signature encoding), and none took effect on
              the ancestor chain of p  (other forks do not count);
     cnt = cnt of the parent + occurrences in the block  (every packaged transaction really takes effect once per occurrence).
   By induction every payload takes effect at most once per branch and only inside its window.
   Carriers: the 4th argument of Offer names the carrier encoding in which the candidate list was handed to the miner and in
   which the box payloads of the offered block are written (redundant "hash" member forged / naming another real
   transaction / missing, junk gasUsed, unknown members, member order, white space; "c" = canonical).  got names the
   packaged transactions by their signed content (read from their fields); the demanded verdict and counts are functions of
   got, p and tm only - the identity under which the node files a transaction may depend on nothing but its signed content.
   Admit: a transaction list arrived at the node (the three lines of PublicTxAPI.SendTx / handleTxsMsg: not ExistTx on the
   head => pool.AddTx); nothing is demanded of the admission itself, the next Mined event judges what the miner makes of it.
   Mined: the engine's own MineBlock produced a block; the same verdict is demanded of what the miner packaged.
   Identity: payload[x] names the SENDER-signed content of x; two different transactions x # y with payload[x] = payload[y] differ
   only in what their sender did not sign - how[x] says in what: "sig" (the bytes of the signature: s -> n-s), "add" (a signature
   appended by somebody else), "gas" (a reimbursement transaction priced and signed again by its gas payer) or "car" (x is y written
   again by somebody else in another form of its OWN carrier: an optional / defaulted / derivable member of its RLP / JSON - gasPayer,
   to, version, empty members - dropped, defaulted or written redundantly, the signature bytes being those of y; the 4th argument of
   Offer / 2nd of Admit names the form).  All are replays of one signed payload: a "car" variant is refused, or it is y itself to the
   node (same transaction, refused where y is refused) - no deviation admits it under another identity.
   Deviations listed in known_findings.txt (AllowedDev) are accepted only in exactly their form and reported by UseDev:
   a replay through another signature encoding only under Dev_TxMalleableEncoding, through an appended signature only under
   Dev_TxExtraSignature, through re-pricing only under Dev_RepricedReimbursement. *)
EXTENDS TraceBase
CONSTANT AllowedDev
VARIABLES exp, subs, payload, how, blocks, stable, dead
tvars == <<exp, subs, payload, how, blocks, stable, dead, l>>
Life == 1800
Pays == {"t", "u", "r", "n"}                                        \* payloads whose effect is observable as a balance
RECURSIVE AncIn(_, _)
AncIn(bl, b) == IF b = 0 THEN {} ELSE {b} \cup AncIn(bl, bl[b].parent)
Usable == {b \in 1..Len(blocks) : blocks[b].acc /\ b \notin dead /\ stable \in AncIn(blocks, b)}
Range(s) == {s[i] : i \in 1..Len(s)}
Closure(x) == {x} \cup Range(subs[x])
ExecSeq(x) == <<x>> \o subs[x]                            \* what takes effect, in order, when x is executed
RECURSIVE ExecAll(_)
ExecAll(L) == IF L = <<>> THEN <<>> ELSE ExecSeq(Head(L)) \o ExecAll(Tail(L))
Pay(s) == [i \in 1..Len(s) |-> payload[s[i]]]
NoDup(s) == \A i, j \in 1..Len(s) : i # j => s[i] # s[j]
Count(s, x) == Cardinality({i \in 1..Len(s) : s[i] = x})
Legal(x, tm) == \A y \in Closure(x) : tm <= exp[y] /\ exp[y] <= tm + Life
AllLegal(tm, L) == \A i \in 1..Len(L) : Legal(L[i], tm)
DoneP(p) == UNION {Range(Pay(ExecAll(blocks[X].txl))) : X \in AncIn(blocks, p)}     \* payloads executed on the branch
DoneH(p) == UNION {Range(ExecAll(blocks[X].txl)) : X \in AncIn(blocks, p)}          \* transaction hashes seen on the branch
DupInBlock(L) == ~NoDup(Pay(ExecAll(L)))                 \* a signed payload twice in one block
DupInBlockH(L) == ~NoDup(ExecAll(L))                     \* the very same transaction (hash) twice in one block
ReplayP(p, L) == Range(Pay(ExecAll(L))) \cap DoneP(p) # {}
ReplayH(p, L) == Range(ExecAll(L)) \cap DoneH(p) # {}
Valid(p, tm, L) == AllLegal(tm, L) /\ ~DupInBlock(L) /\ ~ReplayP(p, L)
\* the different transactions with one sender-signed payload that meet in the block L / on the branch ending in it
ClashIds(p, L) == LET X == ExecAll(L) IN
  {z \in DOMAIN subs : \E i \in 1..Len(X) : \E y \in DoneH(p) \cup {X[j] : j \in (1..Len(X)) \ {i}} :
                          y # X[i] /\ payload[y] = payload[X[i]] /\ z \in {y, X[i]}}
Kinds(p, L) == {how[z] : z \in ClashIds(p, L)} \ {""}        \* in what they differ
\* the verdict on a block (by a validator: accepted; of the miner: packaged)
Verdict(ok, p, tm, L) ==
  \/ ok = Valid(p, tm, L)
  \/ /\ ok /\ ~Valid(p, tm, L)
     /\ AllLegal(tm, L) /\ ~ReplayH(p, L)            \* never: outside the window, or the same transaction hash again on the branch
     /\ DupInBlockH(L) => "Dev_DupTxInBlock" \in AllowedDev /\ UseDev("Dev_DupTxInBlock")
     /\ DupInBlockH(L) \/ Kinds(p, L) # {}                                         \* the same payload under another transaction hash:
     /\ Kinds(p, L) \subseteq {"sig", "add", "gas"}
     /\ "sig" \in Kinds(p, L) => "Dev_TxMalleableEncoding" \in AllowedDev /\ UseDev("Dev_TxMalleableEncoding")      \* another signature encoding
     /\ "add" \in Kinds(p, L) => "Dev_TxExtraSignature" \in AllowedDev /\ UseDev("Dev_TxExtraSignature")            \* a signature appended by somebody else
     /\ "gas" \in Kinds(p, L) => "Dev_RepricedReimbursement" \in AllowedDev /\ UseDev("Dev_RepricedReimbursement")  \* priced again by its gas payer
CntOK(c, p, L) == \A x \in Pays : c[x] = blocks[p].cnt[x] + Count(Pay(ExecAll(L)), x)
Fun(o) == [k \in DOMAIN o |-> o[k]]
TReset == /\ Ev("reset")
          /\ E.life = Life /\ E.stable = 1 /\ E.head = 1
          /\ exp' = Fun(E.exp) /\ subs' = Fun(E.subs) /\ payload' = Fun(E.payload) /\ how' = Fun(E.how)
          /\ \A x \in Pays : E.cnt[x] = 0
          /\ blocks' = <<[parent |-> 0, time |-> 0, txl |-> <<>>, acc |-> TRUE, cnt |-> [x \in Pays |-> 0]]>>
          /\ stable' = 1 /\ dead' = {}
NoCnt == [x \in Pays |-> -1]
TOffer == /\ Ev("Offer")
          /\ LET p == E.a[1]  tm == E.a[2]  L == E.got IN
             /\ p \in Usable /\ tm >= blocks[p].time /\ E.id = Len(blocks) + 1
             /\ Range(L) \subseteq DOMAIN subs /\ Range(E.a[3]) \subseteq DOMAIN subs
             /\ E.a[4] \in STRING                                    \* the carrier encoding: no demand depends on it
             /\ CntOK(E.mcnt, p, L)                                   \* in the miner's state every packaged tx took effect
             /\ Verdict(E.ok, p, tm, L)
             /\ E.ok => CntOK(E.cnt, p, L)                            \* and in the validating node's state
             /\ E.stable = stable
             /\ blocks' = Append(blocks, [parent |-> p, time |-> tm, txl |-> L, acc |-> E.ok,
                                          cnt |-> IF E.ok THEN [x \in Pays |-> E.cnt[x]] ELSE NoCnt])
          /\ UNCHANGED <<exp, subs, payload, how, stable, dead>>
TStabilise == /\ Ev("Stabilise")
              /\ E.a[1] \in Usable /\ E.stable = E.a[1] /\ stable' = E.a[1]
              /\ UNCHANGED <<exp, subs, payload, how, blocks, dead>>
TReboot == /\ Ev("Reboot")
           /\ E.stable = stable /\ E.head = stable                   \* the stable chain survives, unstable blocks are gone
           /\ dead' = dead \cup ((1..Len(blocks)) \ AncIn(blocks, stable))
           /\ UNCHANGED <<exp, subs, payload, how, blocks, stable>>
\* the engine's own MineBlock on the node's head p: what it packaged from its pool must be a block a validator may accept
TMined == /\ Ev("Mined")
          /\ LET p == E.p  tm == E.tm  L == E.got IN
             /\ p \in Usable /\ tm >= blocks[p].time /\ E.id = Len(blocks) + 1
             /\ Range(L) \subseteq DOMAIN subs
             /\ \/ Valid(p, tm, L)
                \/ /\ ~Valid(p, tm, L) /\ "Dev_MinerRepackagesChainTx" \in AllowedDev /\ UseDev("Dev_MinerRepackagesChainTx")
                   /\ AllLegal(tm, L) /\ ~DupInBlock(L) /\ ReplayH(p, L)   \* exactly: a tx already on its own branch, handed back by the pool
             /\ CntOK(E.cnt, p, L)
             /\ blocks' = Append(blocks, [parent |-> p, time |-> tm, txl |-> L, acc |-> TRUE, cnt |-> [x \in Pays |-> E.cnt[x]]])
          /\ UNCHANGED <<exp, subs, payload, how, stable, dead>>
TAdmit == /\ Ev("Admit")
          /\ Range(E.a[1]) \subseteq DOMAIN subs /\ E.a[2] \in STRING
          /\ UNCHANGED <<exp, subs, payload, how, blocks, stable, dead>>
TraceNext == TReset \/ TOffer \/ TStabilise \/ TReboot \/ TMined \/ TAdmit
TraceSpec == /\ l = 1 /\ exp = <<>> /\ subs = <<>> /\ payload = <<>> /\ how = <<>> /\ blocks = <<>> /\ stable = 0 /\ dead = {}
             /\ [][TraceNext]_tvars
====
