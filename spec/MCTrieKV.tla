---- MODULE MCTrieKV ----
(* Key universe of the plain Trie: byte keys 1234, 1235, 1245, 12 (a strict prefix of the first three),
   1334, 7234 and the empty key as nibble paths with the terminator 16.  The SecureTrie hashes keys first; its paths are
   logged by the harness and used by the trace spec. *)
EXTENDS TrieKV
McPath == [k \in {"k0", "k1", "k2", "k3", "k4", "k5", "k6"} |->
             CASE k = "k0" -> <<16>>                   \* the empty key (plain Trie): a strict prefix of every key
               [] k = "k1" -> <<1, 2, 3, 4, 16>>
               [] k = "k2" -> <<1, 2, 3, 5, 16>>
               [] k = "k3" -> <<1, 2, 4, 5, 16>>
               [] k = "k4" -> <<1, 2, 16>>
               [] k = "k5" -> <<1, 3, 3, 4, 16>>
               [] k = "k6" -> <<7, 2, 3, 4, 16>>]
VarQuick == {<<"plain", 0>>, <<"plain", 1>>, <<"secure", 1>>}
VarAll == {"plain", "secure"} \X {0, 1, 2, 120}
VarNeg == {<<"plain", 1>>}
Keys7 == {"k0", "k1", "k2", "k3", "k4", "k5", "k6"}
KeysEdge == {"k0", "k1", "k2", "k4"}
VarEdge == {<<"plain", 0>>, <<"plain", 1>>}
Keys4 == {"k1", "k2", "k3", "k4"}
Keys5 == {"k1", "k2", "k3", "k4", "k5"}
Keys6 == {"k1", "k2", "k3", "k4", "k5", "k6"}
\* several handles (NH > 1)
VarHQuick == {<<"plain", 0>>, <<"secure", 1>>}
VarHAll == {<<"plain", 0>>, <<"plain", 1>>, <<"secure", 0>>, <<"secure", 2>>}
Keys3 == {"k1", "k2", "k3"}
Keys2 == {"k1", "k2"}
====
