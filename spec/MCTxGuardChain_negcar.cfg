SPECIFICATION Spec
CONSTANTS Times <- McTimesC
 ExpChoices <- McExp
 OfferMenu <- McMenuC
 MaxBlocks = 3
 MaxBoots = 0
 DupCheck = TRUE
 PayloadIdentity = TRUE
 Encs = {"c", "h"}
 CarrierIdentity = TRUE
INVARIANTS AtMostOnce
CHECK_DEADLOCK FALSE
