SPECIFICATION Spec
CONSTANTS Keys <- Keys4
 Vals = {"L"}
 Path <- McPath
 NH = 2
 InPlace = {"delete-full"}
INVARIANTS HandlesIndependent
CHECK_DEADLOCK FALSE
