---- MODULE MCPoolFork ----
EXTENDS PoolFork
McTx == {"x", "y", "z"}
\* one transaction that expires in the first epoch, two that are only valid in (and live until) the second
McTxEp == [t \in McTx |-> IF t = "x" THEN 0 ELSE 1]
====
