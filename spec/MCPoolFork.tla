---- MODULE MCPoolFork ----
EXTENDS PoolFork
McTx == {"x", "y", "z"}
====
