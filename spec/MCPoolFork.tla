---- MODULE MCPoolFork ----
EXTENDS PoolFork
McTx == {"x", "y", "z"}
\* one transaction that expires in the first epoch, two that are only valid in (and live until) the second
McTxEp == [t \in McTx |-> IF t = "x" THEN 0 ELSE 1]
\* three epochs: one transaction each
McTxEp3 == [t \in McTx |-> IF t = "x" THEN 0 ELSE IF t = "y" THEN 1 ELSE 2]
\* before the run every transaction was submitted to the node, or none (they are only known from blocks)
McPend == {McTx, {}}
====
