---- MODULE MCPoolFork ----
EXTENDS PoolFork
McTx == {"x", "y", "z"}
\* one transaction that expires in the first epoch, two that are only valid in (and live until) the second
McTxEp == [t \in McTx |-> IF t = "x" THEN 0 ELSE 1]
\* three epochs: one transaction each
McTxEp3 == [t \in McTx |-> IF t = "x" THEN 0 ELSE IF t = "y" THEN 1 ELSE 2]
\* before the run every transaction was submitted to the node, or none (they are only known from blocks)
McPend == {McTx, {}}
(* ---- indirect fork switches (new head is not the delivered block): MCPoolFork_ind*.cfg, SPECIFICATION IndSpec ----
   With 3 deputies (Q = 2) they need five blocks: a trunk block that becomes stable by a later confirm packet, the
   head's fork, a higher fork whose leaf is at an odd distance from genesis and the block on a third fork that makes
   the node look at all leaves again.  Family: one trunk block on genesis, at least two forks on it, all of them
   single blocks except one, which carries one or more leaves (every 5-block tree in which TLC finds ind > 0 is of
   this shape; which behaviours are replayed is selected by ind, not by the shape).  One epoch, so the transactions
   are interchangeable and the universes are enumerated up to renaming: every transaction in at most one block,
   named in the order of the blocks that carry them. *)
McTxEp1 == [t \in McTx |-> 0]
McTx2 == {"x", "y"}
McTxEp1of2 == [t \in McTx2 |-> 0]
McPend2 == {McTx2, {}}
Kids(f, x) == {b \in Block : f[b] = x}
McTrunkStar == {f \in Trees : /\ Kids(f, G) = {1} /\ Cardinality(Kids(f, 1)) >= 2
                              /\ \E m \in Kids(f, 1) : Kids(f, m) # {} /\ \A b \in Block \ {1, m} : Kids(f, b) = {}}
Rank(t) == CASE t = "x" -> 1 [] t = "y" -> 2 [] t = "z" -> 3
Canon == /\ \A a, b \in Block : a # b => txs[a] \cap txs[b] = {}
         /\ \A a, b \in Block : \A t \in txs[a], u \in txs[b] : a < b => Rank(t) < Rank(u)
         /\ \A b \in Block : \A t \in txs[b] : \A u \in Tx : Rank(u) < Rank(t) => \E a \in Block : u \in txs[a]
IndInit == InitIn(McTrunkStar) /\ Canon
IndSpec == IndInit /\ [][Next]_vars
\* quick: one numbering per shape (blocks numbered level by level; the numbering only decides the model's tie-break
\* between leaves of equal height - the real node breaks ties by block hash)
McTrunkStarLevels == {f \in McTrunkStar : \A b \in 1..(NB - 1) : f[b] <= f[b + 1]}
IndInitQ == InitIn(McTrunkStarLevels) /\ Canon
IndSpecQ == IndInitQ /\ [][Next]_vars
\* thorough: the same family, any placement of the transactions (a transaction may be in blocks of several forks)
IndInitAny == InitIn(McTrunkStar)
IndSpecAny == IndInitAny /\ [][Next]_vars
====
