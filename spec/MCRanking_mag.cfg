SPECIFICATION Spec
CONSTANTS NC = 2
 K = 1
 MaxVotes = 2
 MaxLive = 2
 MaxSteps = 0
 RestartAnywhere = TRUE
 Touch = {0}
 VMaps = {1, 2, 3, 5, 6}
 Persist = TRUE
 MaxChg = 1
 Dev = {}
INVARIANTS TypeOK TopIsFullSort FileOK
PROPERTIES RestartKeepsTop
CHECK_DEADLOCK FALSE
