SPECIFICATION Spec
CONSTANTS NC = 4
 K = 3
 MaxVotes = 2
 MaxLive = 2
 MaxSteps = 0
 RestartAnywhere = TRUE
 Touch = {0}
 VMaps = {100}
 Persist = FALSE
 MaxChg = 4
 Dev = {}
INVARIANTS TypeOK TopIsFullSort FileOK
PROPERTIES RestartKeepsTop
CHECK_DEADLOCK FALSE
