---- MODULE ConfirmStore ----
(* C19, store side: the confirm accessors of the chain database (ChainDatabase.SetConfirms / GetConfirms) are called by the
   chain thread (InsertConfirms, InsertBlock under chainLock) AND, outside chainLock, by the goroutine that signs stable blocks
   (DPoVP.batchConfirmStable) and by read queries.  SetConfirms is a read-modify-write of the stored block: load, append the
   confirms that are not there yet, store.  The design below has one process per caller and makes the three steps separate
   actions; Atomic = TRUE puts them under one exclusive lock (the code as it is), Atomic = FALSE lets them interleave
   (negative control: a confirm of a completed call disappears). *)
EXTENDS Naturals, FiniteSets, TLC
CONSTANTS Proc, Atomic
VARIABLES stored,   \* set of confirms in the stored block
          pc,       \* per process: "idle" | "loaded" | "done"
          tmp,      \* per process: the copy it loaded
          lock      \* holder of the exclusive lock or 0
vars == <<stored, pc, tmp, lock>>
Init == stored = {} /\ pc = [p \in Proc |-> "idle"] /\ tmp = [p \in Proc |-> {}] /\ lock = 0
Load(p) == /\ pc[p] = "idle" /\ (Atomic => lock = 0)
           /\ lock' = (IF Atomic THEN p ELSE lock)
           /\ tmp' = [tmp EXCEPT ![p] = stored] /\ pc' = [pc EXCEPT ![p] = "loaded"] /\ UNCHANGED stored
Store(p) == /\ pc[p] = "loaded"
            /\ stored' = tmp[p] \cup {p}            \* process p brings confirm p
            /\ pc' = [pc EXCEPT ![p] = "done"] /\ lock' = (IF Atomic THEN 0 ELSE lock) /\ UNCHANGED tmp
Next == \E p \in Proc : Load(p) \/ Store(p)
Spec == Init /\ [][Next]_vars
\* the confirm of every completed call is stored: the outcome of some sequential order
CompletedKept == \A p \in Proc : pc[p] = "done" => p \in stored
====
