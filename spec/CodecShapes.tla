---- MODULE CodecShapes ----
(* C14, part 2: the consensus objects and the *shapes* that steer their hand-written codecs.

   A shape is a record of small flags (nil / empty / zero / one byte below 0x80 / long, 0-1-2 list
   elements, optional pointers) - exactly the value-dependent branches of
     Header.EncodeRLP/DecodeRLP (empty-trie roots elided), txdata (rlp:"nil" pointers, box payload),
     ChangeLog.DecodeRLP + the per-type payload decoders registered in chain/account/change_log.go,
     Profile / AccountData / Asset codecs, the wire messages, and the Lemo address text form.
   Shapes(typ) is the universe TLC enumerates; Class(typ) says what the property demands of a type:
     "bytes"  hashed or signed: equal value, hash, signers AND re-encoding yields the original bytes
     "value"  stored or sent only: equal value (and signers where the message is signed).

   The second half is an abstract *wire model* of the branches: every flag maps to the RLP token
   class it is written as (Tok) and every token is read back by the per-field decoder (Back).
   RoundTrip states Back(Tok(f)) = Norm(f) for every field of every shape; with a deviation flag on,
   Back models what the code really does for that flag and RoundTrip fails (negative control). *)
EXTENDS Integers, Sequences, FiniteSets

CONSTANT Devs      \* set of deviation keys switched ON in the wire model (empty on the design)

\* ------------------------------------------------------------------ flag vocabularies
Roots   == {"emptyTrie", "zero", "rand"}          \* header roots: the empty-trie hash is elided on the wire
Nums    == {"zero", "small", "max"}
Bigs    == {"zero", "small", "big"}               \* small: one byte below 0x80
Texts   == {"empty", "byte", "long"}              \* byte: a single byte below 0x80
Blobs   == {"nil", "empty", "byte", "long"}
HashF   == {"zero", "rand"}
N02     == 0..2

LogTypes == {"BalanceLog", "StorageLog", "StorageRootLog", "AssetCodeLog", "AssetCodeStateLog", "AssetCodeRootLog",
             "AssetCodeTotalSupplyLog", "AssetIdLog", "AssetIdRootLog", "EquityLog", "EquityRootLog", "CandidateLog",
             "CandidateStateLog", "CodeLog", "AddEventLog", "SuicideLog", "VoteForLog", "VotesLog", "SignerLog"}

\* kind of the NewVal / Extra payload of every change-log type (what the constructor stores)
NewKind(t) ==
  CASE t \in {"BalanceLog", "VotesLog", "AssetCodeTotalSupplyLog"} -> "big"
    [] t = "StorageLog" -> "blob"
    [] t \in {"StorageRootLog", "AssetCodeRootLog", "AssetIdRootLog", "EquityRootLog"} -> "hash"
    [] t = "AssetCodeLog" -> "asset"
    [] t \in {"AssetCodeStateLog", "AssetIdLog", "CandidateStateLog"} -> "text"
    [] t = "EquityLog" -> "equity"
    [] t = "CandidateLog" -> "profile"
    [] t = "CodeLog" -> "code"
    [] t = "AddEventLog" -> "event"
    [] t = "SuicideLog" -> "none"
    [] t = "VoteForLog" -> "addr"
    [] t = "SignerLog" -> "signers"
ExtraKind(t) ==
  CASE t \in {"StorageLog", "AssetCodeLog", "AssetCodeTotalSupplyLog", "AssetIdLog", "EquityLog"} -> "hash"
    [] t = "AssetCodeStateLog" -> "pextra"
    [] t = "CandidateStateLog" -> "text"
    [] OTHER -> "none"
\* the flags of a payload kind
Flags(k) ==
  CASE k = "big" -> Bigs
    [] k = "blob" -> Blobs
    [] k = "code" -> {"empty", "byte", "long"}
    [] k = "hash" -> HashF
    [] k = "addr" -> HashF
    [] k = "text" -> Texts
    [] k = "asset" -> {"nilptr", "p0", "p1", "p2"}       \* nil pointer / asset with 0,1,2 profile entries
    [] k = "equity" -> {"nil", "zero", "big"}            \* untyped nil / equity amount
    [] k = "profile" -> {"p0", "p1", "p2"}
    [] k = "event" -> {"t0", "t1", "t2"}                 \* topics
    [] k = "signers" -> {"s0", "s1", "s2"}
    [] k = "pextra" -> {"key0", "key"}                   \* ProfileChangeLogExtra with empty / non-empty key
    [] k = "none" -> {"nil"}

\* ------------------------------------------------------------------ shape universes
HeaderShapes  == [txRoot : Roots, logRoot : Roots, deputyRoot : {"nil", "set"}, extra : {"empty", "set"},
                  sign : {"nil", "signed"}, nums : Nums]
BlockShapes   == [txs : N02, logs : N02, confirms : N02, deputies : N02]
\* text: ToName/Message empty, set (valid UTF-8, multi-byte and NUL included), or carrying bytes that are not valid UTF-8
TxShapes      == [gp : {"nil", "from", "other"}, to : {"nil", "zero", "set"}, text : {"empty", "set", "badutf8"},
                  data : {"empty", "byte", "long", "box0", "box1", "box2"}, amount : Bigs, sigs : N02, gpsigs : 0..1]
LogShapes     == UNION {[t : {t}, nv : Flags(NewKind(t)), ex : Flags(ExtraKind(t)), ver : Nums] : t \in LogTypes}
AccountShapes == [balance : {"zero", "big"}, votes : {"nil", "zero", "big"}, profile : N02, records : N02,
                  signers : N02, voteFor : HashF, roots : HashF]
DeputyShapes  == [nodeID : {"empty", "full"}, rank : Nums, votes : {"zero", "big"}]
AssetShapes   == [profile : N02, supply : {"zero", "big"}, divisible : BOOLEAN, replenishable : BOOLEAN, nums : {"zero", "max"}]
EquityShapes  == [equity : Bigs]
NumMsgs  == {"handshake", "status", "getstatus", "blockhash", "getblocks", "getsingle", "getconfirm", "discreq", "confirm"}
ListMsgs == {"confirms", "discres", "txs", "blocks"}
MsgShapes     == [m : NumMsgs, v : {"zero", "max"}] \cup [m : ListMsgs, v : {"n0", "n1", "n2"}]
\* Lemo address text: number of leading zero bytes, checksum (xor of the bytes) forced to zero, letter case of the
\* text handed to the decoder, receiver state, entry point
AddressShapes == {s \in [lead : {0, 1, 18, 19, 20}, cs0 : BOOLEAN, case : {"upper", "lower", "mixed"},
                         recv : {"fresh", "dirty"}, via : {"Decode", "StringToAddress", "UnmarshalJSON", "UnmarshalText"}] :
                    /\ (s.cs0 => s.lead <= 18)
                    /\ (s.via = "StringToAddress" => s.recv = "fresh")}

Types == {"header", "block", "tx", "log", "account", "deputy", "asset", "equity", "msg", "address"}
Shapes(typ) ==
  CASE typ = "header" -> HeaderShapes [] typ = "block" -> BlockShapes [] typ = "tx" -> TxShapes [] typ = "log" -> LogShapes
    [] typ = "account" -> AccountShapes [] typ = "deputy" -> DeputyShapes [] typ = "asset" -> AssetShapes
    [] typ = "equity" -> EquityShapes [] typ = "msg" -> MsgShapes [] typ = "address" -> AddressShapes

\* hashed (block/tx/log/deputy hash, merkle roots, asset and equity tries) or signed -> byte-stable
Class(typ) == IF typ \in {"header", "block", "tx", "log", "deputy", "asset", "equity"} THEN "bytes" ELSE "value"

\* ------------------------------------------------------------------ abstract wire model of the branches
(* token classes on the wire:  "e" empty string 0x80, "b" single byte below 0x80, "s" longer string,
   "el" empty list 0xc0, "l" non-empty list.  A field is <<kind, flag>>. *)
Tok(kind, f) ==
  CASE kind = "root"    -> IF f = "emptyTrie" THEN "e" ELSE "s"                \* Header.EncodeRLP elides the empty-trie hash
    [] kind = "optaddr" -> IF f = "nil" THEN "e" ELSE "s"                      \* rlp:"nil" pointer; the zero address is 20 bytes
    [] kind \in {"big", "num"} -> IF f = "zero" THEN "e" ELSE IF f = "small" THEN "b" ELSE "s"
    [] kind \in {"blob", "code", "text"} -> IF f \in {"nil", "empty"} THEN "e" ELSE IF f = "byte" THEN "b" ELSE "s"
    [] kind \in {"hash", "addr"} -> "s"                                        \* fixed arrays keep their zero bytes
    [] kind = "asset"   -> IF f = "nilptr" THEN "el" ELSE "l"
    [] kind = "equity"  -> IF f = "nil" THEN "el" ELSE "l"
    [] kind \in {"profile", "profmap"} -> IF f = "p0" THEN "el" ELSE "l"
    [] kind = "signers" -> IF f = "s0" THEN "el" ELSE "l"
    [] kind = "event"   -> "l"
    [] kind = "pextra"  -> "l"
    [] kind = "none"    -> "el"                                                \* a nil interface is written as the empty list
    [] kind = "list"    -> IF f = 0 THEN "el" ELSE "l"
    [] kind \in {"jsontext", "addrtext"} -> "s"                                \* the textual forms (JSON string, Lemo address)

\* what the decoder of the field rebuilds from the token (content of "s"/"l" tokens is carried by the flag itself)
Back(kind, f) ==
  LET t == Tok(kind, f) IN
  CASE kind = "root"    -> IF t = "e" THEN "emptyTrie" ELSE f
    [] kind = "optaddr" -> IF t = "e" THEN "nil" ELSE f
    [] kind \in {"big", "num"} -> IF t = "e" THEN "zero" ELSE f
    [] kind \in {"blob", "code", "text"} -> IF t = "e" THEN "empty" ELSE f
    [] kind \in {"hash", "addr", "event", "pextra"} -> f
    [] kind = "asset"   -> IF t = "el" THEN (IF "Dev_EmptyPayloadDecodedUntyped" \in Devs THEN "untyped-nil" ELSE "nilptr") ELSE f
    [] kind = "equity"  -> IF t = "el" THEN "nil" ELSE f
    [] kind = "profile" -> IF t = "el" THEN (IF "Dev_EmptyPayloadDecodedUntyped" \in Devs THEN "ptr-to-interface" ELSE "p0") ELSE f
    [] kind = "signers" -> IF t = "el" THEN (IF "Dev_EmptyPayloadDecodedUntyped" \in Devs THEN "untyped-nil" ELSE "s0") ELSE f
    [] kind = "profmap" -> IF t = "el" THEN "p0" ELSE f                        \* Profile.DecodeRLP into the map the caller made
    [] kind = "none"    -> "nil"
    [] kind = "list"    -> f
    \* a Go string travels through JSON unchanged - unless the code lets encoding/json replace invalid UTF-8 by U+FFFD
    [] kind = "jsontext" -> IF f = "badutf8" /\ "Dev_JsonManglesInvalidUtf8" \in Devs THEN "replaced" ELSE f
    \* decoding the text form sets all 20 bytes - unless leading zero bytes are only "not written" over a used receiver
    [] kind = "addrtext" -> IF f = "lead-dirty" /\ "Dev_AddressDecodeKeepsStaleBytes" \in Devs THEN "stale-high-bytes" ELSE f

\* nil and empty byte strings are the same value (the code tests len() everywhere); everything else is itself
Norm(kind, f) == IF kind \in {"blob", "code", "text"} /\ f = "nil" THEN "empty" ELSE f

\* the fields of a shape that go through a value-dependent branch
Fields(typ, s) ==
  CASE typ = "header" -> {<<"root", s.txRoot>>, <<"root", s.logRoot>>, <<"blob", IF s.deputyRoot = "nil" THEN "nil" ELSE "long">>,
                          <<"text", IF s.extra = "empty" THEN "empty" ELSE "long">>, <<"blob", IF s.sign = "nil" THEN "nil" ELSE "long">>,
                          <<"num", s.nums>>}
    [] typ = "tx"     -> {<<"optaddr", IF s.gp = "nil" THEN "nil" ELSE "set">>, <<"optaddr", s.to>>, <<"big", s.amount>>,
                          <<"text", IF s.text = "empty" THEN "empty" ELSE "long">>, <<"jsontext", s.text>>,
                          <<"blob", IF s.data \in {"empty", "byte"} THEN s.data ELSE "long">>,
                          <<"list", s.sigs>>, <<"list", s.gpsigs>>}
    [] typ = "log"    -> {<<NewKind(s.t), s.nv>>, <<ExtraKind(s.t), s.ex>>, <<"num", s.ver>>}
    [] typ = "block"  -> {<<"list", s.txs>>, <<"list", s.logs>>, <<"list", s.confirms>>, <<"list", s.deputies>>}
    [] typ = "account" -> {<<"big", s.balance>>, <<"profmap", IF s.profile = 0 THEN "p0" ELSE "p2">>, <<"list", s.records>>, <<"list", s.signers>>}
    [] typ = "deputy" -> {<<"blob", IF s.nodeID = "empty" THEN "empty" ELSE "long">>, <<"num", s.rank>>, <<"big", s.votes>>}
    [] typ = "asset"  -> {<<"profmap", IF s.profile = 0 THEN "p0" ELSE "p2">>, <<"big", s.supply>>}
    [] typ = "equity" -> {<<"big", s.equity>>}
    [] typ = "address" -> {<<"addrtext", IF s.lead > 0 /\ s.recv = "dirty" THEN "lead-dirty" ELSE "plain">>}
    [] OTHER -> {}

RoundTrip(typ, s) == \A fl \in Fields(typ, s) : Back(fl[1], fl[2]) = Norm(fl[1], fl[2])
\* canonical at the level of branches: two flags of one kind that are different values never share a token *and* a content
Injective(kind) == \A f, g \in Flags(kind) : (Norm(kind, f) # Norm(kind, g) /\ Tok(kind, f) = Tok(kind, g)) => Tok(kind, f) \in {"s", "l"}
PayloadKinds == {"big", "blob", "code", "hash", "addr", "text", "asset", "equity", "profile", "event", "signers", "pextra", "none"}
====
