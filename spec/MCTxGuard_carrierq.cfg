SPECIFICATION Spec
CONSTANTS Times <- McTimesC
 RootTimes <- McRootQ
 ExpChoices <- McExpQ
 Menu <- McMenuC
 QMenu <- McQMenuC
 MaxBlocks = 3
 HashCoversSig = FALSE
 Encs = {"c", "h", "x"}
 CarrierKeyed = FALSE
 PruneLife = 1800
 ReloadLife = 1800
INVARIANTS TypeOK GuardSound NoDangling LiveCached WindowSufficient TracerComplete CarryEquiv
CHECK_DEADLOCK FALSE
