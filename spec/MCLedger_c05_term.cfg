SPECIFICATION Spec
CONSTANTS Ctx <- McCtxTerm
 Init0 <- McInitTerm
 Gas <- McGas
 Devs = {}
 Kinds = {"xfer", "reg", "topup", "unreg", "setrew"}
 From = {"a2"}
 XTo = {"M1"}
 XAmt = {100}
 Payers = {}
 Voters = {}
 Cands = {"M1", "a4", "a3"}
 RegAmt = {300}
 AFrom = {}
 ATo = {}
 AAmt = {}
 IAmt = {}
 ACodes = {}
 AIds = {}
 BGL = {}
 BoxFrom = {}
 BoxTo = {}
 BoxSeqs = {}
 SpendFrom = {}
 RewFrom = {"F", "a2"}
 RewTerms = {0, 1}
 RewAmt = {0, 3, 500, 300000, 600000}
 EmptyOK = TRUE
 MaxTx = 2
 MaxBlk = 3
 MaxTot = 2
VIEW View
INVARIANTS NonNegative Conservation DepositsBacked VotesAtBoundary SupplyEqualsEquity NothingForbiddenIncluded
PROPERTIES EndOfBlockIssuesTheReward GasWithinLimit NotIncludedIsFree OnlyOwnEquityDecreases SupplyChangesOnlyByIssuerOrHolder FrozenDoesNotMove
CHECK_DEADLOCK FALSE
