SPECIFICATION Spec
CONSTANTS Keys <- Keys3
 Vals = {"s", "L"}
 Path <- McPath
 NH = 2
 InPlace = {}
INVARIANTS TypeOK HandlesIndependent
CHECK_DEADLOCK FALSE
