SPECIFICATION Spec
CONSTANTS NB = 2
 Kind <- McKind
 Subs <- McSubs
 Blk <- McBlk2
 SideH = 0
 SideTxs <- McNoSide
 Palette <- McCore
 MaxLen = 2
 RaceLen = 2
 BugBatchAny = FALSE
 BugAddAfterInsert = TRUE
 BugStaleSubIndex = FALSE
 BugBatchAbort = FALSE
INVARIANTS PoolClean
CHECK_DEADLOCK FALSE
