SPECIFICATION TraceSpec
CONSTANT AllowedDev = @ALLOWED_DEV@
CONSTRAINT HW
INVARIANT TraceRevsOK
POSTCONDITION Accepted
CHECK_DEADLOCK FALSE
