SPECIFICATION Spec
CONSTANTS Times <- McTimesT
 RootTimes <- McRootT
 ExpChoices <- McExpT
 Menu <- McMenu
 QMenu <- McQMenu
 MaxBlocks = 5
 HashCoversSig = FALSE
 Encs = {"c", "h", "k", "g", "x"}
 CarrierKeyed = FALSE
 PruneLife = 1800
 ReloadLife = 1800
INVARIANTS TypeOK GuardSound NoDangling LiveCached WindowSufficient TracerComplete CarryEquiv
CHECK_DEADLOCK FALSE
