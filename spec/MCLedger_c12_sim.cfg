SPECIFICATION Spec
CONSTANTS Ctx <- McCtx
 Init0 <- McInit
 Gas <- McGas
 Devs = {}
 Kinds = {"issue", "repl", "axfer", "freeze", "unfreeze", "xfer"}
 From = {"a1", "a2"}
 XTo = {"a1", "a3", "KO", "KD"}
 XAmt = {100}
 Payers = {}
 Voters = {}
 Cands = {}
 RegAmt = {}
 AFrom = {"a1", "a2", "a3", "a4"}
 ATo = {"a1", "a2", "a3", "a4", "Z", "KR", "KS", "KO", "KD"}
 AAmt <- McAAmtS
 IAmt <- McIAmtS
 ACodes = {"T", "N", "C", "G"}
 AIds = {"T", "N1", "N2", "C1", "C2", "G1", "X1", "X2"}
 BGL = {}
 BoxFrom = {}
 BoxTo = {}
 BoxSeqs = {}
 SpendFrom = {}
 RewFrom = {}
 RewTerms = {}
 RewAmt = {}
 EmptyOK = FALSE
 MaxTx = 4
 MaxBlk = 2
 MaxTot = 7
VIEW View
INVARIANTS NonNegative Conservation DepositsBacked VotesAtBoundary SupplyEqualsEquity NothingForbiddenIncluded
PROPERTIES EndOfBlockIssuesTheReward GasWithinLimit NotIncludedIsFree OnlyOwnEquityDecreases SupplyChangesOnlyByIssuerOrHolder FrozenDoesNotMove
CHECK_DEADLOCK FALSE
