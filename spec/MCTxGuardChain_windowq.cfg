SPECIFICATION Spec
CONSTANTS Times <- McTimesV
 ExpChoices <- McExp
 OfferMenu <- McMenuV
 MaxBlocks = 4
 MaxBoots = 1
 DupCheck = TRUE
 PayloadIdentity = TRUE
 Encs = {"c"}
 CarrierIdentity = FALSE
INVARIANTS AtMostOnce InWindow ForkFree CarrierFree
CHECK_DEADLOCK FALSE
