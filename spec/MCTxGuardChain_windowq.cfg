SPECIFICATION Spec
CONSTANTS Times <- McTimesS
 ExpChoices <- McExp
 OfferMenu <- McMenuV
 MaxBlocks = 4
 DupCheck = TRUE
 PayloadIdentity = TRUE
INVARIANTS AtMostOnce InWindow ForkFree
CHECK_DEADLOCK FALSE
