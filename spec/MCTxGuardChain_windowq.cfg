SPECIFICATION Spec
CONSTANTS Times <- McTimesV
 ExpChoices <- McExp
 OfferMenu <- McMenuV
 MaxBlocks = 4
 MaxBoots = 1
 DupCheck = TRUE
 PayloadIdentity = TRUE
INVARIANTS AtMostOnce InWindow ForkFree
CHECK_DEADLOCK FALSE
