---- MODULE TraceBlockExec ----
(* C01 on the real code.  One event per mined block: node A (honest miner, whole candidate list), node A2 (miner
   offered only what A included), validators B (plain), C (executed a different sibling block first) and B again
   after a restart.  state* fields are digests of a field-for-field dump of every account of the universe
   (balance, votes, voteFor, candidate profile, code, storage slots, all roots, signers, suicide flag, log versions). *)
EXTENDS BlockExec, TraceBase
tvars == <<state, used, blocks, l>>
InOrder(sub, full) == \E f \in [1..Len(sub) -> 1..Len(full)] :
                        /\ \A i \in 1..Len(sub) : full[f[i]] = sub[i]
                        /\ \A i, j \in 1..Len(sub) : i < j => f[i] < f[j]
TReset == Ev("reset") /\ state' = {} /\ used' = {} /\ blocks' = 0
TMine == /\ Ev("Mine")
         /\ LET c == E.a[1]  incl == E.included  disc == E.discarded  m == Miner(c, <<>>, state) IN
            /\ ToSet(incl) \cup ToSet(disc) \subseteq ToSet(c) /\ ToSet(incl) \cap ToSet(disc) = {}   \* (a candidate may also be dropped silently)
            /\ InOrder(incl, c)
            /\ incl = m[1]                                   \* the real miner discards exactly the candidates the model calls invalid
            /\ E.okB /\ E.okC /\ E.okBrestart                \* every node accepts the honest miner's block
            /\ E.hashA2 = E.hashA /\ E.discardedA2 = 0       \* same block whatever else the miner tried and discarded
            /\ E.stateB = E.stateA /\ E.stateC = E.stateA    \* same account state, field for field, whatever the node did before
            /\ E.stateBrestart = E.stateA                    \* and after a restart
            /\ state' = m[2] /\ used' = used \cup ToSet(c) /\ blocks' = blocks + 1
TraceNext == TReset \/ TMine
TraceSpec == l = 1 /\ state = {} /\ used = {} /\ blocks = 0 /\ [][TraceNext]_tvars
====
