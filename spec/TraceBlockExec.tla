---- MODULE TraceBlockExec ----
(* C01 on the real code.  One event per mined block: node A (honest miner, whole candidate list), node A2 (miner
   offered only what A included), validators B (plain), C (executed a different sibling block first) and B again
   after a restart.  state* fields are digests of a field-for-field dump of every account of the universe
   (balance, votes, voteFor, candidate profile, code, storage slots, all roots, signers, suicide flag, log versions). *)
EXTENDS BlockExec, TraceBase
tvars == <<state, used, blocks, l>>
InOrder(sub, full) == \E f \in [1..Len(sub) -> 1..Len(full)] :
                        /\ \A i \in 1..Len(sub) : full[f[i]] = sub[i]
                        /\ \A i, j \in 1..Len(sub) : i < j => f[i] < f[j]
TReset == Ev("reset") /\ state' = {} /\ used' = {} /\ blocks' = 0
RECURSIVE ApplyAll(_, _)
ApplyAll(txs, s) == IF txs = <<>> THEN s ELSE ApplyAll(Tail(txs), Eff(Head(txs), s))
\* Which candidates an honest miner packages, and in which order, is the miner's business (the model's Pre is only what the
\* unchanged code does; `agree` records whether this block's packaging matched it): C01 demands that whatever it sealed
\* re-executes identically everywhere.
TMine == /\ Ev("Mine")
         /\ LET c == E.a[1]  incl == E.included  disc == E.discarded IN
            /\ ToSet(incl) \cup ToSet(disc) \subseteq ToSet(c) /\ ToSet(incl) \cap ToSet(disc) = {}
            /\ E.okB /\ E.okC /\ E.okBrestart                \* every node accepts the honest miner's block
            /\ E.hashA2 = E.hashA /\ E.discardedA2 = 0       \* same block whatever else the miner tried and discarded
            /\ E.stateB = E.stateA /\ E.stateC = E.stateA    \* same account state, field for field, whatever the node did before
            /\ E.stateBrestart = E.stateA                    \* and after a restart
            /\ state' = ApplyAll(incl, state) /\ used' = used \cup ToSet(c) /\ blocks' = blocks + 1
TraceNext == TReset \/ TMine
TraceSpec == l = 1 /\ state = {} /\ used = {} /\ blocks = 0 /\ [][TraceNext]_tvars
====
