SPECIFICATION TraceSpec
CONSTANTS Contracts = {"A", "B", "C"}
 Sender = "U"
 Slots = {"s1", "s2"}
 DepthLimit = 1024
 AllowedDev = @ALLOWED_DEV@
CONSTRAINT HW
POSTCONDITION Accepted
CHECK_DEADLOCK FALSE
