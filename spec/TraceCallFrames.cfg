SPECIFICATION TraceSpec
CONSTANTS Contracts = {"A", "B", "C"}
 Sender = "U"
 Creators = {"U", "A", "B", "C"}
 Slots = {"s1", "s2"}
 DepthLimit = 1024
 MaxCodeSize = 24576
 CreateDataGas = 200
 Precompiles = {"P5"}
 AllowedDev = @ALLOWED_DEV@
CONSTRAINT HW
POSTCONDITION Accepted
CHECK_DEADLOCK FALSE
