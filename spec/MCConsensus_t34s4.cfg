SPECIFICATION Spec
CONSTANTS NB = 3
 ND = 3
 Self = 4
 Packets <- McGrowPackets
 DepNew <- McNewGrow
 TermStart <- McStart6
 SnapHeight <- McSnap4
 PL <- McPL4
 MinerPool <- McPoolGrow
INVARIANTS QuorumOK HeadOK TreeOK StableChainKept ConfTermOK TermKnownOK
PROPERTY StableForward
CHECK_DEADLOCK FALSE
