SPECIFICATION Spec
CONSTANTS Proc = {1, 2, 3}
 Atomic = TRUE
INVARIANT CompletedKept
CHECK_DEADLOCK FALSE
