SPECIFICATION Spec
CONSTANTS Readers = {1, 2}
 Versions = {1, 2}
 Nested = TRUE
 MaxSaves = 3
INVARIANTS ReadsASavedVersion Exclusive NoHang
CHECK_DEADLOCK FALSE
