---- MODULE TrieKV ----
(* C17 design: state tries (store/trie Trie / SecureTrie over store.TrieDatabase over BeansDB).

   Several trie HANDLES (Go objects) are alive at once over one TrieDatabase: the trie an account manager
   works on, a Copy() of it, a second trie opened from the same committed root, a trie opened from an older
   root.  The node graphs behind the handles are persistent structures that share nodes (a copy shares every
   loaded node with its origin, an update rebuilds only the path it touches); the property speaks about
   every handle separately:

   live    the handle slots in use (1..NH; slot 1 is the trie every behaviour starts with)
   kv[h]   the content of handle h - what ITS reads must return and what ITS root commits to, whatever is
           done through the other handles
   Shape   (derived) the node structure; the clauses below show by induction that the structure the
           implementation's insert / delete (TrieKVOps.Ins / Del) produce is always Canon(content)
   tag[h]  where the root of the CURRENT content of h can be loaded from (a fact about the content, shared by
           all handles with that content): "dirty" nowhere, "mem" the TrieDatabase node cache (Trie.Commit),
           "disk" BeansDB (TrieDatabase.Commit)
   old     up to MaxOld committed contents no live handle has any more (most recent first); they can be reopened
   link    pairs of live handles that are the same Go object by descent: one is a Copy of the other (or of a copy
           of it ...) and neither was re-created from a root since.  Only bookkeeping: it makes "operate on one
           of two handles that share nodes" a situation of its own in the state graph, so that every operation
           is replayed in it.
   kind/lim   plain Trie or SecureTrie, cache limit (generations kept in memory) - fixed per behaviour

   One action per API call, on a chosen handle.  Hash / Get / Commit / ProveAll / Reopen / Copy / Open leave
   every content alone: in the implementation they rewrite the in-memory node graph (hash caching, on-demand
   loading, unloading of old cache generations), which is exactly what must not show in reads or roots of ANY
   handle.  Put / Remove change the content of the handle they name and of no other (OneHandleChanges).
   The conformance run logs, after every step, the real root, all reads and the node paths of EVERY live handle
   and of a snapshot (copy) of the handle operated on taken just before the call; TraceTrieKV requires each of
   them to be the function of that handle's own content and decides "root is a function of content" over all
   replayed paths. *)
EXTENDS TrieKVOps
CONSTANTS Keys, Vals, Path, Variants, MaxOld, ReopenModes, Merge, Ticking,
          NH,          \* number of handle slots
          Vias,        \* ways to remove a key: "delete" = TryDelete, "empty" = TryUpdate with an empty value
          Flushes      \* Commit(h, f) for f \in Flushes (TRUE: followed by TrieDatabase.Commit)
VARIABLES kind, lim, live, kv, tag, old, link, tick
vars == <<kind, lim, live, kv, tag, old, link, tick>>
svars == <<kind, lim, live, kv, tag, old, link>>
\* Ticking = TRUE (simulation configs) makes every call a visible step, also those that leave the content alone
Tick == tick' = IF Ticking THEN tick + 1 ELSE tick

Handles == 1..NH
Contents == [Keys -> Vals \cup {NONE}]
Empty == [k \in Keys |-> NONE]
Rank(t) == IF t = "disk" THEN 2 ELSE IF t = "mem" THEN 1 ELSE 0
Best(a, b) == IF Rank(a) >= Rank(b) THEN a ELSE b

Init == /\ \E v \in Variants : kind = v[1] /\ lim = v[2]          \* <<"plain" | "secure", cache limit>>
        /\ live = {1} /\ kv = [h \in Handles |-> Empty] /\ tag = [h \in Handles |-> "dirty"]
        /\ old = <<>> /\ link = {} /\ tick = 0

\* ---- bookkeeping: where a content can be loaded from ------------------------------------------------
OldTag(o, c) == IF \E i \in 1..Len(o) : o[i].c = c THEN (CHOOSE e \in {o[i] : i \in 1..Len(o)} : e.c = c).t ELSE "dirty"
Without(o, c) == SelectSeq(o, LAMBDA e : e.c # c)
Trunc(o) == Take(o, IF Len(o) < MaxOld THEN Len(o) ELSE MaxOld)
Holds(S, c) == \E g \in S : kv[g] = c
\* the handles of S give up their contents (keep: the handles that stay as they are): old, with the committed
\* contents nobody holds any more in front (ascending handle order, every content once)
Retire(S, keep) ==
  LET hs == SelectSeq([i \in 1..NH |-> i], LAMBDA g : /\ g \in S /\ tag[g] # "dirty" /\ ~Holds(keep, kv[g])
                                                     /\ ~\E g2 \in S : g2 < g /\ kv[g2] = kv[g])
      r == [i \in 1..Len(hs) |-> [c |-> kv[hs[i]], t |-> tag[hs[i]]]]
  IN r \o SelectSeq(old, LAMBDA e : \A i \in 1..Len(r) : r[i].c # e.c)
\* the tag of content c, known from a handle of keep that has it or from the list o
Known(keep, o, c) == IF Holds(keep, c) THEN tag[CHOOSE g \in keep : kv[g] = c] ELSE OldTag(o, c)
\* the content of h moves to c2: remember the old content if it was committed and nobody else has it, look c2 up
Move(h, c2) ==
  IF c2 = kv[h] THEN UNCHANGED <<tag, old>>
  ELSE LET keep == live \ {h}
           o1 == Retire({h}, keep)
       IN /\ tag' = [tag EXCEPT ![h] = Known(keep, o1, c2)]
          /\ old' = Trunc(Without(o1, c2))

\* ---- operations on a chosen handle ------------------------------------------------------------------
Put(h, k, v) == /\ h \in live
                /\ kv' = [kv EXCEPT ![h] = PutKV(kv[h], k, v)]
                /\ Move(h, PutKV(kv[h], k, v)) /\ UNCHANGED <<kind, lim, live, link>> /\ Tick
\* via = "delete": TryDelete;  via = "empty": TryUpdate with an empty value
Remove(h, k, via) == /\ h \in live
                     /\ kv' = [kv EXCEPT ![h] = DelKV(kv[h], k)]
                     /\ Move(h, DelKV(kv[h], k)) /\ UNCHANGED <<kind, lim, live, link>> /\ Tick
Get(h, k) == h \in live /\ UNCHANGED svars /\ Tick
Hash(h) == h \in live /\ UNCHANGED svars /\ Tick
\* Trie.Commit (nodes into the TrieDatabase cache, cache generation + 1, old generations unloaded),
\* flush: followed by TrieDatabase.Commit(root) as account.Manager.Save / StorageCache.Save do
Commit(h, flush) ==
  LET t == IF flush THEN "disk" ELSE Best(tag[h], "mem") IN
  /\ h \in live
  /\ tag' = [g \in Handles |-> IF g \in live /\ kv[g] = kv[h] THEN t ELSE tag[g]]
  /\ UNCHANGED <<kind, lim, live, kv, old, link>> /\ Tick
\* handle h becomes a new trie object made from the root of its current (i = 0) or an older committed content;
\* mode "same": on the same TrieDatabase, "fresh": on a new TrieDatabase over the same BeansDB,
\* "restart": after closing and re-opening the chain database directory.  A new TrieDatabase is the end of
\* all other handles (one TrieDatabase at a time).
Reopen(h, i, mode) ==
  LET c == IF i = 0 THEN kv[h] ELSE old[i].c
      t == IF i = 0 THEN tag[h] ELSE old[i].t
      keep == IF mode = "same" THEN live \ {h} ELSE {}
      o1 == Retire((live \ keep) \ (IF i = 0 THEN {h} ELSE {}), keep \cup (IF i = 0 THEN {h} ELSE {}))
      o2 == Without(o1, c)
      o3 == IF mode = "same" THEN o2 ELSE SelectSeq(o2, LAMBDA e : e.t = "disk")   \* the node cache is gone
  IN /\ h \in live /\ i <= Len(old)
     /\ IF mode = "same" THEN t # "dirty" ELSE t = "disk"
     /\ live' = keep \cup {h}
     /\ kv' = [g \in Handles |-> IF g = h THEN c ELSE IF g \in keep THEN kv[g] ELSE Empty]
     /\ tag' = [g \in Handles |-> IF g = h THEN t ELSE IF g \in keep THEN tag[g] ELSE "dirty"]
     /\ old' = Trunc(o3)
     /\ link' = {p \in link : p \subseteq keep}
     /\ UNCHANGED <<kind, lim>> /\ Tick
\* build and check proofs for every key from the nodes reachable from the root of h's content
ProveAll(h) == h \in live /\ tag[h] # "dirty" /\ UNCHANGED svars /\ Tick

\* ---- more handles -----------------------------------------------------------------------------------
\* SecureTrie.Copy() / struct copy of a Trie: a second object that shares every loaded node with src
Copy(src, dst) ==
  /\ src \in live /\ dst \in Handles \ live
  /\ live' = live \cup {dst}
  /\ kv' = [kv EXCEPT ![dst] = kv[src]] /\ tag' = [tag EXCEPT ![dst] = tag[src]]
  /\ link' = link \cup {{src, dst}} \cup {{g, dst} : g \in {x \in live : {x, src} \in link}}
  /\ UNCHANGED <<kind, lim, old>> /\ Tick
\* a second trie from the committed root of src's content, through the same TrieDatabase
Open(dst, src) ==
  /\ src \in live /\ dst \in Handles \ live /\ tag[src] # "dirty"
  /\ live' = live \cup {dst}
  /\ kv' = [kv EXCEPT ![dst] = kv[src]] /\ tag' = [tag EXCEPT ![dst] = tag[src]]
  /\ UNCHANGED <<kind, lim, old, link>> /\ Tick
\* a second trie from an older committed root (the trie went on, the old root is read again), same TrieDatabase
OpenOld(dst, i) ==
  /\ dst \in Handles \ live /\ i \in 1..Len(old)
  /\ live' = live \cup {dst}
  /\ kv' = [kv EXCEPT ![dst] = old[i].c] /\ tag' = [tag EXCEPT ![dst] = old[i].t]
  /\ old' = Without(old, old[i].c)
  /\ UNCHANGED <<kind, lim, link>> /\ Tick
\* the object is dropped
Close(h) ==
  /\ h \in live /\ live # {h}
  /\ live' = live \ {h}
  /\ kv' = [kv EXCEPT ![h] = Empty] /\ tag' = [tag EXCEPT ![h] = "dirty"]
  /\ old' = Trunc(Retire({h}, live \ {h}))
  /\ link' = {p \in link : h \notin p}
  /\ UNCHANGED <<kind, lim>> /\ Tick

Next == \/ \E h \in Handles, k \in Keys, v \in Vals : Put(h, k, v)
        \/ \E h \in Handles, k \in Keys, via \in Vias : Remove(h, k, via)
        \/ \E h \in Handles, k \in Keys : Get(h, k)
        \/ \E h \in Handles : Hash(h)
        \/ \E h \in Handles, f \in Flushes : Commit(h, f)
        \/ \E h \in Handles, i \in 0..MaxOld, m \in ReopenModes : Reopen(h, i, m)
        \/ \E h \in Handles : ProveAll(h)
        \/ \E s \in Handles, d \in Handles : Copy(s, d)
        \/ \E s \in Handles, d \in Handles : Open(d, s)
        \/ \E d \in Handles, i \in 1..MaxOld : OpenOld(d, i)
        \/ \E h \in Handles : Close(h)
Spec == Init /\ [][Next]_vars

\* ---- clauses ------------------------------------------------------------------------------------
\* The node structure depends on the content only, not on the order of insertions and deletions:
\* the empty trie is canonical, a reopened / copied trie is what was stored, and from the canonical structure of
\* ANY content every insert and every delete of the implementation leads to the canonical structure of the new
\* content.  Checked on every reachable content of every handle.
Shape(h) == Canon(Pairs(Path, kv[h]))
InsertKeepsCanonical == \A h \in live, k \in Keys, v \in Vals : Ins(Shape(h), Path[k], V(v)) = Canon(Pairs(Path, PutKV(kv[h], k, v)))
DeleteKeepsCanonical == \A h \in live, k \in Keys : Del(Shape(h), Path[k], Merge) = Canon(Pairs(Path, DelKV(kv[h], k)))
\* reads return the last value written through this handle
ReadsLastWritten == \A h \in live, k \in Keys : Look(Shape(h), Path[k]) = kv[h][k]
\* different contents have different structures, hence (free hash) different roots; checked once
RootBindsContent == (live = {1} /\ kv[1] = Empty /\ tag[1] = "dirty") =>
                      Cardinality({Canon(Pairs(Path, c)) : c \in Contents}) = Cardinality(Contents)
\* a step changes the content of at most one of the handles that stay: handles are independent tries
OneHandleChanges == [][Cardinality({h \in live \cap live' : kv'[h] # kv[h]}) <= 1]_vars
TypeOK == /\ live \subseteq Handles /\ live # {} /\ kv \in [Handles -> Contents] /\ Len(old) <= MaxOld
          /\ \A h \in Handles : tag[h] \in {"dirty", "mem", "disk"}
          /\ \A h \in Handles \ live : kv[h] = Empty /\ tag[h] = "dirty"
          /\ \A g, h \in live : kv[g] = kv[h] => tag[g] = tag[h]          \* the tag is a fact about the content
          /\ \A i \in 1..Len(old) : old[i].c \in Contents /\ ~Holds(live, old[i].c) /\ old[i].t \in {"mem", "disk"}
          /\ \A i, j \in 1..Len(old) : i # j => old[i].c # old[j].c
          /\ \A p \in link : p \subseteq live /\ Cardinality(p) = 2
====
