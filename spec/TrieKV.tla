---- MODULE TrieKV ----
(* C17 design: a state trie (store/trie Trie / SecureTrie over store.TrieDatabase over BeansDB).

   kv      the content - what reads must return and what the root commits to
   Shape   (derived) the node structure; the clauses below show by induction that the structure the
           implementation's insert / delete (TrieKVOps.Ins / Del) produce is always Canon(content)
   tag     where the root of the CURRENT content can be loaded from:
             "dirty" nowhere, "mem" the TrieDatabase node cache (Trie.Commit), "disk" BeansDB
             (TrieDatabase.Commit)
   old     up to MaxOld older committed contents (most recent first) that can be reopened
   kind/lim   plain Trie or SecureTrie, cache limit (generations kept in memory) - fixed per behaviour

   One action per API call.  Hash / Get / Commit / ProveAll / Reopen leave the content alone: in the
   implementation they rewrite the in-memory node graph (hash caching, on-demand loading, unloading of
   old cache generations), which is exactly what must not show in reads or roots.  The conformance
   run logs the real root and all reads after every step; TraceTrieKV decides "root is a function of
   content" over all replayed paths. *)
EXTENDS TrieKVOps
CONSTANTS Keys, Vals, Path, Variants, MaxOld, ReopenModes, Merge, Ticking
VARIABLES kind, lim, kv, tag, old, tick
vars == <<kind, lim, kv, tag, old, tick>>
svars == <<kind, lim, kv, tag, old>>
\* Ticking = TRUE (simulation configs) makes every call a visible step, also those that leave the content alone
Tick == tick' = IF Ticking THEN tick + 1 ELSE tick

Contents == [Keys -> Vals \cup {NONE}]
Empty == [k \in Keys |-> NONE]
Rank(t) == IF t = "disk" THEN 2 ELSE IF t = "mem" THEN 1 ELSE 0
Best(a, b) == IF Rank(a) >= Rank(b) THEN a ELSE b

Init == /\ \E v \in Variants : kind = v[1] /\ lim = v[2]          \* <<"plain" | "secure", cache limit>>
        /\ kv = Empty /\ tag = "dirty" /\ old = <<>> /\ tick = 0

\* where content c can be loaded from, given the bookkeeping
OldTag(o, c) == IF \E i \in 1..Len(o) : o[i].c = c THEN (CHOOSE e \in {o[i] : i \in 1..Len(o)} : e.c = c).t ELSE "dirty"
Without(o, c) == SelectSeq(o, LAMBDA e : e.c # c)
\* the content moves from kv to c2: remember kv if it was committed, look c2 up
Move(c2) ==
  IF c2 = kv THEN UNCHANGED <<tag, old>>
  ELSE LET o1 == IF tag = "dirty" THEN old ELSE <<[c |-> kv, t |-> Best(tag, OldTag(old, kv))]>> \o Without(old, kv)
       IN /\ tag' = OldTag(o1, c2)
          /\ old' = Take(Without(o1, c2), IF Len(Without(o1, c2)) < MaxOld THEN Len(Without(o1, c2)) ELSE MaxOld)

Put(k, v) == /\ kv' = PutKV(kv, k, v)
             /\ Move(PutKV(kv, k, v)) /\ UNCHANGED <<kind, lim>> /\ Tick
\* via = "delete": TryDelete;  via = "empty": TryUpdate with an empty value
Remove(k, via) == /\ kv' = DelKV(kv, k)
                  /\ Move(DelKV(kv, k)) /\ UNCHANGED <<kind, lim>> /\ Tick
Get(k) == UNCHANGED svars /\ Tick
Hash == UNCHANGED svars /\ Tick
\* Trie.Commit (nodes into the TrieDatabase cache, cache generation + 1, old generations unloaded),
\* flush: followed by TrieDatabase.Commit(root) as account.Manager.Save / StorageCache.Save do
Commit(flush) == /\ tag' = IF flush THEN "disk" ELSE Best(tag, "mem")
                 /\ UNCHANGED <<kind, lim, kv, old>> /\ Tick
\* a new trie object from the root of the current (i = 0) or an older committed content;
\* mode "same": on the same TrieDatabase, "fresh": on a new TrieDatabase over the same BeansDB,
\* "restart": after closing and re-opening the chain database directory
Reopen(i, mode) ==
  LET c == IF i = 0 THEN kv ELSE old[i].c
      t == IF i = 0 THEN tag ELSE old[i].t
      o1 == IF i = 0 \/ tag = "dirty" THEN old ELSE <<[c |-> kv, t |-> tag]>> \o old
      o2 == Without(o1, c)
      o3 == IF mode = "same" THEN o2 ELSE SelectSeq(o2, LAMBDA e : e.t = "disk")   \* the node cache is gone
  IN /\ i <= Len(old)
     /\ IF mode = "same" THEN t # "dirty" ELSE t = "disk"
     /\ kv' = c /\ tag' = t
     /\ old' = Take(o3, IF Len(o3) < MaxOld THEN Len(o3) ELSE MaxOld)
     /\ UNCHANGED <<kind, lim>> /\ Tick
\* build and check proofs for every key from the nodes reachable from the current root
ProveAll == tag # "dirty" /\ UNCHANGED svars /\ Tick

Next == \/ \E k \in Keys, v \in Vals : Put(k, v)
        \/ \E k \in Keys, via \in {"delete", "empty"} : Remove(k, via)
        \/ \E k \in Keys : Get(k)
        \/ Hash
        \/ \E f \in BOOLEAN : Commit(f)
        \/ \E i \in 0..MaxOld, m \in ReopenModes : Reopen(i, m)
        \/ ProveAll
Spec == Init /\ [][Next]_vars

\* ---- clauses ------------------------------------------------------------------------------------
\* The node structure depends on the content only, not on the order of insertions and deletions:
\* the empty trie is canonical, a reopened trie is what was stored, and from the canonical structure of ANY
\* content every insert and every delete of the implementation leads to the canonical structure of the new
\* content.  Checked on every reachable content.
Shape == Canon(Pairs(Path, kv))
InsertKeepsCanonical == \A k \in Keys, v \in Vals : Ins(Shape, Path[k], V(v)) = Canon(Pairs(Path, PutKV(kv, k, v)))
DeleteKeepsCanonical == \A k \in Keys : Del(Shape, Path[k], Merge) = Canon(Pairs(Path, DelKV(kv, k)))
\* reads return the last value written
ReadsLastWritten == \A k \in Keys : Look(Shape, Path[k]) = kv[k]
\* different contents have different structures, hence (free hash) different roots; checked once
RootBindsContent == (kv = Empty /\ tag = "dirty") =>
                      Cardinality({Canon(Pairs(Path, c)) : c \in Contents}) = Cardinality(Contents)
TypeOK == /\ kv \in Contents /\ tag \in {"dirty", "mem", "disk"} /\ Len(old) <= MaxOld
          /\ \A i \in 1..Len(old) : old[i].c \in Contents /\ old[i].c # kv /\ old[i].t \in {"mem", "disk"}
          /\ \A i, j \in 1..Len(old) : i # j => old[i].c # old[j].c
====
