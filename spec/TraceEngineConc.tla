---- MODULE TraceEngineConc ----
(* C19: traces of ONE real engine hit concurrently by several goroutines.  The verif hook emits one event per
   engine call while chainLock is held, so sequence-number order is the order in which the calls took effect;
   if the engine is linearizable the logged state sequence must be explainable by taking the calls one at a time
   in that order, i.e. every step must satisfy the sequential property monitor of C03/C02 (TraceConsensus).
   Blocks the node mined itself join the universe when they first appear ("new").  "Emit" events are the
   confirm packets the node published: each must be a signature by the node's own key over a block it holds,
   with that block's height. *)
EXTENDS TraceConsensus
Extend(e) == /\ parent' = parent \o [i \in 1..Len(e.new) |-> e.new[i].parent]
             /\ miner' = miner \o [i \in 1..Len(e.new) |-> e.new[i].miner]
AdoptX(e) == known' = KnownOf(e) /\ conf' = ConfOf(e) /\ stable' = e.stable /\ head' = e.head /\ UNCHANGED <<nd, self>>
\* evaluated over the extended universe: substitute primed parent/miner by checking after the extension
StepOKX(e) ==
  LET par == parent \o [i \in 1..Len(e.new) |-> e.new[i].parent]
      mnr == miner \o [i \in 1..Len(e.new) |-> e.new[i].miner]
      RECURSIVE A(_)
      A(b) == IF b = G THEN {G} ELSE {b} \cup A(par[b])
      HH(b) == Cardinality(A(b)) - 1
      kn2 == KnownOf(e)  c2 == ConfOf(e)  st2 == e.stable  hd2 == e.head
  IN /\ st2 \in kn2 /\ hd2 \in kn2
     /\ \A b \in kn2 \ {G} : par[b] \in kn2
     /\ stable \in A(st2)
     /\ (st2 # stable => Cardinality((c2[st2] \cap Dep) \cup {mnr[st2]}) >= Q)
     /\ Len(e.chain) = HH(st2) /\ \A i \in 1..Len(e.chain) : HH(e.chain[i]) = i /\ e.chain[i] \in A(st2)
     /\ st2 \in A(hd2)
     /\ \A b \in kn2 : b \in A(st2) \/ st2 \in A(b)
     /\ \A b \in (kn2 \cap known) \ {G} : conf[b] \subseteq c2[b]   \* in no sequential order does a stored confirm disappear
NewIds(e) == {e.new[i].id : i \in 1..Len(e.new)}
XBlock == /\ Ev("InsertBlock")
          /\ LET b == E.b IN
             IF b # -1 /\ b \notin known /\ E.exists
             THEN /\ parent[b] \in known /\ H(b) > H(stable)
                  /\ b \in KnownOf(E) /\ KnownOf(E) \subseteq known \cup {b}
                  /\ E.new = <<>> /\ StepOKX(E)
             ELSE Same(E) /\ E.new = <<>>
          /\ AdoptX(E) /\ Extend(E)
XConfirms == /\ Ev("InsertConfirms")
             /\ KnownOf(E) \subseteq known /\ E.new = <<>>
             /\ StepOKX(E)
             /\ AdoptX(E) /\ Extend(E)
\* a mining request adds at most one block: a child of the previous head, mined by this node
XMine == /\ Ev("MineBlock")
         /\ Len(E.new) <= 1
         /\ (E.new = <<>> => Same(E))
         /\ (E.new # <<>> => /\ E.new[1].id = Len(parent) + 1 /\ E.new[1].parent = head /\ E.new[1].miner = self
                             /\ KnownOf(E) \subseteq known \cup NewIds(E)
                             /\ StepOKX(E))
         /\ AdoptX(E) /\ Extend(E)
\* state after the background goroutines have finished: only the node's own confirms on stable blocks may have been added
\* (own_missing: blocks the node still holds whose stored copy lacks a confirm the node itself had published before this reading)
XFinal == /\ Ev("Final") /\ Same(E) /\ E.new = <<>>
          /\ ("own_missing" \in DOMAIN E => E.own_missing = <<>>)
          \* (stable rounds: the confirm the background goroutine stored for a block is published, once)
          /\ ("pub_never" \in DOMAIN E => E.pub_never = <<>> /\ E.pub_twice = <<>>)
          /\ \A b \in known \ {G} : conf[b] \subseteq ConfOf(E)[b]
          /\ AdoptX(E) /\ Extend(E)
XEmit == /\ Ev("Emit")
         /\ E.valid /\ E.b # -1 /\ E.height_ok
         /\ UNCHANGED <<parent, miner, nd, self, known, conf, stable, head>>
\* a head read outside chainLock is the head after one of the calls around the read (window, assembled by the driver from the
\* sequence numbers it read before and after)
XRead == /\ Ev("Read")
         /\ E.got \in ToSet(E.window)
         /\ UNCHANGED <<parent, miner, nd, self, known, conf, stable, head>>
XNext == TReset \/ XBlock \/ XConfirms \/ XMine \/ XFinal \/ XEmit \/ XRead
XSpec == /\ l = 1 /\ parent = <<>> /\ miner = <<>> /\ nd = 0 /\ self = 0 /\ known = {G} /\ conf = <<>> /\ stable = G /\ head = G
         /\ [][XNext]_mvars
====
