SPECIFICATION Spec
CONSTANTS NB = 3
 ND = 3
 NE = 2
 Tx <- McTx
 TxEp <- McTxEp
 Pend <- McPend
 PruneFirst = FALSE
INVARIANT PoolIsOffChain
INVARIANT HeadOK
INVARIANT UnconfCached
CHECK_DEADLOCK FALSE
