---- MODULE TraceFileQueue ----
(* Traces of the real store (ChainDatabase.Beansdb) whose background writer is held at barrier records, so that the TLC
   schedules of FileQueue.tla are realised: every Get must return the last value put for that key. *)
EXTENDS TraceBase
VARIABLE last
TReset == Ev("reset") /\ last' = [k \in {"x", "y"} |-> 0]
TPut == Ev("Put") /\ E.ok /\ last' = [last EXCEPT ![E.a[1]] = E.a[2]]
TStep == (Ev("WriterStep") \/ Ev("DoneHandle")) /\ UNCHANGED last
TGet == Ev("Get") /\ E.val = last[E.a[1]] /\ UNCHANGED last
TraceNext == TReset \/ TPut \/ TStep \/ TGet
TraceSpec == l = 1 /\ last = [k \in {"x", "y"} |-> 0] /\ [][TraceNext]_<<l, last>>
====
