SPECIFICATION TraceSpec
CONSTANT AllowedDev = @ALLOWED_DEV@
CONSTRAINT HW
POSTCONDITION Accepted
CHECK_DEADLOCK FALSE
