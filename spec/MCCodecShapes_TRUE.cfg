SPECIFICATION Spec
CONSTANTS Devs = {}
INVARIANTS InvRoundTrip InvInjective InvClass InvLogShapes
CHECK_DEADLOCK FALSE
