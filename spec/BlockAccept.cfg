SPECIFICATION Spec
INVARIANT OnlyValid
PROPERTY RefusalIsNoop
CHECK_DEADLOCK FALSE
