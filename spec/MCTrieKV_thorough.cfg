SPECIFICATION Spec
CONSTANTS Keys <- Keys6
 Vals = {"s", "L"}
 Path <- McPath
 Variants <- VarAll
 MaxOld = 0
 ReopenModes = {"same", "fresh", "restart"}
 Ticking = FALSE
 Merge = TRUE
INVARIANTS TypeOK InsertKeepsCanonical DeleteKeepsCanonical ReadsLastWritten RootBindsContent
CHECK_DEADLOCK FALSE
