SPECIFICATION Spec
CONSTANTS Keys <- Keys6
 Vals = {"s", "L"}
 Path <- McPath
 Variants <- VarAll
 MaxOld = 0
 ReopenModes = {"same", "fresh", "restart"}
 Ticking = FALSE
 NH = 1
 Vias = {"delete", "empty"}
 Flushes = {FALSE, TRUE}
 Merge = TRUE
INVARIANTS TypeOK InsertKeepsCanonical DeleteKeepsCanonical ReadsLastWritten RootBindsContent
PROPERTIES OneHandleChanges
CHECK_DEADLOCK FALSE
