SPECIFICATION Spec
CONSTANTS Ctx <- McCtxTerm
 Init0 <- McInitTerm
 Gas <- McGas
 Devs = {}
 Kinds = {"xfer", "vote", "reg", "topup", "unreg", "setrew"}
 From = {"a2"}
 XTo = {"a1"}
 XAmt = {100}
 Payers = {}
 Voters = {"a1", "M1", "I"}
 Cands = {"a1", "a3", "M1"}
 RegAmt = {300}
 AFrom = {}
 ATo = {}
 AAmt = {}
 IAmt = {}
 BoxFrom = {}
 BoxTo = {}
 RewFrom = {"F"}
 RewTerms = {0}
 RewAmt = {500}
 EmptyOK = TRUE
 MaxTx = 3
 MaxBlk = 3
 MaxTot = 3
VIEW View
INVARIANTS NonNegative Conservation DepositsBacked VotesAtBoundary SupplyEqualsEquity NothingForbiddenIncluded
PROPERTIES EndOfBlockIssuesTheReward GasWithinLimit NotIncludedIsFree OnlyOwnEquityDecreases SupplyChangesOnlyByIssuerOrHolder FrozenDoesNotMove
CHECK_DEADLOCK FALSE
