SPECIFICATION Spec
CONSTANTS Ctx <- McCtxTerm
 Init0 <- McInitTerm
 Gas <- McGas
 Devs = {}
 Kinds = {"xfer", "vote", "reg", "topup", "unreg", "setrew"}
 From = {"a2"}
 XTo = {"M1", "a4"}
 XAmt = {100}
 Payers = {}
 Voters = {"M1", "a4"}
 Cands = {"M1", "a4", "a3", "M2"}
 RegAmt = {300}
 AFrom = {}
 ATo = {}
 AAmt = {}
 IAmt = {}
 ACodes = {}
 AIds = {}
 BGL = {}
 BoxFrom = {}
 BoxTo = {}
 BoxSeqs = {}
 SpendFrom = {}
 RewFrom = {"F"}
 RewTerms = {0}
 RewAmt = {500}
 EmptyOK = TRUE
 MaxTx = 2
 MaxBlk = 3
 MaxTot = 2
VIEW View
INVARIANTS NonNegative Conservation DepositsBacked VotesAtBoundary SupplyEqualsEquity NothingForbiddenIncluded
PROPERTIES EndOfBlockIssuesTheReward GasWithinLimit NotIncludedIsFree OnlyOwnEquityDecreases SupplyChangesOnlyByIssuerOrHolder FrozenDoesNotMove
CHECK_DEADLOCK FALSE
