---- MODULE TraceSignCache ----
(* Traces of the real consensus.SignBlock under gated two-goroutine schedules derived from SignCache.tla
   (P1 held between the two cache writes while P2 calls).  Every returned signature must be a signature by
   the node's own key over the requested hash: EmittedValid on the real code. *)
EXTENDS TraceBase
VARIABLE emitted
TReset == Ev("reset") /\ emitted' = {}
TSign == Ev("Sign") /\ E.valid /\ emitted' = emitted \cup {<<E.h, E.h>>}
TraceNext == TReset \/ TSign
TraceSpec == l = 1 /\ emitted = {} /\ [][TraceNext]_<<l, emitted>>
====
