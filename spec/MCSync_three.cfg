SPECIFICATION Spec
CONSTANTS NB = 3
 Confs <- McConfs2x
 NT = 3
 MaxDup = 2
 Races = TRUE
 BugAddMiddle = FALSE
 BugTxLoopVar = FALSE
 BugConfirmRace = FALSE
 MaxBatch = 0
 NBatch = 0
 BugBatchBreak = FALSE
INVARIANTS TypeOK ChainLinear Converges CacheSorted CacheKeepsUntilParent CacheOnlyWaiting ConfirmsKept TxOnce
PROPERTY Forward
CHECK_DEADLOCK FALSE
