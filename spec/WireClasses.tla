---- MODULE WireClasses ----
(* C15: the table of input classes and the reaction the PROPERTY demands for each, shared by the design model
   (MCWire) and the judge of real traces (TraceWire).  Row format:
     <<class, phases in which it can be sent, reaction, announced KiB, sent KiB, deviation, effect>>
   reaction: "close" malformed input - the node must close the connection;  "keep" well-formed - it must keep it;
             "adv" the genuine handshake of the phase;  "any" decodable but absurd - closing or keeping are both fine.
   The class names are instantiated as real bytes by harness/adapters/wire/classes.go.
   Deviation columns: what today's code does instead (panic / stuck = self-deadlock / alloc = unbounded allocation). *)
EXTENDS Integers, Sequences, FiniteSets

PH == {"ProtoHs"}  ES == {"Est"}  PE == {"ProtoHs", "Est"}  PR == {"PreHs"}
R(c, phs, react) == <<c, phs, react, 1, 1, "", "none">>
RS(c, phs, react, annK, sentK) == <<c, phs, react, annK, sentK, "", "none">>
RD(c, phs, react, annK, sentK, dev, eff) == <<c, phs, react, annK, sentK, dev, eff>>

\* the twelve message codes the protocol manager dispatches on (ProHandshakeMsg is treated separately)
Codes == {"Status", "GetStatus", "Hash", "Txs", "GetBlocks", "Blocks", "Confirm", "GetConfirms", "Confirms", "DiscReq", "DiscRes", "GetBlocksCL"}
Bad == {"Empty", "Trunc", "WrongType", "Garbage"}

PreRows == {
  R("HsGood", PR, "adv"),
  R("HsBadMagic", PR, "close"), R("HsZeroLen", PR, "close"),
  RS("HsOverLen", PR, "close", 1048577, 1),
  RD("HsHugeLenTrunc", PR, "close", 1048576, 1, "Dev_HandshakeLenLimit1GiB", "alloc"),
  RD("HsLen64MTrunc", PR, "close", 65536, 1, "Dev_HandshakeLenLimit1GiB", "alloc"),
  R("HsTruncHeader", PR, "close"), R("HsTruncBody", PR, "close"), R("HsGarbageBody", PR, "close"), R("HsShortBody", PR, "close"),
  R("HsEciesGarbageRlp", PR, "close"), R("HsEciesShortRlp", PR, "close"), R("HsEciesWrongType", PR, "close"),
  R("HsZeroRequest", PR, "close"), R("HsBadSig", PR, "close"), R("HsSigBadV", PR, "close"),
  R("HsPubNotOnCurve", PR, "close"), R("HsSelfId", PR, "close") }

\* raw and encrypted frames: the same reader serves the protocol handshake and the established connection
FrameRows == {
  R("FrBadMagic", PE, "close"), R("FrZeroLen", PE, "close"), RS("FrOverLen", PE, "close", 25601, 1),
  RD("FrLenNot16", PE, "close", 1, 1, "Dev_FrameLenNotBlockMultiple", "panic"),
  R("FrGarbage16", PE, "close"),
  RD("FrPlain0", PE, "close", 1, 1, "Dev_FrameShortPlaintext", "panic"),
  RD("FrPlain1", PE, "close", 1, 1, "Dev_FrameShortPlaintext", "panic"),
  RD("FrPlain2", PE, "close", 1, 1, "Dev_FrameShortPlaintext", "panic"),
  RD("FrPlain3", PE, "close", 1, 1, "Dev_FrameShortPlaintext", "panic"),
  R("FrCodeHigh", PE, "close"), R("FrCodeUnassigned", PE, "close"),
  R("FrTruncHeader", PE, "close"), R("FrTruncBody", PE, "close"),
  RS("FrMaxLenTrunc", PE, "close", 25600, 1), RS("FrMaxLenGarbage", PE, "close", 25600, 25600),
  R("FrHeartbeat", PE, "keep"), R("FrHeartbeatPayload", PE, "keep") }

\* the first message after the handshake must be the protocol handshake
ProtoRows == {
  R("Phs_Good", PH, "adv"), R("Phs_Higher", PH, "adv"),
  R("Phs_Max", PH, "any"), R("Phs_StaGtCur", PH, "any"), R("Phs_OtherChain", PH, "any"), R("Phs_WrongCode", PH, "any"), R("Phs_Trailing", PH, "any"),
  R("Phs_Empty", PH, "close"), R("Phs_Trunc", PH, "close"), R("Phs_WrongType", PH, "close"), R("Phs_Garbage", PH, "close"),
  \* another message in place of the protocol handshake: a protocol violation, dropping is fine
  R("GetStatus_Good", PH, "any"), R("Blocks_Good", PH, "any"), R("Confirm_Good", PH, "any"), R("Txs_Good", PH, "any") }

EstRows ==
  {R(c \o "_Good", ES, "keep") : c \in Codes}
  \cup {R(c \o "_" \o v, ES, "close") : c \in Codes, v \in Bad}
  \cup {R(c \o "_Trailing", ES, "any") : c \in {"Status", "Txs", "Blocks", "GetBlocks"}}
  \cup {
  R("Phs_Good", ES, "any"), R("Phs_Garbage", ES, "any"),
  R("Status_Higher", ES, "keep"), R("Status_Max", ES, "any"), R("Status_StaGtCur", ES, "any"),
  R("Hash_Max", ES, "any"), R("Hash_Known", ES, "keep"),
  R("Txs_EmptyList", ES, "keep"), R("Txs_Expired", ES, "any"), R("Txs_Unsigned", ES, "any"), R("Txs_NilElem", ES, "close"),
  RS("Txs_Many", ES, "keep", 31, 31),
  R("GetBlocks_FromGtTo", ES, "any"), R("GetBlocks_Beyond", ES, "keep"), R("GetBlocks_Range", ES, "keep"), R("GetBlocks_Wrap", ES, "any"),
  RD("GetBlocks_Huge", ES, "any", 1, 1, "Dev_GetBlocksRangeUnbounded", "alloc"),
  RD("GetBlocksCL_Huge", ES, "any", 1, 1, "Dev_GetBlocksRangeUnbounded", "alloc"),
  R("GetBlocksCL_FromGtTo", ES, "any"),
  R("Blocks_EmptyList", ES, "keep"), R("Blocks_NilBlock", ES, "any"),
  R("Blocks_OrphanMax", ES, "any"), R("Blocks_OrphanH0", ES, "any"), R("Blocks_OrphanH1", ES, "any"),
  R("Blocks_ChildUnsigned", ES, "any"), R("Blocks_ChildBadHeight", ES, "any"),
  R("Blocks_DeputyFuture", ES, "any"), R("Blocks_DeputyBeforeParent", ES, "any"),
  RD("Blocks_DeputyTimeTiny", ES, "any", 1, 1, "Dev_BlockTimeBelow1e7PanicsGetCorrectMiner", "panic"),
  RS("Blocks_DeputyHugeExtra", ES, "any", 98, 98), R("Blocks_DeputyBadTxRoot", ES, "any"), R("Blocks_DeputyPlausible", ES, "any"),
  RD("Blocks_Flood", ES, "any", 2121, 2121, "Dev_BlockCacheSelfDeadlock", "stuck"),
  R("Confirm_Known", ES, "any"), R("Confirm_MaxHeight", ES, "any"),
  RD("Confirm_Flood", ES, "any", 1, 1181, "Dev_ConfirmCacheSelfDeadlock", "stuck"),
  R("GetConfirms_Unknown", ES, "keep"), R("GetConfirms_MaxByHeight", ES, "keep"),
  R("Confirms_Unknown", ES, "any"), RS("Confirms_HugePack", ES, "any", 1309, 1309),
  R("DiscRes_HugeSizeHeader", ES, "close"),   \* RLP size headers announcing 2 GiB / 1 GiB inside a 40-byte payload
  R("DiscReq_SeqMax", ES, "keep"), R("DiscRes_Invalid", ES, "any"), RS("DiscRes_Many", ES, "any", 291, 291) }

ClassTable == PreRows \cup FrameRows \cup ProtoRows \cup EstRows

====
