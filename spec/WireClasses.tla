---- MODULE WireClasses ----
(* C15: the table of input classes and the reaction the PROPERTY demands for each, shared by the design model
   (MCWire) and the judge of real traces (TraceWire).  Row format:
     <<class, phases in which it can be sent, reaction, announced KiB, sent KiB, deviation, effect>>
   phases:   "PreHs" the node ACCEPTED the connection and reads the remote's handshake request; "OutHs" the node DIALED, has sent its
             own request and reads the remote's handshake response; "ProtoHs" / "Est" after the handshake of either direction.
   reaction: "close" malformed input - the node must close the connection;  "keep" well-formed - it must keep it;
             "adv" the genuine handshake of the phase;  "any" decodable but absurd - closing or keeping are both fine.
   The class names are instantiated as real bytes by harness/adapters/wire/classes.go.
   Deviation columns: what today's code does instead (panic / stuck = self-deadlock / alloc = unbounded allocation). *)
EXTENDS Integers, Sequences, FiniteSets

PH == {"ProtoHs"}  ES == {"Est"}  PE == {"ProtoHs", "Est"}  PR == {"PreHs"}  OU == {"OutHs"}  HS == {"PreHs", "OutHs"}
R(c, phs, react) == <<c, phs, react, 1, 1, "", "none">>
RS(c, phs, react, annK, sentK) == <<c, phs, react, annK, sentK, "", "none">>
RD(c, phs, react, annK, sentK, dev, eff) == <<c, phs, react, annK, sentK, dev, eff>>

\* the twelve message codes the protocol manager dispatches on (ProHandshakeMsg is treated separately)
Codes == {"Status", "GetStatus", "Hash", "Txs", "GetBlocks", "Blocks", "Confirm", "GetConfirms", "Confirms", "DiscReq", "DiscRes", "GetBlocksCL"}
Bad == {"Empty", "Trunc", "WrongType", "Garbage"}

\* the handshake packet reader (magic, length, body, ECIES) is the same for a request (accepting side) and a response (dialing side)
HsRows == {
  R("HsBadMagic", HS, "close"), R("HsZeroLen", HS, "close"),
  RS("HsOverLen", HS, "close", 1048577, 1),
  RD("HsHugeLenTrunc", HS, "close", 1048576, 1, "Dev_HandshakeLenLimit1GiB", "alloc"),
  RD("HsLen64MTrunc", HS, "close", 65536, 1, "Dev_HandshakeLenLimit1GiB", "alloc"),
  R("HsTruncHeader", HS, "close"), R("HsTruncBody", HS, "close"), R("HsGarbageBody", HS, "close"), R("HsShortBody", HS, "close"),
  RS("HsMaxLenGarbage", HS, "close", 64, 64),
  \* correctly framed ECIES messages to the node's key (anyone who knows its public key - its node id - can build them)
  R("HsEciesBadMac", HS, "close"), R("HsEciesWrongKey", HS, "close"),
  R("HsEciesEphemOffCurve", HS, "close"), R("HsEciesEphemCompressed", HS, "close"),
  RD("HsEciesShortEm", HS, "close", 1, 1, "Dev_EciesShortCiphertextPanics", "panic"),   \* valid MAC over an encrypted part of 1..15 bytes
  R("HsEciesEmptyPlain", HS, "close"), R("HsEciesEmptyList", HS, "close"),
  R("HsEciesGarbageRlp", HS, "close"), R("HsEciesShortRlp", HS, "close"), R("HsEciesWrongType", HS, "close"),
  RS("HsEciesBigPlain", HS, "any", 60, 60) }     \* the genuine packet of the phase followed by 60 KiB inside the plaintext

\* the node accepted: content of the handshake REQUEST
PreRows == {
  R("HsGood", PR, "adv"),
  R("HsZeroRequest", PR, "close"), R("HsBadSig", PR, "close"), R("HsSigBadV", PR, "close"), R("HsSigZero", PR, "close"),
  R("HsPubNotOnCurve", PR, "close"), R("HsPubZero", PR, "close"), R("HsPubXOnly", PR, "close"), R("HsSelfId", PR, "close"),
  \* a decodable request with absurd fields: the node cannot tell (it recovers SOME key from the signature), dropping later is fine
  R("HsSigOtherToken", PR, "any"), R("HsClaimDeputy", PR, "any"), R("HsZeroNonce", PR, "any"),
  R("HsNonceShort", PR, "any"), R("HsNonceLong", PR, "any"), R("HsExtraField", PR, "any"), R("HsResponseAsRequest", PR, "any") }

\* the node dialed: content of the handshake RESPONSE
OutRows == {
  R("OhsGood", OU, "adv"),
  \* a well-formed response whose public key is no key: there is no session, the node must drop the connection
  R("OhsPubOffCurve", OU, "close"), R("OhsPubZero", OU, "close"), R("OhsPubXOnly", OU, "close"), R("OhsPubEmpty", OU, "close"),
  R("OhsEchoRequest", OU, "close"),
  \* a usable key with absurd other fields: keeping (with a session the remote may not share) or dropping are both fine
  R("OhsPubNodeStatic", OU, "any"), R("OhsPubGenerator", OU, "any"), R("OhsZeroNonce", OU, "any"),
  R("OhsNonceShort", OU, "any"), R("OhsNonceLong", OU, "any"), R("OhsNonceMissing", OU, "any"), R("OhsExtraField", OU, "any"),
  R("OhsRequestAsResponse", OU, "any") }

\* raw and encrypted frames: the same reader serves the protocol handshake and the established connection
FrameRows == {
  R("FrBadMagic", PE, "close"), R("FrZeroLen", PE, "close"), RS("FrOverLen", PE, "close", 25601, 1),
  RD("FrLenNot16", PE, "close", 1, 1, "Dev_FrameLenNotBlockMultiple", "panic"),
  R("FrGarbage16", PE, "close"),
  RD("FrPlain0", PE, "close", 1, 1, "Dev_FrameShortPlaintext", "panic"),
  RD("FrPlain1", PE, "close", 1, 1, "Dev_FrameShortPlaintext", "panic"),
  RD("FrPlain2", PE, "close", 1, 1, "Dev_FrameShortPlaintext", "panic"),
  RD("FrPlain3", PE, "close", 1, 1, "Dev_FrameShortPlaintext", "panic"),
  R("FrCodeHigh", PE, "close"), R("FrCodeUnassigned", PE, "close"),
  R("FrTruncHeader", PE, "close"), R("FrTruncBody", PE, "close"),
  RS("FrMaxLenTrunc", PE, "close", 25600, 1), RS("FrMaxLenGarbage", PE, "close", 25600, 25600),
  R("FrHeartbeat", PE, "keep"), R("FrHeartbeatPayload", PE, "keep") }

\* the first message after the handshake must be the protocol handshake
ProtoRows == {
  R("Phs_Good", PH, "adv"), R("Phs_Higher", PH, "adv"),
  R("Phs_Max", PH, "any"), R("Phs_StaGtCur", PH, "any"), R("Phs_OtherChain", PH, "any"), R("Phs_WrongCode", PH, "any"), R("Phs_Trailing", PH, "any"),
  R("Phs_VersionZero", PH, "any"), R("Phs_VersionMax", PH, "any"), R("Phs_ZeroHashes", PH, "any"), R("Phs_ExtraField", PH, "any"),
  R("Phs_Empty", PH, "close"), R("Phs_Trunc", PH, "close"), R("Phs_WrongType", PH, "close"), R("Phs_Garbage", PH, "close"),
  \* another message in place of the protocol handshake: a protocol violation, dropping is fine
  R("GetStatus_Good", PH, "any"), R("Blocks_Good", PH, "any"), R("Confirm_Good", PH, "any"), R("Txs_Good", PH, "any") }

EstRows ==
  {R(c \o "_Good", ES, "keep") : c \in Codes}
  \cup {R(c \o "_" \o v, ES, "close") : c \in Codes, v \in Bad}
  \cup {R(c \o "_Trailing", ES, "any") : c \in {"Status", "Txs", "Blocks", "GetBlocks"}}
  \cup {
  R("Phs_Good", ES, "any"), R("Phs_Garbage", ES, "any"),
  R("Status_Higher", ES, "keep"), R("Status_Max", ES, "any"), R("Status_StaGtCur", ES, "any"), R("Status_ZeroHashes", ES, "any"),
  R("Hash_Max", ES, "any"), R("Hash_Known", ES, "keep"), R("Hash_ZeroHash", ES, "any"),
  R("Txs_EmptyList", ES, "keep"), R("Txs_Expired", ES, "any"), R("Txs_Unsigned", ES, "any"), R("Txs_NilElem", ES, "close"),
  RS("Txs_Many", ES, "keep", 31, 31),
  \* signed, decodable transactions with absurd fields
  R("Txs_WrongChain", ES, "any"), R("Txs_FarFuture", ES, "any"), R("Txs_UnknownType", ES, "any"), R("Txs_HugeAmount", ES, "any"),
  R("Txs_GasLimitMax", ES, "any"), R("Txs_GasPriceZero", ES, "any"), R("Txs_SigZero", ES, "any"), R("Txs_SigShort", ES, "any"), R("Txs_ManySigs", ES, "any"),
  RS("Txs_HugeMessage", ES, "any", 98, 98), R("Txs_Duplicate", ES, "any"), R("Txs_BadToName", ES, "any"),
  R("Txs_DataGarbageJson", ES, "any"), R("Txs_AssetAbsurd", ES, "any"),
  R("Txs_BoxEmpty", ES, "any"), R("Txs_BoxGarbageJson", ES, "any"), R("Txs_BoxNested", ES, "any"), R("Txs_BoxSubExpired", ES, "any"),
  RD("Txs_BoxNullSub", ES, "any", 1, 1, "Dev_BoxNullSubTxPanics", "panic"),    \* box data {"subTxList":[null]}
  R("GetBlocks_FromGtTo", ES, "any"), R("GetBlocks_Beyond", ES, "keep"), R("GetBlocks_Range", ES, "keep"), R("GetBlocks_Wrap", ES, "any"),
  RD("GetBlocks_Huge", ES, "any", 1, 1, "Dev_GetBlocksRangeUnbounded", "alloc"),
  RD("GetBlocksCL_Huge", ES, "any", 1, 1, "Dev_GetBlocksRangeUnbounded", "alloc"),
  R("GetBlocksCL_FromGtTo", ES, "any"), R("GetBlocksCL_Beyond", ES, "keep"), R("GetBlocksCL_Range", ES, "keep"), R("GetBlocksCL_Wrap", ES, "any"),
  R("Blocks_EmptyList", ES, "keep"), R("Blocks_NilBlock", ES, "any"),
  R("Blocks_OrphanMax", ES, "any"), R("Blocks_OrphanH0", ES, "any"), R("Blocks_OrphanH1", ES, "any"),
  R("Blocks_ChildUnsigned", ES, "any"), R("Blocks_ChildBadHeight", ES, "any"),
  R("Blocks_DeputyFuture", ES, "any"), R("Blocks_DeputyBeforeParent", ES, "any"),
  RD("Blocks_DeputyTimeTiny", ES, "any", 1, 1, "Dev_BlockTimeBelow1e7PanicsGetCorrectMiner", "panic"),
  RS("Blocks_DeputyHugeExtra", ES, "any", 98, 98), R("Blocks_DeputyBadTxRoot", ES, "any"), R("Blocks_DeputyPlausible", ES, "any"),
  R("Blocks_EmptyHeader", ES, "close"), R("Blocks_ChildSigShort", ES, "any"), R("Blocks_ChildSigLong", ES, "any"), R("Blocks_DupInMsg", ES, "any"),
  R("Blocks_DeputyGasMax", ES, "any"), R("Blocks_DeputyManyConfirms", ES, "any"), R("Blocks_DeputyAbsurdDeputyNodes", ES, "any"),
  R("Blocks_DeputyLongDeputyRoot", ES, "any"), R("Blocks_DeputyTimeMax", ES, "any"), R("Blocks_DeputyBadTx", ES, "any"),
  RD("Blocks_DeputyBoxNullSub", ES, "any", 1, 1, "Dev_BoxNullSubTxPanics", "panic"),
  RD("Blocks_Flood", ES, "any", 2121, 2121, "Dev_BlockCacheSelfDeadlock", "stuck"),
  R("Confirm_Known", ES, "any"), R("Confirm_MaxHeight", ES, "any"), R("Confirm_ZeroSig", ES, "any"), R("Confirm_DeputyKnown", ES, "any"), R("Confirm_DeputyUnknown", ES, "any"),
  RD("Confirm_Flood", ES, "any", 1, 1181, "Dev_ConfirmCacheSelfDeadlock", "stuck"),
  R("GetConfirms_Unknown", ES, "keep"), R("GetConfirms_MaxByHeight", ES, "keep"),
  R("Confirms_Unknown", ES, "any"), RS("Confirms_HugePack", ES, "any", 1309, 1309),
  R("Confirms_EmptyPack", ES, "any"), R("Confirms_DeputyKnown", ES, "any"), RS("Confirms_DupPack", ES, "any", 66, 66), R("Confirms_MaxHeight", ES, "any"),
  R("DiscRes_HugeSizeHeader", ES, "close"),   \* RLP size headers announcing 2 GiB / 1 GiB inside a 40-byte payload
  R("DiscReq_SeqMax", ES, "keep"), R("DiscRes_Invalid", ES, "any"), RS("DiscRes_Many", ES, "any", 291, 291),
  \* node strings are what the node will later DIAL: well-formed lists with absurd entries
  R("DiscRes_EmptyList", ES, "keep"), R("DiscRes_SelfId", ES, "any"), R("DiscRes_OffCurveId", ES, "any"), R("DiscRes_ZeroId", ES, "any"),
  R("DiscRes_BadPort", ES, "any"), R("DiscRes_BadIp", ES, "any"), R("DiscRes_ManyAts", ES, "any"), R("DiscRes_Dup", ES, "any"),
  RS("DiscRes_HugeString", ES, "any", 1024, 1024),
  RD("DiscRes_NonHexId", ES, "any", 1, 1, "Dev_NodeStringNonHexIdPanics", "panic") }   \* 128 characters that are not hex digits

ClassTable == HsRows \cup PreRows \cup OutRows \cup FrameRows \cup ProtoRows \cup EstRows

====
