SPECIFICATION Spec
CONSTANTS NB = 3
 Confs <- McConfs2
 NT = 0
 MaxDup = 1
 Races = TRUE
 BugAddMiddle = FALSE
 BugTxLoopVar = FALSE
 BugConfirmRace = TRUE
 MaxBatch = 0
 NBatch = 0
 BugBatchBreak = FALSE
INVARIANTS ConfirmsKept
PROPERTY Forward
CHECK_DEADLOCK FALSE
