SPECIFICATION Spec
CONSTANTS Times <- McTimesC
 ExpChoices <- McExp
 OfferMenu <- McMenuC
 MaxBlocks = 3
 MaxBoots = 0
 DupCheck = TRUE
 PayloadIdentity = TRUE
 Encs = {"c", "h", "k", "g", "x"}
 CarrierIdentity = FALSE
INVARIANTS AtMostOnce InWindow ForkFree CarrierFree
CHECK_DEADLOCK FALSE
