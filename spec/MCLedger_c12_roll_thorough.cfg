SPECIFICATION Spec
CONSTANTS Ctx <- McCtx
 Init0 <- McInit
 Gas <- McGas
 Devs = {}
 Kinds = {"axfer", "box"}
 From = {"a1"}
 XTo = {"KO", "KD"}
 XAmt = {100}
 Payers = {}
 Voters = {}
 Cands = {}
 RegAmt = {}
 AFrom = {"a2"}
 ATo = {"a2", "a3", "KR", "KX", "KS"}
 AAmt = {1, 100}
 IAmt <- McIAmtC
 ACodes = {"N", "C", "G"}
 AIds = {"T", "N2", "C2"}
 BGL = {}
 BoxFrom = {"a4"}
 BoxTo = {}
 BoxSeqs <- McBoxAsset
 SpendFrom = {}
 RewFrom = {}
 RewTerms = {}
 RewAmt = {}
 EmptyOK = FALSE
 MaxTx = 3
 MaxBlk = 2
 MaxTot = 3
VIEW View
INVARIANTS NonNegative Conservation DepositsBacked VotesAtBoundary SupplyEqualsEquity NothingForbiddenIncluded
PROPERTIES EndOfBlockIssuesTheReward GasWithinLimit NotIncludedIsFree OnlyOwnEquityDecreases SupplyChangesOnlyByIssuerOrHolder FrozenDoesNotMove
CHECK_DEADLOCK FALSE
