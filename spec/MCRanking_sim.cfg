SPECIFICATION Spec
CONSTANTS NC = 4
 K = 2
 MaxVotes = 3
 MaxLive = 4
 MaxSteps = 0
 RestartAnywhere = TRUE
 Touch = {0, 1, 2, 3, 4}
 VMaps = {0, 1, 2, 3, 4, 5, 6}
 Persist = TRUE
 MaxChg = 4
 Dev = {}
INVARIANTS TypeOK TopIsFullSort FileOK
PROPERTIES RestartKeepsTop
CHECK_DEADLOCK FALSE
