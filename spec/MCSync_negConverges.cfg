SPECIFICATION Spec
CONSTANTS NB = 5
 Confs <- McNone
 NT = 0
 MaxDup = 0
 Races = TRUE
 BugAddMiddle = TRUE
 BugTxLoopVar = FALSE
 BugConfirmRace = FALSE
 MaxBatch = 0
 NBatch = 0
 BugBatchBreak = FALSE
INVARIANTS Converges
PROPERTY Forward
CHECK_DEADLOCK FALSE
