SPECIFICATION Spec
CONSTANTS NB = 5
 Confs <- McNone
 NT = 0
 MaxDup = 0
 BugAddMiddle = TRUE
 BugTxLoopVar = FALSE
INVARIANTS Converges
PROPERTY Forward
CHECK_DEADLOCK FALSE
