---- MODULE Rlp ----
(* C14, part 1: canonical RLP as operators on byte sequences (bytes are 0..255).

   A decoded value is a record with the uniform shape [k, b, e]:
     Str(b)  an RLP string with content b (a sequence of bytes)
     Lst(e)  an RLP list whose elements e are values again
     Err     "not the canonical encoding of exactly one value"
   The grammar is the canonical one: a single byte below 0x80 is its own encoding and is never
   wrapped, length prefixes are minimal (short form below 56 bytes, long form without leading
   zero and >= 56), the elements of a list fill its payload exactly, and nothing follows the
   value.  Error *kinds* are deliberately not distinguished - the property only speaks about
   "a value or an error".

   Integers in TLC are 32 bit, so an unsigned integer is represented by its minimal big-endian
   byte string (no leading zero byte; zero is the empty string); BE() gives the number for up to
   three bytes.  Inputs are assumed to be shorter than 2^24 bytes, hence a canonical long-form
   length of four or more bytes always announces more than the input holds. *)
EXTENDS Integers, Sequences

Err    == [k |-> "err",  b |-> <<>>, e |-> <<>>]
Str(b) == [k |-> "str",  b |-> b,    e |-> <<>>]
Lst(e) == [k |-> "list", b |-> <<>>, e |-> e]
IsErr(v) == v.k = "err"

BE(s) == IF Len(s) = 0 THEN 0
         ELSE IF Len(s) = 1 THEN s[1]
         ELSE IF Len(s) = 2 THEN s[1] * 256 + s[2]
         ELSE s[1] * 65536 + s[2] * 256 + s[3]

\* ---------------------------------------------------------------- header of the first item
NoHdr == [ok |-> FALSE, kind |-> "", off |-> 0, len |-> 0]
Hdr(kind, off, len) == [ok |-> TRUE, kind |-> kind, off |-> off, len |-> len]

\* payload length announced by ll length bytes after the tag; -1 = absent / leading zero / < 56 / >= 2^24
LongLen(bs, ll) ==
  IF Len(bs) < 1 + ll THEN -1
  ELSE IF bs[2] = 0 THEN -1
  ELSE IF ll > 3 THEN -1
  ELSE LET n == BE(SubSeq(bs, 2, 1 + ll)) IN IF n < 56 THEN -1 ELSE n

\* kind "byte": the item is bs[1] itself (off 0, len 1); "str"/"list": off header bytes, then len payload bytes
Hd(bs) ==
  IF bs = <<>> THEN NoHdr
  ELSE LET t == bs[1] IN
    IF t < 128 THEN Hdr("byte", 0, 1)
    ELSE IF t < 184 THEN
      LET n == t - 128 IN
        IF Len(bs) < 1 + n THEN NoHdr
        ELSE IF n = 1 /\ bs[2] < 128 THEN NoHdr          \* should have been the single byte
        ELSE Hdr("str", 1, n)
    ELSE IF t < 192 THEN
      LET ll == t - 183
          n == LongLen(bs, ll) IN
        IF n < 0 THEN NoHdr ELSE IF Len(bs) < 1 + ll + n THEN NoHdr ELSE Hdr("str", 1 + ll, n)
    ELSE IF t < 248 THEN
      LET n == t - 192 IN IF Len(bs) < 1 + n THEN NoHdr ELSE Hdr("list", 1, n)
    ELSE
      LET ll == t - 247
          n == LongLen(bs, ll) IN
        IF n < 0 THEN NoHdr ELSE IF Len(bs) < 1 + ll + n THEN NoHdr ELSE Hdr("list", 1 + ll, n)

\* ---------------------------------------------------------------- decoding
NoItems == [ok |-> FALSE, e |-> <<>>]
RECURSIVE Item(_), Items(_)
\* bs is exactly one canonical item
Item(bs) ==
  LET h == Hd(bs) IN
    IF ~h.ok THEN Err
    ELSE IF h.off + h.len # Len(bs) THEN Err                 \* trailing bytes
    ELSE IF h.kind = "byte" THEN Str(bs)
    ELSE IF h.kind = "str" THEN Str(SubSeq(bs, h.off + 1, h.off + h.len))
    ELSE LET r == Items(SubSeq(bs, h.off + 1, h.off + h.len)) IN IF r.ok THEN Lst(r.e) ELSE Err
\* bs is a concatenation of canonical items
Items(bs) ==
  IF bs = <<>> THEN [ok |-> TRUE, e |-> <<>>]
  ELSE LET h == Hd(bs) IN
    IF ~h.ok THEN NoItems
    ELSE LET n == h.off + h.len
             v == Item(SubSeq(bs, 1, n))
             r == Items(SubSeq(bs, n + 1, Len(bs))) IN
           IF IsErr(v) THEN NoItems ELSE IF ~r.ok THEN NoItems ELSE [ok |-> TRUE, e |-> <<v>> \o r.e]

Decode(bs) == Item(bs)

\* ---------------------------------------------------------------- encoding
LenBytes(n) == IF n < 256 THEN <<n>>
               ELSE IF n < 65536 THEN <<n \div 256, n % 256>>
               ELSE <<n \div 65536, (n \div 256) % 256, n % 256>>
Prefix(short, n) == IF n < 56 THEN <<short + n>> ELSE LET lb == LenBytes(n) IN <<short + 55 + Len(lb)>> \o lb
RECURSIVE Encode(_), EncodeAll(_)
Encode(v) == IF v.k = "str"
             THEN IF Len(v.b) = 1 /\ v.b[1] < 128 THEN v.b ELSE Prefix(128, Len(v.b)) \o v.b
             ELSE LET p == EncodeAll(v.e) IN Prefix(192, Len(p)) \o p
EncodeAll(es) == IF es = <<>> THEN <<>> ELSE Encode(es[1]) \o EncodeAll(Tail(es))

\* ---------------------------------------------------------------- typed views of a decoded value
No      == [ok |-> FALSE, b |-> <<>>]
Yes(b)  == [ok |-> TRUE,  b |-> b]
\* byte string target
AsBytes(v) == IF v.k = "str" THEN Yes(v.b) ELSE No
\* unsigned integer of at most maxBytes bytes (0 = unbounded): minimal big-endian, no leading zero
AsUint(v, maxBytes) ==
  IF v.k # "str" THEN No
  ELSE IF maxBytes > 0 /\ Len(v.b) > maxBytes THEN No
  ELSE IF Len(v.b) > 0 /\ v.b[1] = 0 THEN No
  ELSE Yes(v.b)
\* fixed-size byte array target of n bytes
AsArray(v, n) == IF v.k = "str" /\ Len(v.b) = n THEN Yes(v.b) ELSE No
\* struct target {A uint64; B []byte}: a list of exactly these two
NoPair == [ok |-> FALSE, a |-> <<>>, b |-> <<>>]
AsPair(v) == IF v.k # "list" THEN NoPair
             ELSE IF Len(v.e) # 2 THEN NoPair
             ELSE IF ~AsUint(v.e[1], 8).ok \/ v.e[2].k # "str" THEN NoPair
             ELSE [ok |-> TRUE, a |-> v.e[1].b, b |-> v.e[2].b]
\* boolean: the integers 0 and 1
AsBool(v) == LET u == AsUint(v, 1) IN IF u.ok /\ (u.b = <<>> \/ u.b = <<1>>) THEN u ELSE No
\* the number behind an integer view when it fits three bytes, else -1
Num(b) == IF Len(b) <= 3 THEN BE(b) ELSE -1

\* first item of bs without looking inside lists, and what follows it
NoSplit == [ok |-> FALSE, kind |-> "", content |-> <<>>, rest |-> <<>>]
Split(bs) == LET h == Hd(bs) IN
  IF ~h.ok THEN NoSplit
  ELSE [ok |-> TRUE, kind |-> h.kind, content |-> SubSeq(bs, h.off + 1, h.off + h.len),
        rest |-> SubSeq(bs, h.off + h.len + 1, Len(bs))]
\* number of top-level items of a concatenation (-1 = malformed), again without looking inside lists
RECURSIVE CountTop(_)
CountTop(bs) == IF bs = <<>> THEN 0
                ELSE LET h == Hd(bs) IN
                  IF ~h.ok THEN -1
                  ELSE LET c == CountTop(SubSeq(bs, h.off + h.len + 1, Len(bs))) IN IF c < 0 THEN -1 ELSE c + 1

\* ---------------------------------------------------------------- the clauses of the property
\* every value has an encoding that decodes to it
DecEnc(v) == Decode(Encode(v)) = v
\* at most one byte string per value: whatever decodes is the encoding of what it decodes to
EncDec(bs) == LET d == Decode(bs) IN IsErr(d) \/ Encode(d) = bs
\* an integer view never carries a leading zero, and a one-byte integer below 0x80 is never wrapped
IntCanon(bs) == LET u == AsUint(Decode(bs), 0) IN
                  u.ok => /\ (u.b = <<>> \/ u.b[1] # 0)
                          /\ (Len(u.b) = 1 /\ u.b[1] < 128 => bs = u.b)
                          /\ (u.b = <<>> => bs = <<128>>)
\* the cheap scanners agree with the full decoder on well-formed input
ScanAgrees(bs) == LET d == Decode(bs) IN
                    ~IsErr(d) => /\ Split(bs).ok /\ Split(bs).rest = <<>> /\ CountTop(bs) = 1
                                 /\ (d.k = "str" => Split(bs).content = d.b)
====
