SPECIFICATION Spec
CONSTANTS Keys <- Keys4
 Vals = {"L"}
 Path <- McPath
 NH = 2
 InPlace = {}
INVARIANTS TypeOK HandlesIndependent
CHECK_DEADLOCK FALSE
