SPECIFICATION Spec
CONSTANTS Addrs <- McAddrs
 InitStable <- McInitStable
 AddrN = 2
 Mixed = FALSE
 MaxBlocks = 2
 MaxWrites = 1
 MaxStable = 0
 MaxRestart = 0
 MaxReads = 0
 LeafOnly = FALSE
INVARIANTS ViewIsNearestWrite
CHECK_DEADLOCK FALSE
