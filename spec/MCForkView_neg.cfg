SPECIFICATION Spec
CONSTANTS Addrs <- McAddrs
 InitStable <- McInitStable
 AddrN = 2
 Mixed = FALSE
 MaxBlocks = 2
 MaxWrites = 1
 MaxStable = 0
 MaxRestart = 0
 MaxReads = 0
 LeafOnly = FALSE
 MaxSlots = 1
 CanonSlots = TRUE
 Kinds = {"extra"}
 IdentByHash = TRUE
INVARIANTS ViewIsNearestWrite
CHECK_DEADLOCK FALSE
