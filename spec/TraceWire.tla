---- MODULE TraceWire ----
(* C15, code side.  Every line is one step performed on the REAL node (sub-process, real handshake, real frames; Connect: the
   remote party connected and the node runs the accepting side, Dial: the node dialed the remote party's listener, sent its
   handshake request and waits for the response):
   what the process did (alive / exit status), whether the node closed the connection, which goroutines wait for a
   lock in a consistent snapshot in which nothing of the node can run, KiB allocated and KiB read during the step.
   A line is consumed only if that is what the property demands for the class in the current phase - or if it is
   exactly the failure of a deviation listed in known_findings.txt (then the rest of that behaviour is not judged:
   the node is dead, deadlocked or still allocating).

   The sequence layer (SBlocks / SConfirm / Tick, WireSeq.tla): whenever nothing of the node can run any more the binding
   reads back the protocol manager's block cache (ids of the universe's blocks in it, "?" for others, Size), its confirm
   cache (Size), the chain's stable height and which blocks of the universe the chain has.  obs is that reading at the
   previous quiescence point; EVERY step - of either layer, and opening a connection - must stay in the envelope of
   WireSeq: the caches take up at most what the step's input delivered (nblk / nconf: blocks / confirm packets in the
   frames sent, as counted by the sender), and of the universe's blocks only those that can wait at all. *)
EXTENDS WireClasses, WireSeq, TraceBase
CONSTANTS AllowedDev, MaxFrameK, SlackK, C
VARIABLES phase, tainted, obs
tv == <<phase, tainted, obs, l>>

ObsInit == [ids |-> {}, nb |-> 0, nc |-> 0, known |-> {"G"}, stable |-> 0]
HasObs(e) == "bc" \in DOMAIN e
ObsOf(e) == IF HasObs(e) THEN [ids |-> ToSet(e.bcIds), nb |-> e.bc, nc |-> e.cc, known |-> ToSet(e.has), stable |-> e.stable] ELSE obs
\* ds: the universe blocks sent in the step (sequence of descriptors)
Proportionate(e, ds) == HasObs(e) => /\ CountEnvelope(e.bc, e.cc, obs.nb, obs.nc, e.nblk, e.nconf)
                                     /\ IdsEnvelope(ToSet(e.bcIds), obs.ids, ds, obs.known, obs.stable)
                                     /\ e.bc = Len(e.bcIds)
                                     /\ e.stable >= obs.stable /\ obs.known \subseteq ToSet(e.has)     \* the chain only grows

TRows(c, ph) == {t \in ClassTable : t[1] = c /\ ph \in t[2]}
Bound(rk) == MaxFrameK + SlackK + C * rk
NextPhase(ph) == CASE ph \in {"PreHs", "OutHs"} -> "ProtoHs" [] ph = "ProtoHs" -> "Est" [] OTHER -> ph

\* the clauses that hold for every input whatsoever
Healthy(e) == e.alive /\ Len(e.blocked) = 0 /\ e.allocK <= Bound(e.readK)
ReactOK(react, e, ph) == CASE react = "close" -> e.closed
                           [] react = "keep"  -> ~e.closed
                           [] react = "adv"   -> ~e.closed /\ e.hs = "ok"
                           [] OTHER -> TRUE
Np(react, e, ph) == CASE react = "close" -> "Closed"
                      [] react = "adv" -> NextPhase(ph)
                      [] react = "keep" -> ph
                      [] OTHER -> IF e.closed THEN "Closed" ELSE ph
DevMatch(t, e) == CASE t[7] = "panic" -> ~e.alive
                    [] t[7] = "stuck" -> e.alive /\ Len(e.blocked) > 0
                    [] t[7] = "alloc" -> e.alive /\ e.allocK > Bound(e.readK)
                    [] OTHER -> FALSE

TReset == Ev("reset") /\ phase' = "Idle" /\ tainted' = FALSE /\ obs' = ObsInit
\* opening a connection in either direction: the node is alive, nothing is deadlocked and it waits for the remote's handshake packet
\* (when dialing: after having sent its own request, which the remote could decrypt - E.req - otherwise the binding is broken)
TConnect == /\ Ev("Connect") /\ ~tainted /\ "dead" \notin DOMAIN E
            /\ E.alive /\ Len(E.blocked) = 0 /\ ~E.closed /\ E.allocK <= Bound(0) /\ Proportionate(E, <<>>)
            /\ phase' = "PreHs" /\ obs' = ObsOf(E) /\ UNCHANGED tainted
TDial == /\ Ev("Dial") /\ ~tainted /\ "dead" \notin DOMAIN E
         /\ E.alive /\ Len(E.blocked) = 0 /\ ~E.closed /\ E.allocK <= Bound(0) /\ E.req = "ok" /\ Proportionate(E, <<>>)
         /\ phase' = "OutHs" /\ obs' = ObsOf(E) /\ UNCHANGED tainted
TRecv == /\ Ev("Recv") /\ ~tainted /\ "dead" \notin DOMAIN E
         /\ \E t \in TRows(E.a[1], phase) :
              \/ /\ Healthy(E) /\ ReactOK(t[3], E, phase) /\ Proportionate(E, <<>>)
                 /\ phase' = Np(t[3], E, phase) /\ tainted' = FALSE /\ obs' = ObsOf(E)
              \/ /\ ~(Healthy(E) /\ ReactOK(t[3], E, phase))
                 /\ t[6] \in AllowedDev /\ DevMatch(t, E) /\ UseDev(t[6])
                 /\ phase' = phase /\ tainted' = TRUE /\ UNCHANGED obs
\* input for a connection the node has already closed (possible after an "any" class): nothing may happen
TRecvClosed == /\ Ev("Recv") /\ ~tainted /\ "dead" \notin DOMAIN E /\ phase = "Closed"
               /\ Healthy(E) /\ E.closed /\ E.read = 0 /\ Proportionate(E, <<>>)
               /\ obs' = ObsOf(E) /\ UNCHANGED <<phase, tainted>>
\* ---------------------------------------------------------------- the sequence layer
\* a decodable BlocksMsg / ConfirmMsg with arbitrary content on an established connection: the node stays healthy and
\* its state in proportion; keeping or dropping the peer are both fine.  On a connection the node has closed nothing is read.
SeqStep(ds) == /\ ~tainted /\ "dead" \notin DOMAIN E /\ phase \in {"Est", "Closed"}
               /\ Healthy(E) /\ Proportionate(E, ds)
               /\ phase = "Closed" => E.closed /\ E.read = 0
               /\ phase' = (IF E.closed THEN "Closed" ELSE phase) /\ obs' = ObsOf(E) /\ UNCHANGED tainted
TSBlocks == Ev("SBlocks") /\ SeqStep(IF phase = "Est" THEN E.a[1] ELSE <<>>)
TSConfirm == Ev("SConfirm") /\ SeqStep(<<>>)
\* the manager's queue timer passed at least once, nothing was sent: whatever it did, the node is healthy and the caches did not grow
TTick == /\ Ev("Tick") /\ ~tainted /\ "dead" \notin DOMAIN E /\ phase \in {"Est", "Closed"}
         /\ Healthy(E) /\ Proportionate(E, <<>>) /\ E.read = 0
         /\ phase' = (IF E.closed THEN "Closed" ELSE phase) /\ obs' = ObsOf(E) /\ UNCHANGED tainted
\* after an accepted known failure the node is dead / deadlocked / busy: the rest of the behaviour carries no information
TSkip == /\ tainted /\ l <= Len(Trace) /\ Trace[l].ev # "reset" /\ "panic" \notin DOMAIN Trace[l]
         /\ l' = l + 1 /\ UNCHANGED <<phase, tainted, obs>>
TraceNext == TReset \/ TConnect \/ TDial \/ TRecv \/ TRecvClosed \/ TSBlocks \/ TSConfirm \/ TTick \/ TSkip
TraceSpec == l = 1 /\ phase = "Idle" /\ tainted = FALSE /\ obs = ObsInit /\ [][TraceNext]_tv
PhaseOK == phase \in {"Idle", "PreHs", "OutHs", "ProtoHs", "Est", "Closed"}
====
