---- MODULE TraceWire ----
(* C15, code side.  Every line is one step performed on the REAL node (sub-process, real handshake, real frames; Connect: the
   remote party connected and the node runs the accepting side, Dial: the node dialed the remote party's listener, sent its
   handshake request and waits for the response):
   what the process did (alive / exit status), whether the node closed the connection, which goroutines wait for a
   lock in a consistent snapshot in which nothing of the node can run, KiB allocated and KiB read during the step.
   A line is consumed only if that is what the property demands for the class in the current phase - or if it is
   exactly the failure of a deviation listed in known_findings.txt (then the rest of that behaviour is not judged:
   the node is dead, deadlocked or still allocating).

   The sequence layer (SBlocks / SConfirm / Tick, WireSeq.tla): whenever nothing of the node can run any more the binding
   reads back the protocol manager's block cache (ids of the universe's blocks in it, "?" for others, Size), its confirm
   cache (Size), the chain's stable height and which blocks of the universe the chain has.  obs is that reading at the
   previous quiescence point; EVERY step - of either layer, and opening a connection - must stay in the envelope of
   WireSeq: the caches take up at most what the step's input delivered (nblk / nconf: blocks / confirm packets in the
   frames sent, as counted by the sender), and of the universe's blocks only those that can wait at all.

   The receive-side layer (StopReading / Resume / ResetConn / HangUp / Deadline / StallOut): the node's end of the connection
   keeps book of the node's writes: wpend = how many are in flight when the step is observed, wstuck = the writers still in
   flight when the deadline the node gave them (as honoured by the connection) plus the grace period was over.  While the
   remote does not take the node's bytes (rx # "read") goroutines may queue for the peer's write lock behind the write in
   flight - until its deadline: lock waiters are judged where nothing is in flight.  A step that lets the node's deadline pass,
   hangs up, resets or resumes is observed only when the node has settled (nothing in flight, nothing able to run) or the bound
   is over; then: nothing in flight, nobody waiting for a lock, a malformed input sent meanwhile has closed the connection (due),
   after a hang-up / a stall to the end the connection is closed, and a closed connection's peer is forgotten.

   Input that waits behind a write in flight.  The node's frame reader queues decoded messages (a channel of 10) for the one
   goroutine that handles them; while that goroutine is inside a write the remote does not take, "nothing of the node can run"
   is reached with messages still queued: the blocks / confirm packets they carry reach the caches in a LATER step (when the
   remote resumes, resets, hangs up, or the write's deadline passes).  back counts what was sent since the last observation
   at which the queue was certainly empty (nothing in flight and nothing able to run); the envelope of a step is what the
   caches held at the previous observation plus back plus what the step itself sent.  (Found by the thorough tier:
   Dial, StopReading, OhsGood, Phs_Good, Blocks_Good, GetConfirms_Good, Resume - the block sent in step 5 is cached in step 7.) *)
EXTENDS WireClasses, WireSeq, TraceBase
CONSTANTS AllowedDev, MaxFrameK, SlackK, C
VARIABLES phase, tainted, obs,
          rx,     \* what the remote does with the node's writes: "read" | "stall" | "rst"
          due,    \* the node owes closing the connection (malformed input behind a write in flight)
          owed,   \* the node owes the bystander a transaction the remote sent (E.by: a bystander is connected; E.bgot: TxsMsg frames it got so far)
          back    \* [nb, nc]: blocks / confirm packets sent in earlier steps that may still wait in the node's inbound queue behind a write in flight
tv == <<phase, tainted, obs, rx, due, owed, back, l>>
OpenPhases == {"PreHs", "OutHs", "ProtoHs", "Est"}

ObsInit == [ids |-> {}, nb |-> 0, nc |-> 0, known |-> {"G"}, stable |-> 0]
HasObs(e) == "bc" \in DOMAIN e
ObsOf(e) == IF HasObs(e) THEN [ids |-> ToSet(e.bcIds), nb |-> e.bc, nc |-> e.cc, known |-> ToSet(e.has), stable |-> e.stable] ELSE obs
\* ds: the universe blocks sent in the step (sequence of descriptors)
\* the inbound queue is certainly empty: no write of the node is in flight and nothing of the node can run
ZeroBack == [nb |-> 0, nc |-> 0]
Drained(e) == "wpend" \in DOMAIN e /\ "quiet" \in DOMAIN e /\ e.wpend = 0 /\ e.quiet
BackOf(e) == IF Drained(e) THEN ZeroBack
             ELSE IF "nblk" \in DOMAIN e THEN [nb |-> back.nb + e.nblk, nc |-> back.nc + e.nconf] ELSE back
Proportionate(e, ds) == HasObs(e) => /\ CountEnvelope(e.bc, e.cc, obs.nb + back.nb, obs.nc + back.nc, e.nblk, e.nconf)
                                     /\ IdsEnvelope(ToSet(e.bcIds), obs.ids, ds, obs.known, obs.stable)
                                     /\ e.bc = Len(e.bcIds)
                                     /\ e.stable >= obs.stable /\ obs.known \subseteq ToSet(e.has)     \* the chain only grows

TRows(c, ph) == {t \in ClassTable : t[1] = c /\ ph \in t[2]}
Bound(rk) == MaxFrameK + SlackK + C * rk
NextPhase(ph) == CASE ph \in {"PreHs", "OutHs"} -> "ProtoHs" [] ph = "ProtoHs" -> "Est" [] OTHER -> ph

\* the clauses that hold for every input whatsoever
Healthy(e) == e.alive /\ Len(e.blocked) = 0 /\ e.allocK <= Bound(e.readK)
ReactOK(react, e, ph) == CASE react = "close" -> e.closed
                           [] react = "keep"  -> ~e.closed
                           [] react = "adv"   -> ~e.closed /\ e.hs = "ok"
                           [] OTHER -> TRUE
Np(react, e, ph) == CASE react = "close" -> "Closed"
                      [] react = "adv" -> NextPhase(ph)
                      [] react = "keep" -> ph
                      [] OTHER -> IF e.closed THEN "Closed" ELSE ph
DevMatch(t, e) == CASE t[7] = "panic" -> ~e.alive
                    [] t[7] = "stuck" -> e.alive /\ Len(e.blocked) > 0
                    [] t[7] = "alloc" -> e.alive /\ e.allocK > Bound(e.readK)
                    [] OTHER -> FALSE

\* receive side: the clauses that hold whatever the remote does with the node's writes
HealthyRx(e) == /\ e.alive /\ e.allocK <= Bound(e.readK) /\ Len(e.wstuck) = 0
                /\ (e.wpend = 0 => Len(e.blocked) = 0)
\* ... and once the node has settled
Settled(e) == e.alive /\ e.allocK <= Bound(e.readK) /\ Len(e.wstuck) = 0 /\ e.wpend = 0 /\ Len(e.blocked) = 0 /\ e.quiet
Fresh == rx' = "read" /\ due' = FALSE
\* the bystander - a second remote party that behaves - stays connected whatever the first one does, and a good transaction of the
\* first one (on an established connection) is passed on to it: at once when the node's writes to the first one succeed or fail at
\* once, at the latest when the node has settled
ByOK(e) == e.by => ~e.bclosed
ByPeers(e) == IF e.by THEN 1 ELSE 0       \* the peers the node knows once the first remote's connection is closed
ByTx(e) == e.by /\ e.a[1] = "Txs_Good" /\ phase = "Est"

TReset == Ev("reset") /\ phase' = "Idle" /\ tainted' = FALSE /\ obs' = ObsInit /\ Fresh /\ owed' = FALSE /\ back' = ZeroBack
\* opening a connection in either direction: the node is alive, nothing is deadlocked and it waits for the remote's handshake packet
\* (when dialing: after having sent its own request, which the remote could decrypt - E.req - otherwise the binding is broken)
TConnect == /\ Ev("Connect") /\ ~tainted /\ "dead" \notin DOMAIN E
            /\ E.alive /\ Len(E.blocked) = 0 /\ ~E.closed /\ E.allocK <= Bound(0) /\ Proportionate(E, <<>>)
            /\ phase' = "PreHs" /\ obs' = ObsOf(E) /\ back' = BackOf(E) /\ Fresh /\ UNCHANGED <<tainted, owed>>
TDial == /\ Ev("Dial") /\ ~tainted /\ "dead" \notin DOMAIN E
         /\ E.alive /\ Len(E.blocked) = 0 /\ ~E.closed /\ E.allocK <= Bound(0) /\ E.req = "ok" /\ Proportionate(E, <<>>)
         /\ phase' = "OutHs" /\ obs' = ObsOf(E) /\ back' = BackOf(E) /\ Fresh /\ UNCHANGED <<tainted, owed>>
TRecv == /\ Ev("Recv") /\ ~tainted /\ "dead" \notin DOMAIN E /\ rx = "read" /\ UNCHANGED <<rx, due, owed>>
         /\ \E t \in TRows(E.a[1], phase) :
              \/ /\ Healthy(E) /\ ReactOK(t[3], E, phase) /\ Proportionate(E, <<>>)
                 /\ ByOK(E) /\ (ByTx(E) => E.bgot > 0)
                 /\ phase' = Np(t[3], E, phase) /\ tainted' = FALSE /\ obs' = ObsOf(E) /\ back' = BackOf(E)
              \/ /\ ~(Healthy(E) /\ ReactOK(t[3], E, phase))
                 /\ t[6] \in AllowedDev /\ DevMatch(t, E) /\ UseDev(t[6])
                 /\ phase' = phase /\ tainted' = TRUE /\ UNCHANGED <<obs, back>>
\* input for a connection the node has already closed (possible after an "any" class): nothing may happen
TRecvClosed == /\ Ev("Recv") /\ ~tainted /\ "dead" \notin DOMAIN E /\ phase = "Closed"
               /\ Healthy(E) /\ E.closed /\ E.read = 0 /\ Proportionate(E, <<>>)
               /\ obs' = ObsOf(E) /\ back' = BackOf(E) /\ UNCHANGED <<phase, tainted, owed>> /\ Fresh
\* ---------------------------------------------------------------- the receive-side layer
\* input while the remote does not take (stall) or refuses (rst) the node's writes: the answer cannot be delivered, so keeping
\* or dropping the connection are both fine - but malformed input closes it, now or (behind a write in flight) once that is over
TRecvRx == /\ Ev("Recv") /\ ~tainted /\ "dead" \notin DOMAIN E /\ rx # "read" /\ phase \in OpenPhases
           /\ \E t \in TRows(E.a[1], phase) :
                /\ HealthyRx(E) /\ Proportionate(E, <<>>)
                /\ t[3] = "close" => E.closed \/ E.wpend > 0
                /\ (t[3] = "adv" /\ ~E.closed) => E.hs = "ok"
                /\ E.closed => E.wpend = 0
                /\ ByOK(E) /\ ((ByTx(E) /\ E.wpend = 0) => E.bgot > 0)
                /\ owed' = (owed \/ ByTx(E))
                /\ phase' = (IF E.closed THEN "Closed" ELSE IF t[3] = "adv" THEN NextPhase(phase) ELSE phase)
                /\ due' = (~E.closed /\ (due \/ t[3] = "close"))
                /\ rx' = (IF E.closed THEN "read" ELSE rx)
           /\ obs' = ObsOf(E) /\ back' = BackOf(E) /\ UNCHANGED tainted
RxEv(name) == Ev(name) /\ ~tainted /\ "dead" \notin DOMAIN E /\ obs' = ObsOf(E) /\ back' = BackOf(E) /\ ByOK(E) /\ UNCHANGED <<tainted, owed>>
RxNp(e, nrx) == /\ phase' = (IF e.closed THEN "Closed" ELSE phase)
                /\ rx' = (IF e.closed THEN "read" ELSE nrx)
                /\ due' = FALSE
\* the remote stops reading: nothing happens to the node
TStopReading == /\ RxEv("StopReading") /\ phase \in OpenPhases /\ rx = "read"
                /\ HealthyRx(E) /\ Proportionate(E, <<>>) /\ E.read = 0
                /\ phase' = (IF E.closed THEN "Closed" ELSE phase) /\ rx' = (IF E.closed THEN "read" ELSE "stall") /\ UNCHANGED due
\* bounded time: whatever was in flight is over, nobody waits, what was owed is done
TSettle(name, nrx) == /\ RxEv(name) /\ phase \in OpenPhases
                      /\ Settled(E) /\ Proportionate(E, <<>>) /\ E.read = 0
                      /\ due => E.closed
                      /\ owed => E.bgot > 0
                      /\ E.closed => E.peers = ByPeers(E)
                      /\ RxNp(E, nrx)
TResume == rx = "stall" /\ TSettle("Resume", "read")
TResetConn == TSettle("ResetConn", "rst")
TDeadline == rx = "stall" /\ TSettle("Deadline", "stall")
\* the remote hung up / neither read nor sent until the node gave up: the node has closed its end
THangUp == TSettle("HangUp", "read") /\ E.closed
TStallOut == rx = "stall" /\ TSettle("StallOut", "read") /\ E.closed
\* a second remote party has connected and done the genuine handshakes: the node serves it like the first one
TBystander == /\ RxEv("Bystander") /\ phase \in {"Est", "Closed"} /\ rx = "read"
              /\ Healthy(E) /\ Proportionate(E, <<>>) /\ E.by /\ E.bhs = "ok" /\ E.allocK <= Bound(1)
              /\ phase' = (IF E.closed THEN "Closed" ELSE phase) /\ UNCHANGED <<rx, due>>
\* the same on a connection the node has already closed: nothing happens
TRxClosed == /\ \E nm \in {"StopReading", "Resume", "ResetConn", "HangUp", "Deadline", "StallOut"} : RxEv(nm)
             /\ phase = "Closed" /\ Settled(E) /\ E.closed /\ E.read = 0 /\ Proportionate(E, <<>>) /\ E.peers = ByPeers(E)
             /\ UNCHANGED phase /\ Fresh
\* ---------------------------------------------------------------- the sequence layer
\* a decodable BlocksMsg / ConfirmMsg with arbitrary content on an established connection: the node stays healthy and
\* its state in proportion; keeping or dropping the peer are both fine.  On a connection the node has closed nothing is read.
SeqStep(ds) == /\ ~tainted /\ "dead" \notin DOMAIN E /\ phase \in {"Est", "Closed"} /\ UNCHANGED <<rx, due, owed>>
               /\ Healthy(E) /\ Proportionate(E, ds)
               /\ phase = "Closed" => E.closed /\ E.read = 0
               /\ phase' = (IF E.closed THEN "Closed" ELSE phase) /\ obs' = ObsOf(E) /\ back' = BackOf(E) /\ UNCHANGED tainted
TSBlocks == Ev("SBlocks") /\ SeqStep(IF phase = "Est" THEN E.a[1] ELSE <<>>)
TSConfirm == Ev("SConfirm") /\ SeqStep(<<>>)
\* the manager's queue timer passed at least once, nothing was sent: whatever it did, the node is healthy and the caches did not grow
TTick == /\ Ev("Tick") /\ ~tainted /\ "dead" \notin DOMAIN E /\ phase \in {"Est", "Closed"} /\ UNCHANGED <<rx, due, owed>>
         /\ Healthy(E) /\ Proportionate(E, <<>>) /\ E.read = 0
         /\ phase' = (IF E.closed THEN "Closed" ELSE phase) /\ obs' = ObsOf(E) /\ back' = BackOf(E) /\ UNCHANGED tainted
\* after an accepted known failure the node is dead / deadlocked / busy: the rest of the behaviour carries no information
TSkip == /\ tainted /\ l <= Len(Trace) /\ Trace[l].ev # "reset" /\ "panic" \notin DOMAIN Trace[l]
         /\ l' = l + 1 /\ UNCHANGED <<phase, tainted, obs, rx, due, owed, back>>
TraceNext == TReset \/ TConnect \/ TDial \/ TRecv \/ TRecvClosed \/ TSBlocks \/ TSConfirm \/ TTick \/ TSkip
             \/ TRecvRx \/ TStopReading \/ TResume \/ TResetConn \/ TDeadline \/ THangUp \/ TStallOut \/ TRxClosed \/ TBystander
TraceSpec == l = 1 /\ phase = "Idle" /\ tainted = FALSE /\ obs = ObsInit /\ rx = "read" /\ due = FALSE /\ owed = FALSE /\ back = ZeroBack /\ [][TraceNext]_tv
PhaseOK == phase \in {"Idle", "PreHs", "OutHs", "ProtoHs", "Est", "Closed"}
====
