---- MODULE TraceWire ----
(* C15, code side.  Every line is one step performed on the REAL node (sub-process, real handshake, real frames; Connect: the
   remote party connected and the node runs the accepting side, Dial: the node dialed the remote party's listener, sent its
   handshake request and waits for the response):
   what the process did (alive / exit status), whether the node closed the connection, which goroutines wait for a
   lock in a consistent snapshot in which nothing of the node can run, KiB allocated and KiB read during the step.
   A line is consumed only if that is what the property demands for the class in the current phase - or if it is
   exactly the failure of a deviation listed in known_findings.txt (then the rest of that behaviour is not judged:
   the node is dead, deadlocked or still allocating). *)
EXTENDS WireClasses, TraceBase
CONSTANTS AllowedDev, MaxFrameK, SlackK, C
VARIABLES phase, tainted
tv == <<phase, tainted, l>>

TRows(c, ph) == {t \in ClassTable : t[1] = c /\ ph \in t[2]}
Bound(rk) == MaxFrameK + SlackK + C * rk
NextPhase(ph) == CASE ph \in {"PreHs", "OutHs"} -> "ProtoHs" [] ph = "ProtoHs" -> "Est" [] OTHER -> ph

\* the clauses that hold for every input whatsoever
Healthy(e) == e.alive /\ Len(e.blocked) = 0 /\ e.allocK <= Bound(e.readK)
ReactOK(react, e, ph) == CASE react = "close" -> e.closed
                           [] react = "keep"  -> ~e.closed
                           [] react = "adv"   -> ~e.closed /\ e.hs = "ok"
                           [] OTHER -> TRUE
Np(react, e, ph) == CASE react = "close" -> "Closed"
                      [] react = "adv" -> NextPhase(ph)
                      [] react = "keep" -> ph
                      [] OTHER -> IF e.closed THEN "Closed" ELSE ph
DevMatch(t, e) == CASE t[7] = "panic" -> ~e.alive
                    [] t[7] = "stuck" -> e.alive /\ Len(e.blocked) > 0
                    [] t[7] = "alloc" -> e.alive /\ e.allocK > Bound(e.readK)
                    [] OTHER -> FALSE

TReset == Ev("reset") /\ phase' = "Idle" /\ tainted' = FALSE
\* opening a connection in either direction: the node is alive, nothing is deadlocked and it waits for the remote's handshake packet
\* (when dialing: after having sent its own request, which the remote could decrypt - E.req - otherwise the binding is broken)
TConnect == /\ Ev("Connect") /\ ~tainted /\ "dead" \notin DOMAIN E
            /\ E.alive /\ Len(E.blocked) = 0 /\ ~E.closed /\ E.allocK <= Bound(0)
            /\ phase' = "PreHs" /\ UNCHANGED tainted
TDial == /\ Ev("Dial") /\ ~tainted /\ "dead" \notin DOMAIN E
         /\ E.alive /\ Len(E.blocked) = 0 /\ ~E.closed /\ E.allocK <= Bound(0) /\ E.req = "ok"
         /\ phase' = "OutHs" /\ UNCHANGED tainted
TRecv == /\ Ev("Recv") /\ ~tainted /\ "dead" \notin DOMAIN E
         /\ \E t \in TRows(E.a[1], phase) :
              \/ /\ Healthy(E) /\ ReactOK(t[3], E, phase)
                 /\ phase' = Np(t[3], E, phase) /\ tainted' = FALSE
              \/ /\ ~(Healthy(E) /\ ReactOK(t[3], E, phase))
                 /\ t[6] \in AllowedDev /\ DevMatch(t, E) /\ UseDev(t[6])
                 /\ phase' = phase /\ tainted' = TRUE
\* input for a connection the node has already closed (possible after an "any" class): nothing may happen
TRecvClosed == /\ Ev("Recv") /\ ~tainted /\ "dead" \notin DOMAIN E /\ phase = "Closed"
               /\ Healthy(E) /\ E.closed /\ E.read = 0
               /\ UNCHANGED <<phase, tainted>>
\* after an accepted known failure the node is dead / deadlocked / busy: the rest of the behaviour carries no information
TSkip == /\ tainted /\ l <= Len(Trace) /\ Trace[l].ev # "reset" /\ "panic" \notin DOMAIN Trace[l]
         /\ l' = l + 1 /\ UNCHANGED <<phase, tainted>>
TraceNext == TReset \/ TConnect \/ TDial \/ TRecv \/ TRecvClosed \/ TSkip
TraceSpec == l = 1 /\ phase = "Idle" /\ tainted = FALSE /\ [][TraceNext]_tv
PhaseOK == phase \in {"Idle", "PreHs", "OutHs", "ProtoHs", "Est", "Closed"}
====
