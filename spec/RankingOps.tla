---- MODULE RankingOps ----
(* C10, pure operators shared by the design model (Ranking.tla) and the trace validator (TraceRanking.tla).

   Candidates are integers; rk[c] is the position of c's address in byte order (lower = smaller address),
   so that the tie-break "address ascending" never compares strings.
   A candidate's state in a block is [r |-> 0 never registered | 1 registered | 2 unregistered, v |-> votes].

   FullSort is the right-hand side of the property: all registered candidates of the block's state sorted by
   (votes descending, address ascending), cut to K.

   CodeTop is store/cblock.go updateTop as written (four branches), parameterised by the set D of *named
   deviations* that are switched on.  With D = {} it is the repaired design, for which TLC proves
   CodeTop = FullSort on every reachable state (MCRanking_*.cfg); each deviation alone makes TLC find a
   counterexample (negative controls):
     Dev_UnregisteredReRanked  the two "resort all candidates" branches rank CandidateTrieDB.GetAll(), which keeps
                               unregistered candidates (with 0 votes): they are published again
     Dev_RestartForgetsIndex   NewChainDataBase starts with an EMPTY all-candidates index (only Top is rebuilt from
                               context.data): a later "resort all" forgets every candidate not changed since the start
     Dev_MinTieIgnoresAddress  the "minimum did not decrease" test compares votes only, so an outsider that ties with
                               the new minimum but has the smaller address is not considered *)
EXTENDS Integers, Sequences, FiniteSets

AllDevs == {"Dev_UnregisteredReRanked", "Dev_RestartForgetsIndex", "Dev_MinTieIgnoresAddress"}

(* ---- vote magnitudes.  The vote values 0..maxv of the model are abstract: a *vote map* sends them strictly
   monotonically to real vote totals (0 |-> 0), chosen by the binding.  What the model has to know about the real
   values is their MAGNITUDE CLASS, because the record persisted per candidate (store.Candidate{Address, Total}, RLP,
   one fixed-size slot of context.data with a {Pos, Len} header) changes its LENGTH with it:
       class(x) = number of bytes of the RLP encoding of the total x = 1 for 0..127, 1 + (bytes of x) from 128 on.
   Catalogue (index m, fixed here so that design model, binding and trace validator agree; the binding logs the real
   record lengths and TraceRanking checks them against MagOf):
     m = 0      v |-> v                        small totals, every record has the same length
     m = 1..6   maxv |-> B, v |-> B - (maxv - v) for 0 < v < maxv, with B = 2^7, 2^8, 2^16, 2^24, 2^32, 2^64:
                the top value is the first total of the next class, every other registered value is in the class
                below (for m >= 2 the 0 of an unregistered candidate is in a third, still smaller class), so every
                vote change to / from the top value and (m >= 2) every unregistration rewrites the record with another
                length, growing and shrinking
     m = 100    "free": any strictly monotone map, chosen by the binding (only where the design model does not look at
                the classes: Persist = FALSE) *)
BoundLo == <<1, 2, 3, 4, 5, 9>>                  \* class of B - 1
MagMaps == 0..Len(BoundLo)
FreeMap == 100
MagOf(m, v, maxv) == IF v = 0 \/ m = 0 THEN 1 ELSE IF v = maxv THEN BoundLo[m] + 1 ELSE BoundLo[m]

SeqSet(s) == {s[i] : i \in 1..Len(s)}
Better(a, b, v, rk) == v[a] > v[b] \/ (v[a] = v[b] /\ rk[a] < rk[b])          \* votes desc, address asc
RECURSIVE SortBy(_, _, _)
SortBy(S, v, rk) == IF S = {} THEN <<>>
                    ELSE LET m == CHOOSE x \in S : \A y \in S \ {x} : Better(x, y, v, rk)
                         IN <<m>> \o SortBy(S \ {m}, v, rk)
Cut(s, K) == IF Len(s) > K THEN SubSeq(s, 1, K) ELSE s
Rank(S, v, rk, K) == Cut(SortBy(S, v, rk), K)                                   \* VoteTop.Rank

Votes(s) == [c \in DOMAIN s |-> s[c].v]
Registered(s) == {c \in DOMAIN s : s[c].r = 1}
FullSort(s, rk, K) == Rank(Registered(s), Votes(s), rk, K)

(* What a block does to the candidates: nv[c] = votes of c after the block (0 = not registered / unregister now);
   t # 0 additionally touches the account of t without a vote change (see Ranking.tla). *)
NewState(sp, nv, t) ==
  [c \in DOMAIN sp |-> IF c = t /\ sp[c].r = 0 THEN [r |-> 2, v |-> 0]
                       ELSE IF sp[c].r = 0 THEN (IF nv[c] > 0 THEN [r |-> 1, v |-> nv[c]] ELSE sp[c])
                       ELSE IF sp[c].r = 1 THEN (IF nv[c] = 0 THEN [r |-> 2, v |-> 0] ELSE [r |-> 1, v |-> nv[c]])
                       ELSE sp[c]]
Legal(sp, nv, t) == /\ \A c \in DOMAIN sp : sp[c].r = 2 => nv[c] = 0
                    /\ t # 0 => nv[t] = sp[t].v
Changed(sp, sn) == {c \in DOMAIN sp : sn[c].v # sp[c].v}                          \* a VotesLog survives the merge
Unreg(sp, sn, t) == {c \in DOMAIN sp : sn[c].r = 2 /\ (sn[c] # sp[c] \/ c = t)}   \* changed accounts saying "false"

(* One block.  sp = state of the parent, sn = state of the new block,
   chg   = candidates with a merged, valuable VotesLog in this block (what Manager.Save hands to CandidatesRanking)
   unreg = candidates whose account was changed in this block and says isCandidate = "false" (collectUnregisters)
   topP  = the parent's published list, idx2 = the all-candidates index AFTER dye() of this block (a set: the
   stored totals are always the current votes). *)
CodeTop(D, K, rk, topP, idx2, sp, sn, chg, unreg) ==
  LET vp == Votes(sp)
      vn == Votes(sn)
      keep == SelectSeq(topP, LAMBDA c : c \notin unreg)                         \* filterUnregisters(newTop.Top)
      add == chg \ unreg                                                          \* filterUnregisters(changedCandidates)
      merged == IF add = {} THEN keep ELSE Rank(SeqSet(keep) \cup add, vn, rk, K) \* newTop.MergeCandidates
      known == IF "Dev_UnregisteredReRanked" \in D THEN idx2 ELSE idx2 \cap Registered(sn)
      rerank == Rank(known, vn, rk, K)                                            \* Top.Rank(max, CandidateTrieDB.GetAll())
      nmin == merged[Len(merged)]
      omin == topP[Len(topP)]
      minOK == IF "Dev_MinTieIgnoresAddress" \in D THEN vn[nmin] >= vp[omin]
               ELSE vn[nmin] > vp[omin] \/ (vn[nmin] = vp[omin] /\ rk[nmin] <= rk[omin])
  IN IF chg = {} THEN topP                                                        \* Ranking returns at once without vote logs
     ELSE IF Len(topP) < K THEN merged
     ELSE IF Len(topP) > Len(merged) THEN rerank
     ELSE IF minOK THEN merged
     ELSE rerank
====
