---- MODULE Merkle ----
(* C17 design: the Merkle root over an ordered leaf list (transactions, change logs, deputies).
   The hash is FREE: H(l, r) is the tuple <<"H", l, r>>, i.e. collision free and never equal to a leaf
   (leaves are hashes of encodings that are not 64 bytes long).  The state is the leaf list, grown and
   shrunk by Push / Pop so that TLC's state graph contains every list over Atoms of length 0..N; the
   conformance run evaluates the real functions on every one of them. *)
EXTENDS Naturals, Sequences, FiniteSets, TLC
CONSTANTS Atoms, N
FreeH(l, r) == <<"H", l, r>>
INSTANCE MerkleOps
EmptyR == <<"empty">>
VARIABLE ls
Leaf(x) == <<"leaf", x>>                  \* a leaf hash (a tuple, so that TLC can compare it with inner hashes)
Lv(s) == [i \in 1..Len(s) |-> Leaf(s[i])]
AllLeaves == {Leaf(x) : x \in Atoms}
Init == ls = <<>>
Push(x) == Len(ls) < N /\ ls' = Append(ls, x)
Pop == ls # <<>> /\ ls' = SubSeq(ls, 1, Len(ls) - 1)
Next == (\E x \in Atoms : Push(x)) \/ Pop
Spec == Init /\ [][Next]_ls

RECURSIVE Lists(_)
Lists(n) == IF n = 0 THEN {<<>>}
            ELSE LET shorter == Lists(n - 1) IN shorter \cup {Append(s, x) : s \in {t \in shorter : Len(t) = n - 1}, x \in Atoms}
lv == Lv(ls)
Inner == {Nodes(FreeH, lv)[i] : i \in (Len(lv) + 1)..Len(Nodes(FreeH, lv))}          \* the hashes above the leaves

NodeCount == Len(Nodes(FreeH, lv)) = IF ls = <<>> THEN 0 ELSE 2 * Len(ls) - 1
\* changing any single leaf changes the root
EveryLeafBound == \A i \in 1..Len(ls) : \A x \in Atoms \ {ls[i]} : Root(FreeH, EmptyR, Lv([ls EXCEPT ![i] = x])) # Root(FreeH, EmptyR, lv)
\* inclusion proofs verify for every position ...
ProofsVerify == \A i \in 1..Len(lv) : Verify(FreeH, lv[i], Root(FreeH, EmptyR, lv), Siblings(lv[i], Nodes(FreeH, lv)))
\* ... and fail for any other leaf presented with the same proof (another leaf, or an inner hash)
AlteredFails == \A i \in 1..Len(lv) : \A x \in (AllLeaves \cup Inner) \ {lv[i]} :
                  ~Verify(FreeH, x, Root(FreeH, EmptyR, lv), Siblings(lv[i], Nodes(FreeH, lv)))
\* the root is determined by the ordered leaf list and determines it (checked once, over all lists <= N)
RootBindsList == ls = <<>> => Cardinality({Root(FreeH, EmptyR, Lv(s)) : s \in Lists(N)}) = Cardinality(Lists(N))
====
