SPECIFICATION TraceSpec
CONSTANTS AllowedDev = @ALLOWED_DEV@
 MaxFrameK = 25600
 SlackK = 16384
 C = 256
CONSTRAINT HW
INVARIANT PhaseOK
POSTCONDITION Accepted
CHECK_DEADLOCK FALSE
