SPECIFICATION Spec
CONSTANTS NB = 2
 MaxCrash = 2
 RepairTornTail = FALSE
 RepairAtomicContext = TRUE
 RepairScanPromotes = TRUE
INVARIANTS Opens
CHECK_DEADLOCK FALSE
