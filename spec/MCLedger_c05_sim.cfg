SPECIFICATION Spec
CONSTANTS Ctx <- McCtx
 Init0 <- McInit
 Gas <- McGas
 Devs = {}
 Kinds = {"xfer", "box", "vote", "reg", "topup", "unreg"}
 From = {"a1", "a2", "a3", "a4", "I"}
 XTo = {"a1", "a2", "a3", "I", "KR", "KX", "KS", "KD", "KO"}
 XAmt = {0, 100, 150, 1000}
 Payers = {"a4", "a1"}
 Voters = {"a1", "a2", "I"}
 Cands = {"a3", "a4"}
 RegAmt = {0, 50, 300, 350}
 AFrom = {}
 ATo = {}
 AAmt = {}
 IAmt = {}
 ACodes = {}
 AIds = {}
 BGL = {90000, 150000, 300000}
 BoxFrom = {"a1", "a4"}
 BoxTo = {"a1", "a2", "a3"}
 BoxSeqs = {}
 SpendFrom = {}
 RewFrom = {}
 RewTerms = {}
 RewAmt = {}
 EmptyOK = FALSE
 MaxTx = 4
 MaxBlk = 2
 MaxTot = 7
VIEW View
INVARIANTS NonNegative Conservation DepositsBacked VotesAtBoundary SupplyEqualsEquity NothingForbiddenIncluded
PROPERTIES EndOfBlockIssuesTheReward GasWithinLimit NotIncludedIsFree OnlyOwnEquityDecreases SupplyChangesOnlyByIssuerOrHolder FrozenDoesNotMove
CHECK_DEADLOCK FALSE
