---- MODULE CallFrames ----
(* C16: contract execution is sandboxed.  chain/vm/evm.go (Call / CallCode / DelegateCall / StaticCall around
   Snapshot / RevertToSnapshot), chain/vm/interpreter.go (readOnly, enforceRestrictions), chain/vm/instructions.go
   (opSstore, makeEvent, opSuicide, the four call opcodes), on the account backend chain/account (change journal).

   A behaviour is one transaction-level call executed as a stack of call frames.  The world is a small abstract
   account state plus the CHANGE JOURNAL the platform reverts with: a frame remembers the journal length at entry
   (mark), a failing frame undoes the journal back to its mark.  The frame also keeps a copy of the observable state
   at entry (snap, a history value) - the clauses of the property compare the undone world with that copy:

     FailedFrameIsNoop   a frame ending in revert / error leaves the observable state exactly as at its entry
                         (apart from gas and the failure event the platform itself records - a named, allowed effect)
     StaticIsNoop        while a read-only frame is on the stack the observable state is the one at its entry
     GasNeverGrows       the gas held by all frames together never grows
     GasWithinSupplied   ... and never exceeds the gas supplied
     DepthBound          at most DepthLimit+1 frames (the transaction-level frame has depth 0)
     NoCrash             reverting never aborts the platform

   Two deviation flags reproduce what the code does today (both OFF in the design, ON as negative controls):
     devS  undoSuicide restores balance/code/storage ROOT only: storage written earlier in the block is lost
     devG  RevertToSnapshot demands contiguous change-log versions per (account, log type) although versions of
           undone logs are never handed out again: a frame that fails after one of its inner calls failed panics.

   The world operators are pure and are reused by TraceCallFrames.tla to re-execute what the REAL EVM did. *)
EXTENDS CallFramesOps

CONSTANTS InitBal,      \* [Addrs -> Nat]
          InitStor      \* [Contracts -> [Slots -> Nat]]  storage committed in the parent block

\* ------------------------------------------------------------------ the generator: all executions within bounds
CONSTANTS Kinds, Vals, SendVals, SuicideTo, G0, MaxDepth, MaxFan, DepthLimit, DevS, DevG
VARIABLES w, stack, gs, fan, done, hist
vars == <<w, stack, gs, fan, done, hist>>
Init == /\ w = World0(DevS, DevG, InitBal, InitStor) /\ stack = <<>> /\ gs = <<>> /\ fan = <<>> /\ done = "" /\ hist = <<>>
Top == stack[Len(stack)]
Running == done = "" /\ ~w.crash
\* abstract gas: every action costs one unit, a call passes on all but a quarter (at least one unit kept when
\* possible) of what is left - the shape of the 63/64 rule on small numbers
Pass(g) == g - (g + 3) \div 4
SumSeq(s) == LET RECURSIVE S(_) S(i) == IF i = 0 THEN 0 ELSE s[i] + S(i - 1) IN S(Len(s))
TotalGas == SumSeq(gs)

EnterTop(kind, to, val) ==
  /\ Running /\ stack = <<>> /\ hist = <<>> /\ kind = "call" /\ val \in SendVals /\ val <= w.bal[Sender]
  /\ w' = EnterW(w, kind, Sender, to, val)
  /\ stack' = <<Frame(w, kind, Sender, FALSE, to)>> /\ gs' = <<G0>> /\ fan' = <<0>>
  /\ hist' = <<<<"Enter", kind, to, val>>>> /\ UNCHANGED done
Enter(kind, to, val) ==
  \/ EnterTop(kind, to, val)
  \/ /\ Running /\ stack # <<>> /\ Len(stack) < MaxDepth /\ fan[Len(stack)] < MaxFan /\ gs[Len(stack)] >= 1
     /\ kind \in Kinds /\ w.code[to]
     /\ val \in (IF kind \in {"call", "callcode"} THEN SendVals ELSE {0})
     /\ val <= w.bal[Top.ctx]                          \* enough balance (the denied call is not generated)
     /\ ~(Top.ro /\ kind = "call" /\ val > 0)          \* that is a write-protection failure of the caller
     /\ Len(stack) <= DepthLimit                       \* else evm.Call returns ErrDepth
     /\ LET n == Len(stack)  g == gs[n] - 1 IN
        /\ w' = EnterW(w, kind, Top.ctx, to, val)
        /\ stack' = Append(stack, Frame(w, kind, Top.ctx, Top.ro, to))
        /\ gs' = Append([gs EXCEPT ![n] = g - Pass(g)], Pass(g))
        /\ fan' = Append([fan EXCEPT ![n] = @ + 1], 0)
     /\ hist' = Append(hist, <<"Enter", kind, to, val>>) /\ UNCHANGED done
SStore(s, v) ==
  /\ Running /\ stack # <<>> /\ ~Top.ro /\ gs[Len(stack)] >= 1
  /\ w' = SStoreW(w, Top.ctx, s, v) /\ gs' = [gs EXCEPT ![Len(stack)] = @ - 1]
  /\ hist' = Append(hist, <<"SStore", s, v>>) /\ UNCHANGED <<stack, fan, done>>
Log(x) ==
  /\ Running /\ stack # <<>> /\ ~Top.ro /\ gs[Len(stack)] >= 1
  /\ w' = EventW(w, Top.ctx, "log") /\ gs' = [gs EXCEPT ![Len(stack)] = @ - 1]
  /\ hist' = Append(hist, <<"Log">>) /\ UNCHANGED <<stack, fan, done>>
Pop(outcome, returned) ==
  LET n == Len(stack) IN
  /\ stack' = SubSeq(stack, 1, n - 1) /\ fan' = SubSeq(fan, 1, n - 1)
  /\ gs' = IF n = 1 THEN <<returned>> ELSE [SubSeq(gs, 1, n - 1) EXCEPT ![n - 1] = @ + returned]
  /\ done' = IF w'.crash THEN "crash" ELSE IF n = 1 THEN outcome ELSE ""
\* ok keeps the effects and returns the gas left; revert undoes and returns the gas; fail undoes and burns it
Exit(outcome) ==
  /\ Running /\ stack # <<>> /\ outcome \in {"ok", "revert", "fail"}
  /\ w' = IF outcome = "ok" THEN w ELSE FailW(w, Top)
  /\ Pop(outcome, IF outcome = "fail" THEN 0 ELSE gs[Len(stack)])
  /\ hist' = Append(hist, <<"Exit", outcome>>)
Suicide(b) ==
  /\ Running /\ stack # <<>> /\ ~Top.ro /\ gs[Len(stack)] >= 1 /\ b \in SuicideTo
  /\ w' = SuicideW(w, Top.ctx, b)
  /\ Pop("ok", gs[Len(stack)] - 1)
  /\ hist' = Append(hist, <<"Suicide", b>>)
Next == \/ \E k \in Kinds, c \in Contracts, v \in SendVals : Enter(k, c, v)
        \/ \E s \in Slots, v \in Vals : SStore(s, v)
        \/ \E x \in {0} : Log(x)
        \/ \E o \in {"ok", "revert", "fail"} : Exit(o)
        \/ \E b \in SuicideTo : Suicide(b)
Spec == Init /\ [][Next]_vars

\* ------------------------------------------------------------------ the clauses of C16
FailedFrameIsNoop ==
  [][\A o \in {"revert", "fail"} : (Exit(o) /\ ~w'.crash) =>
        /\ Obs(w') = Top.snap
        /\ NEv(w', "fail") \in {Top.nfail, Top.nfail + 1}]_vars       \* the recorded failure event, nothing else
OkKeepsEffects == [][Exit("ok") => w' = w]_vars
StaticIsNoop == ~w.crash => \A i \in 1..Len(stack) : stack[i].ro => Obs(w) = stack[i].snap
GasNeverGrows == [][SumSeq(gs') <= SumSeq(gs) \/ stack = <<>>]_vars
GasWithinSupplied == TotalGas <= G0
DepthBound == Len(stack) <= DepthLimit + 1
NoCrash == ~w.crash
JournalMarksOrdered == \A i \in 1..Len(stack) : stack[i].mark <= Len(w.jr) /\ (i > 1 => stack[i - 1].mark <= stack[i].mark)
ViewNoHist == <<w, stack, gs, fan, done>>
====
