---- MODULE CallFrames ----
(* C16: contract execution is sandboxed.  chain/vm/evm.go (Call / CallCode / DelegateCall / StaticCall / Create around
   Snapshot / RevertToSnapshot), chain/vm/interpreter.go (readOnly, enforceRestrictions), chain/vm/instructions.go
   (opSstore, makeEvent, opSuicide, the four call opcodes, opCreate), on the account backend chain/account (change journal).

   A behaviour is one transaction-level call or contract creation executed as a stack of frames.  The world is a small
   abstract account state plus the CHANGE JOURNAL the platform reverts with: a frame remembers the journal length at
   entry (mark), a failing frame undoes the journal back to its mark.  The frame also keeps a copy of the observable
   state at entry (snap, a history value) - the clauses of the property compare the undone world with that copy:

     FailedFrameIsNoop   a frame ending in revert / error leaves the observable state exactly as at its entry
                         (apart from gas and the failure event the platform itself records - a named, allowed effect);
                         for a CREATION frame "error" includes the two failures of the code deposit: returned code
                         longer than the maximum ("toobig"), deposit not paid for by the gas left ("nodeposit") - the
                         endowment, the storage the init code wrote and everything its inner frames did are undone
     StaticIsNoop        while a read-only frame is on the stack the observable state is the one at its entry
     GasNeverGrows       the gas held by all frames together never grows
     GasWithinSupplied   ... and never exceeds the gas supplied
     DepthBound          at most DepthLimit+1 frames (the transaction-level frame has depth 0)
     NoCrash             reverting never aborts the platform
     JumpIsFrameLocal    FRAME-LOCAL DETERMINISM: what a frame does is a function of its own code, input and state.  The
                         frames under one root run different code (code shapes, CallFramesOps); a jump goes on iff its
                         destination is a JUMPDEST of the code THIS frame runs, else the frame fails (and is a no-op) -
                         whichever other code (init code of an earlier creation, caller, callee) ran before

   Deviation flags reproduce what the code does today / what a careless implementation does (all OFF in the design,
   ON as negative controls):
     devS  undoSuicide restores balance/code/storage ROOT only: storage written earlier in the block is lost
     devG  RevertToSnapshot demands contiguous change-log versions per (account, log type) although versions of
           undone logs are never handed out again: a frame that fails after one of its inner calls failed panics.
     DevL  undoSuicide restores the code HASH only: the code of a contract created earlier in the same block (not yet
           in the store) is gone when a frame is reverted across its SELFDESTRUCT - the failed frame is no no-op: the
           account keeps a hash whose code cannot be loaded, every later call towards it is refused.
     DevC  a creation whose code deposit fails reports the failure but is not rolled back (negative control only).
     DevJ  the jump-destination analysis is cached under a key all init codes share: the analysis of the first init
           code that jumps answers for every later one under the same root (negative control only).

   The world operators are pure and are reused by TraceCallFrames.tla to re-execute what the REAL EVM did. *)
EXTENDS CallFramesOps

CONSTANTS InitBal,      \* [Creators -> Nat], or over more of Addrs (a funded address of Created makes creations collide)
          InitStor      \* [Contracts -> [Slots -> Nat]]  storage committed in the parent block

\* ------------------------------------------------------------------ the generator: all executions within bounds
CONSTANTS Kinds, Vals, SendVals, SuicideTo, G0, MaxDepth, MaxFan, DepthLimit, DevS, DevG, DevC,
          JumpDests,    \* the classes of jump destinations the frames try (a subset of JumpDestsAll; {}: no jumps)
          ShapeAt,      \* [CA -> Shapes]: the shape of the code an address holds / of the init code that creates it
          DevJ
\* an: the code shapes of the universe (constant; the adapter reads them from the initial state) and - under DevJ only -
\* the shape whose analysis sits in the cache slot the init codes share (-1: none yet)
\* (a definition, FALSE in the design; the negative control overrides it in its cfg: DevL <- McTrue)
DevL == FALSE
VARIABLES w, stack, gs, fan, done, hist, an
vars == <<w, stack, gs, fan, done, hist, an>>
Init == /\ w = WithDevL(World0(DevS, DevG, InitBal, InitStor), DevL) /\ stack = <<>> /\ gs = <<>> /\ fan = <<>> /\ done = "" /\ hist = <<>>
        /\ an = [shape |-> ShapeAt, cache |-> -1]
Top == stack[Len(stack)]
Running == done = "" /\ ~w.crash
\* abstract gas: every action costs one unit, a call passes on all but a quarter (at least one unit kept when
\* possible) of what is left - the shape of the 63/64 rule on small numbers; the code deposit costs one unit
Pass(g) == g - (g + 3) \div 4
SumSeq(s) == LET RECURSIVE S(_) S(i) == IF i = 0 THEN 0 ELSE s[i] + S(i - 1) IN S(Len(s))
TotalGas == SumSeq(gs)
\* an address of Created that holds funds in the parent block: evm.Create refuses it (ErrContractAddressCollision)
Taken(a) == BalOf(InitBal, a) > 0
\* a creation can be started towards to: the creator's own address, nothing made there in this transaction
Creatable(ctx, to) == ctx \in Creators /\ to = New(ctx) /\ ~w.code[to] /\ ~w.dead[to]

EnterTop(kind, to, val) ==
  /\ Running /\ stack = <<>> /\ hist = <<>> /\ kind \in Kinds \cap {"call", "create"} /\ val \in SendVals /\ val <= w.bal[Sender]
  /\ IF kind = "create" THEN Creatable(Sender, to) /\ ~Taken(to) ELSE to \in Contracts
  /\ w' = EnterW(w, kind, Sender, to, val)
  /\ stack' = <<Frame(w, kind, Sender, FALSE, to)>> /\ gs' = <<G0>> /\ fan' = <<0>>
  /\ hist' = <<<<"Enter", kind, to, val>>>> /\ UNCHANGED <<done, an>>
Enter(kind, to, val) ==
  \/ EnterTop(kind, to, val)
  \/ /\ Running /\ stack # <<>> /\ Len(stack) < MaxDepth /\ fan[Len(stack)] < MaxFan /\ gs[Len(stack)] >= 1
     /\ kind \in Kinds
     /\ IF kind = "create" THEN Creatable(Top.ctx, to) /\ ~Taken(to) /\ ~Top.ro   \* (inside a read-only frame: a write-protection failure)
                           ELSE w.code[to] /\ ~w.lost[to]           \* (DevL: a call towards code that cannot be loaded is refused)
     /\ val \in (IF kind \in {"call", "callcode", "create"} THEN SendVals ELSE {0})
     /\ val <= w.bal[Top.ctx]                          \* enough balance (the denied call is not generated)
     /\ ~(Top.ro /\ kind = "call" /\ val > 0)          \* that is a write-protection failure of the caller
     /\ Len(stack) <= DepthLimit                       \* else evm.Call returns ErrDepth
     /\ LET n == Len(stack)  g == gs[n] - 1 IN
        /\ w' = EnterW(w, kind, Top.ctx, to, val)
        /\ stack' = Append(stack, Frame(w, kind, Top.ctx, Top.ro, to))
        /\ gs' = Append([gs EXCEPT ![n] = g - Pass(g)], Pass(g))
        /\ fan' = Append([fan EXCEPT ![n] = @ + 1], 0)
     /\ hist' = Append(hist, <<"Enter", kind, to, val>>) /\ UNCHANGED <<done, an>>
\* a creation towards an address that holds funds already: refused before anything happens, the gas passed on is gone
Collide(val) ==
  /\ Running /\ stack # <<>> /\ "create" \in Kinds /\ fan[Len(stack)] < MaxFan /\ gs[Len(stack)] >= 1
  /\ ~Top.ro /\ Top.ctx \in Creators /\ Taken(New(Top.ctx))
  /\ val \in SendVals /\ val <= w.bal[Top.ctx] /\ Len(stack) <= DepthLimit
  /\ LET n == Len(stack)  g == gs[n] - 1 IN
     /\ gs' = [gs EXCEPT ![n] = g - Pass(g)] /\ fan' = [fan EXCEPT ![n] = @ + 1]
  /\ hist' = Append(hist, <<"Collide", val>>) /\ UNCHANGED <<w, stack, done, an>>
SStore(s, v) ==
  /\ Running /\ stack # <<>> /\ ~Top.ro /\ gs[Len(stack)] >= 1
  /\ w' = SStoreW(w, Top.ctx, s, v) /\ gs' = [gs EXCEPT ![Len(stack)] = @ - 1]
  /\ hist' = Append(hist, <<"SStore", s, v>>) /\ UNCHANGED <<stack, fan, done, an>>
Log(x) ==
  /\ Running /\ stack # <<>> /\ ~Top.ro /\ gs[Len(stack)] >= 1
  /\ w' = EventW(w, Top.ctx, "log") /\ gs' = [gs EXCEPT ![Len(stack)] = @ - 1]
  /\ hist' = Append(hist, <<"Log">>) /\ UNCHANGED <<stack, fan, done, an>>
Pop(outcome, returned) ==
  LET n == Len(stack) IN
  /\ stack' = SubSeq(stack, 1, n - 1) /\ fan' = SubSeq(fan, 1, n - 1)
  /\ gs' = IF n = 1 THEN <<returned>> ELSE [SubSeq(gs, 1, n - 1) EXCEPT ![n - 1] = @ + returned]
  /\ done' = IF w'.crash THEN "crash" ELSE IF n = 1 THEN outcome ELSE ""
\* ok keeps the effects and returns the gas left (a creation: after the deposit); revert undoes and returns the gas;
\* fail - and the two deposit failures of a creation - undo and burn it
Outcomes == {"ok", "revert", "fail", "toobig", "nodeposit"}
Failing == Outcomes \ {"ok"}
Exit(outcome) ==
  /\ Running /\ stack # <<>> /\ outcome \in Outcomes
  /\ outcome \in {"toobig", "nodeposit"} => Top.k = "create"
  /\ (outcome = "ok" /\ Top.k = "create") => gs[Len(stack)] >= 1
  /\ w' = IF outcome = "ok" THEN (IF Top.k = "create" THEN CreatedW(w, Top, TRUE) ELSE w)
          ELSE IF DevC /\ outcome \in {"toobig", "nodeposit"} THEN EventW(w, Top.to, "fail")
          ELSE FailW(w, Top)
  /\ Pop(outcome, CASE outcome = "ok" -> gs[Len(stack)] - (IF Top.k = "create" THEN 1 ELSE 0)
                    [] outcome = "revert" -> gs[Len(stack)]
                    [] OTHER -> 0)
  /\ hist' = Append(hist, <<"Exit", outcome>>) /\ UNCHANGED an
Suicide(b) ==
  /\ Running /\ stack # <<>> /\ ~Top.ro /\ gs[Len(stack)] >= 1 /\ b \in SuicideTo
  /\ w' = LET w1 == SuicideW(w, Top.ctx, b) IN IF Top.k = "create" THEN CreatedW(w1, Top, FALSE) ELSE w1
  /\ Pop("ok", gs[Len(stack)] - 1)
  /\ hist' = Append(hist, <<"Suicide", b>>) /\ UNCHANGED an
\* ---- jumps.  The code a frame runs is the code of the address it was entered towards (call kinds: the callee's code,
\* whatever the context; creation: the init code for that address).  Jump(d): the destination is a JUMPDEST of that
\* code - execution goes on; BadJump(d): it is not - the frame fails like after any other error.
CodeShape(f) == an.shape[f.to]
EffShape(f) == IF DevJ /\ f.k = "create" /\ an.cache # -1 THEN an.cache ELSE CodeShape(f)
Analysed(f) == IF DevJ /\ f.k = "create" /\ an.cache = -1 THEN [an EXCEPT !.cache = CodeShape(f)] ELSE an
\* (DevJ: a destination behind the end of the analysed code, inside the running code: the lookup leaves the bitmap)
JumpOutcome(f, d) ==
  IF d = "far" THEN (IF ~Long(CodeShape(f)) THEN "fail" ELSE IF Long(EffShape(f)) THEN "go" ELSE "crash")
  ELSE IF JumpValid(EffShape(f), d) THEN "go" ELSE "fail"
Jump(d) ==
  /\ Running /\ stack # <<>> /\ d \in JumpDests /\ gs[Len(stack)] >= 1
  /\ JumpOutcome(Top, d) \in {"go", "crash"}
  /\ w' = IF JumpOutcome(Top, d) = "crash" THEN [w EXCEPT !.crash = TRUE] ELSE w
  /\ gs' = [gs EXCEPT ![Len(stack)] = @ - 1] /\ an' = Analysed(Top)
  /\ hist' = Append(hist, <<"Jump", d>>) /\ UNCHANGED <<stack, fan, done>>
BadJump(d) ==
  /\ Running /\ stack # <<>> /\ d \in JumpDests
  /\ JumpOutcome(Top, d) = "fail"
  /\ w' = FailW(w, Top) /\ Pop("fail", 0) /\ an' = Analysed(Top)
  /\ hist' = Append(hist, <<"BadJump", d>>)
Next == \/ \E k \in Kinds, c \in CA, v \in SendVals : Enter(k, c, v)
        \/ \E v \in SendVals : Collide(v)
        \/ \E s \in Slots, v \in Vals : SStore(s, v)
        \/ \E x \in {0} : Log(x)
        \/ \E o \in Outcomes : Exit(o)
        \/ \E b \in SuicideTo : Suicide(b)
        \/ \E d \in JumpDests : Jump(d)
        \/ \E d \in JumpDests : BadJump(d)
Spec == Init /\ [][Next]_vars

\* ------------------------------------------------------------------ the clauses of C16
FailedNoop == /\ Obs(w') = Top.snap
              /\ NEv(w', "fail") \in {Top.nfail, Top.nfail + 1}       \* the recorded failure event, nothing else
              /\ NEv(w', "create") <= NEv(w, "create")                \* ... and no creation record of the undone frame
FailedFrameIsNoop ==
  [][/\ \A o \in Failing : (Exit(o) /\ ~w'.crash) => FailedNoop
     /\ \A d \in JumpDests : (BadJump(d) /\ ~w'.crash) => FailedNoop]_vars
\* frame-local determinism: a jump goes on iff the destination is a JUMPDEST of the code the frame itself runs
JumpIsFrameLocal ==
  [][\A d \in JumpDests : /\ (Jump(d) => (JumpValid(CodeShape(Top), d) /\ ~w'.crash))
                           /\ (BadJump(d) => ~JumpValid(CodeShape(Top), d))]_vars
\* a frame that succeeds keeps what it did; a creation adds the code and the platform's creation record, nothing else
OkKeepsEffects ==
  [][Exit("ok") => IF Top.k = "create" THEN /\ Obs(w') = [Obs(w) EXCEPT !.code[Top.to] = TRUE]
                                             /\ NEv(w', "create") = NEv(w, "create") + 1 /\ NEv(w', "fail") = NEv(w, "fail")
                   ELSE w' = w]_vars
\* a creation that is refused for a collision changes nothing
CollisionIsNoop == [][\A v \in SendVals : Collide(v) => w' = w]_vars
StaticIsNoop == ~w.crash => \A i \in 1..Len(stack) : stack[i].ro => Obs(w) = stack[i].snap
GasNeverGrows == [][SumSeq(gs') <= SumSeq(gs) \/ stack = <<>>]_vars
GasWithinSupplied == TotalGas <= G0
DepthBound == Len(stack) <= DepthLimit + 1
NoCrash == ~w.crash
JournalMarksOrdered == \A i \in 1..Len(stack) : stack[i].mark <= Len(w.jr) /\ (i > 1 => stack[i - 1].mark <= stack[i].mark)
\* code only ever appears at an address through a creation frame that succeeded
CodeOnlyByCreation == \A c \in Created : w.code[c] => NEv(w, "create") >= 1
ViewNoHist == <<w, stack, gs, fan, done, an>>
====
