---- MODULE MCCallFrames ----
EXTENDS CallFrames
McContracts == {"A", "B"}
McSlots == {"s1"}
McInitBal == [a \in McContracts \cup {"U"} |-> IF a = "U" THEN 100 ELSE IF a = "A" THEN 3 ELSE IF a = "B" THEN 2 ELSE 1]
McInitStor == [c \in McContracts |-> [s \in McSlots |-> 0]]
McInitStorB == [c \in McContracts |-> [s \in McSlots |-> IF c = "A" THEN 2 ELSE 0]]
McKinds == {"call", "callcode", "delegatecall", "staticcall"}
McKinds2 == {"call", "delegatecall", "staticcall"}
McSlots2 == {"s1", "s2"}
McInitStor2 == [c \in McContracts |-> [s \in McSlots2 |-> IF c = "A" /\ s = "s1" THEN 2 ELSE IF c = "B" /\ s = "s2" THEN 1 ELSE 0]]
McCall == {"call"}
\* creation frames: the address B would create holds funds in the parent block (its creations collide)
McKindsC == {"call", "create"}
McKindsC3 == {"call", "delegatecall", "staticcall", "create"}
McKinds5 == McKinds \cup {"create"}
McInitBalC == [a \in McContracts \cup {"U", "nB"} |-> IF a = "U" THEN 100 ELSE IF a = "A" THEN 3 ELSE IF a = "B" THEN 2 ELSE 1]
McOne == {"A"}
McInitBal1 == [a \in {"U", "A"} |-> IF a = "U" THEN 100 ELSE 3]
McInitBal1C == [a \in {"U", "A", "nA"} |-> IF a = "U" THEN 100 ELSE IF a = "A" THEN 3 ELSE 1]
McInitStor1 == [c \in McOne |-> [s \in McSlots |-> 0]]
\* code shapes: pairwise different; the init code the sender deploys is short, the one A creates long with another
\* marked offset, the one B creates short again
McShapeAt == [c \in CA |-> CASE c = "A" -> 1 [] c = "B" -> 5 [] c = "C" -> 3 [] c = "nU" -> 0 [] c = "nA" -> 4 [] c = "nB" -> 2 [] OTHER -> 0]
\* ... the other way round: long first
McShapeAtB == [c \in CA |-> CASE c = "A" -> 2 [] c = "B" -> 0 [] c = "C" -> 4 [] c = "nU" -> 5 [] c = "nA" -> 1 [] c = "nB" -> 3 [] OTHER -> 0]
McNoSlots == {}
McTrue == TRUE
====
