SPECIFICATION Spec
CONSTANTS Keys <- KeysEdge
 Vals = {"s", "m", "L"}
 Path <- McPath
 Variants <- VarEdge
 MaxOld = 0
 ReopenModes = {"same", "fresh"}
 Ticking = FALSE
 NH = 1
 Vias = {"delete", "empty"}
 Flushes = {FALSE, TRUE}
 Merge = TRUE
INVARIANTS TypeOK InsertKeepsCanonical DeleteKeepsCanonical ReadsLastWritten RootBindsContent
PROPERTIES OneHandleChanges
CHECK_DEADLOCK FALSE
