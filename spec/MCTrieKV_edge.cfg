SPECIFICATION Spec
CONSTANTS Keys <- KeysEdge
 Vals = {"s", "m", "L"}
 Path <- McPath
 Variants <- VarEdge
 MaxOld = 0
 ReopenModes = {"same", "fresh"}
 Ticking = FALSE
 Merge = TRUE
INVARIANTS TypeOK InsertKeepsCanonical DeleteKeepsCanonical ReadsLastWritten RootBindsContent
CHECK_DEADLOCK FALSE
