---- MODULE MCJournal ----
(* Model-checking configurations of Journal.tla.  Account "c" is a contract account (balance, storage, code,
   self-destruct, events, received equity and asset-id metadata), "u" a user account (balance, issued asset code with
   supply and profile, asset id, equity, candidate profile, votes, voteFor, signers). *)
EXTENDS Journal
AllFields == {"bal", "code", "chash", "s1", "s2", "sui", "ev", "ax", "asup", "afr", "aid", "eq", "p1", "p2", "votes", "vf", "sig",
              "rs", "rac", "rai", "req"}
Dflt(f) == CASE f \in {"bal", "s1", "s2", "ev", "asup", "eq", "votes"} -> 0
             [] f \in {"sui", "ax"} -> FALSE
             [] f \in {"rs", "rac", "rai", "req"} -> "Z"       \* no entries: zero root
             [] OTHER -> ""
Empty(F) == [f \in F |-> Dflt(f)]
RECURSIVE With0(_, _)
With0(r, ps) == IF ps = <<>> THEN r ELSE With0(Upd(r, Head(ps)[1], Head(ps)[2]), Tail(ps))
\* ... with the roots its contents have
With(r, ps) == WithRoots(With0(r, ps), "Z")
\* a committed parent state with something in every attribute
FullC(F) == With(Empty(F), << <<"bal", 1>>, <<"code", "c1">>, <<"chash", "c1">>, <<"s1", 1>>, <<"aid", "m1">>, <<"eq", 1>> >>)
FullU(F) == With(Empty(F), << <<"bal", 1>>, <<"ax", TRUE>>, <<"asup", 1>>, <<"afr", "true">>, <<"aid", "m1">>, <<"eq", 1>>,
                              <<"p1", "true">>, <<"p2", "h1">>, <<"votes", 1>>, <<"vf", "c">>, <<"sig", "g1">> >>)
KC == {"bal", "s1", "s2", "code", "sui", "ev", "aid", "eq"}
KU == {"bal", "ax", "asup", "afr", "aid", "eq", "cand", "p1", "p2", "votes", "vf", "sig"}

\* ---- contract account: balance, one storage slot, code, self-destruct, events
FContract == {"bal", "code", "chash", "s1", "sui", "ev", "rs"}
AcctC == {"c"}
KindsContract == [a \in AcctC |-> {"bal", "s1", "code", "sui", "ev"}]
BaseContract == {[a \in AcctC |-> Empty(FContract)], [a \in AcctC |-> FullC(FContract)]}
\* ---- contract account holding assets: storage, self-destruct, asset id, equity
FHold == {"bal", "code", "chash", "s1", "s2", "sui", "aid", "eq", "rs", "rai", "req"}
KindsHold == [a \in AcctC |-> {"s1", "s2", "sui", "aid", "eq"}]
BaseHold == {[a \in AcctC |-> Empty(FHold)], [a \in AcctC |-> FullC(FHold)]}
\* ---- user account: issued asset
FAsset == {"bal", "ax", "asup", "afr", "aid", "eq", "rac", "rai", "req"}
AcctU == {"u"}
KindsAsset == [a \in AcctU |-> {"bal", "ax", "asup", "afr", "aid", "eq"}]
BaseAsset == {[a \in AcctU |-> Empty(FAsset)], [a \in AcctU |-> FullU(FAsset)]}
\* ---- user account: candidate
FCand == {"bal", "p1", "p2", "votes", "vf", "sig"}
KindsCand == [a \in AcctU |-> {"bal", "cand", "p1", "p2", "votes", "vf", "sig"}]
BaseCand == {[a \in AcctU |-> Empty(FCand)], [a \in AcctU |-> FullU(FCand)]}
\* ---- both accounts, interleaved journal: balances, storage, equity
FTwo == {"bal", "code", "chash", "s1", "sui", "eq", "rs", "req"}
AcctCU == {"c", "u"}
KindsTwo == [a \in AcctCU |-> IF a = "c" THEN {"bal", "s1", "sui"} ELSE {"bal", "eq"}]
BaseTwo == {[a \in AcctCU |-> Empty(FTwo)], [a \in AcctCU |-> IF a = "c" THEN FullC(FTwo) ELSE FullU(FTwo)]}
\* ---- creations that get reverted: [a write]; Snapshot; create / modify 1-2 entries of any trie, a profile key, code;
\* Revert; [a write on either account]; Seal.  Empty parent state: every write inside the snapshot creates its entry;
\* populated parent state: it modifies an existing one.
FCreate == {"bal", "code", "chash", "s1", "ax", "asup", "afr", "aid", "eq", "p1", "p2", "rs", "rac", "rai", "req"}
KindsCreate == [a \in AcctCU |-> IF a = "c" THEN {"bal", "s1", "code"} ELSE {"bal", "ax", "afr", "aid", "eq", "p1"}]
BaseCreate == {[a \in AcctCU |-> Empty(FCreate)], [a \in AcctCU |-> IF a = "c" THEN FullC(FCreate) ELSE FullU(FCreate)]}
\* ---- everything (simulation)
KindsAll == [a \in AcctCU |-> IF a = "c" THEN KC ELSE KU]
BaseAll == {[a \in AcctCU |-> Empty(AllFields)], [a \in AcctCU |-> IF a = "c" THEN FullC(AllFields) ELSE FullU(AllFields)]}
\* ---- negative controls: one contract account, the kinds the deviations need
FNeg == {"bal", "code", "chash", "s1", "sui", "ev", "aid", "eq", "ax", "asup", "afr", "rs", "rac", "rai", "req"}
KindsNegAsset == [a \in AcctC |-> {"bal", "ax", "afr"}]
KindsNeg == [a \in AcctC |-> {"bal", "s1", "code", "sui", "ev", "aid", "eq"}]
BaseNeg == {[a \in AcctC |-> Empty(FNeg)]}
\* ---- nesting: one attribute, revisions nested to depth 3, long enough for revert-inner / write / revert-outer
FNest == {"bal", "s1", "rs"}
KindsNest == [a \in AcctC |-> {"bal"}]
BaseNest == {[a \in AcctC |-> Empty(FNest)]}
KindsNegGap == [a \in AcctC |-> {"bal", "s1"}]
NoDev == {}
AllDev == {"Dev_EmptyWriteLeavesEmptyRoot", "Dev_SaveFailsOnDirtyEmptyCode", "Dev_UndoAssetProfileKeyLeavesEmptyEntry", "Dev_MergeAcrossSuicide", "Dev_WorthlessSuicideDropped", "Dev_UndoCodeDropsPreviousCode", "Dev_UndoSuicideShallow", "Dev_UndoEventNoop", "Dev_RevertVersionGapPanics", "Dev_UndoFirstEquityPanics"}
====
