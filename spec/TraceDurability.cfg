SPECIFICATION TraceSpec
CONSTANT AllowedDev = @ALLOWED_DEV@
CONSTRAINT HW
INVARIANT PhaseOK
POSTCONDITION Accepted
CHECK_DEADLOCK FALSE
