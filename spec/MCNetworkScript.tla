---- MODULE MCNetworkScript ----
(* One scripted behaviour of Network.tla: the shortest Agreement counterexample TLC finds for 3 deputies
   (Network_n3.cfg), fixed here so that it can be carried out on three real node processes. *)
EXTENDS Network
VARIABLE pc
ScriptParent == <<0, 0, 1, 3>>
ScriptMiner == <<1, 2, 1, 2>>
\* <<node, block>>: every step is Receive(node, block, {})
Script == << <<2, 2>>, <<1, 1>>, <<2, 1>>, <<3, 2>>, <<1, 3>>, <<2, 3>>, <<2, 4>>, <<1, 4>> >>
SInit == Init /\ parent = ScriptParent /\ miner = ScriptMiner /\ pc = 1
SReceive(n, b) == /\ pc <= Len(Script) /\ n = Script[pc][1] /\ b = Script[pc][2] /\ pc' = pc + 1
                  /\ Receive(n, b, {})
SNext == \E n \in Dep, b \in Block : SReceive(n, b)
SSpec == SInit /\ [][SNext]_<<vars, pc>>
====
