---- MODULE TrieKVOps ----
(* C17, pure operators shared by the design module (TrieKV) and the trace module (TraceTrieKV).

   Abstract level: a trie is a map  kv : Keys -> Vals \cup {NONE}.
   Structural level (store/trie/trie.go insert / delete, transcribed): a node is one of
       <<"nil">>                       no node
       <<"val", v>>                    valueNode
       <<"short", key, child>>         shortNode (key = non-empty nibble sequence)
       <<"full", ch>>                  fullNode, ch : 0..16 -> node (slot 16 = value ending here)
   A key is a nibble sequence that ends with the terminator 16 (keybytesToHex), so a key that is a
   strict prefix of another key (bytes "12" and "1234") ends in slot 16 of a full node.
   Canon(S) is the declarative canonical trie of a set S of <<path, value>> pairs; the root hash is
   an injective (free) function of the node structure, so "root is a function of content" is
   Shape = Canon(content) together with injectivity of Canon. *)
EXTENDS Naturals, Sequences, FiniteSets, TLC

NONE == "none"
NIL == <<"nil">>
V(v) == <<"val", v>>
Take(s, n) == SubSeq(s, 1, n)
Drop(s, n) == SubSeq(s, n + 1, Len(s))

PrefixLen(a, b) ==
  LET RECURSIVE P(_)
      P(i) == IF i > Len(a) \/ i > Len(b) THEN i - 1 ELSE IF a[i] # b[i] THEN i - 1 ELSE P(i + 1)
  IN P(1)

\* ---- abstract semantics -------------------------------------------------------------------------
PutKV(kv, k, v) == [kv EXCEPT ![k] = v]
DelKV(kv, k) == [kv EXCEPT ![k] = NONE]
Expected(kv, k) == IF k \in DOMAIN kv THEN kv[k] ELSE NONE        \* a key never written reads as absent
\* the pairs stored in kv, keys replaced by their nibble paths
Pairs(path, kv) == {<<path[k], kv[k]>> : k \in {x \in DOMAIN kv : kv[x] # NONE}}

\* ---- trie.go insert (trie.go:213) ---------------------------------------------------------------
RECURSIVE Ins(_, _, _)
Ins(n, key, val) ==
  IF key = <<>> THEN val
  ELSE IF n[1] = "short" THEN
    LET m == PrefixLen(key, n[2]) IN
    IF m = Len(n[2]) THEN <<"short", n[2], Ins(n[3], Drop(key, m), val)>>
    ELSE LET br == [i \in 0..16 |-> IF i = n[2][m + 1] THEN Ins(NIL, Drop(n[2], m + 1), n[3])
                                    ELSE IF i = key[m + 1] THEN Ins(NIL, Drop(key, m + 1), val)
                                    ELSE NIL]
         IN IF m = 0 THEN <<"full", br>> ELSE <<"short", Take(key, m), <<"full", br>>>>
  ELSE IF n[1] = "full" THEN <<"full", [n[2] EXCEPT ![key[1]] = Ins(n[2][key[1]], Tail(key), val)]>>
  ELSE IF n[1] = "nil" THEN <<"short", key, val>>
  ELSE Assert(FALSE, <<"insert below a value node", n, key>>)

\* ---- trie.go delete (trie.go:304); Merge = FALSE drops the short-node merging / full-node collapsing
\*      (negative control: the shape then depends on the history) --------------------------------------
RECURSIVE Del(_, _, _)
Del(n, key, Merge) ==
  IF n[1] = "short" THEN
    LET m == PrefixLen(key, n[2]) IN
    IF m < Len(n[2]) THEN n
    ELSE IF m = Len(key) THEN NIL
    ELSE LET child == Del(n[3], Drop(key, Len(n[2])), Merge) IN
         IF child = n[3] THEN n
         ELSE IF Merge /\ child[1] = "short" THEN <<"short", n[2] \o child[2], child[3]>>
         ELSE <<"short", n[2], child>>
  ELSE IF n[1] = "full" THEN
    LET nn == Del(n[2][key[1]], Tail(key), Merge) IN
    IF nn = n[2][key[1]] THEN n
    ELSE LET ch == [n[2] EXCEPT ![key[1]] = nn]
             live == {i \in 0..16 : ch[i] # NIL}
         IN IF Cardinality(live) = 1 /\ Merge THEN
              LET pos == CHOOSE i \in live : TRUE IN
              IF pos # 16 /\ ch[pos][1] = "short" THEN <<"short", <<pos>> \o ch[pos][2], ch[pos][3]>>
              ELSE <<"short", <<pos>>, ch[pos]>>
            ELSE <<"full", ch>>
  ELSE NIL            \* valueNode: removed;  nil: stays nil

\* ---- tryGet (trie.go:137) -------------------------------------------------------------------------
RECURSIVE Look(_, _)
Look(n, key) ==
  IF n[1] = "nil" THEN NONE
  ELSE IF n[1] = "val" THEN n[2]
  ELSE IF n[1] = "short" THEN
    IF Len(key) < Len(n[2]) \/ Take(key, Len(n[2])) # n[2] THEN NONE ELSE Look(n[3], Drop(key, Len(n[2])))
  ELSE Look(n[2][key[1]], Tail(key))

\* ---- the canonical trie of a set of <<path, value>> pairs ---------------------------------------------
CommonPrefix(S) ==
  LET p == CHOOSE x \in S : TRUE
      RECURSIVE C(_)
      C(i) == IF \A q \in S : Len(q[1]) >= i /\ q[1][i] = p[1][i] THEN C(i + 1) ELSE i - 1
  IN C(1)
RECURSIVE Canon(_)
Canon(S) ==
  IF S = {} THEN NIL
  ELSE IF Cardinality(S) = 1 THEN
    LET p == CHOOSE x \in S : TRUE IN IF p[1] = <<>> THEN V(p[2]) ELSE <<"short", p[1], V(p[2])>>
  ELSE LET cp == CommonPrefix(S) IN
    IF cp > 0 THEN <<"short", Take((CHOOSE x \in S : TRUE)[1], cp), Canon({<<Drop(p[1], cp), p[2]>> : p \in S})>>
    ELSE <<"full", [i \in 0..16 |-> Canon({<<Tail(p[1]), p[2]>> : p \in {q \in S : q[1][1] = i}})]>>

\* every node of a trie with the nibble path leading to it (what trie.NodeIterator enumerates)
RECURSIVE NodePaths(_, _)
NodePaths(n, at) ==
  IF n[1] = "nil" THEN {}
  ELSE IF n[1] = "val" THEN {at}
  ELSE IF n[1] = "short" THEN {at} \cup NodePaths(n[3], at \o n[2])
  ELSE {at} \cup UNION {NodePaths(n[2][i], Append(at, i)) : i \in 0..16}

\* ---- proofs --------------------------------------------------------------------------------------
\* VerifyProof(root, key, proof) may answer with a value or refuse.  Whatever node set it is handed, an
\* answer that is not the stored value is a forged proof.
ProofAnswerOK(kv, k, refused, val) == refused \/ val = Expected(kv, k)
====
