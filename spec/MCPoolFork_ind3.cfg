SPECIFICATION IndSpec
CONSTANTS NB = 5
 ND = 3
 NE = 1
 Tx <- McTx
 TxEp <- McTxEp1
 Pend <- McPend
 PruneFirst = FALSE
INVARIANT PoolUpper
PROPERTY PoolLower
INVARIANT HeadOK
INVARIANT UnconfCached
CHECK_DEADLOCK FALSE
