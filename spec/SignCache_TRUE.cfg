SPECIFICATION Spec
CONSTANTS Proc = {1, 2}
 Hash = {1, 2}
 MaxCalls = 3
 Locked = TRUE
INVARIANTS EmittedValid CacheCoherent
CHECK_DEADLOCK FALSE
