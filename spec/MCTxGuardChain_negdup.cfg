SPECIFICATION Spec
CONSTANTS Times <- McTimesS
 ExpChoices <- McExp
 OfferMenu <- McMenuS
 MaxBlocks = 3
 DupCheck = FALSE
 PayloadIdentity = TRUE
INVARIANTS AtMostOnce InWindow ForkFree
CHECK_DEADLOCK FALSE
