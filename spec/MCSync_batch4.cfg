SPECIFICATION Spec
CONSTANTS NB = 4
 Confs <- McConfs3
 NT = 0
 MaxDup = 0
 Races = FALSE
 BugAddMiddle = FALSE
 BugTxLoopVar = FALSE
 BugConfirmRace = FALSE
 MaxBatch = 3
 NBatch = 1
 BugBatchBreak = FALSE
INVARIANTS TypeOK ChainLinear Converges CacheSorted CacheKeepsUntilParent CacheOnlyWaiting ConfirmsKept TxOnce
PROPERTY Forward
CHECK_DEADLOCK FALSE
