SPECIFICATION Spec
CONSTANTS MaxLen = 4
INVARIANTS InvDecEnc InvEncDec InvIntCanon InvScanAgrees InvTypeOK
CHECK_DEADLOCK FALSE
