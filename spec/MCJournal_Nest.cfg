SPECIFICATION Spec
CONSTANTS Acct <- AcctC
 KindsOf <- KindsNest
 BaseSet <- BaseNest
 MaxSteps = 6
 MaxSnap = 3
 WithSeal = FALSE
 FreeVals = FALSE
 Dv <- NoDev
INVARIANTS UndoMatchesSaved NoPanic RevsOK DiscardAllIsBase RedoEqualsExec NoTraceOfReverted
CHECK_DEADLOCK FALSE
