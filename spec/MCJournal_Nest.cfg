SPECIFICATION Spec
CONSTANTS Acct <- AcctC
 KindsOf <- KindsNest
 BaseSet <- BaseNest
 MaxSteps = 6
 MaxSnap = 3
 MaxRevs = 99
 MaxOuter = 99
 MaxInner = 99
 WithSeal = FALSE
 FreeVals = FALSE
 Dv <- NoDev
INVARIANTS UndoMatchesSaved NoPanic RevsOK DiscardAllIsBase RedoEqualsExec NoTraceOfReverted SaveSucceeds
CHECK_DEADLOCK FALSE
