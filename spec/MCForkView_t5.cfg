SPECIFICATION Spec
CONSTANTS Addrs <- McAddrs
 InitStable <- McInitStable
 AddrN = 2
 Mixed = TRUE
 MaxBlocks = 3
 MaxWrites = 2
 MaxStable = 2
 MaxRestart = 1
 MaxReads = 1
 LeafOnly = TRUE
 MaxSlots = 1
 CanonSlots = TRUE
 Kinds = {"miner"}
 IdentByHash = TRUE
INVARIANTS TypeOK ViewIsNearestWrite ForksIsolated PersistEqualsStableView
PROPERTIES PruneExact WriteLocal ReadPure AttrInert
CHECK_DEADLOCK FALSE
