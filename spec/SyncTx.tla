---- MODULE SyncTx ----
(* C20, last clause: "every valid transaction in a received transaction batch reaches the pool exactly once" -
   for batches that MIX transactions of every status, delivered before / after / while the blocks that package
   some of them are inserted.  (Sync.tla is the block / confirm part of C20; its batch is three new transactions.)

   One node receives from a peer, in any order:
     DeliverBlock(h)   the main-branch block of height h of a linear segment 1..NB; Blk[h] = the transactions it packages;
                       parent known: inserted at once, else cached until TimerDrain (rcvBlockLoop's queue timer),
     DeliverSide       ONE side block, a sibling of main block SideH packaging SideTxs, after its main-branch sibling
                       (so it never becomes the current block: fork choice is C03's subject),
     DeliverTxs(b)     a batch b: ANY sequence of up to MaxLen transactions of Palette (repetitions included), any number
                       of times (the state space is finite without a bound: the pool is a subset of Palette),
     RaceAdd(b, h)     batch b is handled up to the point where the handler's goroutines have looked at the chain and are
                       about to put their transaction into the pool; main block h is inserted; the goroutines go on,
     RaceInsert(b, h)  main block h has been handed to the engine, which has not started on it; batch b is handled
                       completely; the engine goes on.

   A transaction t has a body class Kind[t] ("ok" or the reason the receiver's body check refuses it: "expired",
   "early" = expires later than the maximal life time from now, "chain" = other chain id, "cheap" = gas price
   below the minimum) and, if it is a box, the sub-transactions Subs[t].  Atoms(t) = t and its sub-transactions:
   what executing t executes.  The status of t at any moment follows from the state:
     executed   some atom of t is packaged (alone or inside a box) by a block of the CURRENT branch,
     side-only  packaged by the side block only,
     pending    in the pool (alone, or an atom of it inside a pending box, or - for a box - one of its atoms pending),
     new        none of these.
   The per-transaction rule for a received batch (Outcomes): a transaction of the batch joins the pool iff its body is
   valid, no atom of it is executed on the current branch and no atom of it is pending already (in particular itself:
   exactly once, also for repetitions inside the batch and repeated batches); when two transactions of one batch share
   an atom (a box and its own sub-transaction) either may win.  Nothing else happens to the pool.
   A transaction the body check refuses is skipped - the ones before AND behind it in the batch are handled as if it were
   not there - and it is no reason to end the session: a batch of well-framed transactions (valid ones and ones that are
   merely refused by the body check: expired while relayed, not valid yet, other chain, under-priced, a box around such a
   one) never costs the sender its connection (conn; PeerKept).
   A block that joins the current branch takes every pending transaction that shares an atom with it out of the pool;
   the side block's transactions that are not executed on the current branch become pending (the engine's job; modelled
   because it produces the status "side-only + pending").

   Deviation flags (FALSE in the design; TRUE only in the negative controls):
     BugBatchAny        the seeded class "one look-up for the whole message": if ANY transaction of the batch is executed on
                        the current branch the whole batch is dropped,
     BugAddAfterInsert  Dev_TxAddedAfterItsBlock (found here, repaired in /repo 346a7d7; the monitor keeps the named deviation, it is not
                        listed any more): in RaceAdd the goroutines act on what they saw before the block,
     BugBatchAbort      the seeded class "a refused transaction is an error of the message": the handler gives up at the first
                        transaction the body check refuses - the valid ones behind it never reach the pool - and the
                        dispatcher closes the sender's session because of the returned error,
     BugStaleSubIndex   Dev_BoxSubIndexStale: when a pending box leaves the pool because a block packaged ONE of its atoms,
                        its other atoms are treated as pending for ever. *)
EXTENDS Naturals, Sequences, FiniteSets, TLC
CONSTANTS NB, Kind, Subs, Blk, SideH, SideTxs, Palette, MaxLen, RaceLen, BugBatchAny, BugAddAfterInsert, BugStaleSubIndex, BugBatchAbort

Tx == DOMAIN Kind
Range(s) == {s[i] : i \in DOMAIN s}
Atoms(t) == {t} \cup Subs[t]
AtomsOf(S) == UNION {Atoms(t) : t \in S}
Valid(t) == Kind[t] = "ok" /\ \A s \in Subs[t] : Kind[s] = "ok"
ExecOn(hs) == UNION {AtomsOf(Range(Blk[h])) : h \in hs}          \* executed on the current branch when it holds the heights hs
Batches == UNION {[1..n -> Palette] : n \in 1..MaxLen}
RaceBatches == UNION {[1..n -> Palette] : n \in 1..RaceLen}      \* the batches that are interleaved with a block insertion (RaceLen = 0: none)

VARIABLES world,    \* the constants, for the harness that builds the real transactions and blocks (never changes)
          todo,     \* main blocks not delivered yet
          stodo,    \* the side block is not delivered yet
          has,      \* heights of the main blocks in the chain ( = the current branch)
          side,     \* the side block is in the chain
          wait,     \* heights waiting in the block cache
          pool,     \* pending transactions
          ghost,    \* (BugStaleSubIndex only) atoms the pool wrongly believes pending
          ok,       \* history: every batch so far was handled by the per-transaction rule (StepOK)
          conn      \* the sender's session is still open (the node has not closed it)
vars == <<world, todo, stodo, has, side, wait, pool, ghost, ok, conn>>

Init == /\ world = [kind |-> Kind, subs |-> Subs, blk |-> Blk, sideh |-> SideH, sidetxs |-> SideTxs]
        /\ todo = 1..NB /\ stodo = (SideH > 0) /\ has = {} /\ side = FALSE /\ wait = {}
        /\ pool = {} /\ ghost = {} /\ ok = TRUE /\ conn = TRUE

Known(h) == h = 0 \/ h \in has
DrainEnabled == \E h \in wait : Known(h - 1)

(* ---- the pool ---- *)
Conflict(t, S) == \E u \in S : u # t /\ Atoms(t) \cap Atoms(u) # {}
\* transactions of cand join P: an independent, maximal choice (any order of the handler's goroutines)
Outcomes(P, G, cand) ==
    LET free == {c \in cand : c \notin P /\ Atoms(c) \cap (AtomsOf(P) \cup G) = {}}
        Indep(Y) == \A y \in Y : ~Conflict(y, Y)
        Maximal(Y) == \A z \in free \ Y : Conflict(z, Y)
    IN {P \cup X : X \in {Y \in SUBSET free : Indep(Y) /\ Maximal(Y)}}
\* the transactions of a batch the handler gets to look at: all of them
FirstBad(b) == LET I == {i \in DOMAIN b : ~Valid(b[i])} IN IF I = {} THEN Len(b) + 1 ELSE CHOOSE i \in I : \A j \in I : i <= j
Seen(b) == IF BugBatchAbort THEN {b[i] : i \in 1..(FirstBad(b) - 1)} ELSE Range(b)
ConnAfter(b) == conn /\ ~(BugBatchAbort /\ FirstBad(b) <= Len(b))
\* what a batch may add, given the executed atoms E
Cands(b, E) == IF BugBatchAny /\ \E t \in Range(b) : Atoms(t) \cap E # {} THEN {}
               ELSE {t \in Seen(b) : Valid(t) /\ Atoms(t) \cap E = {}}
\* the blocks of heights hs join the current branch
Victims(P, hs) == {t \in P : Atoms(t) \cap ExecOn(hs) # {}}
Drop(P, hs) == P \ Victims(P, hs)
GhostAfter(P, G, hs) == IF BugStaleSubIndex THEN (G \cup AtomsOf(Victims(P, hs) \ UNION {Range(Blk[h]) : h \in hs})) \ ExecOn(hs) ELSE G

Join(hs) == has' = has \cup hs /\ pool' = Drop(pool, hs) /\ ghost' = GhostAfter(pool, ghost, hs)

\* The clause itself, for one batch b handled while E was executed on the current branch: the pool went from P to Q, a block
\* took V out of it meanwhile.  Every valid, not executed transaction of b is pending afterwards - itself, or an atom of it
\* through another transaction (or was, until the block took that one) - and nothing else was added.
StepOK(b, E, P, Q, V) ==
    /\ \A t \in Range(b) : (Valid(t) /\ Atoms(t) \cap E = {}) => (t \in Q \/ Conflict(t, Q \cup V))
    /\ \A t \in Q \ P : t \in Range(b) /\ Valid(t) /\ Atoms(t) \cap E = {}

(* ---- blocks ---- *)
DeliverBlock(h) ==
    /\ h \in todo /\ todo' = todo \ {h} /\ UNCHANGED <<world, stodo, side, ok, conn>>
    /\ IF Known(h - 1) THEN Join({h}) /\ UNCHANGED wait
       ELSE wait' = wait \cup {h} /\ UNCHANGED <<has, pool, ghost>>

\* the queue timer has fired as often as needed: every cached block whose parent is known (now) has been inserted
RECURSIVE Run(_, _)
Run(hs, w) == IF \E h \in w : h - 1 \in hs THEN LET h == CHOOSE x \in w : x - 1 \in hs IN Run(hs \cup {h}, w \ {h}) ELSE hs
TimerDrain ==
    /\ DrainEnabled /\ UNCHANGED <<world, todo, stodo, side, ok, conn>>
    /\ LET all == Run(has, wait) IN Join(all \ has) /\ wait' = wait \ all

DeliverSide ==
    /\ stodo /\ SideH \in has /\ ~DrainEnabled
    /\ stodo' = FALSE /\ side' = TRUE /\ UNCHANGED <<world, todo, has, wait, ghost, ok, conn>>
    /\ \E R \in Outcomes(pool, ghost, {t \in Range(SideTxs) : Atoms(t) \cap ExecOn(has) = {}}) : pool' = R

(* ---- batches ---- *)
DeliverTxs(b) ==
    /\ b \in Batches /\ ~DrainEnabled /\ conn' = ConnAfter(b)
    /\ UNCHANGED <<world, todo, stodo, has, side, wait, ghost>>
    /\ \E R \in Outcomes(pool, ghost, Cands(b, ExecOn(has))) : pool' = R
    /\ ok' = (ok /\ pool \subseteq pool' /\ StepOK(b, ExecOn(has), pool, pool', {}))

Ready(h) == h \in todo /\ Known(h - 1) /\ ~DrainEnabled

\* Whatever the interleaving, the outcome must be that of handling the two messages one after the other, in one of the two orders.
RaceAdd(b, h) ==
    /\ b \in RaceBatches /\ Ready(h) /\ conn' = ConnAfter(b)
    /\ todo' = todo \ {h} /\ has' = has \cup {h} /\ UNCHANGED <<world, stodo, side, wait>>
    /\ IF BugAddAfterInsert
       THEN \E R \in Outcomes(pool, ghost, Cands(b, ExecOn(has))) :        \* decided before the block, added after it
                pool' = Drop(pool, {h}) \cup (R \ pool) /\ ghost' = GhostAfter(pool, ghost, {h})
       ELSE \/ \E R \in Outcomes(pool, ghost, Cands(b, ExecOn(has))) :     \* batch, then block
                pool' = Drop(R, {h}) /\ ghost' = GhostAfter(R, ghost, {h})
            \/ \E R \in Outcomes(Drop(pool, {h}), GhostAfter(pool, ghost, {h}), Cands(b, ExecOn(has \cup {h}))) :   \* block, then batch
                pool' = R /\ ghost' = GhostAfter(pool, ghost, {h})
    /\ ok' = (ok /\ Drop(pool, {h}) \subseteq pool' /\ StepOK(b, ExecOn(has \cup {h}), pool, pool', Victims(pool \cup Range(b), {h})))

RaceInsert(b, h) ==
    /\ b \in RaceBatches /\ Ready(h) /\ conn' = ConnAfter(b)
    /\ todo' = todo \ {h} /\ has' = has \cup {h} /\ UNCHANGED <<world, stodo, side, wait>>
    /\ \E R \in Outcomes(pool, ghost, Cands(b, ExecOn(has))) :             \* batch, then block
           pool' = Drop(R, {h}) /\ ghost' = GhostAfter(R, ghost, {h})
    /\ ok' = (ok /\ Drop(pool, {h}) \subseteq pool' /\ StepOK(b, ExecOn(has \cup {h}), pool, pool', Victims(pool \cup Range(b), {h})))

Next == \/ \E h \in 1..NB : DeliverBlock(h)
        \/ TimerDrain
        \/ DeliverSide
        \/ \E b \in Batches : DeliverTxs(b)
        \/ \E b \in RaceBatches, h \in 1..NB : RaceAdd(b, h)
        \/ \E b \in RaceBatches, h \in 1..NB : RaceInsert(b, h)
Spec == Init /\ [][Next]_vars

(* ------------------------------------------------------------------ C20, transaction clause *)
Exec == ExecOn(has)
\* every valid transaction of every received batch reached the pool (and nothing else did)
TxReachesPool == ok
\* well-framed batches never cost the sender its connection
PeerKept == conn
\* nothing that is executed on the current branch is pending (a miner would package it again)
PoolClean == \A t \in pool : Atoms(t) \cap Exec = {}
\* pending exactly once: no atom is pending twice (alone and inside a box, or inside two boxes)
PoolOnce == \A t \in pool : ~Conflict(t, pool)
\* only transactions with a valid body are pending (the side block's were valid when it was mined)
PoolValid == \A t \in pool : Valid(t) \/ (side /\ t \in Range(SideTxs))
ChainLinear == \E c \in 0..NB : has = 1..c
Quiescent == todo = {} /\ ~stodo /\ wait = {}
\* whatever the order was, in the end the chain has the whole segment
Converges == Quiescent => has = 1..NB /\ (SideH > 0 => side)
TypeOK == /\ todo \subseteq 1..NB /\ has \subseteq 1..NB /\ wait \subseteq 1..NB /\ pool \subseteq Tx /\ ghost \subseteq Tx
          /\ ok \in BOOLEAN /\ conn \in BOOLEAN
====
