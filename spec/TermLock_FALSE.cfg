SPECIFICATION Spec
CONSTANTS Readers = {1, 2}
 Versions = {1, 2}
 Nested = FALSE
 MaxSaves = 3
INVARIANTS ReadsASavedVersion Exclusive NoHang
CHECK_DEADLOCK FALSE
