SPECIFICATION Spec
CONSTANTS Times <- McTimesS
 ExpChoices <- McExp
 OfferMenu <- McMenuS
 MaxBlocks = 3
 MaxBoots = 1
 DupCheck = TRUE
 PayloadIdentity = FALSE
INVARIANTS AtMostOnce InWindow ForkFree
CHECK_DEADLOCK FALSE
