SPECIFICATION Spec
CONSTANTS Times <- McTimesS
 ExpChoices <- McExp
 OfferMenu <- McMenuS
 MaxBlocks = 3
 MaxBoots = 1
 DupCheck = TRUE
 PayloadIdentity = FALSE
 Encs = {"c"}
 CarrierIdentity = FALSE
INVARIANTS AtMostOnce InWindow ForkFree CarrierFree
CHECK_DEADLOCK FALSE
