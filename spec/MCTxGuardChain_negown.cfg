SPECIFICATION Spec
CONSTANTS Times <- McTimesC
 ExpChoices <- McExp
 OfferMenu <- McMenuON
 MaxBlocks = 3
 MaxBoots = 0
 DupCheck = TRUE
 PayloadIdentity = TRUE
 Encs = {"c", "p"}
 CarrierIdentity = TRUE
INVARIANTS AtMostOnce
CHECK_DEADLOCK FALSE
