---- MODULE TraceCallFrames ----
(* Validates what the REAL EVM (chain/vm on a real account.Manager) did, as recorded by harness/adapters/callframes.

   A "Run" line carries, for one program (a tree of call frames compiled to real bytecode), several executions from
   the same committed base block: r.obs = the frame-level events a vm.Tracer saw (call / begin / sstore / log / end /
   ret with gas before, cost, executing account), r.fin = the observable post-state read through the account getters,
   gas supplied / left, status, panic message.  The events are RE-EXECUTED here on the world of CallFramesOps
   (journal, marks, undo): every observed state change must be legal where it happened (executing account = the
   frame's context, none inside a read-only frame), the success flag the caller saw must follow from how the callee
   ended, a failed callee is undone to its mark (+ the platform's failure event), gas obeys the exact accounting
   (all of a failed callee's gas is gone, the rest comes back, 63/64 rule), and the REAL post-state must equal the
   re-executed world: all-or-nothing and read-only-is-noop on the real backend.  Executions come in pairs from the
   same state and must be identical (determinism); the ample pair must perform exactly the actions TLC prescribed.

   CREATION FRAMES (the transaction-level creation and the CREATE opcode) are re-executed like call frames: the
   endowment moves when the init code begins, the init code's writes belong to the new address, and when the init
   code has ended normally (end event: rl = length of the code it returns, gas left) the CODE DEPOSIT decides: the
   frame succeeds iff rl <= MaxCodeSize and CreateDataGas * rl <= gas left - then exactly the deposit is charged and
   code + creation record appear - otherwise, as after revert / error, it is undone to its mark, ALL its gas is gone
   (revert: the rest comes back) and the caller sees 0.  A creation that runs no code and reports failure (address
   collision) is accepted only towards an address that holds something, and must change nothing.

   FRAME-LOCAL DETERMINISM.  The frames of a tree run code of different SHAPES (CallFramesOps: which marked offset holds
   0x5b as PUSH data, short / long).  A "jump" event carries the class of the destination and the shape of the code the
   frame REALLY runs (read off contract.Code by the tracer).  The jump must go on iff the destination is a JUMPDEST of
   that code, and must be rejected (the frame ends in error, raised by the JUMP itself) iff it is not - whatever other
   code ran before under the same root (other init codes, callers, callees: shared analysis state must not show).

   Named deviations (accepted only when listed in known_findings.txt, see CallFrames.tla):
     Dev_RevertAcrossSuicideLosesStorage   the real state matches the world re-executed with devS
     Dev_NestedFailVersionGapPanics        the real run panicked exactly where devG predicts it
     Dev_RevertAcrossSuicideLosesCode      the real run matches the world re-executed with devL: once a frame has been
                                           reverted across the SELFDESTRUCT of a contract created earlier in the same
                                           transaction, that contract's code cannot be loaded (calls towards it are refused:
                                           no code runs, the caller sees 0, nothing changes, the gas passed on returns;
                                           the final state reports the code as unreadable) - unless the code store held
                                           the very bytes the creation deposited already (end event of the creation
                                           frame: cs, read from the store by the tracer) *)
EXTENDS CallFramesOps, TraceBase, SequencesExt
CONSTANTS AllowedDev, DepthLimit,
          MaxCodeSize, CreateDataGas,   \* the platform's code deposit rule (params.MaxCodeSize, params.CreateDataGas)
          Precompiles                   \* callees without an account: modelled for read-only calls only (no state, any outcome)
VARIABLES bal0, stor0
tvars == <<bal0, stor0, l>>

GapMsg == "the version of change log and account is not match"
Stipend == 2300
AllKinds == CallKinds \cup {"create"}

\* gas amounts are logged as <<high, low>> in base 2^30 (TLC integers are 32 bit)
GLeq(a, b) == a[1] < b[1] \/ (a[1] = b[1] /\ a[2] <= b[2])

\* ------------------------------------------------------------------ re-execution of the observed events
\* (devL) a call towards an account whose code cannot be loaded: refused before anything happens
LostCallee(w, e) == e.k # "create" /\ e.to \in CA /\ w.code[e.to] /\ w.lost[e.to]
\* frame of the machine: entry data + what has been seen of it
MFrame(w, e, callerCtx, callerRo, den, ceil) ==
  [k |-> e.k, ctx |-> CtxOf(e.k, e.to, callerCtx), from |-> callerCtx, to |-> e.to, ro |-> callerRo \/ e.k = "staticcall", v |-> e.v,
   mark |-> Len(w.jr), den |-> den, hc |-> e.k = "create" \/ (e.to \in CA /\ w.code[e.to]), pre |-> e.to \in Precompiles,
   lost |-> LostCallee(w, e),
   ran |-> FALSE, end |-> "", cg |-> e.g, cc |-> e.c, sg |-> 0, eg |-> 0, ec |-> 0, rl |-> 0, cs |-> FALSE, ceil |-> ceil]
Bad(m, why) == [m EXCEPT !.ok = FALSE, !.why = why]
SetTop(m, f) == [m EXCEPT !.fs[Len(m.fs)] = f]

StepCall(m, e) ==
  LET top == m.fs = <<>>
      f == m.fs[Len(m.fs)]
      cctx == IF top THEN Sender ELSE f.ctx
      cro == IF top THEN FALSE ELSE f.ro
      create == e.k = "create"
      den == (e.k \in {"call", "callcode", "create"} /\ e.v > m.w.bal[cctx]) \/ Len(m.fs) > DepthLimit
      \* (a creation moves its endowment when the init code begins: a collision is refused before)
      w2 == IF den \/ create \/ e.to \in Precompiles \/ LostCallee(m.w, e) THEN m.w ELSE EnterW(m.w, e.k, cctx, e.to, e.v)
      ceil == IF top THEN e.g ELSE IF create THEN e.g - e.c ELSE e.c + (IF e.v > 0 THEN Stipend ELSE 0)
  IN IF e.k \notin AllKinds \/ e.to \notin Addrs \cup Precompiles \/ e.v < 0 THEN Bad(m, "call outside the universe")
     ELSE IF e.to \in Precompiles /\ e.k # "staticcall" THEN Bad(m, "call of a precompile that is not read-only")
     ELSE IF create /\ (cctx \notin Creators \/ e.to # New(cctx)) THEN Bad(m, "creation outside the universe")
     ELSE IF e.ctx # cctx THEN Bad(m, "call issued by another account than the frame's context")
     ELSE IF ~top /\ (~f.ran \/ f.end # "" \/ f.den \/ ~f.hc) THEN Bad(m, "call from a frame that does not run")
     ELSE IF ~top /\ e.g > f.ceil THEN Bad(m, "gas grew before a call")
     ELSE IF ~top /\ e.c > e.g THEN Bad(m, "call cost above the gas held")
     ELSE IF cro /\ e.k = "call" /\ e.v > 0 THEN Bad(m, "value call executed inside a read-only frame")
     ELSE IF cro /\ create THEN Bad(m, "creation executed inside a read-only frame")
     ELSE [m EXCEPT !.w = w2, !.fs = Append(IF top THEN <<>> ELSE [m.fs EXCEPT ![Len(m.fs)].ceil = e.g - e.c],
                                            MFrame(m.w, e, cctx, cro, den, ceil))]

\* any event of a running frame: it must be able to run, belong to the frame's context, and not hold more gas than before
Runs(m, e) ==
  LET f == m.fs[Len(m.fs)] IN
  IF m.fs = <<>> THEN "event outside a frame"
  ELSE IF f.den THEN "a denied call ran code"
  ELSE IF ~f.hc THEN "an account without code ran code"
  ELSE IF f.lost THEN "an account whose code cannot be loaded ran code"
  ELSE IF f.end # "" THEN "event after the frame ended"
  ELSE IF e.ctx # f.ctx THEN "executing account is not the frame's context"
  ELSE IF e.g > f.ceil THEN "gas grew inside a frame"
  ELSE IF e.t # "begin" /\ ~f.ran THEN "frame without begin"
  ELSE ""

StepBegin(m, e) ==
  LET f == m.fs[Len(m.fs)]
      passed == e.g - (IF f.v > 0 /\ f.k \in {"call", "callcode"} THEN Stipend ELSE 0)   \* callGasTemp
      avail == IF f.k = "create" THEN f.cg - f.cc ELSE f.cg - (f.cc - passed)             \* gas held - base cost
  IN IF Runs(m, e) # "" THEN Bad(m, Runs(m, e))
     ELSE IF f.ran THEN Bad(m, "second begin")
     ELSE IF Len(m.fs) > 1 /\ (passed < 0 \/ passed > avail - (avail \div 64)) THEN Bad(m, "callee got more than 63/64 of the gas available")
     ELSE IF Len(m.fs) = 1 /\ e.g # f.cg THEN Bad(m, "transaction-level frame did not start with the gas supplied")
     ELSE [SetTop(m, [f EXCEPT !.ran = TRUE, !.sg = e.g, !.ceil = e.g])
             EXCEPT !.w = IF f.k = "create" THEN EnterW(m.w, "create", f.from, f.to, f.v) ELSE m.w]

StepOp(m, e) ==
  LET f == m.fs[Len(m.fs)] IN
  IF Runs(m, e) # "" THEN Bad(m, Runs(m, e))
  ELSE IF f.ro THEN Bad(m, "state-changing operation executed inside a read-only frame")
  ELSE IF e.c > e.g THEN Bad(m, "cost above the gas held")
  ELSE IF e.t = "sstore" /\ (e.s \notin Slots \/ e.v < 0) THEN Bad(m, "sstore outside the universe")
  ELSE [SetTop(m, [f EXCEPT !.ceil = e.g - e.c])
          EXCEPT !.w = IF e.t = "sstore" THEN SStoreW(m.w, f.ctx, e.s, e.v) ELSE EventW(m.w, f.ctx, "log")]

\* a jump towards one of the classified destinations, executed by code of shape e.v: what has to follow is decided
\* by the next event (Step)
StepJump(m, e) ==
  LET f == m.fs[Len(m.fs)] IN
  IF Runs(m, e) # "" THEN Bad(m, Runs(m, e))
  ELSE IF e.c > e.g THEN Bad(m, "cost above the gas held")
  ELSE IF e.s \notin JumpDestsAll \/ e.v \notin Shapes THEN Bad(m, "jump outside the universe")
  ELSE [SetTop(m, [f EXCEPT !.ceil = e.g]) EXCEPT !.pj = <<e.v, e.s, e.pc>>]      \* (a rejected JUMP ends the frame with the same gas reading)
\* the event that follows a jump: the JUMP itself was rejected <=> the destination is no JUMPDEST of the frame's own code
Rejected(e, pc) == e.t = "end" /\ e.k = "err" /\ e.x /\ e.op = "JUMP" /\ e.pc = pc      \* (this very JUMP)
AfterJump(m, e) ==
  IF m.pj = <<>> THEN ""
  ELSE IF JumpValid(m.pj[1], m.pj[2]) /\ Rejected(e, m.pj[3]) THEN "a jump to a JUMPDEST of the frame's own code was rejected"
  ELSE IF ~JumpValid(m.pj[1], m.pj[2]) /\ ~Rejected(e, m.pj[3]) THEN "execution went on after a jump to what is no JUMPDEST of the frame's own code"
  ELSE ""

StepEnd(m, e) ==
  LET f == m.fs[Len(m.fs)] IN
  IF Runs(m, e) # "" THEN Bad(m, Runs(m, e))
  ELSE IF e.k \notin {"stop", "revert", "err", "suicide"} THEN Bad(m, "unknown end")
  ELSE IF e.k = "suicide" /\ (f.ro \/ e.to \notin Addrs) THEN Bad(m, "selfdestruct executed inside a read-only frame / outside the universe")
  ELSE IF e.k # "err" /\ e.c > e.g THEN Bad(m, "cost above the gas held")
  ELSE IF e.cf # (f.k = "create") THEN Bad(m, "a creation frame is taken for a call frame or the other way round")
  ELSE [SetTop(m, [f EXCEPT !.end = e.k, !.eg = e.g, !.ec = e.c, !.rl = e.rl, !.cs = e.cs])
          EXCEPT !.w = IF e.k = "suicide" THEN SuicideW(m.w, f.ctx, e.to) ELSE m.w]

\* the code deposit of a creation frame whose init code has ended normally cannot be taken
DepositFails(f) ==
  f.k = "create" /\ f.end \in {"stop", "suicide"} /\ (f.rl < 0 \/ f.rl > MaxCodeSize \/ CreateDataGas * f.rl > f.eg - f.ec)
StepRet(m, e) ==
  LET n == Len(m.fs)
      f == m.fs[n]
      create == f.k = "create"
      flag == IF f.den THEN 0
              ELSE IF ~f.ran THEN (IF f.pre \/ create THEN (IF e.v = 1 THEN 1 ELSE 0)   \* a precompile succeeds or fails; a creation: empty init code / collision
                                   ELSE IF f.lost THEN 0             \* (devL) the code cannot be loaded: the call is refused
                                   ELSE IF f.hc THEN -1 ELSE 1)      \* an account with code must run; one without succeeds
              ELSE IF f.end \in {"stop", "suicide"} THEN (IF DepositFails(f) THEN 0 ELSE 1)
              ELSE IF f.end \in {"revert", "err"} THEN 0 ELSE -1
      undo == flag = 0 /\ ~f.den /\ f.ran
      gap == undo /\ GapIn(m.w.jr, f.mark)
      w2 == IF undo THEN FailW(m.w, f)
            \* (cs: the store holds the deposited bytes already - the new code can be loaded by its hash come what may)
            ELSE IF create /\ flag = 1 /\ f.ran THEN [CreatedW(m.w, f, f.rl > 0) EXCEPT !.vol[f.to] = ~f.cs]
            ELSE IF create /\ flag = 1 THEN CreatedW(EnterW(m.w, "create", f.from, f.to, f.v), f, FALSE)     \* empty init code
            ELSE m.w
      held == IF n = 1 THEN 0 ELSE IF create THEN f.cg - f.cc - f.sg ELSE f.cg - f.cc    \* what the caller kept
      \* exact: an error (a creation also: a failed deposit) burns everything, else the rest returns - less the deposit
      back == IF f.end = "err" \/ DepositFails(f) THEN 0
              ELSE IF create /\ f.end \in {"stop", "suicide"} THEN f.eg - f.ec - CreateDataGas * f.rl
              ELSE f.eg - f.ec
      rest == SubSeq(m.fs, 1, n - 1)
  IN IF n = 0 THEN Bad(m, "return outside a frame")
     ELSE IF flag = -1 THEN Bad(m, "callee with code did not run / did not end")
     ELSE IF e.v # flag THEN Bad(m, "success flag does not follow from how the callee ended")
     ELSE IF create /\ ~f.ran /\ ~f.den /\ flag = 0 /\ ~Occupied(m.w, bal0, f.to) THEN Bad(m, "creation refused although the new address holds nothing")
     ELSE IF f.ran /\ e.g # held + back THEN Bad(m, "gas returned differs from the exact accounting")
     ELSE IF create /\ ~f.ran /\ (e.g < 0 \/ e.g > f.cg - f.cc) THEN Bad(m, "gas grew across a creation that ran no code")
     ELSE IF ~create /\ ~f.ran /\ (e.g < held \/ e.g > f.cg) THEN Bad(m, "gas grew across a call that ran no code")
     ELSE [m EXCEPT !.w = w2, !.gap = m.gap \/ gap,
                    !.fs = IF n = 1 THEN <<>> ELSE [rest EXCEPT ![n - 1].ceil = e.g]]

Step(m0, e) ==
  LET m == [m0 EXCEPT !.pj = <<>>] IN
  IF ~m0.ok THEN m0
  ELSE IF m.gap THEN Bad(m, "execution continued after a revert the gap model says panics")   \* only used under devG reasoning
  ELSE IF AfterJump(m0, e) # "" THEN Bad(m, AfterJump(m0, e))
  ELSE CASE e.t = "call" -> StepCall(m, e)
         [] e.t = "begin" -> StepBegin(m, e)
         [] e.t \in {"sstore", "log"} -> StepOp(m, e)
         [] e.t = "jump" -> StepJump(m, e)
         [] e.t = "end" -> StepEnd(m, e)
         [] e.t = "ret" -> StepRet(m, e)
         [] OTHER -> Bad(m, "unknown event")
\* the gap flag only matters for the crash prediction; without devG reasoning executions continue past a gap
StepFixed(m, e) == Step([m EXCEPT !.gap = FALSE], e)
\* (SequencesExt!FoldLeft is evaluated iteratively by its Java override: no deep recursion, no chain of lazy values)
Fold(m, obs, i, strict) ==
  FoldLeft(LAMBDA acc, e : IF ~acc.ok THEN acc ELSE IF strict THEN Step(acc, e) ELSE StepFixed(acc, e), m, obs)
M0(devS, devL) == [w |-> WithDevL(World0(devS, FALSE, bal0, stor0), devL), fs |-> <<>>, ok |-> TRUE, gap |-> FALSE, why |-> "", pj |-> <<>>]

FinMatches(w, fin) ==
  /\ \A a \in Addrs : fin[a].bal = w.bal[a]
  /\ \A c \in CA :        /\ fin[c].dead = w.dead[c]
                          /\ IF w.code[c] /\ w.lost[c] THEN fin[c].code = "ERR"        \* (devL only: never lost otherwise)
                             ELSE (fin[c].code = "y") = w.code[c] /\ fin[c].code \in {"y", "n"}
                          /\ \A s \in Slots : fin[c][s] = w.stor[c][s]
  /\ fin.nlog = NEv(w, "log")
  /\ fin.nfail \in 0..NEv(w, "fail")      \* the platform MAY record a failure event per failed call (it does today: equality holds)
  /\ fin.ncreate \in 0..NEv(w, "create")  \* ... and a creation record per creation that succeeded and was not undone

\* a run that completed: every event legal, stack empty, real post-state = re-executed world
Completed(r, devS, devL) ==
  LET m == Fold(M0(devS, devL), r.obs, 1, FALSE) IN
  /\ m.ok /\ m.fs = <<>> /\ m.pj = <<>> /\ Len(r.obs) >= 2
  /\ FinMatches(m.w, r.fin)
  /\ (r.st = "ok") = (r.obs[Len(r.obs)].v = 1)
\* a run that panicked: legal up to the panic, and the panic is the one devG predicts - the innermost frame has ended
\* in revert / error and the journal range it must undo has a version gap; no earlier failing frame had one
CrashedAtGap(r, devL) ==
  LET m == Fold(M0(FALSE, devL), r.obs, 1, TRUE)
      f == m.fs[Len(m.fs)] IN
  /\ r.crash = GapMsg /\ m.ok /\ ~m.gap /\ m.fs # <<>>
  /\ (f.end \in {"revert", "err"} \/ DepositFails(f)) /\ GapIn(m.w.jr, f.mark)

\* (IF-THEN-ELSE, not a disjunction: a deviation is only consulted when the correct reading does not match; the two
\* shallow-undo deviations have one root cause and meet in one run: a contract whose init code wrote storage, destroyed
\* and restored by a revert, has lost both)
DevSKey == "Dev_RevertAcrossSuicideLosesStorage"
DevLKey == "Dev_RevertAcrossSuicideLosesCode"
DevGKey == "Dev_NestedFailVersionGapPanics"
RunSandboxed(r) ==
  /\ GLeq(r.left, r.gas)                                    \* never more gas left than supplied
  /\ r.maxd <= DepthLimit
  /\ IF r.crash = ""
     THEN IF Completed(r, FALSE, FALSE) THEN TRUE
          ELSE IF DevSKey \in AllowedDev /\ Completed(r, TRUE, FALSE) THEN UseDev(DevSKey)
          ELSE IF DevLKey \in AllowedDev /\ Completed(r, FALSE, TRUE) THEN UseDev(DevLKey)
          ELSE /\ DevSKey \in AllowedDev /\ DevLKey \in AllowedDev /\ Completed(r, TRUE, TRUE)
               /\ UseDev(DevSKey) /\ UseDev(DevLKey)
     ELSE /\ DevGKey \in AllowedDev
          /\ IF CrashedAtGap(r, FALSE) THEN TRUE
             ELSE DevLKey \in AllowedDev /\ CrashedAtGap(r, TRUE) /\ UseDev(DevLKey)
          /\ UseDev(DevGKey)

\* the observed events in the vocabulary of the generator
ActOf(e) ==
  CASE e.t = "call" -> [t |-> "enter", k |-> e.k, to |-> e.to, v |-> e.v, s |-> ""]
    [] e.t = "sstore" -> [t |-> "sstore", k |-> "", to |-> "", v |-> e.v, s |-> e.s]
    [] e.t = "log" -> [t |-> "log", k |-> "", to |-> "", v |-> 0, s |-> ""]
    [] e.t = "jump" -> [t |-> "jump", k |-> "", to |-> "", v |-> 0, s |-> e.s]
    [] e.t = "end" -> [t |-> "exit", k |-> (CASE e.k = "stop" -> (IF ~e.cf THEN "ok"                       \* a creation: how the deposit went
                                                                  ELSE IF e.rl < 0 \/ e.rl > MaxCodeSize THEN "toobig"
                                                                  ELSE IF CreateDataGas * e.rl > e.g - e.c THEN "nodeposit" ELSE "ok")
                                              [] e.k = "revert" -> "revert" [] e.k = "err" -> "fail" [] OTHER -> "suicide"),
                       to |-> e.to, v |-> 0, s |-> ""]
\* (the read-only calls of precompiles are the gas burner of the harness' init code, not actions of the generator)
IsAct(e) == e.t \in {"call", "sstore", "log", "jump", "end"} /\ ~(e.t = "call" /\ e.to \in Precompiles)
ObsActs(obs) == LET sel == SelectSeq(obs, IsAct) IN [i \in 1..Len(sel) |-> ActOf(sel[i])]
Prescribed(r, prog) ==
  LET a == ObsActs(r.obs) IN
  IF r.crash = "" THEN a = prog ELSE Len(a) <= Len(prog) /\ a = SubSeq(prog, 1, Len(a))

\* ------------------------------------------------------------------ trace actions
TReset == /\ Ev("reset")
          /\ bal0' = [a \in Addrs |-> E.bal[a]]
          /\ stor0' = [c \in Contracts |-> [s \in Slots |-> E.base[c][s]]]
\* an action of the behaviour that only extends the program (the tree is run when its outermost frame has ended)
TBuild == /\ Ev("Enter") \/ Ev("EnterTop") \/ Ev("SStore") \/ Ev("Log") \/ Ev("Exit") \/ Ev("Suicide") \/ Ev("Collide") \/ Ev("Jump") \/ Ev("BadJump")
          /\ E.run = FALSE
          /\ UNCHANGED <<bal0, stor0>>
TRun == /\ Ev("Exit") \/ Ev("Suicide") \/ Ev("BadJump") \/ Ev("Tree")
        /\ E.run = TRUE
        /\ Len(E.runs) >= 2 /\ Len(E.runs) % 2 = 0
        /\ (\A i \in 1..Len(E.runs) : RunSandboxed(E.runs[i])) = TRUE     \* (= TRUE: evaluated as a plain expression)
        /\ \A i \in 1..(Len(E.runs) \div 2) : E.runs[2 * i] = E.runs[2 * i - 1]          \* same state, same program => same everything
        /\ E.strict => \A i \in {1, 2} : Prescribed(E.runs[i], E.prog)      \* (the grammar driver's trees are not guarded)
        /\ UNCHANGED <<bal0, stor0>>
\* arbitrary byte strings / precompile inputs: no panic, gas bound, determinism, failed => nothing changed
\* (a panic is accepted only as the listed version-gap deviation, by its exact message: arbitrary programs are not
\* re-executed, so the panic cannot be predicted here - the tree programs do that)
TRand == /\ Ev("Rand")
         /\ (IF E.r1.crash = ""
             THEN /\ E.r2.crash = ""
                  /\ GLeq(E.r1.left, E.r1.gas) /\ E.r1.maxd <= DepthLimit
                  /\ E.r1 = E.r2
                  /\ (E.r1.st # "ok") => /\ E.r1.fin.acc = E.pre.acc /\ E.r1.fin.nlog = E.pre.nlog
                                         /\ E.r1.fin.nfail \in {E.pre.nfail, E.pre.nfail + 1} /\ E.r1.fin.ncreate = E.pre.ncreate
             ELSE /\ E.r1.crash = GapMsg /\ E.r2.crash = GapMsg /\ E.r1.maxd <= DepthLimit
                  /\ "Dev_NestedFailVersionGapPanics" \in AllowedDev /\ UseDev("Dev_NestedFailVersionGapPanics")) = TRUE
         /\ UNCHANGED <<bal0, stor0>>
TraceNext == TReset \/ TBuild \/ TRun \/ TRand
TraceSpec == l = 1 /\ bal0 = <<>> /\ stor0 = <<>> /\ [][TraceNext]_tvars
====
