---- MODULE TraceMerkle ----
(* C17, code side of the Merkle tree.  Every line is the output of the REAL merkle.New / Root / HashNodes /
   FindSiblingNodes / Verify on one leaf list.  32-byte values are interned as numbers 1..n by the harness;
   E.pairs is the real Keccak256 restricted to them ([i, j, k]: keccak(v_i || v_j) = v_k).  The operators of
   MerkleOps are evaluated over that oracle (0 = "a value outside the table"; hashing it stays outside, which
   is exact unless Keccak256 collides) and every real output must equal the specified one:
     nodes and root are those of the queue construction; the root is a function of the ordered leaf list
     and no two lists share a root (history over the whole run in TLC registers 3 / 4);
     for every position the real sibling path is the specified one, the real Verify accepts the genuine
     leaf and rejects every other leaf or inner hash presented with it; leaves not in the tree get no path.

   HISTORIES (events of a behaviour whose reset carries "hist": adapter merklehist / driver merkle-hist, generated
   from MerkleHist.tla): one caller-owned leaf list, grown by AppendLeaf; Compute(shape, i, j, slot) hands the real
   library the sub-range i..j of that storage (a re-slice with the following leaves in its capacity, a clipped
   re-slice, a freshly built list, a reused scratch buffer) and may keep the tree; Reread(slot) asks a kept tree again.
   The state remembers the list AS ORIGINALLY GIVEN (ids: the values logged when each leaf was appended; fids: the
   hashes of the Transactions / ChangeLogSlice / DeputyNodes objects) and, per slot, the range a kept tree was built
   over.  Every result - nodes, root, root of a second tree over the same slice, sibling paths, Verify, the three
   MerkleRootSha wrappers, a kept tree asked again - must be the pure function of the range as originally given
   (so it cannot depend on any other computation of the history), and after EVERY call (and every append of the
   caller) the caller's lists, read back from the shared storage, must be exactly what was given and every kept
   tree must answer what it answered (no computation disturbs another one's input or result). *)
EXTENDS MerkleOps, TraceBase
VARIABLES ls, ids, fids, hd
tvars == <<ls, ids, fids, hd, l>>
NoHist == ids' = <<>> /\ fids' = <<>> /\ hd' = <<>>
ASSUME TLCSet(3, <<>>) /\ TLCSet(4, <<>>)

Hit(x, y) == {t \in ToSet(E.pairs) : t[1] = x /\ t[2] = y}
OrH(x, y) == IF x = 0 \/ y = 0 \/ Hit(x, y) = {} THEN 0 ELSE (CHOOSE t \in Hit(x, y) : TRUE)[3]

ProofRowOK(p, atoms, leaves, nodes, root) ==
  LET leaf == leaves[p.pos]  sib == Siblings(leaf, nodes) IN
  /\ p.err = ""
  /\ p.sib = sib                                         \* FindSiblingNodes = the specified path
  /\ p.ok = TRUE                                         \* the inclusion proof verifies for this position
  /\ Verify(OrH, leaf, root, sib)                        \* ... also when recomputed with the specified Verify
  /\ \A j \in 1..Len(p.alt) :
       /\ p.alt[j][2] = Verify(OrH, p.alt[j][1], root, p.sib)       \* real Verify = specified Verify
       /\ (p.alt[j][1] # leaf => p.alt[j][2] = FALSE)                 \* an altered leaf fails

RowOK(atoms) ==
  LET leaves == E.leaves  nodes == Nodes(OrH, leaves)  root == Root(OrH, E.empty, leaves)
      ro == TLCGet(3)  co == TLCGet(4) IN
  /\ E.atoms = atoms
  /\ Len(leaves) = Len(atoms)
  /\ \A i, j \in 1..Len(atoms) : (atoms[i] = atoms[j]) <=> (leaves[i] = leaves[j])    \* instantiation is faithful
  /\ \A i \in 1..Len(nodes) : nodes[i] # 0
  /\ E.nodes = nodes                                      \* HashNodes() is the queue construction
  /\ E.root = root /\ E.root2 = root                      \* Root() is its last node (EmptyTrieHash for no leaves)
  /\ E.hex[E.root] = E.roothex
  /\ {E.proofs[i].pos : i \in 1..Len(E.proofs)} = 1..Len(atoms)     \* a proof for every position
  /\ \A i \in 1..Len(E.proofs) : ProofRowOK(E.proofs[i], atoms, leaves, nodes, root)
  \* Transactions / ChangeLogSlice / DeputyNodes .MerkleRootSha() of real objects = the specified root of their hashes
  /\ Len(E.fam) = 3
  /\ \A f \in 1..Len(E.fam) :
       /\ Len(E.fam[f].leaves) = Len(atoms)
       /\ \A i, j \in 1..Len(atoms) : (atoms[i] = atoms[j]) <=> (E.fam[f].leaves[i] = E.fam[f].leaves[j])
       /\ E.fam[f].root = Root(OrH, E.empty, E.fam[f].leaves)
  /\ \A i \in 1..Len(E.absent) : E.absent[i][2] = (\A j \in 1..Len(nodes) : nodes[j] # E.absent[i][1])
  /\ (atoms \in DOMAIN ro => ro[atoms] = E.roothex)       \* the root depends on the ordered leaf list only
  /\ (E.roothex \in DOMAIN co => co[E.roothex] = atoms)   \* and binds it
  /\ IF atoms \in DOMAIN ro THEN TRUE ELSE TLCSet(3, (atoms :> E.roothex) @@ ro)
  /\ IF E.roothex \in DOMAIN co THEN TRUE ELSE TLCSet(4, (E.roothex :> atoms) @@ co)

\* ---- histories over shared storage
NoTree == <<0>>                                      \* ids are >= 1
Record(atoms, roothex) ==                            \* the run-wide root function (registers 3 / 4), as in RowOK
  LET ro == TLCGet(3)  co == TLCGet(4) IN
  /\ (atoms \in DOMAIN ro => ro[atoms] = roothex)
  /\ (roothex \in DOMAIN co => co[roothex] = atoms)
  /\ IF atoms \in DOMAIN ro THEN TRUE ELSE TLCSet(3, (atoms :> roothex) @@ ro)
  /\ IF roothex \in DOMAIN co THEN TRUE ELSE TLCSet(4, (roothex :> atoms) @@ co)
ListsKept(i0, f0) == E.list = i0 /\ E.famlist = f0    \* the caller's lists, read back after the call, are what was given
KeptOK(h) ==                                         \* every tree the caller holds still answers what it answered (asked after every call)
  /\ Len(E.kept) = Len(h)
  /\ \A s \in 1..Len(h) :
       IF h[s] = NoTree THEN E.kept[s].live = 0
       ELSE LET nodes == Nodes(OrH, h[s]) IN
            /\ E.kept[s].live = 1
            /\ \A k \in 1..Len(nodes) : nodes[k] # 0
            /\ E.kept[s].nodes = nodes /\ E.kept[s].nodes2 = nodes /\ E.kept[s].root = Root(OrH, E.empty, h[s])

AppendOK(x) ==
  /\ E.leaf # 0 /\ Len(E.famleaf) = 3
  /\ \A k \in 1..Len(ls) : (ls[k] = x) <=> (ids[k] = E.leaf)                       \* instantiation is faithful
  /\ \A f \in 1..3 : \A k \in 1..Len(ls) : (ls[k] = x) <=> (fids[f][k] = E.famleaf[f])
  /\ ListsKept(Append(ids, E.leaf), [f \in 1..3 |-> Append(fids[f], E.famleaf[f])])
  /\ KeptOK(hd)                                                                   \* the caller's append disturbs no kept tree

ComputeOK(i, j, hdn) ==
  LET given == SubSeq(ids, i + 1, j)
      nodes == Nodes(OrH, given)  root == Root(OrH, E.empty, given) IN
  /\ \A k \in 1..Len(nodes) : nodes[k] # 0
  /\ E.nodes = nodes /\ E.root = root /\ E.root2 = root         \* pure function of the range as originally given
  /\ {E.proofs[k].pos : k \in 1..Len(E.proofs)} = 1..Len(given)
  /\ \A k \in 1..Len(E.proofs) :
       LET p == E.proofs[k]  sib == Siblings(given[p.pos], nodes) IN
       /\ p.leaf = given[p.pos]                                 \* the leaf the caller finds at that position
       /\ p.err = "" /\ p.sib = sib /\ p.ok = TRUE
       /\ Verify(OrH, given[p.pos], root, sib)
  /\ \A f \in 1..3 : E.famroot[f] = Root(OrH, E.empty, SubSeq(fids[f], i + 1, j))   \* Transactions / ChangeLogSlice / DeputyNodes
  /\ ListsKept(ids, fids)
  /\ KeptOK(hdn)
  /\ Record(SubSeq(ls, i + 1, j), E.roothex)

RereadOK(given) ==
  LET nodes == Nodes(OrH, given) IN
  /\ \A k \in 1..Len(nodes) : nodes[k] # 0
  /\ E.nodes = nodes /\ E.nodes2 = nodes /\ E.root = Root(OrH, E.empty, given)      \* a kept result is still what it was
  /\ ListsKept(ids, fids)
  /\ KeptOK(hd)

\* "= TRUE": one boolean, no branching on the disjunctions inside
TReset == Ev("reset") /\ "hist" \notin DOMAIN E /\ ls' = <<>> /\ NoHist /\ RowOK(<<>>) = TRUE
TPush == Ev("Push") /\ ls' = Append(ls, E.a[1]) /\ NoHist /\ RowOK(Append(ls, E.a[1])) = TRUE
TPop == Ev("Pop") /\ ls # <<>> /\ ls' = SubSeq(ls, 1, Len(ls) - 1) /\ NoHist /\ RowOK(SubSeq(ls, 1, Len(ls) - 1)) = TRUE
TRow == Ev("row") /\ ls' = <<>> /\ NoHist /\ RowOK(E.atoms) = TRUE          \* seeded grid: the list is the input itself
THReset == Ev("reset") /\ "hist" \in DOMAIN E /\ ls' = <<>> /\ ids' = <<>> /\ fids' = <<<<>>, <<>>, <<>>>>
           /\ hd' = [s \in 1..E.slots |-> NoTree]
TAppend == Ev("AppendLeaf") /\ Len(fids) = 3 /\ AppendOK(E.a[1]) = TRUE
           /\ ls' = Append(ls, E.a[1]) /\ ids' = Append(ids, E.leaf) /\ fids' = [f \in 1..3 |-> Append(fids[f], E.famleaf[f])]
           /\ hd' = hd
TCompute == Ev("Compute") /\ Len(fids) = 3
            /\ E.a[2] <= E.a[3] /\ E.a[3] <= Len(ls) /\ E.a[4] \in 0..Len(hd)
            /\ hd' = (IF E.a[4] = 0 THEN hd ELSE [hd EXCEPT ![E.a[4]] = SubSeq(ids, E.a[2] + 1, E.a[3])])
            /\ ComputeOK(E.a[2], E.a[3], hd') = TRUE
            /\ UNCHANGED <<ls, ids, fids>>
TReread == Ev("Reread") /\ Len(fids) = 3 /\ E.a[1] \in 1..Len(hd) /\ hd[E.a[1]] # NoTree
           /\ RereadOK(hd[E.a[1]]) = TRUE
           /\ UNCHANGED <<ls, ids, fids, hd>>
TraceNext == TReset \/ TPush \/ TPop \/ TRow \/ THReset \/ TAppend \/ TCompute \/ TReread
TraceSpec == l = 1 /\ ls = <<>> /\ ids = <<>> /\ fids = <<>> /\ hd = <<>> /\ [][TraceNext]_tvars
====
