---- MODULE TraceMerkle ----
(* C17, code side of the Merkle tree.  Every line is the output of the REAL merkle.New / Root / HashNodes /
   FindSiblingNodes / Verify on one leaf list.  32-byte values are interned as numbers 1..n by the harness;
   E.pairs is the real Keccak256 restricted to them ([i, j, k]: keccak(v_i || v_j) = v_k).  The operators of
   MerkleOps are evaluated over that oracle (0 = "a value outside the table"; hashing it stays outside, which
   is exact unless Keccak256 collides) and every real output must equal the specified one:
     nodes and root are those of the queue construction; the root is a function of the ordered leaf list
     and no two lists share a root (history over the whole run in TLC registers 3 / 4);
     for every position the real sibling path is the specified one, the real Verify accepts the genuine
     leaf and rejects every other leaf or inner hash presented with it; leaves not in the tree get no path. *)
EXTENDS MerkleOps, TraceBase
VARIABLE ls
tvars == <<ls, l>>
ASSUME TLCSet(3, <<>>) /\ TLCSet(4, <<>>)

Hit(x, y) == {t \in ToSet(E.pairs) : t[1] = x /\ t[2] = y}
OrH(x, y) == IF x = 0 \/ y = 0 \/ Hit(x, y) = {} THEN 0 ELSE (CHOOSE t \in Hit(x, y) : TRUE)[3]

ProofRowOK(p, atoms, leaves, nodes, root) ==
  LET leaf == leaves[p.pos]  sib == Siblings(leaf, nodes) IN
  /\ p.err = ""
  /\ p.sib = sib                                         \* FindSiblingNodes = the specified path
  /\ p.ok = TRUE                                         \* the inclusion proof verifies for this position
  /\ Verify(OrH, leaf, root, sib)                        \* ... also when recomputed with the specified Verify
  /\ \A j \in 1..Len(p.alt) :
       /\ p.alt[j][2] = Verify(OrH, p.alt[j][1], root, p.sib)       \* real Verify = specified Verify
       /\ (p.alt[j][1] # leaf => p.alt[j][2] = FALSE)                 \* an altered leaf fails

RowOK(atoms) ==
  LET leaves == E.leaves  nodes == Nodes(OrH, leaves)  root == Root(OrH, E.empty, leaves)
      ro == TLCGet(3)  co == TLCGet(4) IN
  /\ E.atoms = atoms
  /\ Len(leaves) = Len(atoms)
  /\ \A i, j \in 1..Len(atoms) : (atoms[i] = atoms[j]) <=> (leaves[i] = leaves[j])    \* instantiation is faithful
  /\ \A i \in 1..Len(nodes) : nodes[i] # 0
  /\ E.nodes = nodes                                      \* HashNodes() is the queue construction
  /\ E.root = root /\ E.root2 = root                      \* Root() is its last node (EmptyTrieHash for no leaves)
  /\ E.hex[E.root] = E.roothex
  /\ {E.proofs[i].pos : i \in 1..Len(E.proofs)} = 1..Len(atoms)     \* a proof for every position
  /\ \A i \in 1..Len(E.proofs) : ProofRowOK(E.proofs[i], atoms, leaves, nodes, root)
  \* Transactions / ChangeLogSlice / DeputyNodes .MerkleRootSha() of real objects = the specified root of their hashes
  /\ Len(E.fam) = 3
  /\ \A f \in 1..Len(E.fam) :
       /\ Len(E.fam[f].leaves) = Len(atoms)
       /\ \A i, j \in 1..Len(atoms) : (atoms[i] = atoms[j]) <=> (E.fam[f].leaves[i] = E.fam[f].leaves[j])
       /\ E.fam[f].root = Root(OrH, E.empty, E.fam[f].leaves)
  /\ \A i \in 1..Len(E.absent) : E.absent[i][2] = (\A j \in 1..Len(nodes) : nodes[j] # E.absent[i][1])
  /\ (atoms \in DOMAIN ro => ro[atoms] = E.roothex)       \* the root depends on the ordered leaf list only
  /\ (E.roothex \in DOMAIN co => co[E.roothex] = atoms)   \* and binds it
  /\ IF atoms \in DOMAIN ro THEN TRUE ELSE TLCSet(3, (atoms :> E.roothex) @@ ro)
  /\ IF E.roothex \in DOMAIN co THEN TRUE ELSE TLCSet(4, (E.roothex :> atoms) @@ co)

\* "= TRUE": one boolean, no branching on the disjunctions inside
TReset == Ev("reset") /\ ls' = <<>> /\ RowOK(<<>>) = TRUE
TPush == Ev("Push") /\ ls' = Append(ls, E.a[1]) /\ RowOK(Append(ls, E.a[1])) = TRUE
TPop == Ev("Pop") /\ ls # <<>> /\ ls' = SubSeq(ls, 1, Len(ls) - 1) /\ RowOK(SubSeq(ls, 1, Len(ls) - 1)) = TRUE
TRow == Ev("row") /\ ls' = <<>> /\ RowOK(E.atoms) = TRUE          \* seeded grid: the list is the input itself
TraceNext == TReset \/ TPush \/ TPop \/ TRow
TraceSpec == l = 1 /\ ls = <<>> /\ [][TraceNext]_tvars
====
