SPECIFICATION Spec
CONSTANTS Acct <- AcctC
 KindsOf <- KindsHold
 BaseSet <- BaseHold
 MaxSteps = 6
 MaxSnap = 2
 FreeVals = FALSE
 Dv <- NoDev
INVARIANTS UndoMatchesSaved NoPanic RevsOK DiscardAllIsBase
CHECK_DEADLOCK FALSE
