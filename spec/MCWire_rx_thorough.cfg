SPECIFICATION Spec
CONSTANTS Table <- McTableRxT
 Carriers <- McCarriersRxT
 Heavy <- McHeavySeq
 Probe <- McProbe
 MaxIn <- McMaxInRxT
 Dirs <- BothDirs
 CrossProbe = FALSE
 MaxConns = 2
 ProbeAfter = 9
 MaxFrameK = 25600
 SlackK = 16384
 C = 256
 HsLimitDevK = 1048576
 SeqOn = FALSE
 SeqBlocks <- NoBlocks
 SeqMsgs <- NoMsgs
 SeqConfirms <- NoConfirms
 SeqMix <- McRxMixT
 RxOn = TRUE
 Answering <- McAnswering
 RxMax = 3
 RxBystander = TRUE
 RxStallOut = TRUE
 Dev <- NoDev
VIEW RxView
INVARIANTS TypeOK UniqueRows NodeAlive NoDeadlock AllocBounded RxPendOnlyStalled RxBystanderServed
PROPERTIES ClosedIsFinal RxSettles RxDeadlineSettles
CHECK_DEADLOCK FALSE
