---- MODULE TraceConsensusT ----
(* The monitor C03 validates its replays with: TraceConsensus plus the named deviations of known_findings.txt (constant
   AllowedDev; kept out of TraceConsensus because TraceEngineConc extends that module without the constant).

   Dev_OwnConfirmTwice: InsertBlock on a deputy node.  The block arrives carrying a confirm by THIS node in the other
   encoding (s -> n-s) - e.g. the node signed the block before a restart and a relay re-encoded its confirm -;
   Confirmer.TryConfirm compares signatures as bytes only (Block.IsConfirmExist), appends the node's confirm a second
   time, and IsConfirmEnough counts both: the block becomes stable one distinct deputy short of 2/3 of its term. *)
EXTENDS TraceConsensus
CONSTANT AllowedDev
DevOwnConfirmTwice(e) ==
  LET st2 == e.stable  c2 == ConfOf(e) IN
  /\ "Dev_OwnConfirmTwice" \in AllowedDev
  /\ st2 # stable /\ st2 = e.a[1] + PLOf(R) /\ ~QuorumStep(e)                  \* the inserted block itself, short of the quorum
  /\ self \in c2[st2] \cap DepAtT(H(st2)) /\ self # miner[st2]                \* the node is a deputy of its term and has signed it
  /\ e.nconf[ToString(st2)] > Cardinality(c2[st2])                          \* more confirms stored than distinct signers
  /\ Cardinality(VotersT(st2, c2)) + 1 >= QAtT(H(st2))                      \* exactly the doubled confirm is missing
  /\ UseDev("Dev_OwnConfirmTwice")
TBlockT == /\ Ev("InsertBlock") \/ Ev("RejectBlock") \/ Ev("InsertBlockDup")
           /\ LET b == E.a[1] + PLOf(R) IN
              IF E.ok THEN /\ b \notin known /\ parent[b] \in known /\ H(b) > H(stable)
                           /\ miner[b] \in DepAtT(H(b))
                           /\ b \in KnownOf(E) /\ KnownOf(E) \subseteq known \cup {b}
                           /\ StepRest(E)
                           /\ (QuorumStep(E) \/ DevOwnConfirmTwice(E))
                      ELSE Same(E)
           /\ Adopt(E)
TraceNextT == TReset \/ TBlockT \/ TConfirms
TraceSpecT == /\ l = 1 /\ parent = <<>> /\ miner = <<>> /\ nd = 0 /\ self = 0 /\ known = {G} /\ conf = <<>> /\ stable = G /\ head = G
              /\ [][TraceNextT]_mvars
====
