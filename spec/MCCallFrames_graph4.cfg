SPECIFICATION Spec
CONSTANTS Contracts <- McContracts
 Sender = "U"
 Slots <- McSlots
 InitBal <- McInitBal
 InitStor <- McInitStor
 Kinds <- McKinds2
 Vals = {1}
 SendVals = {0}
 SuicideTo = {"U"}
 G0 = 4
 MaxDepth = 3
 MaxFan = 2
 DepthLimit = 1024
 DevS = FALSE
 DevG = FALSE
VIEW ViewNoHist
INVARIANTS StaticIsNoop GasWithinSupplied DepthBound NoCrash JournalMarksOrdered
PROPERTIES FailedFrameIsNoop OkKeepsEffects GasNeverGrows
CHECK_DEADLOCK FALSE
