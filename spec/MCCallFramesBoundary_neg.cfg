SPECIFICATION Spec
CONSTANTS Ops = {"RETURNDATACOPY"}
 FullOps = {"RETURNDATACOPY"}
 FullData = {}
 SampleMod = 1
 SampleSeed = 0
 Model = "@MODEL@"
INVARIANTS ImplBoundsAgree
CHECK_DEADLOCK FALSE
