SPECIFICATION Spec
CONSTANTS Ctx <- McCtx
 Init0 <- McInit
 Gas <- McGas
 Devs = {}
 Kinds = {"xfer", "box"}
 From = {"a1", "a2"}
 XTo = {"a2", "KS"}
 XAmt = {100}
 Payers = {}
 Voters = {}
 Cands = {}
 RegAmt = {}
 AFrom = {}
 ATo = {}
 AAmt = {}
 IAmt = {}
 ACodes = {}
 AIds = {}
 BGL = {40000, 45000, 90000, 125000, 150000, 175000}
 BoxFrom = {"a1"}
 BoxTo = {"a1", "a2"}
 BoxSeqs = {}
 SpendFrom = {}
 RewFrom = {}
 RewTerms = {}
 RewAmt = {}
 EmptyOK = FALSE
 MaxTx = 2
 MaxBlk = 1
 MaxTot = 2
VIEW View
INVARIANTS NonNegative Conservation DepositsBacked VotesAtBoundary SupplyEqualsEquity NothingForbiddenIncluded
PROPERTIES EndOfBlockIssuesTheReward GasWithinLimit NotIncludedIsFree OnlyOwnEquityDecreases SupplyChangesOnlyByIssuerOrHolder FrozenDoesNotMove
CHECK_DEADLOCK FALSE
