SPECIFICATION Spec
CONSTANTS Devs = {}
  Depth3 = TRUE
INVARIANTS InvTemplates InvSlotCanon InvSlotSane InvNum
CHECK_DEADLOCK FALSE
