SPECIFICATION Spec
CONSTANTS Full <- FullQuick
 Cap = 5
 BufCap = 3
 Slots = 1
 InPlace = FALSE
VIEW View
INVARIANTS ListKept ResultPure HandlesStable
CHECK_DEADLOCK FALSE
