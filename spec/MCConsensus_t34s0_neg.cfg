SPECIFICATION Spec
CONSTANTS NB = 3
 ND = 3
 Self = 0
 Packets <- McGrowPackets
 DepNew <- McNewGrow
 TermStart <- McStart6
 SnapHeight <- McSnap4
 PL <- McPL4
 MinerPool <- McPoolGrow
 TermLag <- McOne
INVARIANTS QuorumOK
CHECK_DEADLOCK FALSE
