---- MODULE Ledger ----
(* Design model of block processing for C05 (LEMO conserved, gas charged exactly, no negative balance),
   C11 (candidate votes = deposit votes + current voters' balance votes) and C12 (issued assets conserved, only
   issuer / holder move or mint).  The ledger semantics live in LedgerOps (shared with the property monitor
   TraceLedger); this module adds which transactions the processor packages (Valid), the transaction actions that
   TLC enumerates, and the properties as invariants / action properties.

   Mechanisms modelled as in the code: buyGas / refundGas / chargeForGas (tx_processor.go), CallVoteTx +
   ChangeVotesByBalance at Finalize (candidate_vote_tx.go, tx_processor.go:644, assembler.go Finalize),
   register / top-up / unregister with the deposit pool, Issue / Replenish / TransferAsset / ModifyAsset(freeze),
   box transactions (box_tx.go), contracts that accept, revert, burn or hand back value; the term boundary:
   deferred deposit refunds (interim period / deputies of the signing term), the reward precompile, and the
   end-of-block steps of a reward block (term reward issue, refunds, then the vote-by-balance pass).

   Devs switches on the three known defects of the implementation (all OFF: the properties hold; each ON: TLC
   finds the violation - the negative controls of the checks):
     Dev_VoteUsesPreTxBalance   CallVoteTx moves floor(balance just before this tx / V) while ChangeVotesByBalance
                                later adds the delta from the block-start balance
     Dev_BoxSubGasMinted        RunBoxTxs charges the sub transactions' fees and returns their gas, which the caller
                                multiplies by the box price and credits to the miner again
     Dev_NegativeAssetTransfer  TransferAssetTx accepts a negative transferAmount
   and mutants that are no known defects (negative controls only): Mut_VotePassBeforeRefund, Mut_RefundNotFromPool
   (LedgerOps.Finalize), Mut_FreezeLookupById (the freeze flag looked up under the asset id: only tokens stay frozen),
   Mut_SuicideClearsEquity (a self-destructing contract loses what it holds of an asset), Mut_BlockFullKeepsPartialBox
   (a box whose later sub transaction does not fit into the block is dropped without undoing what ran before),
   Mut_BadBoxKeepsVotes, Mut_BadBoxKeepsFirstEquity (a box given up for an invalid later sub transaction keeps votes /
   first-time holders' equity of the sub transactions before), Mut_ZeroStartSkipped (LedgerOps.Finalize: the vote pass
   skips an account that owned nothing at the start of the block).

   Block gas.  The header of the block under construction may name a small gas limit (GasLimit action, values BGL;
   otherwise the limit is ample).  The miner takes a candidate only if its whole gas limit is still available
   (gas pool: - limit at buyGas, + unused gas at refundGas); a box buys its own limit first and every sub transaction
   buys its own on top, so a box can turn out not to fit when one of its LATER sub transactions is reached.  A candidate
   that does not fit stays out of the block and costs nothing; the miner stops trying when less than the plain
   transfer gas is left.                                                                                          *)
EXTENDS LedgerOps, TLC
CONSTANTS Ctx,        \* context record (see LedgerOps)
          Init0,      \* initial ledger state
          Gas,        \* abstract gas used per transaction kind
          Devs,
          Kinds,      \* transaction kinds enabled in this configuration
          From, XTo, XAmt, Payers,     \* transfers: senders, recipients, amounts (LEMO), foreign gas payers
          Voters, Cands, RegAmt,       \* votes and candidate transactions
          AFrom, ATo, AAmt, IAmt,      \* asset transactions: senders, recipients, transfer amounts, issue / replenish amounts
          ACodes, AIds,                \* ... the asset codes (issue, replenish, freeze) and asset ids (replenish, transfer) they name
          BGL,                         \* block gas limits a header may name (empty: every block has ample gas)
          BoxFrom, BoxTo,              \* box transactions: box sender, sub transaction sender / recipient
          BoxSeqs,                     \* boxes of ARBITRARY sub transactions: the sequences of sub transaction templates (MixedBox)
          SpendFrom,                   \* accounts that send away their whole balance, to the last unit (SpendAll; gas paid by a Payer)
          RewFrom, RewTerms, RewAmt,   \* reward settings: senders, terms, values (LEMO)
          EmptyOK,                     \* blocks without transactions are generated too (needed to walk to a reward block)
          MaxTx, MaxBlk, MaxTot        \* transactions per block, blocks, transactions per behaviour
VARIABLES st,    \* ledger state at the last block boundary
          blk,   \* block under construction (LedgerOps accumulator)
          ntx, nb, ntot,
          gas,   \* [lim: the gas limit the header of the block under construction names (0: ample), left: the miner's gas pool]
          nf,    \* fresh asset id slots handed to issue transactions so far (Ctx.fresh)
          last   \* the transaction of the last step (history, for the action properties)
vars == <<st, blk, ntx, nb, ntot, gas, nf, last>>
View == <<st, blk, ntx, nb, ntot, gas, nf>>
LEMO == 1000
NoTx == [k |-> "none", f |-> "", t |-> "", p |-> "", amt |-> 0, gl |-> 0, gp |-> 0, gu |-> 0, inc |-> FALSE, subs |-> <<>>, x |-> 0, c |-> "", id |-> ""]
Tx(k, f, t, p, amt, gl, gp) == [k |-> k, f |-> f, t |-> t, p |-> p, amt |-> amt, gl |-> gl, gp |-> gp, gu |-> 0, inc |-> FALSE, subs |-> <<>>, x |-> 0, c |-> "", id |-> ""]
ATx(k, f, t, amt, gl, code, id) == [Tx(k, f, t, f, amt, gl, 1) EXCEPT !.c = code, !.id = id]
Ample == 100000000
MinGas == 21000     \* params.OrdinaryTxGas: with less gas left the miner stops trying

(* ------------------------------------------------------------- what the processor packages *)
AfterGas(b, t, a) == IF a = t.p THEN b.s.bal[a] - t.gl * t.gp ELSE b.s.bal[a]
\* who may send an asset id: the processor demands the id's metadata in the sender's STABLE account, and only an issue
\* transaction writes it (for its receiver) - in worlds whose scenario blocks stay unconfirmed these are the receivers
\* of the setup chain's issue transactions (Ctx.meta); generator knowledge only, the monitor does not depend on it
MaySend(a, id) == id \in DOMAIN Ctx.meta /\ a \in Ctx.meta[id]
PlainValid(b, t) ==
  /\ b.s.bal[t.p] >= t.gl * t.gp /\ t.gl >= Gas[t.k]
  /\ CASE t.k = "xfer"  -> AfterGas(b, t, t.f) >= t.amt
       [] t.k = "vote"  -> b.s.reg[t.t] = "yes" /\ b.s.vf[t.f] # t.t
       [] t.k \in {"reg", "topup"} -> /\ AfterGas(b, t, t.f) >= t.amt
                                      /\ \/ b.s.reg[t.f] = "yes"
                                         \/ b.s.reg[t.f] = "no" /\ t.amt >= Ctx.mindep
       [] t.k = "unreg" -> b.s.reg[t.f] = "yes"
       [] t.k = "setrew" -> TRUE                      \* a refused precompile call is still packaged (and costs its gas)
       [] t.k \in {"issue", "repl", "axfer", "freeze", "unfreeze"} ->
            /\ ~Plain(Ctx, Devs, b, [t EXCEPT !.inc = TRUE]).bad          \* the rules of LedgerOps
            /\ t.k = "axfer" => MaySend(t.f, t.id)
Exec(t) == [t EXCEPT !.inc = TRUE, !.gu = Gas[t.k]]
\* the sub transactions of a box, run one after the other on the state the box's own gas purchase left, each buying its
\* gas limit from the pool: "ok", "bad" (an invalid one: the box is discarded), "full" (one does not fit into the block)
RECURSIVE SubsRun(_, _, _, _)
SubsRun(b, q, i, left) ==
  IF i > Len(q) THEN [r |-> "ok", n |-> Len(q)]
  ELSE IF b.s.bal[q[i].p] < q[i].gl * q[i].gp THEN [r |-> "bad", n |-> i - 1]
  ELSE IF left < q[i].gl THEN [r |-> "full", n |-> i - 1]
  ELSE IF ~PlainValid(b, q[i]) THEN [r |-> "bad", n |-> i - 1]
  ELSE SubsRun(Plain(Ctx, Devs, b, Exec(q[i])), q, i + 1, left - Gas[q[i].k])
RECURSIVE KindGas(_, _)
KindGas(q, i) == IF i > Len(q) THEN 0 ELSE Gas[q[i].k] + KindGas(q, i + 1)
\* what the miner does with candidate t when `left` gas is left in the block:
\* r = "inc" (packaged), "bad" (discarded as invalid), "full" (does not fit: stays in the pool), "stop" (not tried any more);
\* n = number of sub transactions that ran before a box was given up
Resolve(b, t, left) ==
  IF left < MinGas THEN [r |-> "stop", t |-> t, n |-> 0]
  ELSE IF b.s.bal[t.p] < t.gl * t.gp THEN [r |-> "bad", t |-> t, n |-> 0]
  ELSE IF left < t.gl THEN [r |-> "full", t |-> t, n |-> 0]
  ELSE IF t.k = "box"
  THEN IF t.gl < Gas["box"] THEN [r |-> "bad", t |-> t, n |-> 0]
       ELSE LET sr == SubsRun(Charge(b, t.p, t.gl * t.gp), t.subs, 1, left - t.gl) IN     \* the box's gas is held while the subs run
            IF sr.r = "ok"
            THEN [r |-> "inc", n |-> sr.n,
                  t |-> [t EXCEPT !.inc = TRUE, !.gu = Gas["box"] + KindGas(t.subs, 1), !.subs = [i \in 1..Len(t.subs) |-> Exec(t.subs[i])]]]
            ELSE [r |-> sr.r, t |-> t, n |-> sr.n]
  ELSE IF PlainValid(b, t) THEN [r |-> "inc", t |-> Exec(t), n |-> 0] ELSE [r |-> "bad", t |-> t, n |-> 0]
\* Mut_BlockFullKeepsPartialBox: the box that turned out not to fit is dropped, but its gas purchase and the n sub
\* transactions that ran stay in the state (their fees reach nobody)
PartialBox(b, t, n) ==
  LET b1 == [b EXCEPT !.s.bal[t.p] = @ - t.gl * t.gp]
      b2 == Subs(Ctx, Devs, b1, [i \in 1..n |-> Exec(t.subs[i])], 1)
  IN [b2 EXCEPT !.fees = b.fees]

\* Mut_BadBoxKeepsVotes / Mut_BadBoxKeepsFirstEquity: the box that is given up because a later sub transaction is invalid
\* leaves behind the candidate votes its earlier sub transactions set / the equity they gave to accounts that held nothing
\* under that id before (negative controls of the roll-back configurations)
\* Snapshot blocks are never scenario blocks (the election is C10 / C13's subject; the setup chain carries an empty one).
Do(t0) == LET r == Resolve(blk, t0, gas.left)  t == r.t IN
          /\ nb < MaxBlk /\ ntx < MaxTx /\ ntot < MaxTot /\ t0.k \in Kinds /\ ~IsSnapshot(st, blk.h)
          /\ blk' = IF r.r = "full" /\ t0.k = "box" /\ "Mut_BlockFullKeepsPartialBox" \in Devs THEN PartialBox(blk, t0, r.n)
                    ELSE IF r.r = "bad" /\ t0.k = "box" /\ "Mut_BadBoxKeepsVotes" \in Devs
                    THEN [blk EXCEPT !.s.votes = PartialBox(blk, t0, r.n).s.votes]
                    ELSE IF r.r = "bad" /\ t0.k = "box" /\ "Mut_BadBoxKeepsFirstEquity" \in Devs
                    THEN LET pb == PartialBox(blk, t0, r.n) IN
                         [blk EXCEPT !.s.eq = [i \in DOMAIN blk.s.eq |-> [a \in DOMAIN blk.s.eq[i] |->
                                                  IF blk.s.eq[i][a] = 0 THEN pb.s.eq[i][a] ELSE blk.s.eq[i][a]]]]
                    ELSE ApplyTx(Ctx, Devs, blk, t)
          /\ gas' = IF t.inc THEN [gas EXCEPT !.left = @ - t.gu] ELSE gas
          /\ ntx' = ntx + 1 /\ ntot' = ntot + 1 /\ last' = t /\ UNCHANGED <<st, nb>>

GL(g, ok) == IF g = "low" THEN 20000 ELSE IF g = "high" THEN 60000 ELSE ok
Transfer(f, t, a, p, g) == /\ (g = "ok" \/ (p = f /\ a = 100)) /\ (p = f \/ (p \in Payers /\ p # t))
                           /\ Do(Tx("xfer", f, t, p, a * LEMO, GL(g, 30000), 1)) /\ UNCHANGED nf
Vote(v, x)          == "vote" \in Kinds /\ Do(Tx("vote", v, x, v, 0, 40000, 1)) /\ UNCHANGED nf
\* Voters at balance ZERO.  A vote whose gas another account pays (reimbursed transaction): the voter may own nothing at
\* all - its weight is 0 now and everything it receives later counts for its candidate.  SpendAll: an account sends away
\* its whole balance to the last unit (gas paid by another account) - its weight drops to 0 and grows again when it is
\* refunded.  Both make balance change logs whose old / new value is exactly 0.
VoteBy(v, x, p)     == "voteby" \in Kinds /\ p # v /\ Do(Tx("vote", v, x, p, 0, 40000, 1)) /\ UNCHANGED nf
SpendAll(f, t, p)   == /\ "xfer" \in Kinds /\ p # f /\ t # f /\ p # t /\ blk.s.bal[f] > 0
                       /\ Do(Tx("xfer", f, t, p, blk.s.bal[f], 30000, 1)) /\ UNCHANGED nf
Register(x, a)      == st.reg[x] = "no" /\ Do(Tx("reg", x, "", x, a * LEMO, 130000, 1)) /\ UNCHANGED nf
TopUp(x, a)         == st.reg[x] # "no" /\ Do(Tx("topup", x, "", x, a * LEMO, 130000, 1)) /\ UNCHANGED nf
Unregister(x)       == "unreg" \in Kinds /\ Do(Tx("unreg", x, "", x, 0, 130000, 1)) /\ UNCHANGED nf
\* the header of the block under construction names gas limit g (before the first candidate is tried)
GasLimit(g)         == /\ nb < MaxBlk /\ ntx = 0 /\ gas.lim = 0 /\ ntot < MaxTot /\ ~IsSnapshot(st, blk.h)
                       /\ gas' = [lim |-> g, left |-> g] /\ last' = NoTx /\ UNCHANGED <<st, blk, ntx, nb, ntot, nf>>
\* the id an issue transaction credits: the token's one id, or (categories 2 / 3) a new id - the next fresh slot
\* (the adapter counts the issue actions of a behaviour in the same way)
FreshLeft == nf < Len(Ctx.fresh)
IssueId(code)       == IF Ctx.assets[code].cat = 1 THEN code ELSE Ctx.fresh[nf + 1]
Issue(f, t, a, code) == /\ "issue" \in Kinds /\ f \in {Ctx.issuer, "a1"} /\ (Ctx.assets[code].cat = 1 \/ FreshLeft)
                        /\ Do(ATx("issue", f, t, a, 100000, code, IssueId(code)))
                        /\ nf' = IF Ctx.assets[code].cat = 1 THEN nf ELSE nf + 1
\* replenish names code and id: an id of that code, or (must be refused) an id of another code that the receiver holds
Replenish(f, t, a, code, id) == /\ "repl" \in Kinds /\ f \in {Ctx.issuer, "a1"}
                                /\ (blk.s.idc[id] = code \/ (blk.s.idc[id] # NONE /\ MaySend(t, id)))
                                /\ Do(ATx("repl", f, t, a, 100000, code, id)) /\ UNCHANGED nf
AssetTransfer(f, t, a, id) == "axfer" \in Kinds /\ blk.s.idc[id] # NONE /\ Do(ATx("axfer", f, t, a, 100000, "", id)) /\ UNCHANGED nf
Freeze(f, v, code)  == "freeze" \in Kinds /\ Do(ATx(IF v THEN "freeze" ELSE "unfreeze", f, "", 0, 100000, code, "")) /\ UNCHANGED nf
SetReward(f, k, a)  == "setrew" \in Kinds /\ Do([Tx("setrew", f, Ctx.rc, f, a * LEMO, 60000, 1) EXCEPT !.x = k]) /\ UNCHANGED nf
Box(f, sf, stt, a, n, gp) ==
  "box" \in Kinds /\ Do([Tx("box", f, "", f, 0, 100000, gp) EXCEPT !.subs = [i \in 1..n |-> Tx("xfer", sf, stt, sf, a * LEMO, 30000, 1)]]) /\ UNCHANGED nf
\* A box of ARBITRARY sub transactions (templates [k, f, t, amt, c, id]; amounts of the LEMO kinds in LEMO).  On the mining
\* path a box whose LATER sub transaction is invalid is given up as a whole: everything its earlier sub transactions did -
\* registrations, deposit top-ups, votes, unregistrations; issue / replenish / transfer of an asset to somebody who NEVER
\* held that id - is rolled back (Resolve: "bad"; ApplyTx: a transaction that is not packaged changes nothing), whatever
\* other transactions of the same block touch the same accounts afterwards.
SubGL(k) == CASE k = "xfer" -> 30000 [] k = "vote" -> 40000 [] k \in {"reg", "topup", "unreg"} -> 130000 [] OTHER -> 100000
SubTx(r) == [Tx(r.k, r.f, r.t, r.f, IF r.k \in {"xfer", "reg", "topup"} THEN r.amt * LEMO ELSE r.amt, SubGL(r.k), 1) EXCEPT !.c = r.c, !.id = r.id]
MixedBox(f, gp, q) ==
  "box" \in Kinds /\ Do([Tx("box", f, "", f, 0, 300000, gp) EXCEPT !.subs = [i \in 1..Len(q) |-> SubTx(q[i])]]) /\ UNCHANGED nf
EndBlock == /\ nb < MaxBlk /\ (ntx > 0 \/ EmptyOK) /\ ~IsSnapshot(st, blk.h)
            /\ st' = Finalize(Ctx, Devs, blk).s /\ blk' = Begin(st') /\ ntx' = 0 /\ nb' = nb + 1 /\ last' = NoTx
            /\ gas' = [lim |-> 0, left |-> Ample] /\ UNCHANGED <<ntot, nf>>

Init == st = Init0 /\ blk = Begin(Init0) /\ ntx = 0 /\ nb = 0 /\ ntot = 0 /\ last = NoTx /\ gas = [lim |-> 0, left |-> Ample] /\ nf = 0
Next == \/ \E f \in From, t \in XTo, a \in XAmt, p \in Payers \cup From, g \in {"ok", "low"} : Transfer(f, t, a, p, g)
        \/ \E v \in Voters, x \in Cands : Vote(v, x)
        \/ \E v \in Voters, x \in Cands, p \in Payers : VoteBy(v, x, p)
        \/ \E f \in SpendFrom, t \in XTo, p \in Payers : SpendAll(f, t, p)
        \/ \E f \in BoxFrom, q \in BoxSeqs : MixedBox(f, 1, q)
        \/ \E x \in Cands, a \in RegAmt : Register(x, a)
        \/ \E x \in Cands, a \in RegAmt : TopUp(x, a)
        \/ \E x \in Cands : Unregister(x)
        \/ \E f \in AFrom, t \in ATo, a \in IAmt, code \in ACodes : Issue(f, t, a, code)
        \/ \E f \in AFrom, t \in ATo, a \in IAmt, code \in ACodes, id \in AIds : Replenish(f, t, a, code, id)
        \/ \E f \in AFrom, t \in ATo, a \in AAmt, id \in AIds : AssetTransfer(f, t, a, id)
        \/ \E f \in AFrom, v \in BOOLEAN, code \in ACodes : Freeze(f, v, code)
        \/ \E g \in BGL : GasLimit(g)
        \/ \E f \in RewFrom, k \in RewTerms, a \in RewAmt : SetReward(f, k, a)
        \/ \E f \in BoxFrom, sf \in BoxTo, t \in BoxTo, a \in XAmt, n \in 1..2, gp \in {2} : Box(f, sf, t, a, n, gp)
        \/ EndBlock
Spec == Init /\ [][Next]_vars

(* ------------------------------------------------------------- C05 *)
NonNegative  == NonNegBal(blk.s)
\* fees are held aside until Finalize; nothing else leaves or enters except legitimate issuance / burns
Conservation == Total(blk.s.bal) + blk.fees = Total(blk.start) + blk.rew - blk.burn
\* the deposit pool holds the recorded deposits at every moment: it is credited by deposits and debited by refunds only
\* (no configuration transfers to the pool directly)
DepositsBacked == PoolSurplus(Ctx, blk.s) = PoolSurplus(Ctx, Init0)
\* the end of a block issues LEMO only in a reward block, and then the reward in force for the finished term up to the
\* rounding loss (less than one precision unit + 1 per paid node)
EndOfBlockIssuesTheReward ==
  [][nb' = nb + 1 =>
       LET d  == Total(st'.bal) - Total(st.bal) + blk.burn
           k  == SignerTerm(st, st'.h - 1) + 1
           r  == IF IsReward(st, st'.h) /\ k <= Len(blk.s.rwd) THEN blk.s.rwd[k] ELSE 0
           np == IF k <= Len(Ctx.payees) THEN Len(Ctx.payees[k]) ELSE 0
       IN IF r = 0 \/ np = 0 THEN d = 0 ELSE d <= r /\ r - d < np * (Ctx.prec + 1)]_vars
GasWithinLimit == [][last'.inc => last'.gu <= last'.gl]_vars
NotIncludedIsFree == [][(ntx' = ntx + 1 /\ ~last'.inc) => blk' = blk]_vars
(* ------------------------------------------------------------- C11 *)
VotesAtBoundary == ntx = 0 => VotesOK(Ctx, st)
(* ------------------------------------------------------------- C12 *)
SupplyEqualsEquity == SupplyOK(Ctx, blk.s)
NothingForbiddenIncluded == ~blk.bad
Divisible(s, i) == s.idc[i] # NONE /\ Ctx.assets[s.idc[i]].div
\* somebody's equity under some id decreases only by that holder's own packaged transfer of that id, by no more than the
\* amount named (an indivisible id: the whole of it)
\* (a packaged box: by that holder's own transfers of that id among its sub transactions, by no more than they name together)
Parts(t) == IF t.k = "box" THEN t.subs ELSE <<t>>
RECURSIVE OwnNamed(_, _, _, _)
OwnNamed(q, a, i, j) == IF j > Len(q) THEN 0
                        ELSE (IF q[j].k = "axfer" /\ q[j].f = a /\ q[j].id = i /\ q[j].amt > 0 THEN q[j].amt ELSE 0) + OwnNamed(q, a, i, j + 1)
OnlyOwnEquityDecreases ==
  [][\A i \in DOMAIN blk.s.eq : \A a \in DOMAIN blk.s.eq[i] : blk'.s.eq[i][a] < blk.s.eq[i][a] =>
        /\ last'.inc /\ \E j \in 1..Len(Parts(last')) : LET p == Parts(last')[j] IN p.k = "axfer" /\ p.f = a /\ p.id = i
        /\ IF Divisible(blk.s, i) THEN OwnNamed(Parts(last'), a, i, 1) >= blk.s.eq[i][a] - blk'.s.eq[i][a] ELSE blk'.s.eq[i][a] = 0]_vars
\* the recorded supply of a code changes only by its issuer's issue / replenish of a positive amount (an indivisible
\* asset: by one id) and by a holder destroying its own equity under one of the code's ids
\* (a packaged box: by the sum of what its issue / replenish sub transactions add; the boxes generated destroy nothing)
RECURSIVE Minted(_, _, _)
Minted(q, code, j) == IF j > Len(q) THEN 0
                      ELSE (IF q[j].k \in {"issue", "repl"} /\ q[j].c = code /\ q[j].f = Ctx.assets[code].iss /\ q[j].amt > 0
                            THEN (IF Ctx.assets[code].div THEN q[j].amt ELSE 1) ELSE 0) + Minted(q, code, j + 1)
SupplyChangesOnlyByIssuerOrHolder ==
  [][\A code \in DOMAIN Ctx.assets : blk'.s.sup[code] # blk.s.sup[code] =>
       LET div == Ctx.assets[code].div IN
       \/ /\ last'.k = "box" /\ last'.inc /\ blk'.s.sup[code] = blk.s.sup[code] + Minted(last'.subs, code, 1)
       \/ /\ last'.k \in {"issue", "repl"} /\ last'.c = code /\ last'.f = Ctx.assets[code].iss /\ last'.amt > 0
          /\ blk'.s.sup[code] = blk.s.sup[code] + (IF div THEN last'.amt ELSE 1)
       \/ /\ last'.k = "axfer" /\ last'.t = Ctx.zero /\ last'.amt > 0 /\ blk.s.idc[last'.id] = code
          /\ LET n == blk.s.eq[last'.id][last'.f] - blk'.s.eq[last'.id][last'.f] IN
             /\ n > 0 /\ blk'.s.sup[code] = blk.s.sup[code] - (IF div THEN n ELSE 1)
             /\ IF div THEN n = last'.amt ELSE blk'.s.eq[last'.id][last'.f] = 0]_vars
\* while a code stays frozen neither its supply nor anybody's equity under any of its ids changes, and it gets no new id
FrozenDoesNotMove ==
  [][\A code \in DOMAIN Ctx.assets : (blk.s.frz[code] /\ blk'.s.frz[code]) =>
       /\ blk'.s.sup[code] = blk.s.sup[code] /\ IdsOf(blk'.s, code) = IdsOf(blk.s, code)
       /\ \A i \in IdsOf(blk.s, code) : blk'.s.eq[i] = blk.s.eq[i]]_vars
====
