---- MODULE Ledger ----
(* Design model of block processing for C05 (LEMO conserved, gas charged exactly, no negative balance),
   C11 (candidate votes = deposit votes + current voters' balance votes) and C12 (issued assets conserved, only
   issuer / holder move or mint).  The ledger semantics live in LedgerOps (shared with the property monitor
   TraceLedger); this module adds which transactions the processor packages (Valid), the transaction actions that
   TLC enumerates, and the properties as invariants / action properties.

   Mechanisms modelled as in the code: buyGas / refundGas / chargeForGas (tx_processor.go), CallVoteTx +
   ChangeVotesByBalance at Finalize (candidate_vote_tx.go, tx_processor.go:644, assembler.go Finalize),
   register / top-up / unregister with the deposit pool, Issue / Replenish / TransferAsset / ModifyAsset(freeze),
   box transactions (box_tx.go), contracts that accept, revert, burn or hand back value; the term boundary:
   deferred deposit refunds (interim period / deputies of the signing term), the reward precompile, and the
   end-of-block steps of a reward block (term reward issue, refunds, then the vote-by-balance pass).

   Devs switches on the three known defects of the implementation (all OFF: the properties hold; each ON: TLC
   finds the violation - the negative controls of the checks):
     Dev_VoteUsesPreTxBalance   CallVoteTx moves floor(balance just before this tx / V) while ChangeVotesByBalance
                                later adds the delta from the block-start balance
     Dev_BoxSubGasMinted        RunBoxTxs charges the sub transactions' fees and returns their gas, which the caller
                                multiplies by the box price and credits to the miner again
     Dev_NegativeAssetTransfer  TransferAssetTx accepts a negative transferAmount                                 *)
EXTENDS LedgerOps, TLC
CONSTANTS Ctx,        \* context record (see LedgerOps)
          Init0,      \* initial ledger state
          Gas,        \* abstract gas used per transaction kind
          Devs,
          Kinds,      \* transaction kinds enabled in this configuration
          From, XTo, XAmt, Payers,     \* transfers: senders, recipients, amounts (LEMO), foreign gas payers
          Voters, Cands, RegAmt,       \* votes and candidate transactions
          AFrom, ATo, AAmt, IAmt,      \* asset transactions
          BoxFrom, BoxTo,              \* box transactions: box sender, sub transaction sender / recipient
          RewFrom, RewTerms, RewAmt,   \* reward settings: senders, terms, values (LEMO)
          EmptyOK,                     \* blocks without transactions are generated too (needed to walk to a reward block)
          MaxTx, MaxBlk, MaxTot        \* transactions per block, blocks, transactions per behaviour
VARIABLES st,    \* ledger state at the last block boundary
          blk,   \* block under construction (LedgerOps accumulator)
          ntx, nb, ntot,
          last   \* the transaction of the last step (history, for the action properties)
vars == <<st, blk, ntx, nb, ntot, last>>
View == <<st, blk, ntx, nb, ntot>>
LEMO == 1000
NoTx == [k |-> "none", f |-> "", t |-> "", p |-> "", amt |-> 0, gl |-> 0, gp |-> 0, gu |-> 0, inc |-> FALSE, subs |-> <<>>, x |-> 0]
Tx(k, f, t, p, amt, gl, gp) == [k |-> k, f |-> f, t |-> t, p |-> p, amt |-> amt, gl |-> gl, gp |-> gp, gu |-> 0, inc |-> FALSE, subs |-> <<>>, x |-> 0]

(* ------------------------------------------------------------- what the processor packages *)
AfterGas(b, t, a) == IF a = t.p THEN b.s.bal[a] - t.gl * t.gp ELSE b.s.bal[a]
PlainValid(b, t) ==
  /\ b.s.bal[t.p] >= t.gl * t.gp /\ t.gl >= Gas[t.k]
  /\ CASE t.k = "xfer"  -> AfterGas(b, t, t.f) >= t.amt
       [] t.k = "vote"  -> b.s.reg[t.t] = "yes" /\ b.s.vf[t.f] # t.t
       [] t.k \in {"reg", "topup"} -> /\ AfterGas(b, t, t.f) >= t.amt
                                      /\ \/ b.s.reg[t.f] = "yes"
                                         \/ b.s.reg[t.f] = "no" /\ t.amt >= Ctx.mindep
       [] t.k = "unreg" -> b.s.reg[t.f] = "yes"
       [] t.k = "setrew" -> TRUE                      \* a refused precompile call is still packaged (and costs its gas)
       [] t.k \in {"issue", "repl"} -> t.f = Ctx.issuer /\ t.amt > 0 /\ ~b.s.frz
       [] t.k = "axfer" -> /\ ~b.s.frz /\ b.s.eq[t.f] > 0 /\ t.amt <= b.s.eq[t.f]
                           /\ (t.amt >= 0 \/ "Dev_NegativeAssetTransfer" \in Devs)
       [] t.k \in {"freeze", "unfreeze"} -> t.f = Ctx.issuer
Exec(t) == [t EXCEPT !.inc = TRUE, !.gu = Gas[t.k]]
RECURSIVE SubsValid(_, _, _)
SubsValid(b, q, i) == IF i > Len(q) THEN TRUE
                      ELSE PlainValid(b, q[i]) /\ SubsValid(Plain(Ctx, Devs, b, Exec(q[i])), q, i + 1)
Resolve(b, t) ==   \* fill in inc / gu as the processor would
  IF t.k = "box"
  THEN IF b.s.bal[t.p] >= t.gl * t.gp /\ t.gl >= Gas["box"]
          /\ SubsValid(Charge(b, t.p, t.gl * t.gp), t.subs, 1)      \* conservative: the box's gas is still held while the subs run
       THEN [t EXCEPT !.inc = TRUE, !.gu = Gas["box"] + Len(t.subs) * Gas["xfer"], !.subs = [i \in 1..Len(t.subs) |-> Exec(t.subs[i])]]
       ELSE t
  ELSE IF PlainValid(b, t) THEN Exec(t) ELSE t

\* Snapshot blocks are never scenario blocks (the election is C10 / C13's subject; the setup chain carries an empty one).
Do(t0) == LET t == Resolve(blk, t0) IN
          /\ nb < MaxBlk /\ ntx < MaxTx /\ ntot < MaxTot /\ t0.k \in Kinds /\ ~IsSnapshot(st, blk.h)
          /\ blk' = ApplyTx(Ctx, Devs, blk, t) /\ ntx' = ntx + 1 /\ ntot' = ntot + 1 /\ last' = t /\ UNCHANGED <<st, nb>>

GL(g, ok) == IF g = "low" THEN 20000 ELSE IF g = "high" THEN 60000 ELSE ok
Transfer(f, t, a, p, g) == /\ (g = "ok" \/ (p = f /\ a = 100)) /\ (p = f \/ (p \in Payers /\ p # t))
                           /\ Do(Tx("xfer", f, t, p, a * LEMO, GL(g, 30000), 1))
Vote(v, x)          == "vote" \in Kinds /\ Do(Tx("vote", v, x, v, 0, 40000, 1))
Register(x, a)      == st.reg[x] = "no" /\ Do(Tx("reg", x, "", x, a * LEMO, 130000, 1))
TopUp(x, a)         == st.reg[x] # "no" /\ Do(Tx("topup", x, "", x, a * LEMO, 130000, 1))
Unregister(x)       == "unreg" \in Kinds /\ Do(Tx("unreg", x, "", x, 0, 130000, 1))
Issue(f, t, a)      == "issue" \in Kinds /\ f \in {Ctx.issuer, "a1"} /\ Do(Tx("issue", f, t, f, a, 100000, 1))
Replenish(f, t, a)  == "repl" \in Kinds /\ f \in {Ctx.issuer, "a1"} /\ Do(Tx("repl", f, t, f, a, 100000, 1))
AssetTransfer(f, t, a) == "axfer" \in Kinds /\ Do(Tx("axfer", f, t, f, a, 60000, 1))
Freeze(f, v)        == "freeze" \in Kinds /\ Do(Tx(IF v THEN "freeze" ELSE "unfreeze", f, "", f, 0, 100000, 1))
SetReward(f, k, a)  == "setrew" \in Kinds /\ Do([Tx("setrew", f, Ctx.rc, f, a * LEMO, 60000, 1) EXCEPT !.x = k])
Box(f, sf, stt, a, n, gp) ==
  "box" \in Kinds /\ Do([Tx("box", f, "", f, 0, 100000, gp) EXCEPT !.subs = [i \in 1..n |-> Tx("xfer", sf, stt, sf, a * LEMO, 30000, 1)]])
EndBlock == /\ nb < MaxBlk /\ (ntx > 0 \/ EmptyOK) /\ ~IsSnapshot(st, blk.h)
            /\ st' = Finalize(Ctx, Devs, blk).s /\ blk' = Begin(st') /\ ntx' = 0 /\ nb' = nb + 1 /\ last' = NoTx /\ UNCHANGED ntot

Init == st = Init0 /\ blk = Begin(Init0) /\ ntx = 0 /\ nb = 0 /\ ntot = 0 /\ last = NoTx
Next == \/ \E f \in From, t \in XTo, a \in XAmt, p \in Payers \cup From, g \in {"ok", "low"} : Transfer(f, t, a, p, g)
        \/ \E v \in Voters, x \in Cands : Vote(v, x)
        \/ \E x \in Cands, a \in RegAmt : Register(x, a)
        \/ \E x \in Cands, a \in RegAmt : TopUp(x, a)
        \/ \E x \in Cands : Unregister(x)
        \/ \E f \in AFrom, t \in ATo, a \in IAmt : Issue(f, t, a)
        \/ \E f \in AFrom, t \in ATo, a \in IAmt : Replenish(f, t, a)
        \/ \E f \in AFrom, t \in ATo, a \in AAmt : AssetTransfer(f, t, a)
        \/ \E f \in AFrom, v \in BOOLEAN : Freeze(f, v)
        \/ \E f \in RewFrom, k \in RewTerms, a \in RewAmt : SetReward(f, k, a)
        \/ \E f \in BoxFrom, sf \in BoxTo, t \in BoxTo, a \in XAmt, n \in 1..2, gp \in {2} : Box(f, sf, t, a, n, gp)
        \/ EndBlock
Spec == Init /\ [][Next]_vars

(* ------------------------------------------------------------- C05 *)
NonNegative  == NonNegBal(blk.s)
\* fees are held aside until Finalize; nothing else leaves or enters except legitimate issuance / burns
Conservation == Total(blk.s.bal) + blk.fees = Total(blk.start) + blk.rew - blk.burn
\* the deposit pool holds the recorded deposits at every moment: it is credited by deposits and debited by refunds only
\* (no configuration transfers to the pool directly)
DepositsBacked == PoolSurplus(Ctx, blk.s) = PoolSurplus(Ctx, Init0)
\* the end of a block issues LEMO only in a reward block, and then the reward in force for the finished term up to the
\* rounding loss (less than one precision unit + 1 per paid node)
EndOfBlockIssuesTheReward ==
  [][nb' = nb + 1 =>
       LET d  == Total(st'.bal) - Total(st.bal) + blk.burn
           k  == SignerTerm(st, st'.h - 1) + 1
           r  == IF IsReward(st, st'.h) /\ k <= Len(blk.s.rwd) THEN blk.s.rwd[k] ELSE 0
           np == IF k <= Len(Ctx.payees) THEN Len(Ctx.payees[k]) ELSE 0
       IN IF r = 0 \/ np = 0 THEN d = 0 ELSE d <= r /\ r - d < np * (Ctx.prec + 1)]_vars
GasWithinLimit == [][last'.inc => last'.gu <= last'.gl]_vars
NotIncludedIsFree == [][(ntx' = ntx + 1 /\ ~last'.inc) => blk' = blk]_vars
(* ------------------------------------------------------------- C11 *)
VotesAtBoundary == ntx = 0 => VotesOK(Ctx, st)
(* ------------------------------------------------------------- C12 *)
SupplyEqualsEquity == SupplyOK(blk.s)
NothingForbiddenIncluded == ~blk.bad
OnlyOwnEquityDecreases == [][\A a \in DOMAIN blk.s.eq : blk'.s.eq[a] < blk.s.eq[a] =>
                               (last'.k = "axfer" /\ last'.inc /\ last'.f = a /\ last'.amt >= blk.s.eq[a] - blk'.s.eq[a])]_vars
SupplyChangesOnlyByIssuerOrHolder ==
  [][blk'.s.sup # blk.s.sup =>
       \/ last'.k \in {"issue", "repl"} /\ last'.f = Ctx.issuer /\ last'.amt > 0 /\ blk'.s.sup = blk.s.sup + last'.amt
       \/ last'.k = "axfer" /\ last'.t = Ctx.zero /\ last'.amt > 0 /\ blk'.s.sup = blk.s.sup - last'.amt
                            /\ blk'.s.eq[last'.f] = blk.s.eq[last'.f] - last'.amt]_vars
FrozenDoesNotMove == [][(blk.s.frz /\ blk'.s.frz) => (blk'.s.eq = blk.s.eq /\ blk'.s.sup = blk.s.sup)]_vars
====
