---- MODULE TraceJournalMiner ----
(* C07 trace specification, miner side.  A "Mine" line is one candidate list walked by the REAL
   TxProcessor.ApplyTxs under the block gas limit of the behaviour (harness/adapters/journal/miner.go), together with
   the same block mined by a second processor / account manager that was offered ONLY the packaged transactions:
     sel inv used            what the miner packaged / reported invalid, gas used           (rsel rinv rused: other miner)
     raw  = [logs, obs]      the journal (type, published encoding, version blanked) and the getter projection of the
                             account universe right after ApplyTxs                           (rraw)
     fin  = [err, pub, obs, hash]  after the real BlockAssembler.Finalize and Seal: published logs with versions,
                             projection with all roots, block hash                           (rfin)
   Demanded: the miner classifies every candidate as the model of the walk does (the gas a dropped candidate bought
   may or may not go back into the pool); the other miner packages the whole list it was offered; journal,
   projection, gas used, published logs, roots and block hash of the two are the same - a dropped candidate, however
   far it got before it failed, leaves no trace.
   Listed deviations (known_findings.txt) are accepted only on the ghost pairs dropped boxes predict and only with
   the predicted outcome (JournalOps.RootDevs). *)
EXTENDS JournalOps, JournalMinerOps, TraceBase
CONSTANT AllowedDev
VARIABLES G, gas, mingas, zero, eroot
tvars == <<G, gas, mingas, zero, eroot, l>>

TReset == /\ Ev("reset")
          /\ E.boxes = Boxes
          /\ G' = E.G /\ gas' = E.gas /\ mingas' = E.mingas /\ zero' = E.zero /\ eroot' = E.emptyroot

TMine == /\ Ev("Mine")
         /\ LET cs == E.a[1]
                ghost == GhostsOfDropped(cs, E.sel)
                ds == RootDevs(E.fin.obs, E.rfin.obs, ghost, zero, eroot)
            IN
            \* the walk: which candidates are packaged, which are reported invalid
            /\ \E restore \in BOOLEAN : LET m == Walk(cs, G, gas, mingas, restore, {}, NoResult) IN m.sel = E.sel /\ m.inv = E.inv
            \* the miner that was offered the packaged list packages all of it
            /\ E.rsel = E.sel /\ E.rinv = <<>> /\ E.rused = E.used
            \* no trace after ApplyTxs: same journal, same projection
            /\ E.raw = E.rraw
            \* no trace in the finished block: projection with roots, published logs, block hash
            /\ E.fin.err = "" /\ E.rfin.err = ""
            /\ ds \subseteq AllowedDev /\ \A d \in ds : UseDev(d)
            /\ SansDifferingRootLogs(E.fin.pub, E.fin.obs, E.rfin.obs) = SansDifferingRootLogs(E.rfin.pub, E.fin.obs, E.rfin.obs)
            /\ ds = {} => E.fin.pub = E.rfin.pub /\ E.fin.hash = E.rfin.hash
         /\ UNCHANGED <<G, gas, mingas, zero, eroot>>

TraceNext == TReset \/ TMine
TraceSpec == l = 1 /\ G = 0 /\ gas = <<>> /\ mingas = 0 /\ zero = "" /\ eroot = "" /\ [][TraceNext]_tvars
====
