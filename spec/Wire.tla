---- MODULE Wire ----
(* C15 - hostile network input.  One remote party talks to one node.  The node is modelled by the
   REACTION THE PROPERTY DEMANDS for every class of input, in every phase of a connection.  A connection is
   opened by either side: the remote party connects to the node (Connect: the node is the ACCEPTING side and
   reads a handshake request, phase PreHs) or the node dials the remote party, whose address it learnt from a
   discover response, the white list or the deputy list on chain (Dial: the node is the DIALING side, sends its
   handshake request and then reads whatever the remote answers, phase OutHs).  After the handshake of either
   direction the same frame reader and protocol manager serve the connection (ProtoHs, Est).  Demanded:

     - the node stays alive (no panic kills the process),
     - no handler ends up waiting for a lock nobody will release (deadlock),
     - what it allocates while consuming the input is bounded by a constant (one maximal frame)
       plus a constant factor times the bytes it actually received,
     - malformed input closes the connection, well-formed input keeps it, the genuine handshakes
       advance it; for decodable-but-absurd input either is fine ("at worst it drops the connection").

   The length-prefixed readers are modelled by their mechanism: a reader allocates the ANNOUNCED
   length before reading iff the announced length passes its limit.  The property needs the limit of
   every reader (also the pre-handshake one) to be the frame limit.

   Classes are rows of the constant Table:
     <<class, phases in which it can be sent, reaction, announced KiB, sent KiB, deviation, effect>>
   A deviation D in Dev switches the effect on (the behaviour of the code as it is today); the design
   run has Dev = {} and all invariants hold; with a deviation on, TLC finds the violated clause
   (negative control).  TLC enumerates every sequence of classes within the bounds; each sequence is
   instantiated as real bytes and replayed on the real node (harness/adapters/wire).

   THE SEQUENCE LAYER (SeqOn).  On an established connection the remote party may also send any sequence of well-framed
   messages whose payloads decode but whose content is arbitrary (WireSeq.tla): BlocksMsg with any list of block
   descriptors (SBlocks: junk of any height on any parent, several per height, repetitions, and the valid blocks a
   remote deputy can produce, in any order), ConfirmMsg for any of them (SConfirm), interleaved with single-message
   classes (SeqMix), with the manager's own queue timer (Tick) and with reconnects (the node's state outlives the
   connection).  The state these sequences act on is pm: the abstract content of the protocol manager's block cache and
   confirm cache and what the chain has.  The design keeps the node alive and its state within the envelope of
   WireSeq (SeqEnvelope); TLC's state graph over pm makes the engine reach every abstract cache content with every
   message, which is then replayed on the real node.

   THE RECEIVE-SIDE LAYER (RxOn).  Everything the node SENDS - its handshake response, its protocol handshake, the answers to
   requests (status, blocks, confirm packs, discover response), its own requests, heartbeats, broadcasts - is a write to the
   connection, and the remote party decides what becomes of it ON ITS RECEIVING SIDE: it takes the bytes (rx = "read"); it stops
   reading, so that the node's write makes no progress until the deadline the node gave it (StopReading, rx = "stall"); it
   refuses them - the connection is reset / half-closed in the node's sending direction, every write fails at once while the
   node can still read what the remote sends (ResetConn, rx = "rst"); or it hangs up altogether (HangUp) - at any moment, in
   every phase, in particular while an answer is in flight (pend).  It may also start reading again (Resume), wait until
   the node's write deadline has passed (Deadline) or stay silent without reading until the node gives up (StallOut).
   Demanded (bounded time, judged from observations taken once the node's deadline plus a grace period is over): no write
   of the node is still waiting, no goroutine of the node waits for a lock (the design: a failed write makes the writer
   drop the connection WITHOUT re-entering the peer's write lock), malformed input sent meanwhile still gets the connection
   closed, a connection the remote hung up is closed and its peer forgotten, and the node goes on serving (reconnect probe). *)
EXTENDS Integers, Sequences, FiniteSets, TLC, WireSeq

CONSTANTS Table,        \* see above
          Carriers,     \* classes (kept, or "any") after which the enumeration continues on the same connection
          Heavy,        \* expensive classes: only as the first input of a phase
          Probe,        \* [phase |-> class]: what a second connection sends: the genuine handshakes and one request
          MaxIn,        \* [direction |-> [phase |-> max number of inputs while staying in that phase]]
          Dirs,         \* directions in which the first connection is opened: subset of {"in", "out"}
          CrossProbe,   \* TRUE: the second connection is opened in either direction, FALSE: in the direction of the first
          MaxConns, ProbeAfter,
          MaxFrameK, SlackK, C,   \* allocation bound: MaxFrameK + SlackK + C * KiB received in the step
          HsLimitDevK,  \* the pre-handshake length limit of today's code (1 GiB), used by the deviation only
          Dev,
          SeqOn,        \* TRUE: the sequence layer is enumerated on an established connection (instead of the Est classes outside SeqMix)
          SeqBlocks,    \* the universe of block descriptors
          SeqMsgs,      \* the BlocksMsg payloads: a set of sequences over SeqBlocks
          SeqConfirms,  \* the ConfirmMsg payloads: a set of pairs <<block descriptor, signer>>
          SeqMix,       \* single-message classes interleaved with the sequence layer
          RxOn,         \* TRUE: the receive-side layer is enumerated (on the first connection)
          Answering,    \* classes after which the node writes to the connection (an answer, or a request of its own)
          RxMax,        \* max number of receive-side actions in a behaviour
          RxBystander,  \* TRUE: a second, well-behaved remote party (the bystander) may be connected as well
          RxStallOut    \* TRUE: StallOut is enumerated (it costs the node's heartbeat interval plus its retries in real time)

VARIABLES phase,   \* "Idle" | "PreHs" | "OutHs" | "ProtoHs" | "Est" | "Closed" | "Undet" (closed or kept, both acceptable) | "Done"
          dir,     \* who opened the current connection: "in" the remote party (node accepts), "out" the node (it dialed); "none" before
          alive, stuck, allocK, recvK,   \* node still running / a handler deadlocked / KiB allocated resp. received in the last step
          n, conns, hist,
          pm,      \* sequence layer: abstract out-of-order state of the protocol manager [known, stable, bc, cc] (WireSeq)
          univ,    \* = SeqBlocks, constant; in the state so that the binding reads the universe from the initial state
          rx,      \* receive-side layer: what the remote does with the node's writes: "read" | "stall" | "rst"
          pend,    \* "none", or the class whose answer is in flight: a write of the node which the remote does not take
          rxn,     \* receive-side actions so far
          by       \* the bystander: "no" not connected | "yes" connected and served | "owed" a transaction the remote sent has still to be passed on to it
vars == <<phase, dir, alive, stuck, allocK, recvK, n, conns, hist, pm, univ, rx, pend, rxn, by>>
\* in the sequence layer the history does not matter (a second connection is a full one, not a probe)
SeqView == <<phase, dir, alive, stuck, n, pm>>
\* in the receive-side layer it does not matter either: what matters of the past is what the remote does with the node's writes and which answer is in flight
RxView == <<phase, dir, alive, stuck, n, conns, rx, pend, rxn, by>>

HsPhases == {"PreHs", "OutHs"}                    \* the node reads a handshake packet: a request (accepting) resp. a response (dialing)
OpenPhases == {"PreHs", "OutHs", "ProtoHs", "Est"}

Classes == {t[1] : t \in Table}
Rows(c, ph) == {t \in Table : t[1] = c /\ ph \in t[2]}
NextPhase(ph) == CASE ph \in HsPhases -> "ProtoHs" [] ph = "ProtoHs" -> "Est" [] OTHER -> ph
Bound(rk) == MaxFrameK + SlackK + C * rk

Init == /\ phase = "Idle" /\ dir = "none" /\ alive = TRUE /\ stuck = FALSE /\ allocK = 0 /\ recvK = 0
        /\ n = 0 /\ conns = 0 /\ hist = <<>>
        /\ pm = PmInit /\ univ = SeqBlocks
        /\ rx = "read" /\ pend = "none" /\ rxn = 0 /\ by = "no"

\* The node receives one input of class c.
Recv(c) ==
  /\ alive /\ ~stuck
  /\ phase \in OpenPhases
  /\ n < MaxIn[dir][phase]
  /\ c \in Heavy => n = 0
  /\ (conns > 1 /\ ~SeqOn) => c = Probe[phase]
  /\ (SeqOn /\ phase = "Est") => c \in SeqMix
  /\ (RxOn /\ conns = 1 /\ phase = "Est") => c \in SeqMix                          \* receive-side layer: SeqMix = what the remote sends meanwhile
  /\ (RxOn /\ conns = 1 /\ phase = "ProtoHs") => c \in SeqMix \cup {"Phs_Good"}
  /\ \E t \in Rows(c, phase) :
       LET react == t[3]  annK == t[4]  sentK == t[5]
           eff == IF t[6] \in Dev THEN t[7] ELSE "none"
           limitK == IF eff = "alloc" /\ phase \in HsPhases THEN HsLimitDevK ELSE MaxFrameK
           \* a length-prefixed reader allocates the announced length iff it passes the limit; processing costs <= C per KiB received
           al == (IF annK <= limitK THEN annK ELSE 0) + (IF eff = "alloc" /\ phase \notin HsPhases THEN Bound(sentK) + 1 ELSE C * sentK)
           np0 == CASE react = "close" -> "Closed"
                   [] react = "any"   -> IF c \in Carriers /\ conns = 1 /\ phase = "Est" THEN phase ELSE "Undet"   \* enumeration goes on as if kept
                   [] react = "adv"   -> IF c \in Carriers THEN NextPhase(phase) ELSE "Done"
                   [] react = "keep"  -> IF c \in Carriers /\ conns = 1 THEN phase ELSE "Done"
           \* receive side: an answer that is refused drops the connection; behind a write in flight the closing of a malformed
           \* input waits for the peer's write lock (until the deadline of that write): closed now or then
           nq == CASE rx = "rst" /\ c \in Answering -> "Undet"
                   [] rx = "stall" /\ pend # "none" /\ np0 = "Closed" -> "Undet"
                   [] OTHER -> np0
       IN /\ alive' = (eff # "panic")
          /\ stuck' = (eff = "stuck")
          /\ allocK' = al /\ recvK' = sentK
          /\ phase' = nq
          /\ n' = IF nq = phase THEN (IF SeqOn /\ phase = "Est" THEN n ELSE n + 1) ELSE 0
          /\ pend' = IF nq \in OpenPhases THEN (IF pend = "none" /\ rx = "stall" /\ c \in Answering THEN c ELSE pend) ELSE "none"
          /\ rx' = IF nq \in OpenPhases THEN rx ELSE "read"
          \* a good transaction is passed on to every peer: behind a write to a remote that does not read the bystander gets it once that write is over
          /\ by' = CASE by = "yes" /\ c = "Txs_Good" /\ phase = "Est" /\ rx = "stall" /\ nq \in OpenPhases -> "owed"
                      [] by = "owed" /\ nq \notin OpenPhases -> "yes"
                      [] OTHER -> by
  /\ hist' = IF SeqOn \/ RxOn THEN hist ELSE Append(hist, c)
  /\ UNCHANGED <<conns, dir, pm, univ, rxn>>

\* A connection is opened in direction d: at the start, and again after the node closed (or may have closed) the previous
\* one - the node must still serve the remote party (and still be able to dial it).
CanOpen(d) ==
  /\ alive /\ ~stuck
  /\ \/ phase = "Idle" /\ d \in Dirs
     \/ phase \in {"Closed", "Undet"} /\ ~SeqOn /\ conns < MaxConns /\ Len(hist) <= ProbeAfter /\ (CrossProbe \/ d = dir) = TRUE
     \/ phase \in {"Closed", "Undet"} /\ SeqOn /\ d \in Dirs      \* sequence layer: the remote party comes back as often as it likes
\* the remote party connects: the node accepts and waits for a handshake request
Connect ==
  /\ CanOpen("in")
  /\ phase' = "PreHs" /\ dir' = "in"
  /\ conns' = (IF SeqOn THEN 1 ELSE conns + 1) /\ n' = 0 /\ hist' = (IF SeqOn \/ RxOn THEN hist ELSE Append(hist, "Connect"))
  /\ allocK' = 0 /\ recvK' = 0
  /\ rx' = "read" /\ pend' = "none"
  /\ UNCHANGED <<alive, stuck, pm, univ, rxn, by>>
\* the node dials the remote party: it sends its handshake request and waits for the response
Dial ==
  /\ CanOpen("out")
  /\ phase' = "OutHs" /\ dir' = "out"
  /\ conns' = (IF SeqOn THEN 1 ELSE conns + 1) /\ n' = 0 /\ hist' = (IF SeqOn \/ RxOn THEN hist ELSE Append(hist, "Dial"))
  /\ allocK' = 0 /\ recvK' = 0
  /\ rx' = "read" /\ pend' = "none"
  /\ UNCHANGED <<alive, stuck, pm, univ, rxn, by>>

\* ------------------------------------------------------------------ the receive-side layer
RxReady == RxOn /\ alive /\ ~stuck /\ phase \in OpenPhases /\ conns = 1 /\ rxn < RxMax
\* Deviation (negative control only): the writer of a failed write re-enters the peer's write lock and waits for itself
RxFail == pend # "none" /\ "Dev_FailedWriteSelfDeadlock" \in Dev
RxStep(nph, nrx) ==
  /\ phase' = nph /\ rx' = (IF nph \in OpenPhases THEN nrx ELSE "read") /\ pend' = "none" /\ rxn' = rxn + 1
  /\ stuck' = RxFail
  /\ allocK' = 0 /\ recvK' = 0 /\ n' = (IF nph = phase THEN n ELSE 0)
  /\ by' = (IF by = "owed" /\ ~RxFail THEN "yes" ELSE by)          \* whatever was held up behind the write in flight goes on
  /\ UNCHANGED <<dir, alive, conns, pm, univ, hist>>
\* the remote stops taking bytes off the connection.  (Not while the node still has to answer the encryption handshake of an
\* accepted connection: that one write has no deadline in the design either - the packet is smaller than any send buffer.)
StopReading ==
  /\ RxReady /\ rx = "read" /\ phase \in {"OutHs", "ProtoHs", "Est"}
  /\ rx' = "stall" /\ rxn' = rxn + 1
  /\ allocK' = 0 /\ recvK' = 0
  /\ UNCHANGED <<phase, dir, alive, stuck, n, conns, pm, univ, pend, hist, by>>
\* a second remote party connects and behaves (genuine handshakes, reads everything): it must be served whatever the first one does
Bystander ==
  /\ RxOn /\ RxBystander /\ alive /\ ~stuck /\ phase = "Est" /\ conns = 1 /\ rx = "read" /\ rxn = 0 /\ n = 0 /\ by = "no"
  /\ by' = "yes" /\ allocK' = 0 /\ recvK' = 0
  /\ UNCHANGED <<phase, dir, alive, stuck, n, conns, hist, pm, univ, rx, pend, rxn>>
\* the remote starts reading again: what was in flight is delivered - unless its deadline passed meanwhile
Resume == RxReady /\ rx = "stall" /\ RxStep(IF pend # "none" THEN "Undet" ELSE phase, "read")
\* the node's sending direction is reset: the write in flight and every later one fail at once; a failed answer drops the connection
ResetConn == RxReady /\ rx \in {"read", "stall"} /\ RxStep(IF pend # "none" THEN "Undet" ELSE phase, "rst")
\* the remote hangs up: the node must notice, give up what is in flight and close its end
HangUp == RxReady /\ RxStep("Closed", "read")
\* the deadline the node gave its write in flight passes: the write fails, its caller drops the connection (or, for a request of
\* the node's own, may keep it: the heartbeat will find out)
Deadline == RxReady /\ rx = "stall" /\ pend # "none" /\ RxStep("Undet", "stall")
\* the remote neither reads nor sends until the node gives up: the heartbeat cannot be written, the node drops the connection
StallOut == RxReady /\ RxStallOut /\ rx = "stall" /\ phase = "Est" /\ RxStep("Closed", "read")

\* ------------------------------------------------------------------ the sequence layer
SeqReady == SeqOn /\ alive /\ ~stuck
\* a message of <= 1 KiB is processed within the bound
SeqCost == allocK' = C /\ recvK' = 1
\* one BlocksMsg carrying the blocks ds in this order
SBlocks(ds) ==
  /\ SeqReady /\ phase = "Est"
  /\ LET r == Deliver(pm, ds, 1) IN
       /\ pm' = r.pm
       /\ phase' = IF r.drop THEN "Undet" ELSE phase       \* the designed reaction to a "different genesis" block is to drop the peer
       /\ Assert(IdsEnvelope({BId(d) : d \in r.pm.bc}, {BId(d) : d \in pm.bc}, ds, pm.known, pm.stable)
                 /\ CountEnvelope(Cardinality(r.pm.bc), Cardinality(r.pm.cc), Cardinality(pm.bc), Cardinality(pm.cc), Len(ds), 0),
                 "the design leaves the envelope")
  /\ SeqCost /\ UNCHANGED <<dir, alive, stuck, n, conns, hist, univ, rx, pend, rxn, by>>
\* one ConfirmMsg for block d "signed" by s
SConfirm(d, s) ==
  /\ SeqReady /\ phase = "Est"
  /\ pm' = Confirm(pm, d, s)
  /\ Assert(CountEnvelope(Cardinality(pm'.bc), Cardinality(pm'.cc), Cardinality(pm.bc), Cardinality(pm.cc), 0, 1), "the design leaves the envelope")
  /\ SeqCost /\ UNCHANGED <<phase, dir, alive, stuck, n, conns, hist, univ, rx, pend, rxn, by>>
\* the manager's queue timer passes (it runs whether or not a peer is connected).  Deviation: a pass that empties two
\* height slots of the cache kills the node (removal from the slot list while ranging over it).
Tick ==
  /\ SeqReady /\ phase \in {"Est", "Closed", "Undet"}
  /\ pm' = TickPm(pm)
  /\ Assert(IdsEnvelope({BId(d) : d \in pm'.bc}, {BId(d) : d \in pm.bc}, <<>>, pm.known, pm.stable)
            /\ CountEnvelope(Cardinality(pm'.bc), Cardinality(pm'.cc), Cardinality(pm.bc), Cardinality(pm.cc), 0, 0), "the design leaves the envelope")
  /\ alive' = ~("Dev_CachePassEmptiesTwoSlots" \in Dev /\ Cardinality(EmptiedSlots(pm)) >= 2)
  /\ allocK' = 0 /\ recvK' = 0
  /\ UNCHANGED <<phase, dir, stuck, n, conns, hist, univ, rx, pend, rxn, by>>

Next == \/ Connect \/ Dial \/ \E c \in Classes : Recv(c)
        \/ \E ds \in SeqMsgs : SBlocks(ds)
        \/ \E c \in SeqConfirms : SConfirm(c[1], c[2])
        \/ Tick
        \/ StopReading \/ Resume \/ ResetConn \/ HangUp \/ Deadline \/ StallOut \/ Bystander
Spec == Init /\ [][Next]_vars

\* ------------------------------------------------------------------ the clauses of the property
NodeAlive == alive
NoDeadlock == ~stuck
AllocBounded == allocK <= Bound(recvK)
\* a closed connection stays closed; only the genuine handshakes advance a connection
ClosedIsFinal == [][phase = "Closed" => phase' \in {"Closed", "PreHs", "OutHs"}]_vars
OnlyHandshakesAdvance ==
  [][/\ (phase' = "Est" /\ phase = "ProtoHs") => \E t \in Rows(hist'[Len(hist')], "ProtoHs") : t[3] = "adv"
     /\ (phase' = "ProtoHs" /\ phase # "ProtoHs") => phase \in HsPhases /\ \E t \in Rows(hist'[Len(hist')], phase) : t[3] = "adv"
     /\ phase' = "PreHs" => dir' = "in"
     /\ phase' = "OutHs" => dir' = "out"]_vars
TypeOK == /\ phase \in {"Idle", "PreHs", "OutHs", "ProtoHs", "Est", "Closed", "Undet", "Done"}
          /\ dir \in {"none", "in", "out"} /\ (dir = "none") = (phase = "Idle")
          /\ Dirs \subseteq {"in", "out"} /\ CrossProbe \in BOOLEAN
          /\ \A t \in Table : t[3] \in {"close", "keep", "adv", "any"} /\ t[7] \in {"none", "panic", "stuck", "alloc"}
                              /\ t[2] \subseteq OpenPhases
          /\ Carriers \subseteq Classes /\ Heavy \subseteq Classes /\ \A p \in DOMAIN Probe : Probe[p] \in Classes
          /\ SeqOn \in BOOLEAN /\ SeqMix \subseteq Classes /\ univ = SeqBlocks
          /\ \A ds \in SeqMsgs : \A i \in 1..Len(ds) : ds[i] \in SeqBlocks
          /\ \A c \in SeqConfirms : c[1] \in SeqBlocks
          /\ RxOn \in BOOLEAN /\ RxStallOut \in BOOLEAN /\ RxBystander \in BOOLEAN /\ by \in {"no", "yes", "owed"} /\ rx \in {"read", "stall", "rst"} /\ pend \in Answering \cup {"none"} /\ rxn \in 0..RxMax
          /\ pm.bc \subseteq SeqBlocks /\ pm.known \subseteq {BId(d) : d \in SeqBlocks} \cup {"G"} /\ pm.stable \in Nat
\* ------------------------------------------------------------------ the receive-side layer: what the design maintains
\* a write can only be left in flight by a remote that does not read, on an open connection
RxPendOnlyStalled == pend # "none" => rx = "stall" /\ phase \in OpenPhases
\* bounded time: once the remote hung up, reset the connection, resumed, or the deadline passed, nothing of the node is in flight
\* any more - and nobody waits (NoDeadlock)
\* the bystander is unaffected: something is owed to it only while a write to a remote that does not read is in flight
RxBystanderServed == by = "owed" => rx = "stall" /\ pend # "none" /\ phase \in OpenPhases
RxSettles == [][rxn' > rxn /\ rx' # "stall" => pend' = "none"]_vars
RxDeadlineSettles == [][(rxn' > rxn /\ rx = "stall" /\ rx' = "stall" /\ phase' # phase) => pend' = "none"]_vars
\* ------------------------------------------------------------------ the sequence layer: what the design maintains
\* only blocks that have to wait are kept: above the stable height, not a "different genesis" block, not on the chain
SeqCacheWaiting == \A d \in pm.bc : BH(d) > 1 /\ BH(d) > pm.stable /\ BId(d) \notin pm.known
\* a confirm is kept only while the chain does not have the block (or it was filed under a height that is not the block's)
SeqConfirmsWaiting == \A c \in pm.cc : BId(c[1]) \notin pm.known \/ CH(c) # BH(c[1])
\* valid blocks are accepted along the parent relation only
SeqChainLinear == \A d \in SeqBlocks : BId(d) \in pm.known => BValid(d) /\ BP(d) \in pm.known
\* a pass of the timer leaves nothing in the cache whose parent the chain had before the pass
SeqTickDrains == [][(pm' # pm /\ phase' = phase /\ allocK' = 0 /\ recvK' = 0 /\ SeqOn) => \A d \in pm'.bc : BP(d) \notin pm.known]_vars
====
