SPECIFICATION Spec
CONSTANTS Ops <- AllOps
 FullOps <- AllOps
 FullData = {}
 SampleMod = 1
 SampleSeed = 0
 Model = "exact"
INVARIANTS TypeOK RangesDecided TinyNeverBetter StaticRefusesWrites StaticOnlyAddsFailures ReturnDataBounds PaddedCopies ZeroLengthIsFree ContentsDefined ImplBoundsAgree TailDestsInvalid ShapeDoesNotDecide
CHECK_DEADLOCK FALSE
