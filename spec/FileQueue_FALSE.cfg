SPECIFICATION Spec
CONSTANTS Key = {"x", "y"}
 MaxVal = 3
 MaxPuts = 3
 EarlyDrop = FALSE
INVARIANTS ReadLatest IndexCounts
CHECK_DEADLOCK FALSE
