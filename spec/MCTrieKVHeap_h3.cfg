SPECIFICATION Spec
CONSTANTS Keys <- Keys3
 Vals = {"L"}
 Path <- McPath
 NH = 3
 InPlace = {}
INVARIANTS TypeOK HandlesIndependent
CHECK_DEADLOCK FALSE
