---- MODULE MCForkView ----
EXTENDS ForkView
CONSTANTS AddrN, Mixed
McAddrs == 1..AddrN
\* every account persisted, or (Mixed) additionally a state where the odd-numbered ones do not exist yet
McInitStable == {[a \in McAddrs |-> a]} \cup (IF Mixed THEN {[a \in McAddrs |-> IF a % 2 = 0 THEN a ELSE 0]} ELSE {})
====
