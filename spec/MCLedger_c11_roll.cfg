SPECIFICATION Spec
CONSTANTS Ctx <- McCtx
 Init0 <- McInit
 Gas <- McGas
 Devs = {}
 Kinds = {"xfer", "box"}
 From = {"a1", "a2"}
 XTo = {"a2", "a3", "a4"}
 XAmt = {100}
 Payers = {}
 Voters = {}
 Cands = {}
 RegAmt = {}
 AFrom = {}
 ATo = {}
 AAmt = {}
 IAmt = {}
 ACodes = {}
 AIds = {}
 BGL = {}
 BoxFrom = {"a4"}
 BoxTo = {}
 BoxSeqs <- McBoxVoteQ
 SpendFrom = {}
 RewFrom = {}
 RewTerms = {}
 RewAmt = {}
 EmptyOK = FALSE
 MaxTx = 2
 MaxBlk = 2
 MaxTot = 2
VIEW View
INVARIANTS NonNegative Conservation DepositsBacked VotesAtBoundary SupplyEqualsEquity NothingForbiddenIncluded
PROPERTIES EndOfBlockIssuesTheReward GasWithinLimit NotIncludedIsFree OnlyOwnEquityDecreases SupplyChangesOnlyByIssuerOrHolder FrozenDoesNotMove
CHECK_DEADLOCK FALSE
