SPECIFICATION Spec
CONSTANTS Atoms = {"a", "b", "c"}
 N = 7
INVARIANTS NodeCount EveryLeafBound ProofsVerify AlteredFails RootBindsList
CHECK_DEADLOCK FALSE
