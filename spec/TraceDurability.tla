---- MODULE TraceDurability ----
(* C08 durability.  Validates records of REAL crash experiments on store.ChainDatabase:

     ref       the never-stopped reference: block hashes, the observation a node presents when block h is its
               stable block (obs_at), the final observation of the uncrashed script; the layout of tmp.data as the
               real code wrote it while the async writer was held back (unpadded length of every record) and the
               records whose payloads were steered onto the length classes of spec/Durability.tla
     reset     one crash case (schedule of the async writer, armed hit, torn class)
     Workload  what the workload process had logged as completed when it died
     Crash     the crash point the verif hook reports (tag, bytes of a torn write, where the main thread was)
     Recrash   a second crash while the directory was being reopened (crash during recovery)
     Recover   what a fresh process sees when it reopens the directory; wal = the complete records the dead process
               left in tmp.data (their unpadded lengths, read before the real code touched the file) and
               FileQueue.Offset after the recovery scan; casks = size and current offsets of every bitcask data
               file after the replay has drained
     Continue  the rest of the script fed to the restarted node: hashes it computes, final observation

   The clauses of the property are the operators Opens / StableNotOlder / StableClosed / ContinuationEqual; they
   are evaluated by TLC on the logged real results.  The drivers never compare anything.

   Named deviations (known findings) are keyed by the crash-point class (the window of spec/Durability.tla in
   which the main thread was) AND the kind of failure observed; any other failure is a violation. *)
EXTENDS TraceBase
CONSTANT AllowedDev
VARIABLES ref, w, c, r, ph
tvars == <<ref, w, c, r, ph, l>>

NoRef == [none |-> TRUE]
Obs(h) == ref.obs_at[h + 2]                      \* obs_at[1] is the empty database (stable_h = -1)
NB == Len(ref.hash) - 1
Has(e, f) == f \in DOMAIN e

(* ---------------------------------------------------------------- the 256-byte record format
   tmp.data and the bitcask files: head+body padded to the next multiple of 256.  Length classes as in Durability.tla. *)
Slot == 256
Align(n) == ((n + Slot - 1) \div Slot) * Slot
Cls(n) == LET m == n % Slot IN IF m = 0 THEN "on" ELSE IF m = Slot - 1 THEN "below" ELSE IF m = 1 THEN "above" ELSE "off"
ClsName(n) == IF n = 0 THEN "on" ELSE IF n = -1 THEN "below" ELSE IF n = 1 THEN "above" ELSE "off"
\* the recovery scan, record by record: from the record at off to the next one (Durability.tla: Stride, ScanWalk)
RECURSIVE ScanEnd(_, _, _)
ScanEnd(lens, i, off) == IF i > Len(lens) THEN off ELSE ScanEnd(lens, i + 1, off + Align(lens[i]))
\* an uncrashed file is exactly its records, each padded to the next boundary
\* (stop = why the harness's reader stopped: "eof" = at the end of the file, after the last record)
LayoutOK(lay) == lay.stop = "eof" /\ Len(lay.lens) = Len(lay.flgs) /\ ScanEnd(lay.lens, 1, 0) = lay.size
\* the steered records really have the lengths k*256-1 / k*256 / k*256+1 on disk ...
TargetsHit(ts) == \A i \in 1..Len(ts) : Cls(ts[i].len) = ClsName(ts[i].cls)
\* ... and every record kind of the pipeline occurs in every class
BoundaryCovered(ts) == \A k \in {"code", "trie", "acct", "blk"}, cl \in {-1, 0, 1} :
                          \E i \in 1..Len(ts) : ts[i].kind = k /\ ts[i].cls = cl
\* Durability.tla OffsetAtEnd on the real store: after the scan the append offset is the end of the last complete
\* record the dead process left (no hole in front of the next write, no record overwritten by it)
WalOK(e) == Has(e, "wal") => e.wal.offset = ScanEnd(e.wal.lens, 1, 0)
\* the bitcask data files once the async writer has moved everything (Durability.tla: file, curDisk, curMem, Advance):
\* the persisted CurrentPos lies at or behind the end of everything ever written to the file - the next record
\* overwrites nothing (an offset advanced by less than the padded record, or a replay that was appended instead of
\* written in place, leave bytes behind it) - and the in-memory CurOffset agrees with it.
\* (cur, mem = <<offset, file index>>; n, stop = the harness's walk over the file: not judged)
CaskOK(k) == k.cur[1] >= k.size /\ k.mem = k.cur
CasksOK(e) == Has(e, "casks") => \A j \in 1..Len(e.casks) : CaskOK(e.casks[j])

(* ---------------------------------------------------------------- the property's clauses *)
Opens(e) == e.opened /\ ~e.died /\ ~Has(e, "obs_panic")

StableNotOlder(o) == o.stable_h >= w.promote_done
StableBegun(o) == o.stable_h <= w.promote_begun             \* nothing becomes stable that was never promoted

ConfirmsOK(o) ==
  \A i \in 1..Len(o.confirms) :
     o.confirms[i] \in (IF (i - 1) \in ToSet(w.conf_done) THEN {2}
                        ELSE IF (i - 1) \in ToSet(w.conf_begun) THEN {0, 2} ELSE {0})

\* ref.hash are the hashes computed when the blocks were built, not database reads
Chain(k) == SubSeq(ref.hash, 1, k + 1)
ChainClosed(o, x) == /\ o.stable_hash = (IF o.stable_h >= 0 THEN ref.hash[o.stable_h + 1] ELSE "")
                     /\ o.by_height = Chain(o.stable_h) /\ o.by_hash = Chain(o.stable_h)
                     /\ o.stable_h = x.stable_h /\ o.vtrie = x.vtrie
\* (heights_ahead / hashes_ahead: blocks above the stable one that the store already answers for by height / by hash)
StateExact(o, x) == /\ o.accounts = x.accounts /\ o.code = x.code /\ o.storage = x.storage
                    /\ o.heights_ahead = 0 /\ o.hashes_ahead = 0
CandidatesExact(o, x) == o.cands = x.cands /\ o.top = x.top

\* block, ancestors by hash and by height, accounts as of exactly that block, code, trie nodes, candidates
StableClosed(o) == LET x == Obs(o.stable_h) IN
                   ChainClosed(o, x) /\ StateExact(o, x) /\ CandidatesExact(o, x) /\ ConfirmsOK(o)

RecOK(e) == /\ Opens(e)
            /\ StableNotOlder(e.obs) /\ StableBegun(e.obs)
            /\ StableClosed(e.obs)
            /\ e.obs_drained = e.obs                         \* same answers from the WAL index and from the bitcask files

RestHashes(k) == SubSeq(ref.hash, k + 2, Len(ref.hash))
ContinuationEqual(e, k) == /\ ~e.died /\ ~Has(e, "cont_panic")
                           /\ e.from = k /\ e.errors = <<>>
                           /\ e.hashes = RestHashes(k)
                           /\ e.final = ref.final
                           /\ e.reopened = ref.final              \* and again after a clean stop and restart

(* ---------------------------------------------------------------- crash-point classes *)
\* the hook tore the tmp.data write, or another thread died while the main thread was inside that write(2)
\* (the kernel then completes only whole pages of it: observed on the real store)
TornWal == \/ c.tag = "wal.write" /\ c.torn > 0
           \/ c.main_last = "wal.write" /\ c.tag # "wal.write"
\* main thread between "batch appended to tmp.data" and "stable pointer moved" (Durability.tla: between Batch(b) and SetPtr(b), pc = "ptr")
BatchWindow == c.main_last \in {"wal.write", "wal.synced", "stable.ptr.pre"}
\* main thread between "stable pointer moved" and "context.data flushed" (pc \in {"ctxhead","ctxbody"})
\* (main_last is the last hook the main thread had PASSED when the process died; when another thread died at its own
\*  hook the main thread may already have performed the operation that follows main_last)
PtrWindow == \/ c.main_last \in {"stable.ptr.set", "ctx.head", "ctx.body"}
             \/ c.main_last = "stable.ptr.pre" /\ c.tag # "stable.ptr.pre"
CtxWindow == c.main_last \in {"ctx.created", "ctx.head", "ctx.body"}

(* ---------------------------------------------------------------- named deviations *)
\* a torn tail of tmp.data whose record body does not decode: FileQueue.Start panics on every open
DevTornWalPanics(e) == TornWal /\ ~e.opened /\ ~e.died /\ e.site = "(*FileQueue).Start"

\* a torn / half-written context.data: NewRunContext (or GetCandidates) panics on every open
\* (site = innermost function of package store on the panic stack, panic_head = panic message up to its first colon)
DevTornCtxPanics(e) == /\ CtxWindow /\ ~e.opened /\ ~e.died
                       /\ \/ e.site \in {"(*CandidateCache).Decode", "(*RunContext).load", "NewRunContext"}
                          \/ e.site = "NewChainDataBase" /\ e.panic_head = "get candidates err"

EitherAcct(o, k) == \A a \in DOMAIN o.accounts :
                       \/ o.accounts[a] = Obs(k).accounts[a]
                       \/ k < NB /\ o.accounts[a] = Obs(k + 1).accounts[a]

\* tmp.data records are not checksummed on replay: a torn record whose zero-filled body still parses is redelivered.
\* Seen as: the async writer dies in afterWriteExtend on every open, the stable block (torn confirm rewrite) or an
\* account no longer decodes.
DevTornRecordAccepted(e) ==
  /\ TornWal
  /\ \/ e.died /\ e.site = "(*SyncFileDB).afterWriteExtend"
     \/ ~e.opened /\ ~e.died /\ e.site = "NewChainDataBase" /\ e.panic_head = "get stable block err"  \* the rewritten stable block no longer decodes
     \/ /\ Opens(e) /\ StableNotOlder(e.obs) /\ StableBegun(e.obs)
        /\ ChainClosed(e.obs, Obs(e.obs.stable_h))
        /\ \E a \in DOMAIN e.obs.accounts : ~e.obs.accounts[a].ok
        /\ \A a \in DOMAIN e.obs.accounts :
              \/ ~e.obs.accounts[a].ok
              \/ e.obs.accounts[a] = Obs(e.obs.stable_h).accounts[a]
              \/ e.obs.stable_h < NB /\ e.obs.accounts[a] = Obs(e.obs.stable_h + 1).accounts[a]

\* the batch (block, height index, accounts of block k+1) is durable in tmp.data before the stable pointer moves and
\* recovery redelivers it - or, of a torn batch, its complete records - without moving the pointer: stable block k,
\* account data (partly) as of k+1.  When the write was torn right after the block record the only trace is the block
\* of height k+1 answering by hash (hashes_ahead): ChainDatabase.SetBlock then refuses that block as existing - at
\* k = -1 the genesis block: chain.SetupGenesisBlock panics on every start.
DevBatchAhead(e) ==
  /\ BatchWindow
  /\ Opens(e) /\ StableNotOlder(e.obs) /\ StableBegun(e.obs)
  /\ LET o == e.obs  k == e.obs.stable_h IN
       /\ ChainClosed(o, Obs(k)) /\ CandidatesExact(o, Obs(k)) /\ ConfirmsOK(o)
       /\ EitherAcct(o, k)
       /\ \A a \in DOMAIN o.accounts : o.accounts[a].ok
       /\ o.code \in {Obs(k).code} \cup (IF k < NB THEN {Obs(k + 1).code} ELSE {})
       /\ o.storage \in {Obs(k).storage} \cup (IF k < NB THEN {Obs(k + 1).storage} ELSE {})
       /\ o.heights_ahead \in {0, 1} /\ o.hashes_ahead \in {0, 1}
       /\ ~StateExact(o, Obs(k))

\* the stable pointer moves before context.data is rewritten and nothing re-derives it on restart:
\* stable block k with the candidate list of an older block (or a torn mixture that still decodes)
DevStaleCandidates(e) ==
  /\ PtrWindow
  /\ Opens(e) /\ StableNotOlder(e.obs) /\ StableBegun(e.obs)
  /\ LET o == e.obs  k == e.obs.stable_h IN
       /\ k >= 0
       /\ ChainClosed(o, Obs(k)) /\ StateExact(o, Obs(k)) /\ ConfirmsOK(o)
       /\ ~CandidatesExact(o, Obs(k))
       /\ ToSet(o.cands) \subseteq ToSet(Obs(k).cands) \cup ToSet(Obs(k - 1).cands)
  /\ e.obs_drained = e.obs

(* ---------------------------------------------------------------- trace actions *)
TRef == /\ Ev("ref") /\ ph \in {"none", "done"}
        /\ LayoutOK(E.layout) /\ TargetsHit(E.targets) /\ BoundaryCovered(E.targets)
        /\ ref' = E /\ ph' = "done" /\ UNCHANGED <<w, c, r>>
TReset == /\ Ev("reset") /\ ph = "done" /\ ref # NoRef
          /\ ph' = "start" /\ UNCHANGED <<ref, w, c, r>>
TWorkload == /\ Ev("Workload") /\ ph = "start"
             /\ E.promote_done <= E.promote_begun
             /\ w' = E /\ ph' = "ran" /\ UNCHANGED <<ref, c, r>>
TCrash == /\ Ev("Crash") /\ ph = "ran"
          /\ c' = E /\ ph' = "crashed" /\ UNCHANGED <<ref, w, r>>
TNoCrash == /\ Ev("NoCrash") /\ ph = "ran"              \* the script ran to its end; the process exited without Close()
            /\ w.promote_done = ref.final.stable_h
            /\ c' = [tag |-> "end", torn |-> 0, main_last |-> "end"] /\ ph' = "crashed" /\ UNCHANGED <<ref, w, r>>
TRecrash == /\ Ev("Recrash") /\ ph = "crashed"          \* crash during recovery: the class of the first crash stands
            /\ UNCHANGED <<ref, w, c, r, ph>>
Verdict(e, dev) == r' = [dev |-> dev, k |-> IF e.opened /\ ~e.died /\ Has(e, "obs") THEN e.obs.stable_h ELSE -2]
Down(e) == ~e.opened \/ e.died \/ Has(e, "obs_panic")
Dev(e, key, cond) == ~RecOK(e) /\ key \in AllowedDev /\ cond /\ UseDev(key) /\ Verdict(e, key)
TRecover ==
  /\ Ev("Recover") /\ ph = "crashed"
  /\ WalOK(E) /\ CasksOK(E)                            \* no named deviation excuses a wrong append offset
  /\ \/ RecOK(E) /\ Verdict(E, "none")
     \/ Dev(E, "Dev_TornWalTailPanics", DevTornWalPanics(E))
     \/ Dev(E, "Dev_TornContextPanics", DevTornCtxPanics(E))
     \/ Dev(E, "Dev_TornWalRecordAccepted", DevTornRecordAccepted(E))
     \/ Dev(E, "Dev_BatchAheadOfStablePointer", DevBatchAhead(E))
     \/ Dev(E, "Dev_StaleCandidatesAfterCrash", DevStaleCandidates(E))
  /\ ph' = IF Down(E) THEN "done" ELSE "recovered"
  /\ UNCHANGED <<ref, w, c>>
\* what the deviation leaves of the last clause
FinalModuloCandidates(e) == /\ ~e.died /\ ~Has(e, "cont_panic")
                            /\ e.from = r.k /\ e.errors = <<>> /\ e.hashes = RestHashes(r.k)
                            /\ ChainClosed(e.final, ref.final) /\ StateExact(e.final, ref.final)
                            /\ e.final.confirms = ref.final.confirms
                            /\ ChainClosed(e.reopened, ref.final) /\ StateExact(e.reopened, ref.final)
                            /\ e.reopened.confirms = ref.final.confirms
TContinue ==
  /\ Ev("Continue") /\ ph = "recovered"
  /\ CasksOK(E)
  /\ \/ r.dev = "none" /\ ContinuationEqual(E, r.k)
     \/ r.dev = "Dev_StaleCandidatesAfterCrash" /\ FinalModuloCandidates(E)
     \/ r.dev \in {"Dev_BatchAheadOfStablePointer", "Dev_TornWalRecordAccepted"}   \* the restarted node diverges: that is the finding
  /\ ph' = "done" /\ UNCHANGED <<ref, w, c, r>>

TraceNext == TRef \/ TReset \/ TWorkload \/ TCrash \/ TNoCrash \/ TRecrash \/ TRecover \/ TContinue
TraceSpec == /\ l = 1 /\ ref = NoRef /\ w = NoRef /\ c = NoRef /\ r = NoRef /\ ph = "none"
             /\ [][TraceNext]_tvars
\* evaluated on every prefix of every real trace
PhaseOK == ph \in {"none", "start", "ran", "crashed", "recovered", "done"}
====
