---- MODULE CallFramesOps ----
(* The world of C16 (see CallFrames.tla): a small abstract account state plus the change journal the platform
   reverts with, as pure operators.  Shared by the generator CallFrames.tla and the validator TraceCallFrames.tla.

   CREATION FRAMES.  Every account a of the universe (sender and contracts) can create ONE address New(a) per
   transaction (crypto.CreateContractAddress(caller, tx hash): no nonce).  A creation frame runs init code in the
   context of the new address after the endowment has moved there; when the init code has ended normally the platform
   still has to take the code deposit: the frame only succeeds if the returned code is not longer than the maximum and
   the gas left pays for it, then code and the platform's creation record appear at the new address.  In every other
   case (revert, error, code too big, deposit not affordable) the frame is undone to its mark - endowment, storage
   written by the init code, everything its inner frames did - and only the platform's failure record stays. *)
EXTENDS Integers, Sequences, FiniteSets, TLC, SequencesExt

CONSTANTS Contracts,    \* accounts holding code in the parent block
          Sender,       \* the transaction sender
          Slots,        \* storage keys
          Creators      \* the accounts (of Contracts and Sender) that may create a contract: their new addresses are part of the world

New(a) == "n" \o a                                      \* the one address a can create in this transaction
Created == {New(a) : a \in Creators}
CA == Contracts \cup Created                            \* accounts that can hold code and storage
Addrs == CA \cup {Sender}
LogTypes == {"bal", "stor", "ev", "sui", "code"}
ZeroStor == [s \in Slots |-> 0]
CallKinds == {"call", "callcode", "delegatecall", "staticcall"}

\* ------------------------------------------------------------------ code shapes (frame-local determinism)
(* The frames under one transaction-level call run DIFFERENT code: the contracts of the parent block, the init code of
   every creation, the code a creation deposited.  What a frame's code does at a JUMP is a function of THAT code alone:
   the destination is accepted iff it is a JUMPDEST instruction of the code the frame runs - not PUSH data, not behind
   its end - whatever other code was analysed before under the same root (other init codes, callers, callees).
   A code SHAPE abstracts where the codes of the universe differ for a jump: which of NSlots marked offsets holds a
   0x5b byte as PUSH data (a JUMPDEST instruction in every other shape), and whether the code is LONG (it goes on far
   behind the end of the short shapes and has a JUMPDEST there).  Destination classes: "next" (a JUMPDEST of every
   shape), "s<i>" (the marked offset i), "far" (the JUMPDEST of the long shapes = behind the end of the short ones). *)
NSlots == 3
Shapes == 0..(2 * NSlots - 1)
SlotOf(sh) == sh % NSlots
Long(sh) == sh >= NSlots
SlotDest(i) == "s" \o ToString(i)
JumpDestsAll == {"next", "far"} \cup {SlotDest(i) : i \in 0..(NSlots - 1)}
\* the destination is a JUMPDEST instruction of code of this shape
JumpValid(sh, d) == CASE d = "next" -> TRUE [] d = "far" -> Long(sh) [] OTHER -> d # SlotDest(SlotOf(sh))

\* ------------------------------------------------------------------ the world and its change journal
\* bal: [Creators -> Nat] (or over all of Addrs: a created address may hold funds already - then a creation collides);
\* stor: [Contracts -> [Slots -> Nat]] = the storage committed in the parent block
BalOf(bal, a) == IF a \in DOMAIN bal THEN bal[a] ELSE 0
World0(devS, devG, bal, stor) ==
  LET st == [c \in CA |-> IF c \in DOMAIN stor THEN stor[c] ELSE ZeroStor] IN
  [stor |-> st, base |-> st, bal |-> [a \in Addrs |-> BalOf(bal, a)], dead |-> [c \in CA |-> FALSE], code |-> [c \in CA |-> c \in Contracts],
   lost |-> [c \in CA |-> FALSE],                         \* (devL only) the code of c cannot be loaded any more
   vol |-> [c \in CA |-> c \in Created],                  \* the code c holds / will hold is in no store yet (created in this block)
   jr |-> <<>>,                                          \* journal of undo records
   nv |-> [k \in Addrs \X LogTypes |-> 0],                \* last version handed out per (account, log type); never decreases
   devS |-> devS, devG |-> devG, devL |-> FALSE, crash |-> FALSE]
\* devL: undoSuicide restores the code HASH only - the code of a contract created earlier in the same block (not yet in
\* the store) is gone: the account keeps the hash, loading the code fails, every call towards it is refused.  (vol: unless
\* the store happens to hold the very same bytes already - as code of another contract: the trace validator is told.)
WithDevL(w, devL) == [w EXCEPT !.devL = devL]

Entry(a, t, v, ob, sl, os, oc) == [a |-> a, t |-> t, v |-> v, ob |-> ob, sl |-> sl, os |-> os, oc |-> oc]
Push(w, a, t, ob, sl, os, oc) ==
  LET v == w.nv[<<a, t>>] + 1
  IN [w EXCEPT !.nv[<<a, t>>] = v, !.jr = Append(@, Entry(a, t, v, ob, sl, os, oc))]

SetBal(w, a, b) == [Push(w, a, "bal", w.bal[a], "", ZeroStor, FALSE) EXCEPT !.bal[a] = b]
\* transaction.Transfer: two balance logs, also for amount 0 and for from = to
Transfer(w, from, to, v) ==
  LET w1 == SetBal(w, from, w.bal[from] - v)
  IN SetBal(w1, to, w1.bal[to] + v)
SStoreW(w, c, s, v) == [Push(w, c, "stor", w.stor[c][s], s, ZeroStor, FALSE) EXCEPT !.stor[c][s] = v]
EventW(w, a, tag) == Push(w, a, "ev", 0, tag, ZeroStor, FALSE)
\* opSuicide: nothing if already destroyed; the beneficiary gets the balance, then balance, code and storage go at once
SuicideW(w, c, b) ==
  IF w.dead[c] THEN w
  ELSE LET w1 == SetBal(w, b, w.bal[b] + w.bal[c])
       IN [Push(w1, c, "sui", w1.bal[c], "", w1.stor[c], w1.code[c])
             EXCEPT !.bal[c] = 0, !.stor[c] = ZeroStor, !.dead[c] = TRUE, !.code[c] = FALSE, !.lost[c] = FALSE]
\* the code deposit of a creation: the returned code (hascode: it is not empty) becomes the account's code
SetCodeW(w, c, hascode) == [Push(w, c, "code", 0, "", ZeroStor, w.code[c]) EXCEPT !.code[c] = hascode, !.lost[c] = FALSE]

UndoOne(w, e) ==
  CASE e.t = "bal"  -> [w EXCEPT !.bal[e.a] = e.ob]
    [] e.t = "stor" -> [w EXCEPT !.stor[e.a][e.sl] = e.ob]
    [] e.t = "ev"   -> w
    [] e.t = "code" -> [w EXCEPT !.code[e.a] = e.oc, !.lost[e.a] = FALSE]
    [] e.t = "sui"  -> [w EXCEPT !.bal[e.a] = e.ob, !.dead[e.a] = FALSE, !.code[e.a] = e.oc,
                                 !.stor[e.a] = IF w.devS THEN w.base[e.a] ELSE e.os,
                                 !.lost[e.a] = w.devL /\ e.oc /\ w.vol[e.a]]      \* (code of the parent block is in the store)
\* undo the journal entries above the mark, newest first (FoldLeft: evaluated iteratively by TLC)
Undo(w, mark) ==
  LET n == Len(w.jr) IN
  IF n <= mark THEN w
  ELSE [FoldLeft(LAMBDA acc, k : UndoOne(acc, w.jr[n + 1 - k]), w, [k \in 1..(n - mark) |-> k]) EXCEPT !.jr = SubSeq(w.jr, 1, mark)]

\* versions of one (account, type) inside the range to undo are not contiguous
GapIn(jr, mark) ==
  \E j \in (mark + 2)..Len(jr) :
     LET S == {i \in (mark + 1)..(j - 1) : jr[i].a = jr[j].a /\ jr[i].t = jr[j].t}        \* earlier entries of the same kind
     IN S # {} /\ jr[j].v # jr[CHOOSE i \in S : \A k \in S : k <= i].v + 1
RevertTo(w, mark) == IF w.devG /\ GapIn(w.jr, mark) THEN [w EXCEPT !.crash = TRUE] ELSE Undo(w, mark)

NEv(w, tag) == Cardinality({i \in 1..Len(w.jr) : w.jr[i].t = "ev" /\ w.jr[i].sl = tag})
\* what the property speaks about (the platform's own failure / creation records are counted separately)
Obs(w) == [stor |-> w.stor, bal |-> w.bal, dead |-> w.dead, code |-> w.code, lost |-> w.lost, nlog |-> NEv(w, "log")]

\* ------------------------------------------------------------------ frames
CtxOf(kind, to, callerCtx) == IF kind \in {"call", "staticcall", "create"} THEN to ELSE callerCtx
\* evm.Call etc. after the depth / balance checks: Snapshot, then (Call only) the value transfer unless the callee
\* has no code and nothing is sent; evm.Create: Snapshot, then the endowment moves to the new address
EnterW(w, kind, callerCtx, to, val) ==
  IF kind = "create" \/ (kind = "call" /\ (w.code[to] \/ val > 0)) THEN Transfer(w, callerCtx, to, val) ELSE w
Frame(w, kind, callerCtx, callerRo, to) ==
  [k |-> kind, ctx |-> CtxOf(kind, to, callerCtx), to |-> to, ro |-> callerRo \/ kind = "staticcall",
   mark |-> Len(w.jr), snap |-> Obs(w), nfail |-> NEv(w, "fail")]
\* a frame that ends in revert / error (a creation also: code too big, deposit not affordable): undo to the mark;
\* evm.Call and evm.Create (only) then record the failure event
FailW(w, f) ==
  LET w1 == RevertTo(w, f.mark)
  IN IF w1.crash \/ f.k \notin {"call", "create"} THEN w1 ELSE EventW(w1, f.to, "fail")
\* a creation whose deposit is taken: the code is stored, the platform records the creation
CreatedW(w, f, hascode) == EventW(SetCodeW(w, f.to, hascode), f.to, "create")
\* an address holds something: a creation towards it may be refused as a collision
Occupied(w, bal0, a) == BalOf(bal0, a) > 0 \/ w.bal[a] > 0 \/ w.code[a] \/ w.dead[a] \/ w.stor[a] # ZeroStor

====
