---- MODULE TraceRanking ----
(* C10, code side.  Every line is one operation performed on the REAL store (store.ChainDatabase driven through the
   real account.Manager: GetAccount / SetCandidate / SetVotes / SetCandidateState, MergeChangeLogs, Finalise,
   SetBlock, Manager.Save -> CandidatesRanking; SetStableBlock; Close + NewChainDataBase) together with the complete
   observable post-state:
     live, stable   ids reported by IterateUnConfirms / LoadLatestBlock
     obs            for every live block: top = GetCandidatesTop(hash) as [candidate, votes] pairs,
                    acc = per candidate [r, v] read from that block's account view (isCandidate profile entry, Votes)
   reset carries nc (candidates), k (list size set through the verif hook) and rk (position of every candidate's
   address in byte order, computed by the harness; the tie-break only ever compares these integers).

   Votes are MODEL values 0..maxv: the binding sends them through a strictly monotone vote map to real totals (up to
   beyond 2^64) and translates every total the real code reports back (a total that is none of the values put in is
   logged as -1 and matches nothing).  reset carries the map: vm (catalogue index of RankingOps, or FreeMap), vals (the
   real totals, decimal strings, informative) and mag (the length of the persisted candidate record the REAL encoder
   produces for every value).  MagOK ties the magnitude classes the design model (Ranking.tla, MagOf) reasons with to
   those real lengths: for a catalogue map the length differences are exactly the class differences, for a free map the
   lengths do not decrease.  The verdicts themselves need no magnitudes: whatever the totals are, the list of every
   block and the list after a restart must be the full sort.

   This is a property monitor.  The spec state st[b] is what the logged operations make of the parent's state; the
   logged account views must equal it; the logged list of the new block must equal FullSort(st[b]) - the right-hand
   side of the property - and no other list may change.  After a restart the list of the stable block must again be
   FullSort.  A list that differs is accepted only as a *named deviation*: a set D of deviations, all listed in
   AllowedDev (known_findings.txt), under which updateTop as written (RankingOps!CodeTop, from the parent's logged
   list and the code's all-candidates index) yields exactly the logged list; a smallest such D is recorded
   (KNOWN-FINDING).  D = {} is accepted only below a block whose own list already deviated (the error is inherited,
   taint).  Anything else is a VIOLATION. *)
EXTENDS RankingOps, TraceBase
CONSTANT AllowedDev
VARIABLES k, rk, par, st, idxC, idxF, top, stable, taint, nd, term
tvars == <<k, rk, par, st, idxC, idxF, top, stable, taint, nd, term, l>>
Live == DOMAIN st
NewId == CHOOSE i \in 0..Cardinality(Live) : i \notin Live /\ \A j \in 0..i-1 : j \in Live    \* ids are reused, smallest free one
RECURSIVE AncSelf(_)
AncSelf(x) == IF x = stable \/ x \notin DOMAIN par THEN {x} ELSE {x} \cup AncSelf(par[x])
Desc(b) == {x \in Live : b \in AncSelf(x)}
Restrict(f, S) == [x \in S |-> f[x]]
Pairs(s, state) == [i \in 1..Len(s) |-> <<s[i], state[s[i]].v>>]
Ids(T) == [i \in 1..Len(T) |-> T[i][1]]
Obs(e, b) == LET S == {i \in 1..Len(e.obs) : e.obs[i].b = b} IN e.obs[CHOOSE i \in S : TRUE]
AccOf(o) == [c \in 1..Len(o.acc) |-> [r |-> o.acc[c][1], v |-> o.acc[c][2]]]
\* the logged post-state against the spec state: the live set, the stable block, every account view, and every list
\* except the one of block `fresh` (judged by the caller) is what it was
Match(e, ST, TP, SB, fresh) ==
  /\ e.stable = SB
  /\ ToSet(e.live) = DOMAIN ST /\ Len(e.live) = Cardinality(DOMAIN ST)
  /\ Len(e.obs) = Cardinality(DOMAIN ST) /\ {e.obs[i].b : i \in 1..Len(e.obs)} = DOMAIN ST
  /\ \A b \in DOMAIN ST : AccOf(Obs(e, b)) = ST[b]
  /\ \A b \in DOMAIN ST \ {fresh} : Obs(e, b).top = Pairs(TP[b], ST[b])

MagOK(e) == /\ Len(e.mag) = e.maxv + 1 /\ Len(e.vals) = e.maxv + 1 /\ e.maxv >= 1
            /\ IF e.vm = FreeMap THEN \A v \in 1..e.maxv : e.mag[v] <= e.mag[v + 1]
               ELSE e.vm \in MagMaps /\ \A v \in 0..e.maxv : e.mag[v + 1] - e.mag[1] = MagOf(e.vm, v, e.maxv) - MagOf(e.vm, 0, e.maxv)
TReset == /\ Ev("reset") /\ "nd" \notin DOMAIN E /\ E.err = "" /\ MagOK(E)
          /\ k' = E.k /\ rk' = [c \in 1..E.nc |-> E.rk[c]]
          /\ Cardinality({E.rk[c] : c \in 1..E.nc}) = E.nc
          /\ par' = <<>> /\ st' = (0 :> [c \in 1..E.nc |-> [r |-> 0, v |-> 0]])
          /\ idxC' = (0 :> {}) /\ idxF' = (0 :> {}) /\ top' = (0 :> <<>>) /\ taint' = (0 :> {})
          /\ stable' = 0 /\ nd' = 0 /\ term' = <<>>
          /\ Match(E, st', top', 0, -1)

\* judge the logged list T of a block with state sn below parent p: the taint of the block, {"-"} = not acceptable
Verdict(T, p, sn, chg, unreg) ==
  LET want == Pairs(FullSort(sn, rk, k), sn)
      code(D) == Pairs(CodeTop(D, k, rk, top[p], (IF "Dev_RestartForgetsIndex" \in D THEN idxC[p] ELSE idxF[p]) \cup chg,
                               st[p], sn, chg, unreg), sn)
      Expl == {D \in SUBSET (AllowedDev \cap AllDevs) : code(D) = T}
  IN IF T = want THEN {}
     ELSE IF Expl = {} THEN {"-"}
     ELSE LET D == CHOOSE x \in Expl : \A y \in Expl : Cardinality(x) <= Cardinality(y)
          IN IF D \cup taint[p] = {} THEN {"-"} ELSE D \cup taint[p]

TBlock == /\ Ev("Block") /\ E.err = ""
          /\ LET p == E.a[1]
                 nv == E.a[2]
                 t == E.a[3]
                 b == E.id
             IN /\ p \in Live /\ b = NewId /\ Len(nv) = Len(rk) /\ Legal(st[p], nv, t)
                /\ LET sn == NewState(st[p], nv, t)
                       chg == Changed(st[p], sn)
                       T == Obs(E, b).top
                   IN /\ st' = (b :> sn) @@ st
                      /\ par' = (b :> p) @@ par
                      /\ idxC' = (b :> idxC[p] \cup chg) @@ idxC
                      /\ idxF' = (b :> idxF[p] \cup chg) @@ idxF
                      /\ \A i \in 1..Len(T) : T[i][1] \in DOMAIN sn
                      /\ top' = (b :> Ids(T)) @@ top
                      /\ LET tn == Verdict(T, p, sn, chg, Unreg(st[p], sn, t))
                         IN "-" \notin tn /\ (\A d \in tn : UseDev(d)) /\ taint' = (b :> tn) @@ taint
                      /\ Match(E, st', top', stable, b)
          /\ UNCHANGED <<k, rk, stable, nd, term>>

TStable == /\ Ev("Stable") /\ E.err = ""
           /\ LET b == E.a[1]
                  keep == Desc(b)
              IN /\ b \in Live \ {stable}
                 /\ par' = Restrict(par, keep \ {b}) /\ st' = Restrict(st, keep)
                 /\ idxC' = Restrict(idxC, keep) /\ idxF' = Restrict(idxF, keep)
                 /\ top' = Restrict(top, keep) /\ taint' = Restrict(taint, keep)
                 /\ stable' = b
                 /\ Match(E, st', top', b, -1)
           /\ UNCHANGED <<k, rk, nd, term>>

\* a node that has restarted publishes the same list as one that has not: the full sort of the stable state
TRestart == /\ Ev("Restart") /\ E.err = ""
            /\ LET s == st[stable]
                   T == Obs(E, stable).top
               IN /\ par' = <<>> /\ st' = (stable :> s)
                  /\ idxC' = (stable :> {}) /\ idxF' = (stable :> {c \in DOMAIN s : s[c].r # 0})
                  /\ T = Pairs(FullSort(s, rk, k), s)
                  /\ top' = (stable :> Ids(T)) /\ taint' = (stable :> {})
                  /\ Match(E, st', top', stable, -1)
            /\ UNCHANGED <<k, rk, stable, nd, term>>


(* ---- engine level (driver ranking-node): real nodes, real register / unregister / vote / transfer transactions,
   params.TermDuration = 4.  The monitor ADOPTS the candidate accounts the real account manager presents for the new
   block (ledger semantics are C05/C11) and judges
     - the published list of the block exactly as above (same Verdict, same named deviations);
     - that the second node, which verified and stabilised the block, publishes the same list;
     - at snapshot heights block.DeputyNodes = the first nd entries of the PARENT's list, ranked 0..n-1, with the votes
       of those entries (hence non-increasing), so that every node can load the new term from it: stabilising the block
       must not fail.  Named deviation Dev_SnapshotVotesFromSealedState: the votes are those of the state of the block
       being sealed (LoadTopCandidates reads them through the engine's account manager); when that makes them
       non-monotone the node that stabilises the block panics in deputynode.NewTermRecord, and a verifying node, whose
       in-flight votes differ from the miner's (balance-driven vote changes are applied later), rejects the block;
     - that the restarted node serves the same next term as before the restart and publishes the full sort (which is
       the list of before the restart unless that one carried a named deviation). *)
AccRows(a) == [c \in 1..Len(a) |-> [r |-> a[c][1], v |-> a[c][2]]]
Min2(a, b) == IF a < b THEN a ELSE b
Monotone(D) == \A i \in 1..Len(D) - 1 : D[i][3] >= D[i + 1][3]
SealedDev == "Dev_SnapshotVotesFromSealedState"
TNReset == /\ Ev("reset") /\ "nd" \in DOMAIN E /\ E.err = ""
           /\ k' = E.k /\ nd' = E.nd /\ rk' = [c \in 1..E.nc |-> E.rk[c]]
           /\ Cardinality({E.rk[c] : c \in 1..E.nc}) = E.nc
           /\ LET s0 == AccRows(E.acc)
              IN /\ st' = (0 :> s0) /\ par' = <<>>
                 /\ idxC' = (0 :> {c \in DOMAIN s0 : s0[c].r # 0}) /\ idxF' = idxC'
                 /\ E.top = Pairs(FullSort(s0, rk', k'), s0) /\ E.nut_top = E.top
                 /\ top' = (0 :> Ids(E.top))
           /\ taint' = (0 :> {}) /\ stable' = 0 /\ term' = <<>>
DeputiesOK(D, p, sn) ==
  LET L == top[p]
      n == Min2(nd, Len(L))
  IN /\ Len(D) = n
     /\ \A i \in 1..n : D[i][1] = L[i] /\ D[i][2] = i - 1
     /\ \/ (\A i \in 1..n : D[i][3] = st[p][L[i]].v) /\ Monotone(D)
        \/ /\ \E i \in 1..n : D[i][3] # st[p][L[i]].v
           /\ SealedDev \in AllowedDev
           /\ \A i \in 1..n : D[i][3] = sn[L[i]].v
           /\ UseDev(SealedDev)
SealedCase(D, p) == E.snap /\ \E i \in 1..Len(D) : i <= Len(top[p]) /\ D[i][3] # st[p][top[p][i]].v
TNBlock == /\ Ev("NBlock") /\ E.err = ""
           /\ LET p == E.a[1]
                  b == E.a[2]
                  sn == AccRows(E.acc)
                  chg == Changed(st[p], sn)
                  unreg == {c \in ToSet(E.touched) : sn[c].r = 2}
                  T == E.top
              IN /\ p \in Live /\ b \notin Live /\ DOMAIN sn = DOMAIN rk
                 /\ st' = (b :> sn) @@ st /\ par' = (b :> p) @@ par
                 /\ idxC' = (b :> idxC[p] \cup chg) @@ idxC /\ idxF' = (b :> idxF[p] \cup chg) @@ idxF
                 /\ \A i \in 1..Len(T) : T[i][1] \in DOMAIN sn
                 /\ top' = (b :> Ids(T)) @@ top
                 /\ LET tn == Verdict(T, p, sn, chg, unreg)
                    IN "-" \notin tn /\ (\A d \in tn : UseDev(d)) /\ taint' = (b :> tn) @@ taint
                 /\ IF E.snap THEN DeputiesOK(E.dn, p, sn) ELSE E.dn = <<>>
                 /\ \/ E.crash = ""
                    \/ E.crash # "" /\ SealedCase(E.dn, p) /\ ~Monotone(E.dn) /\ SealedDev \in AllowedDev /\ UseDev(SealedDev)
                 /\ \/ E.nut_err = ""          \* a verifying node re-derives the list with ITS in-flight votes and may reject it
                    \/ E.nut_err # "" /\ SealedCase(E.dn, p) /\ SealedDev \in AllowedDev /\ UseDev(SealedDev)
                 /\ (E.fed /\ E.crash = "" /\ E.nut_err = "") => E.nut_stable = b /\ E.nut_top = T
                 /\ term' = IF E.snap /\ E.fed THEN E.dn ELSE term
           /\ UNCHANGED <<k, rk, stable, nd>>
TNRestart == /\ Ev("NRestart") /\ E.err = "" /\ E.crash = ""
             /\ E.stable \in Live
             /\ E.top_before = Pairs(top[E.stable], st[E.stable])
             /\ E.top_after = Pairs(FullSort(st[E.stable], rk, k), st[E.stable])     \* restart: always the full sort
             /\ E.term_before = term /\ E.term_after = term
             /\ UNCHANGED <<k, rk, par, st, idxC, idxF, top, stable, taint, nd, term>>

TraceNext == TReset \/ TBlock \/ TStable \/ TRestart \/ TNReset \/ TNBlock \/ TNRestart
TraceSpec == /\ l = 1 /\ k = 0 /\ rk = <<>> /\ par = <<>> /\ st = <<>> /\ idxC = <<>> /\ idxF = <<>> /\ top = <<>>
             /\ stable = 0 /\ taint = <<>> /\ nd = 0 /\ term = <<>>
             /\ [][TraceNext]_tvars
\* evaluated on every prefix of every real trace: an untainted block publishes the full sort
TrTopIsFullSort == \A b \in Live : taint[b] = {} => top[b] = FullSort(st[b], rk, k)
TrSized == \A b \in Live : Len(top[b]) <= k
====
