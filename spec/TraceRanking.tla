---- MODULE TraceRanking ----
(* C10, code side.  Every line is one operation performed on the REAL store (store.ChainDatabase driven through the
   real account.Manager: GetAccount / SetCandidate / SetVotes / SetCandidateState, MergeChangeLogs, Finalise,
   SetBlock, Manager.Save -> CandidatesRanking; SetStableBlock; Close + NewChainDataBase) together with the complete
   observable post-state:
     live, stable   ids reported by IterateUnConfirms / LoadLatestBlock
     obs            for every live block: top = GetCandidatesTop(hash) as [candidate, votes] pairs,
                    acc = per candidate [r, v] read from that block's account view (isCandidate profile entry, Votes)
   reset carries nc (candidates), k (list size set through the verif hook) and rk (position of every candidate's
   address in byte order, computed by the harness; the tie-break only ever compares these integers).

   This is a property monitor.  The spec state st[b] is what the logged operations make of the parent's state; the
   logged account views must equal it; the logged list of the new block must equal FullSort(st[b]) - the right-hand
   side of the property - and no other list may change.  After a restart the list of the stable block must again be
   FullSort.  A list that differs is accepted only as a *named deviation*: a set D of deviations, all listed in
   AllowedDev (known_findings.txt), under which updateTop as written (RankingOps!CodeTop, from the parent's logged
   list and the code's all-candidates index) yields exactly the logged list; a smallest such D is recorded
   (KNOWN-FINDING).  D = {} is accepted only below a block whose own list already deviated (the error is inherited,
   taint).  Anything else is a VIOLATION. *)
EXTENDS RankingOps, TraceBase
CONSTANT AllowedDev
VARIABLES k, rk, par, st, idxC, idxF, top, stable, taint
tvars == <<k, rk, par, st, idxC, idxF, top, stable, taint, l>>
Live == DOMAIN st
NewId == CHOOSE i \in 0..Cardinality(Live) : i \notin Live /\ \A j \in 0..i-1 : j \in Live    \* ids are reused, smallest free one
RECURSIVE AncSelf(_)
AncSelf(x) == IF x = stable \/ x \notin DOMAIN par THEN {x} ELSE {x} \cup AncSelf(par[x])
Desc(b) == {x \in Live : b \in AncSelf(x)}
Restrict(f, S) == [x \in S |-> f[x]]
Pairs(s, state) == [i \in 1..Len(s) |-> <<s[i], state[s[i]].v>>]
Ids(T) == [i \in 1..Len(T) |-> T[i][1]]
Obs(e, b) == LET S == {i \in 1..Len(e.obs) : e.obs[i].b = b} IN e.obs[CHOOSE i \in S : TRUE]
AccOf(o) == [c \in 1..Len(o.acc) |-> [r |-> o.acc[c][1], v |-> o.acc[c][2]]]
\* the logged post-state against the spec state: the live set, the stable block, every account view, and every list
\* except the one of block `fresh` (judged by the caller) is what it was
Match(e, ST, TP, SB, fresh) ==
  /\ e.stable = SB
  /\ ToSet(e.live) = DOMAIN ST /\ Len(e.live) = Cardinality(DOMAIN ST)
  /\ Len(e.obs) = Cardinality(DOMAIN ST) /\ {e.obs[i].b : i \in 1..Len(e.obs)} = DOMAIN ST
  /\ \A b \in DOMAIN ST : AccOf(Obs(e, b)) = ST[b]
  /\ \A b \in DOMAIN ST \ {fresh} : Obs(e, b).top = Pairs(TP[b], ST[b])

TReset == /\ Ev("reset") /\ E.err = ""
          /\ k' = E.k /\ rk' = [c \in 1..E.nc |-> E.rk[c]]
          /\ Cardinality({E.rk[c] : c \in 1..E.nc}) = E.nc
          /\ par' = <<>> /\ st' = (0 :> [c \in 1..E.nc |-> [r |-> 0, v |-> 0]])
          /\ idxC' = (0 :> {}) /\ idxF' = (0 :> {}) /\ top' = (0 :> <<>>) /\ taint' = (0 :> {})
          /\ stable' = 0
          /\ Match(E, st', top', 0, -1)

\* judge the logged list T of a block with state sn below parent p: the taint of the block, {"-"} = not acceptable
Verdict(T, p, sn, chg, unreg) ==
  LET want == Pairs(FullSort(sn, rk, k), sn)
      code(D) == Pairs(CodeTop(D, k, rk, top[p], (IF "Dev_RestartForgetsIndex" \in D THEN idxC[p] ELSE idxF[p]) \cup chg,
                               st[p], sn, chg, unreg), sn)
      Expl == {D \in SUBSET (AllowedDev \cap AllDevs) : code(D) = T}
  IN IF T = want THEN {}
     ELSE IF Expl = {} THEN {"-"}
     ELSE LET D == CHOOSE x \in Expl : \A y \in Expl : Cardinality(x) <= Cardinality(y)
          IN IF D \cup taint[p] = {} THEN {"-"} ELSE D \cup taint[p]

TBlock == /\ Ev("Block") /\ E.err = ""
          /\ LET p == E.a[1]
                 nv == E.a[2]
                 t == E.a[3]
                 b == E.id
             IN /\ p \in Live /\ b = NewId /\ Len(nv) = Len(rk) /\ Legal(st[p], nv, t)
                /\ LET sn == NewState(st[p], nv, t)
                       chg == Changed(st[p], sn)
                       T == Obs(E, b).top
                   IN /\ st' = (b :> sn) @@ st
                      /\ par' = (b :> p) @@ par
                      /\ idxC' = (b :> idxC[p] \cup chg) @@ idxC
                      /\ idxF' = (b :> idxF[p] \cup chg) @@ idxF
                      /\ \A i \in 1..Len(T) : T[i][1] \in DOMAIN sn
                      /\ top' = (b :> Ids(T)) @@ top
                      /\ LET tn == Verdict(T, p, sn, chg, Unreg(st[p], sn, t))
                         IN "-" \notin tn /\ (\A d \in tn : UseDev(d)) /\ taint' = (b :> tn) @@ taint
                      /\ Match(E, st', top', stable, b)
          /\ UNCHANGED <<k, rk, stable>>

TStable == /\ Ev("Stable") /\ E.err = ""
           /\ LET b == E.a[1]
                  keep == Desc(b)
              IN /\ b \in Live \ {stable}
                 /\ par' = Restrict(par, keep \ {b}) /\ st' = Restrict(st, keep)
                 /\ idxC' = Restrict(idxC, keep) /\ idxF' = Restrict(idxF, keep)
                 /\ top' = Restrict(top, keep) /\ taint' = Restrict(taint, keep)
                 /\ stable' = b
                 /\ Match(E, st', top', b, -1)
           /\ UNCHANGED <<k, rk>>

\* a node that has restarted publishes the same list as one that has not: the full sort of the stable state
TRestart == /\ Ev("Restart") /\ E.err = ""
            /\ LET s == st[stable]
                   T == Obs(E, stable).top
               IN /\ par' = <<>> /\ st' = (stable :> s)
                  /\ idxC' = (stable :> {}) /\ idxF' = (stable :> {c \in DOMAIN s : s[c].r # 0})
                  /\ T = Pairs(FullSort(s, rk, k), s)
                  /\ top' = (stable :> Ids(T)) /\ taint' = (stable :> {})
                  /\ Match(E, st', top', stable, -1)
            /\ UNCHANGED <<k, rk, stable>>

TraceNext == TReset \/ TBlock \/ TStable \/ TRestart
TraceSpec == /\ l = 1 /\ k = 0 /\ rk = <<>> /\ par = <<>> /\ st = <<>> /\ idxC = <<>> /\ idxF = <<>> /\ top = <<>>
             /\ stable = 0 /\ taint = <<>>
             /\ [][TraceNext]_tvars
\* evaluated on every prefix of every real trace: an untainted block publishes the full sort
TrTopIsFullSort == \A b \in Live : taint[b] = {} => top[b] = FullSort(st[b], rk, k)
TrSized == \A b \in Live : Len(top[b]) <= k
====
