SPECIFICATION TraceSpec
CONSTANT AllowedDev = @ALLOWED_DEV@
CONSTRAINT HW
INVARIANTS TrTopIsFullSort TrSized
POSTCONDITION Accepted
CHECK_DEADLOCK FALSE
