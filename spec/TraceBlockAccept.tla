---- MODULE TraceBlockAccept ----
(* C02 on the REAL engine: every offered block is a real block (RLP round trip) handed to DPoVP.InsertBlock.
   Logged: ok, whether the block is stored afterwards, how many confirms are stored with it, and digests of the
   node's observable state (stable, head, unconfirmed tree with confirm counts, account balances at the head,
   pool content, replay-guard answers) before and after the call. *)
EXTENDS BlockAccept, TraceBase
tvars == <<scen, fam, chain, l>>
TReset == Ev("reset") /\ scen' = E.scen /\ fam' = E.fam /\ chain' = {}
TOffer == /\ Ev("Offer")
          /\ LET m == E.a[1]  r == E.a[2] IN
             \* added iff valid (and new); a block whose only oddity is a re-encoded header signature or junk among its confirms
             \* violates no condition the property names, but a stricter node may refuse it: either outcome, a refusal changing nothing
             \* (likewise a sub-transaction that outlives bt but not its own box)
             /\ (m \in {"sig_reencoded", "confirm_garbage"} \cup ZOpt /\ Accepts(m, r)) \/ E.ok = Accepts(m, r)
             /\ (~E.ok => E.pre = E.post)                     \* a refused block leaves everything exactly as it was
             /\ (E.ok => E.stored /\ E.pre # E.post)
             /\ (E.ok /\ m = "confirm_garbage" => E.nconf = 0) \* junk confirms are not stored with a valid block
             /\ chain' = (IF E.ok THEN chain \cup {HashOf(m)} ELSE chain)
             /\ UNCHANGED <<scen, fam>>
TraceNext == TReset \/ TOffer
TraceSpec == l = 1 /\ scen = 1 /\ fam = "hdr" /\ chain = {} /\ [][TraceNext]_tvars
====
