SPECIFICATION Spec
CONSTANTS NB = 2
 Kind <- McKind
 Subs <- McSubs
 Blk <- McBlk2
 SideH = 0
 SideTxs <- McNoSide
 Palette <- McPos
 MaxLen = 3
 RaceLen = 3
 BugBatchAny = FALSE
 BugAddAfterInsert = FALSE
 BugStaleSubIndex = FALSE
 BugBatchAbort = FALSE
INVARIANTS TypeOK ChainLinear Converges TxReachesPool PeerKept PoolClean PoolOnce PoolValid
CHECK_DEADLOCK FALSE
