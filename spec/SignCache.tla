---- MODULE SignCache ----
(* C19, the part of the engine that runs OUTSIDE chainLock: consensus.SignBlock and its one-entry cache
   (chain/consensus/block_signer.go).  It is called under chainLock by MineBlock / InsertBlock->TryConfirm and,
   without it, by the background goroutine batchConfirmStable -> tryConfirmStable -> confirmBlock.
   A call is: look at the cache (hit: return the cached signature); otherwise compute, write cache.Hash, write
   cache.Sig, return cache.Sig.  A signature is modelled by the hash it signs.
   Locked = TRUE: the whole call is one critical section (mutex).  Locked = FALSE: every step interleaves. *)
EXTENDS Naturals, FiniteSets, TLC
CONSTANTS Proc, Hash, MaxCalls, Locked
NONE == 0
VARIABLES cacheHash, cacheSig,   \* the shared pair
          pc, want, calls,       \* per process: program counter, requested hash, calls made
          holder,                \* mutex owner (NONE when free)
          emitted                \* set of <<requested hash, signature returned>>
vars == <<cacheHash, cacheSig, pc, want, calls, holder, emitted>>
Init == /\ cacheHash = NONE /\ cacheSig = NONE /\ holder = NONE /\ emitted = {}
        /\ pc = [p \in Proc |-> "idle"] /\ want = [p \in Proc |-> NONE] /\ calls = [p \in Proc |-> 0]
CanRun(p) == ~Locked \/ holder = p
Call(p, h) == /\ pc[p] = "idle" /\ calls[p] < MaxCalls
              /\ (Locked => holder = NONE)
              /\ holder' = IF Locked THEN p ELSE holder
              /\ want' = [want EXCEPT ![p] = h] /\ calls' = [calls EXCEPT ![p] = @ + 1]
              /\ pc' = [pc EXCEPT ![p] = "check"]
              /\ UNCHANGED <<cacheHash, cacheSig, emitted>>
Check(p) == /\ pc[p] = "check" /\ CanRun(p)
            /\ IF cacheHash = want[p]
               THEN /\ emitted' = emitted \cup {<<want[p], cacheSig>>}          \* cache hit: return sigCache.Sig
                    /\ pc' = [pc EXCEPT ![p] = "idle"] /\ holder' = IF Locked THEN NONE ELSE holder
               ELSE /\ pc' = [pc EXCEPT ![p] = "writeHash"] /\ UNCHANGED <<emitted, holder>>
            /\ UNCHANGED <<cacheHash, cacheSig, want, calls>>
WriteHash(p) == /\ pc[p] = "writeHash" /\ CanRun(p)
                /\ cacheHash' = want[p] /\ pc' = [pc EXCEPT ![p] = "writeSig"]
                /\ UNCHANGED <<cacheSig, want, calls, holder, emitted>>
WriteSig(p) == /\ pc[p] = "writeSig" /\ CanRun(p)
               /\ cacheSig' = want[p] /\ pc' = [pc EXCEPT ![p] = "ret"]
               /\ UNCHANGED <<cacheHash, want, calls, holder, emitted>>
Return(p) == /\ pc[p] = "ret" /\ CanRun(p)
             /\ emitted' = emitted \cup {<<want[p], cacheSig>>}                  \* return sigCache.Sig (re-read)
             /\ pc' = [pc EXCEPT ![p] = "idle"] /\ holder' = IF Locked THEN NONE ELSE holder
             /\ UNCHANGED <<cacheHash, cacheSig, want, calls>>
Next == \/ \E p \in Proc, h \in Hash : Call(p, h)
        \/ \E p \in Proc : Check(p) \/ WriteHash(p) \/ WriteSig(p) \/ Return(p)
Spec == Init /\ [][Next]_vars
\* every signature the node hands out is a signature over the block it names
EmittedValid == \A e \in emitted : e[1] = e[2]
CacheCoherent == (\A p \in Proc : pc[p] \in {"idle", "check"}) => (cacheHash = cacheSig)
====
