SPECIFICATION Spec
CONSTANTS NB = 2
 Kind <- McKind
 Subs <- McSubs
 Blk <- McBlk2
 SideH = 0
 SideTxs <- McNoSide
 Palette <- McBoxes
 MaxLen = 2
 RaceLen = 0
 BugBatchAny = FALSE
 BugAddAfterInsert = FALSE
 BugStaleSubIndex = TRUE
 BugBatchAbort = FALSE
INVARIANTS TxReachesPool
CHECK_DEADLOCK FALSE
