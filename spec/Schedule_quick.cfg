SPECIFICATION Spec
CONSTANTS MaxN = 5
  MaxT = 2
  TPS = 2
  Rounds = 3
INVARIANTS ExactlyOne AgreesWithSpec Rotation DistanceRoundTrip WindowIsMine WindowOpen WindowEarliest StampVerifies WakeInWindow
CHECK_DEADLOCK FALSE
