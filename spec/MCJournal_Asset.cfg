SPECIFICATION Spec
CONSTANTS Acct <- AcctU
 KindsOf <- KindsAsset
 BaseSet <- BaseAsset
 MaxSteps = 6
 MaxSnap = 2
 FreeVals = FALSE
 Dv <- NoDev
INVARIANTS UndoMatchesSaved NoPanic RevsOK DiscardAllIsBase
CHECK_DEADLOCK FALSE
