SPECIFICATION Spec
CONSTANTS NB = 3
 Confs <- McConfs2
 NT = 0
 MaxDup = 0
 Races = FALSE
 BugAddMiddle = FALSE
 BugTxLoopVar = FALSE
 BugConfirmRace = FALSE
 MaxBatch = 3
 NBatch = 2
 BugBatchBreak = FALSE
INVARIANTS TypeOK ChainLinear Converges CacheSorted CacheKeepsUntilParent CacheOnlyWaiting ConfirmsKept TxOnce
PROPERTY Forward
CHECK_DEADLOCK FALSE
