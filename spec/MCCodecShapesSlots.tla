---- MODULE MCCodecShapesSlots ----
(* C14 part 3, design side.  TLC enumerates, as the leaves of a two-level fan-out,
     mode = "slot": every (type, instance, path, offer) - the honest encoding of a model instance of the type with the
                    item at the path replaced by a primitive encoding class,
     mode = "num":  every (type, numeric field, boundary value),
   checks the typed-decoder theorems on each, and the dumped graph is the work list of the Go driver, which builds the
   same inputs from REAL honest encodings and offers them to the REAL decoders.  `sub` is the change-log type of a
   "log" state ("-" otherwise); `x` is the offer (slot) or the value name (num); `f` the numeric field (num); `sz` the
   size of the field the offers "n-1", "n", "n+1" aim at (derived from the descriptor, slot). *)
EXTENDS CodecShapesSlots, TLC
CONSTANT Depth3        \* FALSE: paths one level shallower for the big types (quick tier)
VARIABLES mode, typ, sub, inst, path, x, f, sz
vars == <<mode, typ, sub, inst, path, x, f, sz>>

Subs(ty) == IF ty = "log" THEN LogTypes ELSE IF ty = "msg" THEN MsgNames ELSE {"-"}
NoField == NF(<<>>, <<>>, 0)
DepthOf(ty) == IF Depth3 THEN SlotDepth(ty) ELSE 2
\* two fan-out levels only so that TLC spreads the enumeration over its workers: root -> (type, change-log type,
\* instance) -> the slots and numeric cases of that instance.  The driver skips the "root" and "group" states.
Init == mode = "root" /\ typ = "" /\ sub = "" /\ inst = "" /\ path = <<>> /\ x = "" /\ f = NoField /\ sz = 0
Group(ty, su, in) == /\ mode = "root"
                     /\ mode' = "group" /\ typ' = ty /\ sub' = su /\ inst' = in
                     /\ UNCHANGED <<path, x, f, sz>>
Slot(p, o) == /\ mode = "group" /\ typ \in SlotTypes
              /\ p \in PathsOf(PosDesc(typ, sub), TmplOf(typ, sub, inst), DepthOf(typ))
              /\ mode' = "slot" /\ path' = p /\ x' = o
              /\ sz' = SizeOf(DescAt(PosDesc(typ, sub), p))          \* the size the "n" offers aim at (handed to the driver)
              /\ UNCHANGED <<typ, sub, inst, f>>
NumCase(nf, v) == /\ mode = "group" /\ typ \in NumTypes /\ inst = "full"
                  /\ nf \in NumFields(typ, sub)
                  /\ mode' = "num" /\ f' = nf /\ x' = v
                  /\ UNCHANGED <<typ, sub, inst, path, sz>>
Next == \/ \E ty \in SlotTypes \cup NumTypes, su \in LogTypes \cup MsgNames \cup {"-"}, in \in Insts : su \in Subs(ty) /\ Group(ty, su, in)
        \/ /\ mode = "group" /\ typ \in SlotTypes
           /\ \E p \in PathsOf(PosDesc(typ, sub), TmplOf(typ, sub, inst), DepthOf(typ)), o \in Offers : Slot(p, o)
        \/ /\ mode = "group" /\ typ \in NumTypes
           /\ \E nf \in NumFields(typ, sub), v \in NumVals : NumCase(nf, v)
Spec == Init /\ [][Next]_vars

H  == TmplOf(typ, sub, inst)
Bs == SlotBytes(H, PosDesc(typ, sub), path, x)
\* the model instances are themselves canonical encodings of their type
InvTemplates == mode = "slot" => Acc(TopDesc(typ, sub), H, {}) /\ Decode(Encode(H)) = H /\ Resolves(H, path)
\* whatever a typed decoder accepts re-encodes to the offered bytes (with a deviation switched on: negative control)
InvSlotCanon == mode = "slot" => LET v == Decode(Bs) IN ~IsErr(v) => TypedCanon(TopDesc(typ, sub), v, Devs)
\* the untouched encoding is always accepted, and the deviations only ever accept more
InvSlotSane  == mode = "slot" => LET v == Decode(Bs) IN
                  /\ (x = "honest" => ~IsErr(v) /\ Acc(TopDesc(typ, sub), v, {}))
                  /\ (~IsErr(v) /\ Acc(TopDesc(typ, sub), v, {}) => Acc(TopDesc(typ, sub), v, SlotDevs))
\* a boundary value on the wire is the canonical integer, accepted by the field exactly when it fits
InvNum == mode = "num" =>
            /\ NumFieldsDeclared(typ, sub)
            /\ LET be == NumOf(x).be
                   it == Encode(Str(be)) IN
                 /\ Decode(it) = Str(be)
                 /\ AsUint(Decode(it), f.w).ok = Fits(x, f.w)
                 /\ (f.path # <<>> => LET Hn == TmplOf(typ, sub, "full")
                                        v  == Decode(EncWith(Hn, f.path, it)) IN
                                    ~IsErr(v) /\ Acc(TopDesc(typ, sub), v, {}) = Fits(x, f.w))
====
