SPECIFICATION Spec
CONSTANTS NB = 2
 MaxCrash = 2
 RepairTornTail = TRUE
 RepairAtomicContext = TRUE
 MaxEdge = 0
 ScanStride = "align"
 CaskAdvance = "align"
 RepairScanPromotes = TRUE
INVARIANTS TypeOK Opens StableNotOlder StableClosed WalClauses AccountsExact ContextFresh
CHECK_DEADLOCK FALSE
