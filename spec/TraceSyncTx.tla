---- MODULE TraceSyncTx ----
(* C20's transaction clause as a monitor over traces of the REAL network.ProtocolManager with the real chain, TxGuard
   and TxPool (harness/adapters/sync, adapter synctx and driver synctx-grid).  One line per SyncTx.tla action; after
   every action the harness waited for the manager's quiescence point (handler returned, every goroutine it started
   ended, inserts finished) and logged: the main blocks in the chain, whether the side block is in, the current
   block, the heights waiting in the block cache, and the pool as a miner is handed it (with multiplicity).
   The universe (body class and sub-transactions of every transaction, what each block packages) is logged at
   reset.  The monitor adopts the logged state and demands of every step what the clause demands:
     - a received batch: every transaction of it whose body is valid and no atom (itself, its sub-transactions) of
       which is executed on the CURRENT branch is pending afterwards - itself or, when it shares an atom with
       another pending transaction, that one; nothing else joins the pool; nothing leaves it;
     - pending means exactly once: the pool hands no transaction out twice and no atom twice (alone and in a box);
     - nothing executed on the current branch is pending; a block joining the branch takes exactly the pending
       transactions that share an atom with it; the side block makes its not executed transactions pending;
     - a batch handled while a block is being inserted ends like one of the two orders (or any per-transaction mix);
     - the chain stays linear on the main branch, the cache keeps what waits;
     - no step costs the sender its connection (peer_dropped: the node closed the scripted peer's session during the step):
       every message is well-framed, a batch holds valid transactions and ones merely refused by the body check - those are
       skipped (the valid ones before AND behind them reach the pool, which is the first rule), never an error of the message.
   Named deviations: Dev_BoxSubIndexStale (known_findings.txt) and Dev_TxAddedAfterItsBlock (repaired in /repo 346a7d7 and
   therefore not listed: a trace that needs it is a violation). *)
EXTENDS TraceBase
CONSTANT AllowedDev
VARIABLES kind, subs, blk, sideh, sidetxs,    \* the universe
          has, side, wait, pool,              \* the adopted node state
          ghost,                              \* atoms Dev_BoxSubIndexStale left in the pool's index (empty unless the deviation is listed)
          late                                \* transactions Dev_TxAddedAfterItsBlock left pending although executed
mvars == <<kind, subs, blk, sideh, sidetxs, has, side, wait, pool, ghost, late, l>>

Tx == DOMAIN kind
Atoms(t) == {t} \cup ToSet(subs[t])
AtomsOf(S) == UNION {Atoms(t) : t \in S}
Valid(t) == kind[t] = "ok" /\ \A s \in ToSet(subs[t]) : kind[s] = "ok"
Top(hs) == UNION {ToSet(blk[h]) : h \in hs}                 \* the transactions the blocks of these heights package
ExecOn(hs) == AtomsOf(Top(hs))
Conflict(t, S) == \E u \in S : u # t /\ Atoms(t) \cap Atoms(u) # {}
Victims(P, hs) == {t \in P : Atoms(t) \cap ExecOn(hs) # {}}
Known(hs, h) == h = 0 \/ h \in hs

(* ---- the logged projection ---- *)
HasOf(e) == ToSet(e.has)
WaitOf(e) == ToSet(e.wait)
PoolOf(e) == ToSet(e.pool)
New(e) == HasOf(e) \ has

StateOK(e, lt) ==
    /\ e.peer_dropped = FALSE                                                   \* the sender still has its connection
    /\ HasOf(e) = 1..Len(e.has) /\ has \subseteq HasOf(e)                       \* linear, only grows
    /\ e.cur = Len(e.has) /\ e.curmain /\ e.stable = 0                          \* the current block is the main tip
    /\ WaitOf(e) \subseteq 1..Len(blk) /\ WaitOf(e) \cap HasOf(e) = {} /\ Len(e.wait) = Cardinality(WaitOf(e))
    /\ PoolOf(e) \subseteq Tx /\ Len(e.pool) = Cardinality(PoolOf(e))            \* no transaction is handed out twice
    /\ \A t \in PoolOf(e) : ~Conflict(t, PoolOf(e))                             \* no atom is pending twice
    /\ \A t \in PoolOf(e) \ lt : Atoms(t) \cap ExecOn(HasOf(e)) = {}            \* nothing executed is pending
    /\ \A t \in PoolOf(e) : Valid(t) \/ (e.side /\ t \in ToSet(sidetxs))
NoInsertable(hs, w) == \A x \in w : ~Known(hs, x - 1)

\* blocks joined the current branch: exactly the pending transactions sharing an atom with them left the pool
BlocksRel(e) == PoolOf(e) = pool \ Victims(pool, New(e))
GhostAfter(P, G, hs) == IF "Dev_BoxSubIndexStale" \in AllowedDev THEN (G \cup AtomsOf(Victims(P, hs) \ Top(hs))) \ ExecOn(hs) ELSE {}

\* The clause for one batch b handled while Ex was executed on the current branch; the pool went from P to Q; a block took V
\* out meanwhile.  G, X are empty unless a named deviation is being matched: atoms the pool wrongly believes pending, and
\* transactions that may have been added although executed.
BatchRel(b, Ex, P, Q, V, G, X) ==
    /\ \A t \in ToSet(b) : t \in Tx
    /\ \A t \in ToSet(b) : (Valid(t) /\ Atoms(t) \cap Ex = {}) => (t \in Q \/ Conflict(t, Q \cup V) \/ Atoms(t) \cap G # {})
    /\ \A t \in Q \ P : t \in ToSet(b) /\ Valid(t) /\ (Atoms(t) \cap Ex = {} \/ t \in X)
\* the same with the named deviations, each only when listed and only when the trace cannot be explained without it
BatchStep(b, Ex, Epre, P, Q, V) ==
    LET X == {t \in ToSet(b) \cap Tx : Atoms(t) \cap Ex # {} /\ Atoms(t) \cap Epre = {}}     \* executed by the block of this very step
        stale == "Dev_BoxSubIndexStale" \in AllowedDev
        lateOK == "Dev_TxAddedAfterItsBlock" \in AllowedDev /\ X # {}
    IN \/ BatchRel(b, Ex, P, Q, V, {}, {}) /\ late' = late
       \/ /\ ~BatchRel(b, Ex, P, Q, V, {}, {}) /\ stale /\ BatchRel(b, Ex, P, Q, V, ghost, {}) /\ late' = late
          /\ UseDev("Dev_BoxSubIndexStale")
       \/ /\ ~BatchRel(b, Ex, P, Q, V, {}, {}) /\ lateOK /\ BatchRel(b, Ex, P, Q, V, {}, X) /\ late' = late \cup (Q \cap X)
          /\ UseDev("Dev_TxAddedAfterItsBlock")
       \/ /\ ~BatchRel(b, Ex, P, Q, V, {}, {}) /\ stale /\ lateOK /\ ~BatchRel(b, Ex, P, Q, V, ghost, {}) /\ ~BatchRel(b, Ex, P, Q, V, {}, X)
          /\ BatchRel(b, Ex, P, Q, V, ghost, X) /\ late' = late \cup (Q \cap X)
          /\ UseDev("Dev_BoxSubIndexStale") /\ UseDev("Dev_TxAddedAfterItsBlock")

Adopt(e) == /\ has' = HasOf(e) /\ side' = e.side /\ wait' = WaitOf(e) /\ pool' = PoolOf(e)
            /\ UNCHANGED <<kind, subs, blk, sideh, sidetxs>>

TReset == /\ Ev("reset")
          /\ kind' = E.kind /\ subs' = E.subs /\ blk' = E.blk /\ sideh' = E.sideh /\ sidetxs' = E.sidetxs
          /\ E.nb = Len(E.blk) /\ DOMAIN E.subs = DOMAIN E.kind
          /\ E.has = <<>> /\ E.side = FALSE /\ E.cur = 0 /\ E.curmain /\ E.stable = 0 /\ E.wait = <<>> /\ E.pool = <<>>
          /\ has' = {} /\ side' = FALSE /\ wait' = {} /\ pool' = {} /\ ghost' = {} /\ late' = {}

\* ---- a main block arrives: in the chain if its parent is known, else kept in the cache (the queue timer may already have moved on)
TBlock == /\ Ev("DeliverBlock")
          /\ LET h == E.a[1] IN
             /\ h \in 1..Len(blk) /\ h \notin has /\ h \notin wait
             /\ StateOK(E, late) /\ E.side = side
             /\ New(E) \subseteq {h} \cup wait
             /\ (Known(has, h - 1) => h \in HasOf(E))
             /\ WaitOf(E) = (wait \cup {h}) \ HasOf(E)
             /\ BlocksRel(E) /\ ghost' = GhostAfter(pool, ghost, New(E)) /\ late' = late
          /\ Adopt(E)

\* ---- the queue timer has fired as often as needed
TDrain == /\ Ev("TimerDrain")
          /\ StateOK(E, late) /\ E.side = side
          /\ New(E) \subseteq wait /\ WaitOf(E) = wait \ HasOf(E) /\ NoInsertable(HasOf(E), WaitOf(E))
          /\ BlocksRel(E) /\ ghost' = GhostAfter(pool, ghost, New(E)) /\ late' = late
          /\ Adopt(E)

\* ---- the side block arrives (after its main-branch sibling): a side fork; its transactions that are not executed on the
\*      current branch become pending
TSide == /\ Ev("DeliverSide")
         /\ sideh \in has /\ ~side /\ NoInsertable(has, wait)                  \* (the scenario)
         /\ StateOK(E, late) /\ E.side /\ New(E) = {} /\ WaitOf(E) = wait
         /\ LET Q == PoolOf(E)  C == {t \in ToSet(sidetxs) : Atoms(t) \cap ExecOn(has) = {}} IN
            /\ pool \subseteq Q /\ Q \ pool \subseteq C
            /\ \A t \in C : t \in Q \/ Conflict(t, Q) \/ Atoms(t) \cap ghost # {}
         /\ UNCHANGED <<ghost, late>>
         /\ Adopt(E)

\* ---- a batch arrives
TTxs == /\ Ev("DeliverTxs")
        /\ NoInsertable(has, wait)                                              \* (the scenario)
        /\ StateOK(E, late) /\ E.side = side /\ New(E) = {} /\ WaitOf(E) = wait
        /\ pool \subseteq PoolOf(E)
        /\ BatchStep(E.a[1], ExecOn(has), ExecOn(has), pool, PoolOf(E), {})
        /\ UNCHANGED ghost
        /\ Adopt(E)

\* ---- a batch and a main block whose parent is known, interleaved (RaceAdd: the block is inserted while the batch's goroutines
\*      are about to add; RaceInsert: the batch is handled while the engine is about to start on the block)
TRace(name, dev) ==
        /\ Ev(name)
        /\ LET b == E.a[1]  h == E.a[2]  Q == PoolOf(E)
               N == New(E)                                                  \* h, and what the queue timer could insert once h was in
               B == pool \cup {t \in ToSet(b) \cap Tx : Valid(t)}          \* whatever was pending at some moment of the step
               P0 == pool \ Victims(pool, N)
           IN
           /\ h \in 1..Len(blk) /\ h \notin has /\ h \notin wait /\ Known(has, h - 1) /\ NoInsertable(has, wait)   \* (the scenario)
           /\ E.side = side /\ h \in N /\ N \subseteq {h} \cup wait /\ WaitOf(E) = wait \ HasOf(E)
           /\ P0 \subseteq Q                                                \* the blocks took their victims, nothing else left
           /\ IF dev THEN BatchStep(b, ExecOn(HasOf(E)), ExecOn(has), P0, Q, Victims(B, N))
                     ELSE BatchStep(b, ExecOn(HasOf(E)), ExecOn(HasOf(E)), P0, Q, Victims(B, N))
           /\ StateOK(E, late')
           /\ ghost' = GhostAfter(B, ghost, N)
        /\ Adopt(E)

TraceNext == TReset \/ TBlock \/ TDrain \/ TSide \/ TTxs \/ TRace("RaceAdd", TRUE) \/ TRace("RaceInsert", FALSE)
TraceSpec == /\ l = 1 /\ kind = <<>> /\ subs = <<>> /\ blk = <<>> /\ sideh = 0 /\ sidetxs = <<>>
             /\ has = {} /\ side = FALSE /\ wait = {} /\ pool = {} /\ ghost = {} /\ late = {}
             /\ [][TraceNext]_mvars
====
