SPECIFICATION Spec
CONSTANTS NB = 3
 ND = 4
 Self = 0
 Packets <- McShrinkPackets
 DepNew <- McNewShrink
 TermStart <- McStart6
 SnapHeight <- McSnap4
 PL <- McPL4
 MinerPool <- McPoolShrink
INVARIANTS QuorumOK HeadOK TreeOK StableChainKept ConfTermOK TermKnownOK
PROPERTY StableForward
CHECK_DEADLOCK FALSE
