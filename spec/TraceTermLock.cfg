SPECIFICATION TraceSpec
CONSTRAINT HW
POSTCONDITION Accepted
CHECK_DEADLOCK FALSE
